#!/usr/bin/env python3
"""Regenerates /verif/MANIFEST.json from props/*.json (claimed checks) and properties.jsonl (everything else goes
to not_applicable with the reason recorded in tools/not_claimed.json)."""
import json, os, subprocess
V = os.path.dirname(os.path.dirname(os.path.abspath(__file__)))
props = [json.loads(l) for l in open(os.path.join(V, "properties.jsonl"))]
not_claimed = json.load(open(os.path.join(V, "tools", "not_claimed.json")))
claimed = json.load(open(os.path.join(V, "tools", "claimed.json")))   # integrated and verified by the lead
hooks = subprocess.run(["git", "-C", "/repo", "log", "--format=%H %s"], stdout=subprocess.PIPE, text=True).stdout.splitlines()
hook_commits = [l.split()[0] for l in hooks if " verif hooks:" in " " + l]
checks, na, engines = [], [], []
for p in props:
    pid = p["id"]
    f = os.path.join(V, "props", pid + ".json")
    if os.path.exists(f) and pid in claimed:
        c = json.load(open(f))
        checks.append({
            "property_id": pid,
            "quick_cmd": "./check %s quick" % pid,
            "thorough_cmd": "./check %s thorough" % pid,
            "evidence_file": "/verif/evidence/%s.json" % pid,
            "replay_cmd_template": "./check %s --replay {path}" % pid,
            "engine": "lean4+correspondence",
            "level_claimed": {"category": c["level"], "text": c["level_text"], "design_ref": c.get("design_ref", "DESIGN.md §6 " + pid)},
            "level_note": c["level_note"],
            "technique": c["technique"],
        })
    else:
        na.append({"property_id": pid, "reason": not_claimed.get(pid, "check not built yet; no claim is made for this property")})
m = {
    "version": 1,
    "setup_cmd": "./setup.sh",
    "hooks": {
        "guard": "verif",
        "enable": "go build -tags verif (the harness module /verif/harness replaces github.com/logrange/logrange => /repo); hook points are calls to pkg/utils/verifhook.At (empty without the tag) and export_verif.go files",
        "baseline_off_cmd": "cd /repo && go test -mod=mod -json -vet=off -count=1 -timeout 25m ./...",
        "source_commits": hook_commits,
        "add_only": True,
    },
    "engines": [{"name": "lean4+correspondence", "path": "/verif/check", "serves_properties": [c["property_id"] for c in checks],
                 "kind_free_text": "Lean 4 theorems about an executable model (lean/Logrange), tied to /repo on every run by a go/ast fact extractor (tools/extract -> lean/Logrange/Generated) and a differential correspondence harness (harness/cmd/cNN, real code in-process vs the compiled model driver), plus an IMPL-vs-SPEC search for failing inputs"}],
    "checks": checks,
    "notes": "See DESIGN.md. known_findings.json lists genuine defects (open: printed as KNOWN-FINDING; fixed: repaired by a fix: commit in /repo).",
    "not_applicable": na,
}
json.dump(m, open(os.path.join(V, "MANIFEST.json"), "w"), indent=1)
print("checks:", [c["property_id"] for c in checks], "not claimed:", len(na))
