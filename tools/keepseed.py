#!/usr/bin/env python3
"""keepseed.py <ID> <n> <seed-dir> <what> <needs> — confirms a seeded change (tools/confirmseed.py), runs the property's check
against it (tools/mutest.sh) and, when confirmed, stores it as seeded/<ID>-<n>/ (patch.diff, demonstration, README.md, replay.json
from the check, meta.json). Prints the verdict."""
import json, os, shutil, subprocess, sys, glob
V = os.path.dirname(os.path.dirname(os.path.abspath(__file__)))
pid, n, src, what, needs = sys.argv[1:6]
src = os.path.abspath(src)
conf = json.loads(subprocess.run([os.path.join(V, "tools/confirmseed.py"), src], stdout=subprocess.PIPE, text=True).stdout.strip().splitlines()[-1])
dst = os.path.join(V, "seeded", "%s-%s" % (pid, n))
os.makedirs(dst, exist_ok=True)
rp = os.path.join(dst, "replay.json")
if os.path.exists(rp): os.remove(rp)
env = dict(os.environ, MUTEST_REPLAY_OUT=rp, MUTEST_TAIL="4")
out = subprocess.run([os.path.join(V, "tools/mutest.sh"), pid, os.path.join(src, "patch.diff")], stdout=subprocess.PIPE, stderr=subprocess.STDOUT, text=True, env=env).stdout
verdict = [l for l in out.splitlines() if l.startswith("VIOLATION") or l.startswith("OK ") or l.startswith("CHECK-ERROR")]
caught = bool(verdict and verdict[-1].startswith("VIOLATION"))
caught_by = ""
if os.path.exists(rp):
    r = json.load(open(rp))
    caught_by = "section %s, kind %s: %s" % (r.get("section", "?"), r.get("kind", "(no failing input: broken obligation / correspondence)"), (r.get("what") or r.get("note") or "")[:200])
    if r.get("broken_obligations"): caught_by += "; broken obligations: " + ", ".join(b["decl"] for b in r["broken_obligations"][:4])
    others = sorted(set(x["kind"] for x in r.get("other_failures", [])))
    if others: caught_by += "; also: " + ", ".join(others[:6])
for f in ["patch.diff", "README.md"] + [os.path.basename(x) for x in glob.glob(os.path.join(src, "*_test.go"))]:
    if os.path.exists(os.path.join(src, f)): shutil.copy(os.path.join(src, f), dst)
for d in ("demo", "e2e"):
    if os.path.isdir(os.path.join(src, d)):
        shutil.rmtree(os.path.join(dst, d), ignore_errors=True)
        shutil.copytree(os.path.join(src, d), os.path.join(dst, d), ignore=shutil.ignore_patterns("go.sum", "*.log"))
meta = {"id": "%s-%s" % (pid, n), "property": pid, "source": "independent sub-agent given only the property text and a scratch worktree",
        "what": what, "needs_to_manifest": needs, "confirmed": conf,
        "compiles_and_passes_existing_tests": bool(conf.get("builds") and conf.get("tests_pass")),
        "ran": ["tools/confirmseed.py %s" % src, "tools/mutest.sh %s <patch.diff>" % pid],
        "check_result": (verdict[-1] if verdict else "no verdict").replace(os.path.dirname(rp), "seeded/%s-%s" % (pid, n)),
        "caught": caught, "caught_by": caught_by}
json.dump(meta, open(os.path.join(dst, "meta.json"), "w"), indent=1)
print("%s-%s confirmed=%s caught=%s | %s" % (pid, n, conf.get("confirmed"), caught, caught_by[:200]))
if not conf.get("confirmed"): print("  NOT CONFIRMED:", json.dumps(conf)[:500])
