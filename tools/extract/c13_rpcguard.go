package main

import (
	"go/ast"
	"go/token"
	"strings"
)

// C13, the fact rpcStringLengthGuard read by structure from ONE function of api/rpc that calls xbinary.UnmarshalString /
// UnmarshalBytes itself ("raw caller"). The function is safe when every raw call (on the buffer B) is reached only
//
//	(b) inside `if err != nil { … }` where err is the error of `idx, uln, err := xbinary.UnmarshalUint(B)` — the length itself is
//	    not readable and the library call reports exactly that —, or
//	(c) inside the "it fits" branch of the length comparison (`if uln <= uint(len(B)-idx) { raw }`, or the else of "too long"), or
//	(a) after an `if <too long> { … return <non-nil error> }` without else that dominates it (a statement of an enclosing block,
//	    before the statement that contains the call).
//
// "too long" is `uln > R` / `R < uln` (also as a conjunct beside `err == nil`, or a disjunct beside `err != nil`, and under `!` with
// the opposite operator), where uln is the length result of the UnmarshalUint call as a bare identifier and R — with locals
// assigned once expanded (`left := len(B) - idx`) — is `uint(len(B)-idx)`, `uint64(len(B)-idx)` or `uint(len(B))-uint(idx)`.
// A comparison that mentions uln but has another shape (cap instead of len, a conversion of uln to int — which wraps for
// lengths >= 2^63 —, arithmetic on the uln side, >= instead of >) is NOT a guard the model knows: unsure.
//
// result: ok (every raw call safe), unsure != "" (call problem(): the fact cannot be read), or neither (no guard: the fact is false).

type c13Uint struct {
	idx, uln, err, buf string
	pos                token.Pos
}

func c13RpcGuard(fd *ast.FuncDecl, isRawCall func(ast.Node) bool) (ok bool, sawUint bool, unsure string) {
	var us []c13Uint
	defs := map[string]ast.Expr{}
	ndefs := map[string]int{}
	ast.Inspect(fd.Body, func(n ast.Node) bool {
		as, isAs := n.(*ast.AssignStmt)
		if !isAs {
			return true
		}
		if len(as.Rhs) == 1 && len(as.Lhs) == 3 && c13CallName(as.Rhs[0]) == "UnmarshalUint" {
			ce := as.Rhs[0].(*ast.CallExpr)
			names := [3]string{}
			for i, l := range as.Lhs {
				if id, ok := l.(*ast.Ident); ok {
					names[i] = id.Name
				}
			}
			if len(ce.Args) == 1 {
				us = append(us, c13Uint{names[0], names[1], names[2], c13Src(ce.Args[0]), as.Pos()})
			}
			return true
		}
		if len(as.Lhs) == len(as.Rhs) {
			for i, l := range as.Lhs {
				if id, ok := l.(*ast.Ident); ok {
					defs[id.Name] = as.Rhs[i]
					ndefs[id.Name]++
				}
			}
		}
		return true
	})
	if len(us) == 0 {
		return false, false, ""
	}
	// expand locals that are assigned exactly once; render without spaces and parentheses
	var render func(e ast.Expr, depth int) string
	render = func(e ast.Expr, depth int) string {
		switch x := e.(type) {
		case *ast.Ident:
			if d, ok := defs[x.Name]; ok && ndefs[x.Name] == 1 && depth < 4 {
				return render(d, depth+1)
			}
			return x.Name
		case *ast.ParenExpr:
			return render(x.X, depth)
		case *ast.BinaryExpr:
			return render(x.X, depth) + x.Op.String() + render(x.Y, depth)
		case *ast.CallExpr:
			s := render(x.Fun, depth)
			for _, a := range x.Args {
				s += render(a, depth)
			}
			return s
		}
		return strings.NewReplacer(" ", "", "(", "", ")", "").Replace(c13Src(e))
	}
	// the comparison: +1 = cond true means "too long", -1 = cond true means "fits", 0 = not about the length; unsure is set on an unknown shape
	var kind func(cond ast.Expr, u c13Uint) int
	kind = func(cond ast.Expr, u c13Uint) int {
		cond = c13Unparen(cond)
		switch e := cond.(type) {
		case *ast.UnaryExpr:
			if e.Op == token.NOT {
				return -kind(e.X, u)
			}
		case *ast.BinaryExpr:
			switch e.Op {
			case token.LAND:
				// err == nil && tooLong  (a "fits" conjunct would not be a complete test: treat as unknown unless the other side is about err)
				a, b := kind(e.X, u), kind(e.Y, u)
				if a == 1 || b == 1 {
					other := e.Y
					if b == 1 {
						other = e.X
					}
					if c13Src(c13Unparen(other)) == u.err+" == nil" || (a == 1 && b == 1) {
						return 1
					}
					unsure = "the length comparison is combined with another condition in a way the extractor does not know: " + c13Src(cond)
					return 0
				}
				if a == -1 || b == -1 {
					other := e.Y
					if b == -1 {
						other = e.X
					}
					if c13Src(other) == u.err+" == nil" {
						return -1
					}
					unsure = "the length comparison is combined with another condition in a way the extractor does not know: " + c13Src(cond)
				}
				return 0
			case token.LOR:
				a, b := kind(e.X, u), kind(e.Y, u)
				if a == 1 || b == 1 {
					other := e.Y
					if b == 1 {
						other = e.X
					}
					if c13Src(other) == u.err+" != nil" || kind(other, u) == 1 {
						return 1
					}
					unsure = "the length comparison is combined with another condition in a way the extractor does not know: " + c13Src(cond)
				}
				return 0
			case token.GTR, token.LSS, token.GEQ, token.LEQ:
				mentions := false
				ast.Inspect(e, func(n ast.Node) bool {
					if id, ok := n.(*ast.Ident); ok && id.Name == u.uln {
						mentions = true
					}
					return true
				})
				if !mentions {
					// a hoisted copy of the length (n := int(uln)) would be mentioned after expansion
					if strings.Contains(render(e, 0), u.uln) {
						unsure = "the length is compared through a local copy: " + c13Src(e)
					}
					return 0
				}
				good := map[string]bool{
					"uintlen" + u.buf + "-" + u.idx:         true,
					"uint64len" + u.buf + "-" + u.idx:       true,
					"uintlen" + u.buf + "-uint" + u.idx:     true,
					"uint64len" + u.buf + "-uint64" + u.idx: true,
				}
				isUln := func(x ast.Expr) bool { id, ok := c13Unparen(x).(*ast.Ident); return ok && id.Name == u.uln }
				op, l, r := e.Op, e.X, e.Y
				if isUln(r) && !isUln(l) { // R op uln  ->  uln op' R
					l, r = r, l
					op = map[token.Token]token.Token{token.GTR: token.LSS, token.LSS: token.GTR, token.GEQ: token.LEQ, token.LEQ: token.GEQ}[op]
				}
				if isUln(l) && good[render(r, 0)] {
					switch op {
					case token.GTR:
						return 1
					case token.LEQ:
						return -1
					}
				}
				unsure = "a comparison of the decoded length that is not `" + u.uln + " > uint(len(" + u.buf + ")-" + u.idx + ")` in one of the known spellings: " + c13Src(e)
				return 0
			}
		}
		return 0
	}
	errNotNil := func(cond ast.Expr, u c13Uint) bool {
		cond = c13Unparen(cond)
		if c13Src(cond) == u.err+" != nil" {
			return true
		}
		if be, ok := cond.(*ast.BinaryExpr); ok && be.Op == token.LAND {
			return c13Src(c13Unparen(be.X)) == u.err+" != nil" || c13Src(c13Unparen(be.Y)) == u.err+" != nil"
		}
		return false
	}
	allSafe, any := true, false
	c13WalkPath(fd.Body, func(path []ast.Node) {
		call := path[len(path)-1]
		if !isRawCall(call) {
			return
		}
		any = true
		ce := call.(*ast.CallExpr)
		if len(ce.Args) == 0 {
			allSafe = false
			return
		}
		// the UnmarshalUint call on the same buffer, before this call
		var u *c13Uint
		for i := range us {
			if us[i].buf == c13Src(ce.Args[0]) && us[i].pos < call.Pos() {
				u = &us[i]
			}
		}
		if u == nil {
			allSafe = false
			return
		}
		safe := false
		for i := 0; i+1 < len(path) && !safe; i++ {
			child := path[i+1]
			switch p := path[i].(type) {
			case *ast.IfStmt:
				if child == ast.Node(p.Body) {
					if errNotNil(p.Cond, *u) || kind(p.Cond, *u) == -1 {
						safe = true
					}
				} else if p.Else != nil && child == p.Else {
					if kind(p.Cond, *u) == 1 {
						safe = true
					}
				}
			case *ast.BlockStmt:
				for _, st := range p.List {
					if st == child {
						break
					}
					is, ok := st.(*ast.IfStmt)
					if !ok || is.Else != nil || !c13Leaves(is.Body) || is.Pos() < u.pos && (is.Init == nil || is.Init.Pos() != u.pos) {
						continue
					}
					if kind(is.Cond, *u) == 1 && len(is.Body.List) > 0 && c13ReturnsError(is.Body.List[len(is.Body.List)-1]) {
						safe = true
					}
				}
			}
		}
		if !safe {
			allSafe = false
		}
	})
	if !any {
		return false, true, ""
	}
	if allSafe {
		return true, true, ""
	}
	return false, true, unsure
}
