package main

import (
	"go/ast"
	"go/token"
	"strconv"
)

// C01: record header bits of model.LogEvent, the field length limit of field.NewFieldsFromKVString, and the
// order in which Fields.Concat / wpIterator.Get put write-level fields and the event's own fields.
func init() {
	generators["C01"] = func() {
		l := newLean("C01", "Facts about pkg/model/logevent.go (record header), pkg/model/field/field.go (length limit, Concat order),\napi/rpc/ingestor.go (wpIterator.Get: which fields come first) and pkg/partition/iwrapper.go (how Get tracks the timestamp hull).")

		intLit := func(e ast.Expr) (int64, bool) {
			if bl, ok := e.(*ast.BasicLit); ok && bl.Kind == token.INT {
				v, err := strconv.ParseInt(bl.Value, 0, 64)
				return v, err == nil
			}
			return 0, false
		}

		// --- recVersion and the header bits -------------------------------------------------------
		f := parseFile("pkg/model/logevent.go")
		recVersion := int64(-1)
		if f != nil {
			for _, d := range f.Decls {
				gd, ok := d.(*ast.GenDecl)
				if !ok || gd.Tok != token.CONST {
					continue
				}
				for _, s := range gd.Specs {
					vs := s.(*ast.ValueSpec)
					for i, n := range vs.Names {
						if n.Name == "recVersion" && i < len(vs.Values) {
							if v, ok := intLit(vs.Values[i]); ok {
								recVersion = v
							}
						}
					}
				}
			}
		}
		if recVersion < 0 {
			problem("const recVersion not found in pkg/model/logevent.go")
			recVersion = 0
		}
		// header(): `if len(le.Fields) > 0 { return recVersion | <bit> }; return recVersion`
		hdrBit := int64(-1)
		hdrPlain := false
		if fd := funcDecl(f, "LogEvent", "header"); fd != nil {
			ast.Inspect(fd.Body, func(n ast.Node) bool {
				rs, ok := n.(*ast.ReturnStmt)
				if !ok || len(rs.Results) != 1 {
					return true
				}
				switch e := rs.Results[0].(type) {
				case *ast.BinaryExpr:
					if id, ok := e.X.(*ast.Ident); ok && id.Name == "recVersion" && e.Op == token.OR {
						if v, ok := intLit(e.Y); ok {
							hdrBit = v
						}
					}
				case *ast.Ident:
					if e.Name == "recVersion" {
						hdrPlain = true
					}
				}
				return true
			})
		}
		if hdrBit < 0 || !hdrPlain {
			problem("LogEvent.header: expected `return recVersion | <bit>` and `return recVersion`")
			hdrBit = 0
		}
		// the mask tested by Marshal / Unmarshal / WriteTo: `hdr&<mask> != 0`
		maskOf := func(name string) int64 {
			fd := funcDecl(f, "LogEvent", name)
			m := int64(-1)
			if fd == nil {
				problem("LogEvent.%s not found", name)
				return 0
			}
			ast.Inspect(fd.Body, func(n ast.Node) bool {
				be, ok := n.(*ast.BinaryExpr)
				if !ok || be.Op != token.AND {
					return true
				}
				if id, ok := be.X.(*ast.Ident); ok && id.Name == "hdr" {
					if v, ok := intLit(be.Y); ok {
						m = v
					}
				}
				return true
			})
			if m < 0 {
				problem("LogEvent.%s: no `hdr&<mask>` test found", name)
				return 0
			}
			return m
		}
		marshalMask := maskOf("Marshal")
		unmarshalMask := maskOf("Unmarshal")

		l.p("/-- `const recVersion` of pkg/model/logevent.go -/")
		l.p("def recVersion : Nat := %d", recVersion)
		l.p("/-- the bit `LogEvent.header` sets when the event has fields -/")
		l.p("def headerFieldsBit : Nat := %d", hdrBit)
		l.p("/-- the mask `LogEvent.Marshal` tests before writing the fields -/")
		l.p("def marshalFieldsMask : Nat := %d", marshalMask)
		l.p("/-- the mask `LogEvent.Unmarshal` tests before reading the fields -/")
		l.p("def unmarshalFieldsMask : Nat := %d", unmarshalMask)

		// --- field length limit --------------------------------------------------------------------
		ff := parseFile("pkg/model/field/field.go")
		limit := int64(-1)
		if fd := funcDecl(ff, "", "NewFieldsFromKVString"); fd != nil {
			ast.Inspect(fd.Body, func(n ast.Node) bool {
				be, ok := n.(*ast.BinaryExpr)
				if !ok || be.Op != token.GTR {
					return true
				}
				if ce, ok := be.X.(*ast.CallExpr); ok {
					if id, ok := ce.Fun.(*ast.Ident); ok && id.Name == "len" {
						if v, ok := intLit(be.Y); ok && v > 0 {
							limit = v
						}
					}
				}
				return true
			})
		}
		if limit < 0 {
			problem("field.NewFieldsFromKVString: no `len(v) > <limit>` test found")
			limit = 0
		}
		l.p("/-- `len(v) > N` rejection in `field.NewFieldsFromKVString` -/")
		l.p("def fieldMaxLen : Nat := %d", limit)

		// --- Concat order: which operand is written first -----------------------------------------
		// func (f Fields) Concat(f1 Fields, w) { w.Reset(); w.WriteString(string(f)); w.WriteString(string(f1)) }
		recvFirst := false
		if fd := funcDecl(ff, "Fields", "Concat"); fd != nil && fd.Recv != nil && len(fd.Recv.List) == 1 && len(fd.Recv.List[0].Names) == 1 &&
			len(fd.Type.Params.List) >= 1 && len(fd.Type.Params.List[0].Names) == 1 {
			recv := fd.Recv.List[0].Names[0].Name
			arg := fd.Type.Params.List[0].Names[0].Name
			var order []string
			ast.Inspect(fd.Body, func(n ast.Node) bool {
				ce, ok := n.(*ast.CallExpr)
				if !ok {
					return true
				}
				se, ok := ce.Fun.(*ast.SelectorExpr)
				if !ok || se.Sel.Name != "WriteString" || len(ce.Args) != 1 {
					return true
				}
				ast.Inspect(ce.Args[0], func(m ast.Node) bool {
					if id, ok := m.(*ast.Ident); ok && (id.Name == recv || id.Name == arg) {
						order = append(order, id.Name)
					}
					return true
				})
				return false
			})
			if len(order) == 2 && order[0] == recv && order[1] == arg {
				recvFirst = true
			} else if !(len(order) == 2 && order[0] == arg && order[1] == recv) {
				problem("field.Fields.Concat: expected two WriteString calls over receiver and argument, found %v", order)
			}
		} else {
			problem("field.Fields.Concat not found")
		}
		l.p("/-- `Fields.Concat` writes the receiver first, then its argument -/")
		l.p("def concatReceiverFirst : Bool := %s", leanBool(recvFirst))

		// wpIterator.Get: `wpi.lge.Fields = wpi.flds.Concat(fldsLE, …)` — the receiver is the write-level field list
		fi := parseFile("api/rpc/ingestor.go")
		wlRecv := false
		found := false
		if fd := funcDecl(fi, "wpIterator", "Get"); fd != nil {
			ast.Inspect(fd.Body, func(n ast.Node) bool {
				ce, ok := n.(*ast.CallExpr)
				if !ok {
					return true
				}
				se, ok := ce.Fun.(*ast.SelectorExpr)
				if !ok || se.Sel.Name != "Concat" || len(ce.Args) < 1 {
					return true
				}
				found = true
				// receiver `wpi.flds`, first argument a local identifier (the event's parsed fields)
				if rs, ok := se.X.(*ast.SelectorExpr); ok && rs.Sel.Name == "flds" {
					if _, ok := ce.Args[0].(*ast.Ident); ok {
						wlRecv = true
					}
				}
				return true
			})
		}
		if !found {
			problem("wpIterator.Get: no Concat call found")
		}
		l.p("/-- in `wpIterator.Get` the receiver of `Concat` is the packet's write-level field list (`wpi.flds`) -/")
		l.p("def wpConcatReceiverIsWriteLevel : Bool := %s", leanBool(wlRecv))
		// --- iwrapper.Get: when are minTs/maxTs (re)initialised? -----------------------------------
		// `if iw.minTs > lge.Timestamp || !iw.tsSet { … }`, `if iw.maxTs < lge.Timestamp || !iw.tsSet { … }`, `iw.tsSet = true`
		// (before commit 6624754 the second disjunct was `iw.minTs == 0` / `iw.maxTs == 0`: 0 meant "unset")
		// read by structure through same-package helpers: c01_hull.go
		usesFlag := c01HullUsesFlag()
		l.p("/-- `iwrapper.Get` (with the same-package helpers it calls) initialises minTs/maxTs under a negated boolean field that it then sets to true — `… || !iw.tsSet` on both updates, or a first-timestamp branch `if !iw.tsSet { both; tsSet = true; return }` (false: the old `… || x == 0` sentinel) -/")
		l.p("def iwrapperUnsetIsFlag : Bool := %s", leanBool(usesFlag))
		// resetMinMaxTs is never called from Service.Write: the hull accumulates over the whole batch
		resetCalled := false
		fp := parseFile("pkg/partition/partition.go")
		if fd := funcDecl(fp, "Service", "Write"); fd != nil {
			ast.Inspect(fd.Body, func(n ast.Node) bool {
				if ce, ok := n.(*ast.CallExpr); ok {
					if se, ok := ce.Fun.(*ast.SelectorExpr); ok && se.Sel.Name == "resetMinMaxTs" {
						resetCalled = true
					}
				}
				return true
			})
		} else {
			problem("partition.Service.Write not found")
		}
		// --- do the RPC decoders check a string's length prefix against the buffer before calling the library? ---------
		// (commit dbbc1a7: api/rpc/encoder.go `unmarshalString` = guard `uln > uint(len(buf)-idx)` + xbinary.UnmarshalString)
		fe := parseFile("api/rpc/encoder.go")
		callsOf := func(fd *ast.FuncDecl) (guarded, raw int) {
			if fd == nil {
				return
			}
			ast.Inspect(fd.Body, func(n ast.Node) bool {
				ce, ok := n.(*ast.CallExpr)
				if !ok {
					return true
				}
				switch f := ce.Fun.(type) {
				case *ast.Ident:
					if f.Name == "unmarshalString" {
						guarded++
					}
				case *ast.SelectorExpr:
					if id, ok := f.X.(*ast.Ident); ok && id.Name == "xbinary" && (f.Sel.Name == "UnmarshalString" || f.Sel.Name == "UnmarshalBytes") {
						raw++
					}
				}
				return true
			})
			return
		}
		hasGuard := false
		if g := funcDecl(fe, "", "unmarshalString"); g != nil {
			ast.Inspect(g.Body, func(n ast.Node) bool {
				if be, ok := n.(*ast.BinaryExpr); ok && be.Op == token.GTR {
					if id, ok := be.X.(*ast.Ident); ok && id.Name == "uln" {
						hasGuard = true
					}
				}
				return true
			})
		}
		g1, r1 := callsOf(funcDecl(fe, "", "unmarshalLogEvent"))
		g2, r2 := callsOf(funcDecl(fi, "wpIterator", "init"))
		guardedAll := hasGuard && g1 == 3 && r1 == 0 && g2 == 2 && r2 == 0
		rawAll := g1 == 0 && r1 == 3 && g2 == 0 && r2 == 2
		if !guardedAll && !rawAll {
			problem("unmarshalLogEvent / wpIterator.init: neither all strings through the guarded unmarshalString nor all through xbinary (guarded %d+%d, raw %d+%d, guard present %v)", g1, g2, r1, r2, hasGuard)
		}
		l.p("/-- `unmarshalLogEvent` and `wpIterator.init` decode every string through `unmarshalString`, which rejects a length prefix larger than the bytes left before calling `xbinary.UnmarshalString` -/")
		l.p("def rpcStringsLengthGuarded : Bool := %s", leanBool(guardedAll))
		// --- does wpIterator.init validate every announced event (decode + parse of its fields text) before returning? ---
		// The loop may live in init itself or in a same-package helper it calls (followed to depth 2, e.g. validateEvents).
		rpcFuncs := map[string]*ast.FuncDecl{}
		for _, ff := range []*ast.File{fi, fe} {
			if ff == nil {
				continue
			}
			for _, d := range ff.Decls {
				if fd, ok := d.(*ast.FuncDecl); ok && fd.Body != nil {
					rpcFuncs[fd.Name.Name] = fd
				}
			}
		}
		var reachable func(fd *ast.FuncDecl, depth int, seen map[string]bool) []*ast.FuncDecl
		reachable = func(fd *ast.FuncDecl, depth int, seen map[string]bool) []*ast.FuncDecl {
			if fd == nil || seen[fd.Name.Name] {
				return nil
			}
			seen[fd.Name.Name] = true
			out := []*ast.FuncDecl{fd}
			if depth == 0 {
				return out
			}
			ast.Inspect(fd.Body, func(n ast.Node) bool {
				if ce, ok := n.(*ast.CallExpr); ok {
					name := ""
					switch f := ce.Fun.(type) {
					case *ast.Ident:
						name = f.Name
					case *ast.SelectorExpr:
						name = f.Sel.Name
					}
					if g, ok := rpcFuncs[name]; ok && name != "unmarshalLogEvent" && name != "unmarshalString" {
						out = append(out, reachable(g, depth-1, seen)...)
					}
				}
				return true
			})
			return out
		}
		validates := false
		initFd := funcDecl(fi, "wpIterator", "init")
		if initFd == nil {
			problem("wpIterator.init not found")
		}
		for _, fd := range reachable(initFd, 2, map[string]bool{}) {
			ast.Inspect(fd.Body, func(n ast.Node) bool {
				var body *ast.BlockStmt
				switch x := n.(type) {
				case *ast.ForStmt:
					body = x.Body
				case *ast.RangeStmt:
					body = x.Body
				}
				if body == nil {
					return true
				}
				dec, prs := false, false
				ast.Inspect(body, func(m ast.Node) bool {
					if ce, ok := m.(*ast.CallExpr); ok {
						switch f := ce.Fun.(type) {
						case *ast.Ident:
							if f.Name == "unmarshalLogEvent" {
								dec = true
							}
						case *ast.SelectorExpr:
							if f.Sel.Name == "NewFieldsFromKVString" {
								prs = true
							}
						}
					}
					return true
				})
				if dec && prs {
					validates = true
				}
				return true
			})
		}
		// --- does the validation also reject an event whose record would exceed the maximum record size? (proposed repair of F20a)
		// structural: somewhere in init or its helpers a `<x>.WritableSize()` result is compared with `>` / `<`
		checksSize := false
		for _, fd := range reachable(initFd, 2, map[string]bool{}) {
			sizeVars := map[string]bool{}
			hasWS := func(e ast.Node) bool {
				f := false
				ast.Inspect(e, func(m ast.Node) bool {
					switch x := m.(type) {
					case *ast.CallExpr:
						if se, ok := x.Fun.(*ast.SelectorExpr); ok && se.Sel.Name == "WritableSize" {
							f = true
						}
					case *ast.Ident:
						if sizeVars[x.Name] {
							f = true
						}
					}
					return true
				})
				return f
			}
			ast.Inspect(fd.Body, func(n ast.Node) bool {
				switch x := n.(type) {
				case *ast.AssignStmt:
					for i, r := range x.Rhs {
						if hasWS(r) && i < len(x.Lhs) {
							if id, ok := x.Lhs[i].(*ast.Ident); ok {
								sizeVars[id.Name] = true
							}
						}
					}
				case *ast.BinaryExpr:
					if (x.Op == token.GTR || x.Op == token.LSS || x.Op == token.GEQ || x.Op == token.LEQ) && (hasWS(x.X) || hasWS(x.Y)) {
						checksSize = true
					}
				}
				return true
			})
		}
		l.p("/-- the validation pass of `wpIterator.init` also compares every event's `WritableSize()` with a limit (the chunk reader's maximum record size) and rejects the packet when it is exceeded -/")
		l.p("def ingestorChecksRecordSize : Bool := %s", leanBool(checksSize))
		l.p("/-- `wpIterator.init` decodes every announced event and parses its fields text, and fails if any of that fails (proposed repair of F20b/F20c) -/")
		l.p("def wpInitValidatesEvents : Bool := %s", leanBool(validates))
		// --- lifetime of pooled buffers in api/rpc: no use of a buffer after it went back to the pool (statement order) ------
		// (1) every function that owns a `queryResultBuilder` (ServerQuerier.query): each non-deferred `qr.Close()` — which Puts the
		//     page buffer back into the shared bytes.Pool — comes after every SendResponse/Write whose argument is `qr.buf()` or
		//     a variable assigned from it; (2) every `rc.Collect(v)` (response buffer back to the client's pool) has no later use of v
		lifetimeOK, buildersSeen := true, 0
		for _, rel := range []string{"api/rpc/querier.go", "api/rpc/admin.go", "api/rpc/pipes.go", "api/rpc/ingestor.go"} {
			ff := parseFile(rel)
			if ff == nil {
				continue
			}
			for _, d := range ff.Decls {
				fd, ok := d.(*ast.FuncDecl)
				if !ok || fd.Body == nil {
					continue
				}
				// builders declared in this function
				builders := map[string]bool{}
				ast.Inspect(fd.Body, func(n ast.Node) bool {
					if vs, ok := n.(*ast.ValueSpec); ok {
						if id, ok := vs.Type.(*ast.Ident); ok && id.Name == "queryResultBuilder" {
							for _, nm := range vs.Names {
								builders[nm.Name] = true
							}
						}
					}
					return true
				})
				usesBuf := func(e ast.Node, tainted map[string]bool) bool {
					found := false
					ast.Inspect(e, func(m ast.Node) bool {
						switch x := m.(type) {
						case *ast.CallExpr:
							if se, ok := x.Fun.(*ast.SelectorExpr); ok && se.Sel.Name == "buf" {
								if id, ok := se.X.(*ast.Ident); ok && builders[id.Name] {
									found = true
								}
							}
						case *ast.Ident:
							if tainted[x.Name] {
								found = true
							}
						}
						return true
					})
					return found
				}
				if len(builders) > 0 {
					buildersSeen++
					tainted := map[string]bool{}
					var closes, sends []token.Pos
					deferred := map[ast.Node]bool{}
					ast.Inspect(fd.Body, func(n ast.Node) bool {
						switch x := n.(type) {
						case *ast.DeferStmt:
							deferred[x.Call] = true
						case *ast.AssignStmt:
							for i, r := range x.Rhs {
								if usesBuf(r, tainted) && i < len(x.Lhs) {
									if id, ok := x.Lhs[i].(*ast.Ident); ok {
										tainted[id.Name] = true
									}
								}
							}
						case *ast.CallExpr:
							if se, ok := x.Fun.(*ast.SelectorExpr); ok {
								if id, ok := se.X.(*ast.Ident); ok && builders[id.Name] && se.Sel.Name == "Close" && !deferred[x] {
									closes = append(closes, x.Pos())
								}
								if se.Sel.Name == "SendResponse" || se.Sel.Name == "Write" {
									for _, a := range x.Args {
										if usesBuf(a, tainted) {
											sends = append(sends, x.Pos())
										}
									}
								}
							}
						}
						return true
					})
					if len(sends) == 0 {
						problem("%s %s: a queryResultBuilder whose buffer is never sent", rel, fd.Name.Name)
					}
					for _, c := range closes {
						for _, sd := range sends {
							if sd > c {
								lifetimeOK = false
							}
						}
					}
				}
				// Collect(v): no later use of v
				ast.Inspect(fd.Body, func(n ast.Node) bool {
					ce, ok := n.(*ast.CallExpr)
					if !ok {
						return true
					}
					se, ok := ce.Fun.(*ast.SelectorExpr)
					if !ok || se.Sel.Name != "Collect" || len(ce.Args) != 1 {
						return true
					}
					v, ok := ce.Args[0].(*ast.Ident)
					if !ok {
						return true
					}
					ast.Inspect(fd.Body, func(m ast.Node) bool {
						if id, ok := m.(*ast.Ident); ok && id.Name == v.Name && id.Pos() > ce.End() {
							lifetimeOK = false
						}
						return true
					})
					return true
				})
			}
		}
		if buildersSeen == 0 {
			problem("api/rpc: no function owning a queryResultBuilder found (ServerQuerier.query expected)")
		}
		l.p("/-- api/rpc: in statement order no pooled buffer is used after its release — every non-deferred `qr.Close()` of a `queryResultBuilder` comes after every `SendResponse`/`Write` of `qr.buf()` (or of a variable assigned from it), and nothing uses a response buffer after `rc.Collect` -/")
		l.p("def pooledBuffersReleasedAfterLastUse : Bool := %s", leanBool(lifetimeOK))

		// --- Service.Write: which guard decides that a failing jrnl.Write iteration is reported? --------------------
		// `if err1 != nil { if n <= 0 { err = … }; break }` — journal.Write returns n == 0 whenever it returns an error, so with
		// this guard EVERY failing iteration is reported, also one after the head of the batch went into an earlier chunk
		// Identified by STRUCTURE, not by names: inside the loop, `N, P, E := <journal>.Write(ctx, <iterator>)`; the flag is the bool
		// variable assigned `true` inside `if N > 0 { … }`; the error branch is the `if E != nil { … break/return }`; its guard is a
		// comparison of N with 0 (every failing iteration reported), a test of the flag (only a failure before the first successful
		// iteration reported), or absent (unconditional). Anything else is reported as a problem, never guessed.
		guardNLe0, guardNotWeInit, guardSeen := false, false, false
		if fd := funcDecl(fp, "Service", "Write"); fd != nil {
			nVar, eVar, flagVar := "", "", ""
			var loop *ast.ForStmt
			ast.Inspect(fd.Body, func(n ast.Node) bool {
				fs, ok := n.(*ast.ForStmt)
				if !ok || loop != nil {
					return true
				}
				ast.Inspect(fs.Body, func(m ast.Node) bool {
					as, ok := m.(*ast.AssignStmt)
					if !ok || len(as.Lhs) != 3 || len(as.Rhs) != 1 {
						return true
					}
					ce, ok := as.Rhs[0].(*ast.CallExpr)
					if !ok {
						return true
					}
					if se, ok := ce.Fun.(*ast.SelectorExpr); ok && se.Sel.Name == "Write" {
						if a, ok := as.Lhs[0].(*ast.Ident); ok {
							if c, ok := as.Lhs[2].(*ast.Ident); ok {
								nVar, eVar, loop = a.Name, c.Name, fs
							}
						}
					}
					return true
				})
				return true
			})
			isIdent := func(e ast.Expr, name string) bool {
				id, ok := e.(*ast.Ident)
				return ok && name != "" && id.Name == name
			}
			if loop != nil {
				// the flag: assigned `true` under `if N > 0`
				ast.Inspect(loop.Body, func(n ast.Node) bool {
					ifs, ok := n.(*ast.IfStmt)
					if !ok {
						return true
					}
					be, ok := ifs.Cond.(*ast.BinaryExpr)
					if !ok || !isIdent(be.X, nVar) || be.Op != token.GTR {
						return true
					}
					ast.Inspect(ifs.Body, func(m ast.Node) bool {
						if as, ok := m.(*ast.AssignStmt); ok && len(as.Lhs) == 1 && len(as.Rhs) == 1 {
							if id, ok := as.Rhs[0].(*ast.Ident); ok && id.Name == "true" {
								if l0, ok := as.Lhs[0].(*ast.Ident); ok {
									flagVar = l0.Name
								}
							}
						}
						return true
					})
					return true
				})
				mentions := func(e ast.Node, name string) bool {
					f := false
					ast.Inspect(e, func(m ast.Node) bool {
						if id, ok := m.(*ast.Ident); ok && name != "" && id.Name == name {
							f = true
						}
						return true
					})
					return f
				}
				classify := func(cond ast.Expr) {
					switch {
					case mentions(cond, nVar) && !mentions(cond, flagVar):
						// N <= 0, N == 0, N < 1, !(N > 0) …: with the library contract (n = 0 whenever an error is returned) all of them hold
						guardNLe0 = true
					case mentions(cond, flagVar) && !mentions(cond, nVar):
						guardNotWeInit = true
					}
				}
				ast.Inspect(loop.Body, func(n ast.Node) bool {
					ifs, ok := n.(*ast.IfStmt)
					if !ok || guardSeen {
						return true
					}
					be, ok := ifs.Cond.(*ast.BinaryExpr)
					if !ok || be.Op != token.NEQ || !isIdent(be.X, eVar) {
						return true
					}
					leaves := false
					for _, st := range ifs.Body.List {
						switch b := st.(type) {
						case *ast.BranchStmt:
							leaves = leaves || b.Tok == token.BREAK
						case *ast.ReturnStmt:
							leaves = true
						}
					}
					if !leaves || len(ifs.Body.List) == 0 {
						return true
					}
					guardSeen = true
					switch first := ifs.Body.List[0].(type) {
					case *ast.IfStmt:
						classify(first.Cond)
					case *ast.SwitchStmt:
						if first.Tag == nil && len(first.Body.List) > 0 {
							if cc, ok := first.Body.List[0].(*ast.CaseClause); ok && len(cc.List) == 1 {
								classify(cc.List[0])
							}
						}
					case *ast.AssignStmt, *ast.ReturnStmt:
						guardNLe0 = true // reported unconditionally
					}
					return false
				})
			}
		}
		if !guardSeen || guardNLe0 == guardNotWeInit {
			problem("Service.Write: the error branch of the write loop (`if <err of journal.Write> != nil { <guard> { err = … }; break }`) or its guard was not recognised")
		}
		l.p("/-- in `Service.Write` a failing `jrnl.Write` iteration sets the returned error under the guard `n <= 0` (or unconditionally); false: under `!weInit`, which drops an error that follows a partial write -/")
		l.p("def writeErrGuardIsNLeZero : Bool := %s", leanBool(guardNLe0))
		// --- partition.Service.Shutdown: is every journal synced, unconditionally? (repair bbe6505) -----------------------------
		// structural: inside Shutdown a function literal handed to a visitor contains a `<j>.Sync()` call; unconditional = it is a
		// top-level statement of that literal (not under an if/switch/for). A Sync that is only conditional gives `false`
		// (e.g. `if j.Count() > 0 { j.Sync() }`: Count() counts CONFIRMED records, so the first, still buffered write of a new
		// partition is skipped); no Sync at all is a problem.
		syncUncond, syncAny, visitsAll := false, false, true
		if fd := funcDecl(fp, "Service", "Shutdown"); fd != nil {
			isSync := func(n ast.Node) bool {
				ce, ok := n.(*ast.CallExpr)
				if !ok {
					return false
				}
				se, ok := ce.Fun.(*ast.SelectorExpr)
				return ok && se.Sel.Name == "Sync" && len(ce.Args) == 0
			}
			ast.Inspect(fd.Body, func(n ast.Node) bool {
				fl, ok := n.(*ast.FuncLit)
				if !ok {
					return true
				}
				hasSync := false
				for _, st := range fl.Body.List {
					if es, ok := st.(*ast.ExprStmt); ok && isSync(es.X) {
						syncUncond = true
						hasSync = true
					}
				}
				ast.Inspect(fl.Body, func(m ast.Node) bool {
					if isSync(m) {
						syncAny = true
						hasSync = true
					}
					return true
				})
				if hasSync {
					// the visitor must go on to the next journal: every `return` of the literal is the constant `true`
					ast.Inspect(fl.Body, func(m ast.Node) bool {
						if _, nested := m.(*ast.FuncLit); nested {
							return false
						}
						if rs, ok := m.(*ast.ReturnStmt); ok {
							if len(rs.Results) != 1 {
								visitsAll = false
							} else if id, ok := rs.Results[0].(*ast.Ident); !ok || id.Name != "true" {
								visitsAll = false
							}
						}
						return true
					})
				}
				return true
			})
			// a plain loop over the journals instead of a visitor
			ast.Inspect(fd.Body, func(n ast.Node) bool {
				if rs, ok := n.(*ast.RangeStmt); ok {
					loopSyncs := false
					for _, st := range rs.Body.List {
						if es, ok := st.(*ast.ExprStmt); ok && isSync(es.X) {
							syncUncond, syncAny, loopSyncs = true, true, true
						}
					}
					if loopSyncs {
						ast.Inspect(rs.Body, func(m ast.Node) bool {
							switch x := m.(type) {
							case *ast.FuncLit:
								return false
							case *ast.ReturnStmt:
								visitsAll = false
							case *ast.BranchStmt:
								if x.Tok == token.BREAK || x.Tok == token.GOTO {
									visitsAll = false
								}
							}
							return true
						})
					}
				}
				return true
			})
		} else {
			problem("partition.Service.Shutdown not found")
		}
		if !syncAny {
			problem("partition.Service.Shutdown: no journal Sync() found (the flush of acknowledged writes at a graceful stop)")
		}
		l.p("/-- `partition.Service.Shutdown` calls `Sync()` on every journal unconditionally and goes on to the next one — every `return` of the visitor is the constant `true`, no `break`/`return` in a plain loop (false: `Sync()` only under a condition, e.g. `Count() > 0`, which skips a journal whose records are all still buffered, or a visit that can stop early) -/")
		l.p("def shutdownSyncsEveryJournal : Bool := %s", leanBool(syncUncond && visitsAll))
		l.p("/-- which callers of `partition.Service.Write` hold a per-partition write lock while they append and announce their records: 2 = all (an unconditional `<local mutex>.Lock()` before the journal write), 1 = only those that publish a write event (`if !noEvent { … Lock() }`: pipe workers are not serialised), 0 = none -/")
		l.p("def writeLockScope : Nat := %d", c01WriteLockScope())
		l.p("/-- `model.LogEventIterator.Get` keeps no decoded event across calls: the field its early return tests (`if lei.st == 1 { return lei.le … }`) is never assigned by `Get` — or `SetBackward` resets it. (A held cursor is repositioned underneath the LogEventIterator: cursor `ApplyState` -> journal iterator `SetPos`; a memoised event would be served for the new position.) -/")
		l.p("def leiKeepsNoEventAcrossCalls : Bool := %s", leanBool(c01LeiKeepsNoEvent()))
		qAny, qCopy := c01QueryCacheFacts()
		l.p("/-- both query loops (api/rpc ServerQuerier.query, pkg/backend Querier.Query) refresh the printed fields whenever the event's fields differ from the cached value: the condition is exactly `<ev>.Fields != V` (false: further conjuncts, e.g. `len(<ev>.Fields) > 0 &&`, make the refresh rarer) -/")
		l.p("def queryCacheRefreshOnAnyDifference : Bool := %s", leanBool(qAny))
		l.p("/-- … and the cached value is assigned from a call on the event's fields (`MakeCopy()`), not from the bare `<ev>.Fields`, which aliases the reader's buffer -/")
		l.p("def queryCacheKeepsCopy : Bool := %s", leanBool(qCopy))
		l.p("/-- `Service.Write` calls `iw.resetMinMaxTs()` somewhere in its loop -/")
		l.p("def writeLoopResetsHull : Bool := %s", leanBool(resetCalled))
		l.write()
	}
}
