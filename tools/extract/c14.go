package main

import (
	"fmt"
	"go/ast"
	"go/token"
	"io/ioutil"
	"os"
	"path/filepath"
	"sort"
	"strings"
)

// C14: lock-discipline facts of pkg/tindex (every access to the protected maps and to the descriptor
// counters is lexically inside ims.lock.Lock()/Unlock()), the shape of the only exclusive section in the
// code base (partition.Service.deleteJournal), and the reader count LockExclusively demands.

// c14Protected: fields of inmemService guarded by ims.lock, and fields of tagsDesc guarded by the same lock.
var c14SvcFields = map[string]bool{"tmap": true, "smap": true, "done": true}
var c14DescFields = map[string]bool{"readers": true, "exclusive": true}

// functions that run before the service is published (single goroutine) — accesses there need no lock
var c14InitOnly = map[string]bool{"NewInmemService": true, "NewInmemServiceWithConfig": true, "Init": true,
	"checkConsistency": true, "loadState": true}

// c14Call is a call of a function of the package: who calls, whom, and whether the owning mutex is held there
type c14Call struct {
	caller, callee string
	locked         bool
	pos            string
}

type c14Walker struct {
	fn       string
	deferred bool // defer ims.lock.Unlock() seen: locked until the function returns
	out      *[]string
	calls    *[]c14Call
	known    map[string]bool // functions and methods declared in the package
}

func c14IsLockCall(e ast.Expr, name string) bool {
	c, ok := e.(*ast.CallExpr)
	if !ok {
		return false
	}
	se, ok := c.Fun.(*ast.SelectorExpr)
	if !ok || se.Sel.Name != name {
		return false
	}
	in, ok := se.X.(*ast.SelectorExpr)
	return ok && in.Sel.Name == "lock"
}

// accesses reports protected accesses inside n when the lock is not held, and records every call of a function of the
// package together with the lock state at the call site
func (w *c14Walker) accesses(n ast.Node, locked bool) {
	if n == nil {
		return
	}
	locked = locked || w.deferred
	ast.Inspect(n, func(m ast.Node) bool {
		switch x := m.(type) {
		case *ast.FuncLit:
			return false // closures are walked when they are statements of their own
		case *ast.SelectorExpr:
			if locked {
				return true
			}
			if id, ok := x.X.(*ast.Ident); ok && c14SvcFields[x.Sel.Name] && (id.Name == "ims" || id.Name == "res") {
				*w.out = append(*w.out, fmt.Sprintf("%s: %s.%s at %s", w.fn, id.Name, x.Sel.Name, fset.Position(x.Pos())))
			}
			if c14DescFields[x.Sel.Name] {
				*w.out = append(*w.out, fmt.Sprintf("%s: .%s at %s", w.fn, x.Sel.Name, fset.Position(x.Pos())))
			}
		case *ast.CallExpr:
			name := ""
			switch f := x.Fun.(type) {
			case *ast.SelectorExpr:
				if id, ok := f.X.(*ast.Ident); ok && (id.Name == "ims" || id.Name == "td" || id.Name == "res") {
					name = f.Sel.Name
				}
			case *ast.Ident:
				name = f.Name
			}
			if name != "" && w.known[name] && w.calls != nil {
				*w.calls = append(*w.calls, c14Call{caller: w.fn, callee: name, locked: locked, pos: fset.Position(x.Pos()).String()})
			}
		}
		return true
	})
}

// stmts walks a statement list; returns the lock state afterwards and whether control cannot fall through
func (w *c14Walker) stmts(l []ast.Stmt, locked bool) (bool, bool) {
	for _, s := range l {
		var term bool
		locked, term = w.stmt(s, locked)
		if term {
			return locked, true
		}
	}
	return locked, false
}

func (w *c14Walker) stmt(s ast.Stmt, locked bool) (bool, bool) {
	switch x := s.(type) {
	case nil:
		return locked, false
	case *ast.ExprStmt:
		if c14IsLockCall(x.X, "Lock") {
			return true, false
		}
		if c14IsLockCall(x.X, "Unlock") {
			return false, false
		}
		w.accesses(x.X, locked)
		if c, ok := x.X.(*ast.CallExpr); ok {
			if id, ok := c.Fun.(*ast.Ident); ok && id.Name == "panic" {
				return locked, true
			}
		}
		return locked, false
	case *ast.DeferStmt:
		if c14IsLockCall(x.Call, "Unlock") {
			w.deferred = true
			return locked, false
		}
		if fl, ok := x.Call.Fun.(*ast.FuncLit); ok {
			// a deferred closure runs when the function returns: under the lock if an unlock was deferred BEFORE it (deferred
			// calls run last-in first-out), or if the function keeps the lock to its end and the closure itself unlocks
			// (`Lock(); defer func() { …; Unlock() }()`); its arguments are evaluated here
			for _, a := range x.Call.Args {
				w.accesses(a, locked)
			}
			entry := locked || w.deferred
			sub := &c14Walker{fn: w.fn + "(deferred closure)", out: w.out, calls: w.calls, known: w.known}
			after, _ := sub.stmts(fl.Body.List, entry)
			if entry && !after && !w.deferred {
				w.deferred = true // the closure is what unlocks: locked until the function returns
			} else if !w.deferred && entry {
				// no unlock deferred before it and it does not unlock itself: the explicit Unlock() of the function runs first
				sub2 := &c14Walker{fn: w.fn + "(deferred closure)", out: w.out, calls: w.calls, known: w.known}
				sub2.stmts(fl.Body.List, false)
			}
			return locked, false
		}
		w.accesses(x.Call, locked)
		return locked, false
	case *ast.BlockStmt:
		return w.stmts(x.List, locked)
	case *ast.LabeledStmt:
		return w.stmt(x.Stmt, locked)
	case *ast.ReturnStmt:
		for _, r := range x.Results {
			w.accesses(r, locked)
		}
		return locked, true
	case *ast.BranchStmt:
		return locked, x.Tok == token.BREAK || x.Tok == token.CONTINUE || x.Tok == token.GOTO
	case *ast.IfStmt:
		if x.Init != nil {
			locked, _ = w.stmt(x.Init, locked)
		}
		w.accesses(x.Cond, locked)
		l1, t1 := w.stmts(x.Body.List, locked)
		l2, t2 := locked, false
		if x.Else != nil {
			l2, t2 = w.stmt(x.Else, locked)
		}
		switch {
		case t1 && t2:
			return locked, true
		case t1:
			return l2, false
		case t2:
			return l1, false
		default:
			return l1 && l2, false
		}
	case *ast.ForStmt:
		if x.Init != nil {
			locked, _ = w.stmt(x.Init, locked)
		}
		w.accesses(x.Cond, locked)
		lb, _ := w.stmts(x.Body.List, locked)
		if x.Post != nil {
			w.stmt(x.Post, lb)
		}
		return locked && lb, false
	case *ast.RangeStmt:
		w.accesses(x.X, locked)
		lb, _ := w.stmts(x.Body.List, locked)
		return locked && lb, false
	case *ast.SwitchStmt:
		if x.Init != nil {
			locked, _ = w.stmt(x.Init, locked)
		}
		w.accesses(x.Tag, locked)
		res := locked
		for _, c := range x.Body.List {
			cc := c.(*ast.CaseClause)
			for _, e := range cc.List {
				w.accesses(e, locked)
			}
			l, t := w.stmts(cc.Body, locked)
			if !t {
				res = res && l
			}
		}
		return res, false
	case *ast.SelectStmt:
		res := locked
		for _, c := range x.Body.List {
			cc := c.(*ast.CommClause)
			l, t := w.stmts(cc.Body, locked)
			if !t {
				res = res && l
			}
		}
		return res, false
	case *ast.GoStmt:
		// a new goroutine does not hold the lock (the arguments are evaluated here, by the caller)
		for _, a := range x.Call.Args {
			w.accesses(a, locked)
		}
		if fl, ok := x.Call.Fun.(*ast.FuncLit); ok {
			sub := &c14Walker{fn: w.fn + "(goroutine)", out: w.out, calls: w.calls, known: w.known}
			sub.stmts(fl.Body.List, false)
		} else {
			// the callee runs without the lock: record the call site as unlocked
			saved := w.deferred
			w.deferred = false
			w.accesses(&ast.CallExpr{Fun: x.Call.Fun, Lparen: x.Call.Lparen, Rparen: x.Call.Rparen}, false)
			w.deferred = saved
		}
		return locked, false
	default:
		w.accesses(s, locked)
		// function literals assigned or passed here run later, possibly without the lock: walk them unlocked
		ast.Inspect(s, func(m ast.Node) bool {
			if fl, ok := m.(*ast.FuncLit); ok {
				sub := &c14Walker{fn: w.fn + "(closure)", out: w.out, calls: w.calls, known: w.known}
				sub.stmts(fl.Body.List, false)
				return false
			}
			return true
		})
		return locked, false
	}
}

func c14RecvName(fd *ast.FuncDecl) string {
	if fd.Recv == nil || len(fd.Recv.List) != 1 {
		return ""
	}
	switch t := fd.Recv.List[0].Type.(type) {
	case *ast.StarExpr:
		if id, ok := t.X.(*ast.Ident); ok {
			return id.Name
		}
	case *ast.Ident:
		return t.Name
	}
	return ""
}

func init() {
	generators["C14"] = func() {
		l := newLean("C14", "Facts about pkg/tindex/*.go (lock discipline of inmemService) and pkg/partition/partition.go (deleteJournal).")

		// ---- lock discipline of package tindex ------------------------------------------------------
		unlocked := []string{}
		files, _ := filepath.Glob(filepath.Join(repo, "pkg/tindex/*.go"))
		sort.Strings(files)
		sawService := false
		lockReaders := int64(-1)
		type c14Fn struct {
			key, name, recv string
			fd              *ast.FuncDecl
		}
		var fns []c14Fn
		known := map[string]bool{}
		for _, fn := range files {
			if strings.HasSuffix(fn, "_test.go") {
				continue
			}
			rel, _ := filepath.Rel(repo, fn)
			f := parseFile(rel)
			if f == nil {
				continue
			}
			for _, d := range f.Decls {
				fd, ok := d.(*ast.FuncDecl)
				if !ok || fd.Body == nil {
					continue
				}
				recv := c14RecvName(fd)
				if recv == "inmemService" {
					sawService = true
				}
				fns = append(fns, c14Fn{key: filepath.Base(fn) + ":" + fd.Name.Name, name: fd.Name.Name, recv: recv, fd: fd})
				known[fd.Name.Name] = true
				if recv == "inmemService" && fd.Name.Name == "LockExclusively" {
					// the reader count the exclusive lock demands: `td.readers == N`
					ast.Inspect(fd.Body, func(m ast.Node) bool {
						be, ok := m.(*ast.BinaryExpr)
						if !ok || be.Op != token.EQL {
							return true
						}
						if se, ok := be.X.(*ast.SelectorExpr); ok && se.Sel.Name == "readers" {
							if bl, ok := be.Y.(*ast.BasicLit); ok {
								fmt.Sscan(bl.Value, &lockReaders)
							}
						}
						return true
					})
				}
			}
		}
		// "called only under the lock", computed transitively (a helper such as saveStateUnsafe or an extracted locked body):
		// a function that cannot be called from outside the package counts as running with the mutex held when it has call
		// sites and every one of them is inside a critical section, in a function that runs before the service is published,
		// or in a function that itself counts as locked. Three rounds = helpers of helpers of helpers. The name suffix
		// "Unsafe" plays no role. Such a function is then walked with the lock held at its entry (an Unlock inside it still
		// ends the critical section for what follows).
		lockedFn := map[string]bool{}
		for round := 0; round < 4; round++ {
			unlocked = unlocked[:0]
			var calls []c14Call
			for _, f := range fns {
				if c14InitOnly[f.name] {
					// still record its calls (they are legitimate call sites), not its accesses
					var dummy []string
					w := &c14Walker{fn: f.name, out: &dummy, calls: &calls, known: known}
					w.stmts(f.fd.Body.List, true)
					continue
				}
				w := &c14Walker{fn: f.name, out: &unlocked, calls: &calls, known: known}
				w.stmts(f.fd.Body.List, lockedFn[f.name])
			}
			if round == 3 {
				break
			}
			next := map[string]bool{}
			for _, f := range fns {
				internal := f.name != "" && strings.ToLower(f.name[:1]) == f.name[:1]
				if f.name == "String" && f.recv == "tagsDesc" {
					internal = true // the descriptor type is not exported and is only printed inside the package
				}
				if !internal || c14InitOnly[f.name] {
					continue
				}
				n, ok := 0, true
				for _, c := range calls {
					if c.callee != f.name {
						continue
					}
					n++
					caller := strings.TrimSuffix(c.caller, "(closure)")
					if !(c.locked || (c14InitOnly[caller] && caller == c.caller) || (lockedFn[caller] && caller == c.caller && c.locked)) {
						ok = false
					}
				}
				if n > 0 && ok {
					next[f.name] = true
				}
			}
			lockedFn = next
		}
		for i := range unlocked {
			unlocked[i] = "inmem.go:" + unlocked[i]
		}
		if !sawService {
			problem("pkg/tindex: type inmemService and its methods not found")
		}
		if lockReaders < 0 {
			problem("pkg/tindex/inmem.go: LockExclusively no longer compares td.readers with a literal")
			lockReaders = 0
		}

		// ---- the exclusive section ------------------------------------------------------------------
		blocking := []string{}
		pf := parseFile("pkg/partition/partition.go")
		dj := funcDecl(pf, "Service", "deleteJournal")
		if dj == nil {
			problem("partition.Service.deleteJournal not found")
		} else {
			var lockPos, lastUnlock token.Pos
			ast.Inspect(dj.Body, func(m ast.Node) bool {
				if c, ok := m.(*ast.CallExpr); ok {
					if se, ok := c.Fun.(*ast.SelectorExpr); ok {
						if se.Sel.Name == "LockExclusively" && lockPos == 0 {
							lockPos = c.Pos()
						}
						if se.Sel.Name == "UnlockExclusively" && c.Pos() > lastUnlock {
							lastUnlock = c.Pos()
						}
					}
				}
				return true
			})
			if lockPos == 0 || lastUnlock == 0 {
				problem("partition.Service.deleteJournal no longer brackets its work with LockExclusively/UnlockExclusively")
			}
			allowed := map[string]bool{"LockExclusively": true, "UnlockExclusively": true, "Delete": true, // tindex, non-blocking
				"Size": true, "Chunks": true, "LocalFolder": true, "Name": true, // journal accessors
				"Sync": true, // journal.Sync: flushes the chunk writer; takes locks of the chunk controller / writer only, which nobody can hold for long without an acquisition of the partition (and then the exclusive lock was not granted)
				"Warn": true, "Debug": true, "Error": true, "Info": true}
			ast.Inspect(dj.Body, func(m ast.Node) bool {
				c, ok := m.(*ast.CallExpr)
				if !ok || c.Pos() <= lockPos || c.Pos() >= lastUnlock {
					return true
				}
				name := ""
				switch f := c.Fun.(type) {
				case *ast.SelectorExpr:
					name = f.Sel.Name
				case *ast.Ident:
					name = f.Name
				}
				if !allowed[name] {
					blocking = append(blocking, fmt.Sprintf("%s at %s", name, fset.Position(c.Pos())))
				}
				return true
			})
		}
		// every way out of the exclusive section unlocks: after the `if !LockExclusively(…) { return }` guard no `return` (and no
		// panic) is reached while the lock is held
		lockedExits := []string{}
		if dj != nil {
			isCall := func(e ast.Expr, name string) bool {
				c, ok := e.(*ast.CallExpr)
				if !ok {
					return false
				}
				se, ok := c.Fun.(*ast.SelectorExpr)
				return ok && se.Sel.Name == name
			}
			var walk func(l []ast.Stmt, locked bool) (bool, bool)
			walk = func(l []ast.Stmt, locked bool) (bool, bool) {
				for _, st := range l {
					switch x := st.(type) {
					case *ast.ExprStmt:
						if isCall(x.X, "UnlockExclusively") {
							locked = false
						}
						if c, ok := x.X.(*ast.CallExpr); ok {
							if id, ok := c.Fun.(*ast.Ident); ok && id.Name == "panic" {
								if locked {
									lockedExits = append(lockedExits, "panic at "+fset.Position(x.Pos()).String())
								}
								return locked, true
							}
						}
					case *ast.ReturnStmt:
						if locked {
							lockedExits = append(lockedExits, "return at "+fset.Position(x.Pos()).String())
						}
						return locked, true
					case *ast.IfStmt:
						// the guard: `if !…LockExclusively(…) { return }` — the lock is held after it, not inside it
						guard := false
						if u, ok := x.Cond.(*ast.UnaryExpr); ok && u.Op == token.NOT && isCall(u.X, "LockExclusively") {
							guard = true
						}
						if guard {
							locked = true
							continue
						}
						l1, t1 := walk(x.Body.List, locked)
						l2, t2 := locked, false
						if x.Else != nil {
							if b, ok := x.Else.(*ast.BlockStmt); ok {
								l2, t2 = walk(b.List, locked)
							}
						}
						switch {
						case t1 && t2:
							return locked, true
						case t1:
							locked = l2
						case t2:
							locked = l1
						default:
							locked = l1 || l2
						}
					case *ast.AssignStmt:
						for _, r := range x.Rhs {
							if isCall(r, "UnlockExclusively") {
								locked = false
							}
						}
					case *ast.ForStmt, *ast.RangeStmt, *ast.SwitchStmt, *ast.SelectStmt, *ast.GoStmt, *ast.DeferStmt:
						if locked {
							lockedExits = append(lockedExits, fmt.Sprintf("%T inside the exclusive section at %s", st, fset.Position(st.Pos())))
						}
					}
				}
				return locked, false
			}
			if locked, _ := walk(dj.Body.List, false); locked {
				lockedExits = append(lockedExits, "the function body ends with the lock held")
			}
		}

		// who takes exclusive locks at all (non-test code of /repo)
		lockers := []string{}
		filepath.Walk(filepath.Join(repo, "pkg"), func(p string, info os.FileInfo, err error) error {
			if err != nil || info.IsDir() || !strings.HasSuffix(p, ".go") || strings.HasSuffix(p, "_test.go") ||
				strings.Contains(p, "/pkg/tindex/") {
				return nil
			}
			src, err := ioutil.ReadFile(p)
			if err != nil || !strings.Contains(string(src), "LockExclusively(") {
				return nil
			}
			rel, _ := filepath.Rel(repo, p)
			f := parseFile(rel)
			if f == nil {
				return nil
			}
			for _, d := range f.Decls {
				fd, ok := d.(*ast.FuncDecl)
				if !ok || fd.Body == nil {
					continue
				}
				ast.Inspect(fd.Body, func(m ast.Node) bool {
					if c, ok := m.(*ast.CallExpr); ok {
						if se, ok := c.Fun.(*ast.SelectorExpr); ok && se.Sel.Name == "LockExclusively" {
							lockers = append(lockers, rel+":"+fd.Name.Name)
							return false
						}
					}
					return true
				})
			}
			return nil
		})
		sort.Strings(lockers)

		// does GetJournals' visitor give the visited partition back itself when it aborts? (repair of F15)
		visitorReleases := false
		gj := funcDecl(pf, "Service", "GetJournals")
		if gj == nil {
			problem("partition.Service.GetJournals not found")
		} else {
			ast.Inspect(gj.Body, func(m ast.Node) bool {
				fl, ok := m.(*ast.FuncLit)
				if !ok || fl.Type.Params == nil || len(fl.Type.Params.List) < 2 || len(fl.Type.Params.List[1].Names) == 0 {
					return true
				}
				jn := fl.Type.Params.List[1].Names[0].Name
				ast.Inspect(fl.Body, func(k ast.Node) bool {
					if c, ok := k.(*ast.CallExpr); ok {
						if se, ok := c.Fun.(*ast.SelectorExpr); ok && se.Sel.Name == "Release" && len(c.Args) == 1 {
							if id, ok := c.Args[0].(*ast.Ident); ok && id.Name == jn {
								visitorReleases = true
							}
						}
					}
					return true
				})
				return false
			})
		}

		strList := func(xs []string) string {
			q := make([]string, len(xs))
			for i, x := range xs {
				q[i] = leanStr(strings.Replace(x, repo+"/", "", -1))
			}
			return "[" + strings.Join(q, ", ") + "]"
		}
		l.p("/-- accesses to `ims.tmap`, `ims.smap`, `ims.done`, `tagsDesc.readers`, `tagsDesc.exclusive` (and calls of")
		l.p("`saveStateUnsafe` / `tagsDesc.String`) in pkg/tindex that are NOT lexically inside `ims.lock.Lock() … Unlock()`")
		l.p("(functions that run before the service is published are exempt) -/")
		l.p("def unlockedAccesses : List String := %s", strList(unlocked))
		l.p("/-- calls inside `partition.Service.deleteJournal` between `LockExclusively` and the last `UnlockExclusively` other")
		l.p("than the non-blocking tindex calls, journal accessors and logging -/")
		l.p("def blockingCallsInsideExclusiveSection : List String := %s", strList(blocking))
		l.p("/-- ways out of `deleteJournal` (return, panic, end of the body) reached while the exclusive lock is held, and loops /")
		l.p("switches / goroutines / defers inside the exclusive section — the section must be straight-line and unlock on every exit -/")
		l.p("def exclusiveSectionLockedExits : List String := %s", strList(lockedExits))
		l.p("/-- functions outside pkg/tindex that call `LockExclusively` -/")
		l.p("def lockExclusivelyCallers : List String := %s", strList(lockers))
		l.p("/-- `GetJournals`' visitor calls `Release` on the partition it is visiting (before it aborts on a failed")
		l.p("`Journals.GetOrCreate`): the repair of F15 -/")
		l.p("def getJournalsVisitorReleasesFailed : Bool := %s", leanBool(visitorReleases))
		// ---- matched release inside one function (callers that acquire by id and give back before they go on) ----------
		leaks := []string{}
		for _, t := range []struct{ file, recv, fn string }{
			{"pkg/pipe/ppipe.go", "ppipe", "catchUp"},
			{"pkg/partition/partition.go", "Service", "truncateGlobally"},
			{"pkg/partition/partition.go", "Service", "cleanupTsIndex"},
			{"pkg/partition/tmirebuilder.go", "tmirebuilder", "serve"},
		} {
			fd := funcDecl(parseFile(t.file), t.recv, t.fn)
			if fd == nil || fd.Body == nil {
				problem("C14: %s: %s.%s not found", t.file, t.recv, t.fn)
				continue
			}
			if !c14IsAcquire(fd.Body) {
				acq := false
				ast.Inspect(fd.Body, func(n ast.Node) bool {
					if fl, ok := n.(*ast.FuncLit); ok && c14IsAcquire(fl.Body) {
						acq = true
					}
					return true
				})
				if !acq {
					problem("C14: %s.%s no longer acquires a partition by id (GetJournal / GetJournalTags(…, true)): the caller program that mirrors it must be looked at", t.recv, t.fn)
				}
			}
			leaks = append(leaks, c14MatchedRelease(t.recv+"."+t.fn, fd)...)
		}
		l.p("/-- ways out of `ppipe.catchUp`, `Service.truncateGlobally`, `Service.cleanupTsIndex`, `tmirebuilder.serve` (return, continue /")
		l.p("break of the loop the acquisition stands in, end of that loop body or of the function, panic) that are reached after a")
		l.p("successful `GetJournal` / `GetJournalTags(…, true)` without a `Release` on the way (a deferred one counts) -/")
		q := []string{}
		for _, u := range leaks {
			q = append(q, leanStr(u))
		}
		l.p("def acquiredAtExit : List String := [%s]", strings.Join(q, ", "))
		l.p("/-- `LockExclusively` succeeds only when `td.readers ==` this value -/")
		l.p("def lockExclusivelyReaders : Int := %d", lockReaders)
		l.write()
	}
}
