package main

import (
	"bytes"
	"go/ast"
	"go/printer"
	"go/token"
	"io/ioutil"
	"os"
	"os/exec"
	"path/filepath"
	"regexp"
	"strconv"
	"strings"
)

func c03Str(n ast.Node) string {
	var b bytes.Buffer
	printer.Fprint(&b, fset, n)
	return b.String()
}

// c03RangeDir finds the source directory of github.com/logrange/range as /repo's go.mod pins it.
func c03RangeDir() string {
	gm, err := ioutil.ReadFile(filepath.Join(repo, "go.mod"))
	if err != nil {
		return ""
	}
	m := regexp.MustCompile(`github.com/logrange/range\s+(v\S+)`).FindSubmatch(gm)
	if m == nil {
		return ""
	}
	cands := []string{}
	if out, err := exec.Command("go", "env", "GOMODCACHE").Output(); err == nil {
		cands = append(cands, strings.TrimSpace(string(out)))
	}
	cands = append(cands, filepath.Join(os.Getenv("HOME"), "go", "pkg", "mod"), "/root/go/pkg/mod")
	for _, c := range cands {
		d := filepath.Join(c, "github.com", "logrange", "range@"+string(m[1]))
		if _, err := os.Stat(d); err == nil {
			return d
		}
	}
	return ""
}

// C03 / C16: constants and code-shape facts the paging and offset models are written for.
func init() {
	gen := func() {
		l := newLean("C03", "Facts about pkg/backend/querier.go, api/rpc/querier.go, pkg/cursor/{cursor,fiterator}.go, pkg/partition/{jiterator,cselector}.go\nand journal.Pos.String/ParsePos of github.com/logrange/range (C03, C16).")

		// --- QueryMaxLimit and the cache condition --------------------------------------------------
		maxLimit := -1
		f := parseFile("pkg/backend/querier.go")
		if f != nil {
			for _, d := range f.Decls {
				gd, ok := d.(*ast.GenDecl)
				if !ok || gd.Tok != token.CONST {
					continue
				}
				for _, s := range gd.Specs {
					vs := s.(*ast.ValueSpec)
					for i, n := range vs.Names {
						if n.Name == "QueryMaxLimit" && i < len(vs.Values) {
							if bl, ok := vs.Values[i].(*ast.BasicLit); ok {
								maxLimit, _ = strconv.Atoi(bl.Value)
							}
						}
					}
				}
			}
		}
		if maxLimit < 0 {
			problem("backend.QueryMaxLimit not found")
			maxLimit = 0
		}
		cacheCond := func(rel, recv, name string) (string, bool, bool) {
			fd := funcDecl(parseFile(rel), recv, name)
			if fd == nil {
				problem("%s: %s.%s not found", rel, recv, name)
				return "", false, false
			}
			cond, clamp, loop := "", false, false
			ast.Inspect(fd.Body, func(n ast.Node) bool {
				switch s := n.(type) {
				case *ast.AssignStmt:
					if len(s.Lhs) == 1 && c03Str(s.Lhs[0]) == "cache" {
						cond = c03Str(s.Rhs[0])
					}
				case *ast.IfStmt:
					c := c03Str(s.Cond)
					if c == "limit > QueryMaxLimit" || c == "limit > backend.QueryMaxLimit" {
						clamp = true
					}
				case *ast.ForStmt:
					if s.Cond != nil && c03Str(s.Cond) == "limit > 0 && err == nil" {
						loop = true
					}
				}
				return true
			})
			return cond, clamp, loop
		}
		c1, clamp1, loop1 := cacheCond("pkg/backend/querier.go", "Querier", "Query")
		c2, clamp2, loop2 := cacheCond("api/rpc/querier.go", "ServerQuerier", "query")
		norm := func(s string) string { return strings.NewReplacer("req.", "", "rq.", "").Replace(s) }
		l.p("/-- `backend.QueryMaxLimit` -/")
		l.p("def queryMaxLimit : Nat := %d", maxLimit)
		l.p("/-- both query loops clamp with `limit > QueryMaxLimit` and run `for limit > 0 && err == nil` -/")
		l.p("def bothLoopsClampAndCount : Bool := %s", leanBool(clamp1 && clamp2 && loop1 && loop2))
		l.p("/-- both decide `cache := WaitTimeout > 0 || limit != Limit` -/")
		l.p("def cacheIsWaitOrClamped : Bool := %s", leanBool(norm(c1) == "WaitTimeout > 0 || limit != Limit" && norm(c2) == norm(c1)))

		// --- position text ---------------------------------------------------------------------------
		wc, wi, plen, pcut := 0, 0, 0, 0
		if rd := c03RangeDir(); rd == "" {
			problem("source of github.com/logrange/range (journal.Pos.String) not found in the module cache")
		} else if src, err := ioutil.ReadFile(filepath.Join(rd, "pkg/records/journal/journal.go")); err != nil {
			problem("journal.go of github.com/logrange/range: %v", err)
		} else {
			if m := regexp.MustCompile(`Sprintf\("%0(\d+)X%0(\d+)X"`).FindSubmatch(src); m != nil {
				wc, _ = strconv.Atoi(string(m[1]))
				wi, _ = strconv.Atoi(string(m[2]))
			} else {
				problem("journal.Pos.String: format %%0nX%%0mX not found")
			}
			if m := regexp.MustCompile(`len\(pstr\) != (\d+)`).FindSubmatch(src); m != nil {
				plen, _ = strconv.Atoi(string(m[1]))
			}
			if m := regexp.MustCompile(`pstr\[:(\d+)\]`).FindSubmatch(src); m != nil {
				pcut, _ = strconv.Atoi(string(m[1]))
			}
			if plen == 0 || pcut == 0 {
				problem("journal.ParsePos: length test / split point not found")
			}
		}
		l.p("/-- `Pos.String` prints `%%0<posCidWidth>X%%0<posIdxWidth>X`; `ParsePos` wants `posParseLen` characters and cuts at `posParseCut` -/")
		l.p("def posCidWidth : Nat := %d", wc)
		l.p("def posIdxWidth : Nat := %d", wi)
		l.p("def posParseLen : Nat := %d", plen)
		l.p("def posParseCut : Nat := %d", pcut)
		sep, val := "", ""
		if cf := parseFile("pkg/cursor/cursor.go"); cf != nil {
			for _, d := range cf.Decls {
				if gd, ok := d.(*ast.GenDecl); ok && gd.Tok == token.CONST {
					for _, s := range gd.Specs {
						vs := s.(*ast.ValueSpec)
						for i, n := range vs.Names {
							if bl, ok := vs.Values[i].(*ast.BasicLit); ok {
								v, _ := strconv.Unquote(bl.Value)
								if n.Name == "cPosJrnlSplit" {
									sep = v
								}
								if n.Name == "cPosJrnlVal" {
									val = v
								}
							}
						}
					}
				}
			}
		}
		if sep == "" || val == "" {
			problem("cursor.cPosJrnlSplit / cPosJrnlVal not found")
		}
		l.p("/-- separators of the cursor position text -/")
		l.p("def posJrnlSplit : String := %s", leanStr(sep))
		l.p("def posJrnlVal : String := %s", leanStr(val))

		// --- code shape the models are written for (each is one of the repaired defects) ---------------
		cf := parseFile("pkg/cursor/cursor.go")
		settles := false
		if fd := funcDecl(cf, "crsr", "Offset"); fd == nil {
			problem("crsr.Offset not found")
		} else {
			ast.Inspect(fd.Body, func(n ast.Node) bool {
				is, ok := n.(*ast.IfStmt)
				if !ok || c03Str(is.Cond) != "offs < 0" || is.Else == nil {
					return true
				}
				ast.Inspect(is.Else, func(m ast.Node) bool {
					if ce, ok := m.(*ast.CallExpr); ok && c03Str(ce.Fun) == "cur.Get" {
						settles = true
					}
					return true
				})
				return false
			})
		}
		l.p("/-- `crsr.Offset`: the positive branch starts with `cur.Get` (f673a84) -/")
		l.p("def offsetPositiveBranchSettles : Bool := %s", leanBool(settles))
		drops := false
		if fd := funcDecl(parseFile("pkg/cursor/fiterator.go"), "fiterator", "SetBackward"); fd == nil {
			problem("fiterator.SetBackward not found")
		} else {
			for _, st := range fd.Body.List {
				if as, ok := st.(*ast.AssignStmt); ok && c03Str(as.Lhs[0]) == "fit.valid" && c03Str(as.Rhs[0]) == "false" {
					drops = true
				}
			}
		}
		l.p("/-- `fiterator.SetBackward` ends with `fit.valid = false` (1a882be) -/")
		l.p("def fiteratorSetBackwardDropsCache : Bool := %s", leanBool(drops))
		keeps := false
		if fd := funcDecl(parseFile("pkg/partition/jiterator.go"), "JIterator", "ensureChkIt"); fd == nil {
			problem("partition.JIterator.ensureChkIt not found")
		} else {
			ast.Inspect(fd.Body, func(n ast.Node) bool {
				is, ok := n.(*ast.IfStmt)
				if !ok || c03Str(is.Cond) != "chk == nil" {
					return true
				}
				for _, st := range is.Body.List {
					if in, ok := st.(*ast.IfStmt); ok && c03Str(in.Cond) == "!jit.bkwrd" && len(in.Body.List) == 1 && c03Str(in.Body.List[0]) == "jit.pos = pos" {
						keeps = true
					}
				}
				return false
			})
		}
		l.p("/-- `partition.JIterator.ensureChkIt`: on EOF the position is taken over only when reading forward (b7773f9) -/")
		l.p("def backwardEofKeepsPos : Bool := %s", leanBool(keeps))
		fromDecision := false
		if fd := funcDecl(parseFile("pkg/partition/cselector.go"), "chkSelector", "getPosForward"); fd == nil {
			problem("chkSelector.getPosForward not found")
		} else if n := len(fd.Body.List); n > 0 {
			if rs, ok := fd.Body.List[n-1].(*ast.ReturnStmt); ok && len(rs.Results) == 4 {
				fromDecision = !strings.Contains(c03Str(rs.Results[2]), "Count()")
			}
		}
		l.p("/-- `chkSelector.getPosForward`: the end-of-data position does not read `Count()` again (53beb1f) -/")
		l.p("def fwdEndPosFromDecisionCount : Bool := %s", leanBool(fromDecision))
		// --- newCursor sorts its sources; the empty cursor keeps the request's state -------------------------
		sorts := false
		if fd := funcDecl(cf, "", "newCursor"); fd == nil {
			problem("cursor.newCursor not found")
		} else {
			sawSort := false
			ast.Inspect(fd.Body, func(n ast.Node) bool {
				switch x := n.(type) {
				case *ast.CallExpr:
					if c03Str(x.Fun) == "sort.Slice" && len(x.Args) == 2 && c03Str(x.Args[0]) == "lines" {
						sawSort = true
					}
				case *ast.RangeStmt:
					// the loop that wraps the iterators must range over the sorted slice, not over the map
					if sawSort && c03Str(x.X) == "lines" {
						ast.Inspect(x.Body, func(m ast.Node) bool {
							if ce, ok := m.(*ast.CallExpr); ok && strings.HasSuffix(c03Str(ce.Fun), ".Wrap") {
								sorts = true
							}
							return true
						})
					}
				}
				return true
			})
		}
		l.p("/-- `newCursor` builds the mixer tree over the sources sorted by tag line (f086c95) -/")
		l.p("def newCursorSortsSources : Bool := %s", leanBool(sorts))
		keepsState := false
		pf := parseFile("pkg/cursor/provider.go")
		if g, r := funcDecl(pf, "provider", "GetOrCreate"), funcDecl(pf, "provider", "Release"); g == nil || r == nil {
			problem("provider.GetOrCreate / Release not found")
		} else {
			makes := strings.Contains(c03Str(g.Body), "emptyCursor{st: State{Query: state.Query, Pos: state.Pos}}")
			gives := false
			ast.Inspect(r.Body, func(n ast.Node) bool {
				if is, ok := n.(*ast.IfStmt); ok && is.Init != nil && strings.Contains(c03Str(is.Init), "curs.(emptyCursor)") {
					for _, st := range is.Body.List {
						if rs, ok := st.(*ast.ReturnStmt); ok && len(rs.Results) == 1 && c03Str(rs.Results[0]) == "ec.st" {
							gives = true
						}
					}
				}
				return true
			})
			keepsState = makes && gives
		}
		l.p("/-- the empty cursor (no partition matches) is built with the request's Query and Pos and `Release` returns them (a8a4a54) -/")
		l.p("def emptyCursorKeepsState : Bool := %s", leanBool(keepsState))
		// --- ApplyState drops what the wrapping iterators buffered (proposed repair of F22) ------------------
		drops22 := false
		if fd := funcDecl(cf, "crsr", "ApplyState"); fd == nil {
			problem("crsr.ApplyState not found")
		} else {
			ast.Inspect(fd.Body, func(n ast.Node) bool {
				is, ok := n.(*ast.IfStmt)
				if !ok || c03Str(is.Cond) != "cur.state.Pos != state.Pos" {
					return true
				}
				var calls []string
				for _, st := range is.Body.List {
					if es, ok := st.(*ast.ExprStmt); ok {
						calls = append(calls, c03Str(es.X))
					}
				}
				for i := 0; i+1 < len(calls); i++ {
					a, b := strings.Replace(calls[i], "cur.it.", "cur.", 1), strings.Replace(calls[i+1], "cur.it.", "cur.", 1)
					if a == "cur.SetBackward(true)" && b == "cur.SetBackward(false)" {
						drops22 = true
					}
				}
				return false
			})
		}
		l.p("/-- `crsr.ApplyState`: after a position that differs from the cursor's own was applied, the wrapping iterators are made to forget their buffered event / selection (direction switch there and back) -/")
		l.p("def applyStateDropsBuffers : Bool := %s", leanBool(drops22))
		l.write()
	}
	generators["C03"] = gen
}
