package main

import (
	"bytes"
	"go/ast"
	"go/printer"
	"go/token"
	"io/ioutil"
	"os"
	"os/exec"
	"path/filepath"
	"regexp"
	"strconv"
	"strings"
)

func c03Str(n ast.Node) string {
	var b bytes.Buffer
	printer.Fprint(&b, fset, n)
	return b.String()
}

// c03RangeDir finds the source directory of github.com/logrange/range as /repo's go.mod pins it.
func c03RangeDir() string {
	gm, err := ioutil.ReadFile(filepath.Join(repo, "go.mod"))
	if err != nil {
		return ""
	}
	m := regexp.MustCompile(`github.com/logrange/range\s+(v\S+)`).FindSubmatch(gm)
	if m == nil {
		return ""
	}
	cands := []string{}
	if out, err := exec.Command("go", "env", "GOMODCACHE").Output(); err == nil {
		cands = append(cands, strings.TrimSpace(string(out)))
	}
	cands = append(cands, filepath.Join(os.Getenv("HOME"), "go", "pkg", "mod"), "/root/go/pkg/mod")
	for _, c := range cands {
		d := filepath.Join(c, "github.com", "logrange", "range@"+string(m[1]))
		if _, err := os.Stat(d); err == nil {
			return d
		}
	}
	return ""
}

// C03 / C16: constants and code-shape facts the paging and offset models are written for.
func init() {
	gen := func() {
		l := newLean("C03", "Facts about pkg/backend/querier.go, api/rpc/querier.go, pkg/cursor/{cursor,fiterator}.go, pkg/partition/{jiterator,cselector}.go\nand journal.Pos.String/ParsePos of github.com/logrange/range (C03, C16).")

		// --- QueryMaxLimit and the cache condition --------------------------------------------------
		maxLimit := -1
		f := parseFile("pkg/backend/querier.go")
		if f != nil {
			for _, d := range f.Decls {
				gd, ok := d.(*ast.GenDecl)
				if !ok || gd.Tok != token.CONST {
					continue
				}
				for _, s := range gd.Specs {
					vs := s.(*ast.ValueSpec)
					for i, n := range vs.Names {
						if n.Name == "QueryMaxLimit" && i < len(vs.Values) {
							if bl, ok := vs.Values[i].(*ast.BasicLit); ok {
								maxLimit, _ = strconv.Atoi(bl.Value)
							}
						}
					}
				}
			}
		}
		if maxLimit < 0 {
			problem("backend.QueryMaxLimit not found")
			maxLimit = 0
		}
		shape := func(dir, recv, name string) (bool, bool, bool) {
			pk := c03LoadPkg(dir)
			fd := pk.method(recv, name)
			if fd == nil {
				problem("%s: %s.%s not found", dir, recv, name)
				return false, false, false
			}
			clamp, loop, cache, mentions := c03QueryLoopShape(pk, fd)
			if !clamp && mentions {
				problem("%s: %s.%s mentions QueryMaxLimit but the clamp was not recognised (unknown shape)", dir, recv, name)
			}
			return clamp, loop, cache
		}
		clamp1, loop1, cache1 := shape("pkg/backend", "Querier", "Query")
		clamp2, loop2, cache2 := shape("api/rpc", "ServerQuerier", "query")
		l.p("/-- `backend.QueryMaxLimit` -/")
		l.p("def queryMaxLimit : Nat := %d", maxLimit)
		l.p("/-- both query loops clamp with `limit > QueryMaxLimit` and run `for limit > 0 && err == nil` -/")
		l.p("def bothLoopsClampAndCount : Bool := %s", leanBool(clamp1 && clamp2 && loop1 && loop2))
		l.p("/-- both decide `cache := WaitTimeout > 0 || limit != Limit` -/")
		l.p("def cacheIsWaitOrClamped : Bool := %s", leanBool(cache1 && cache2))

		// --- position text ---------------------------------------------------------------------------
		wc, wi, plen, pcut := 0, 0, 0, 0
		if rd := c03RangeDir(); rd == "" {
			problem("source of github.com/logrange/range (journal.Pos.String) not found in the module cache")
		} else if src, err := ioutil.ReadFile(filepath.Join(rd, "pkg/records/journal/journal.go")); err != nil {
			problem("journal.go of github.com/logrange/range: %v", err)
		} else {
			if m := regexp.MustCompile(`Sprintf\("%0(\d+)X%0(\d+)X"`).FindSubmatch(src); m != nil {
				wc, _ = strconv.Atoi(string(m[1]))
				wi, _ = strconv.Atoi(string(m[2]))
			} else {
				problem("journal.Pos.String: format %%0nX%%0mX not found")
			}
			if m := regexp.MustCompile(`len\(pstr\) != (\d+)`).FindSubmatch(src); m != nil {
				plen, _ = strconv.Atoi(string(m[1]))
			}
			if m := regexp.MustCompile(`pstr\[:(\d+)\]`).FindSubmatch(src); m != nil {
				pcut, _ = strconv.Atoi(string(m[1]))
			}
			if plen == 0 || pcut == 0 {
				problem("journal.ParsePos: length test / split point not found")
			}
		}
		l.p("/-- `Pos.String` prints `%%0<posCidWidth>X%%0<posIdxWidth>X`; `ParsePos` wants `posParseLen` characters and cuts at `posParseCut` -/")
		l.p("def posCidWidth : Nat := %d", wc)
		l.p("def posIdxWidth : Nat := %d", wi)
		l.p("def posParseLen : Nat := %d", plen)
		l.p("def posParseCut : Nat := %d", pcut)
		sep, val := "", ""
		if cf := parseFile("pkg/cursor/cursor.go"); cf != nil {
			for _, d := range cf.Decls {
				if gd, ok := d.(*ast.GenDecl); ok && gd.Tok == token.CONST {
					for _, s := range gd.Specs {
						vs := s.(*ast.ValueSpec)
						for i, n := range vs.Names {
							if bl, ok := vs.Values[i].(*ast.BasicLit); ok {
								v, _ := strconv.Unquote(bl.Value)
								if n.Name == "cPosJrnlSplit" {
									sep = v
								}
								if n.Name == "cPosJrnlVal" {
									val = v
								}
							}
						}
					}
				}
			}
		}
		if sep == "" || val == "" {
			problem("cursor.cPosJrnlSplit / cPosJrnlVal not found")
		}
		l.p("/-- separators of the cursor position text -/")
		l.p("def posJrnlSplit : String := %s", leanStr(sep))
		l.p("def posJrnlVal : String := %s", leanStr(val))

		// --- code shape the models are written for (each is one of the repaired defects) ---------------
		cp := c03LoadPkg("pkg/cursor")
		pp := c03LoadPkg("pkg/partition")
		settles := false
		if fd := cp.method("crsr", "Offset"); fd == nil {
			problem("crsr.Offset not found")
		} else {
			settles = c03OffsetSettles(cp, fd)
		}
		l.p("/-- `crsr.Offset`: the branch of the positive offsets settles with a `Get` before it steps (f673a84) -/")
		l.p("def offsetPositiveBranchSettles : Bool := %s", leanBool(settles))
		drops := false
		if fd := cp.method("fiterator", "SetBackward"); fd == nil {
			problem("fiterator.SetBackward not found")
		} else {
			drops = c03UnconditionalAssign(cp, fd, "valid", "false")
		}
		l.p("/-- `fiterator.SetBackward` unconditionally sets `valid = false` (1a882be) -/")
		l.p("def fiteratorSetBackwardDropsCache : Bool := %s", leanBool(drops))
		keeps := false
		if fd := pp.method("JIterator", "ensureChkIt"); fd == nil {
			problem("partition.JIterator.ensureChkIt not found")
		} else {
			keeps = c03BackwardEofKeepsPos(fd)
		}
		l.p("/-- `partition.JIterator.ensureChkIt`: on EOF the position is taken over only when reading forward (b7773f9) -/")
		l.p("def backwardEofKeepsPos : Bool := %s", leanBool(keeps))
		fromDecision := false
		if fd := pp.method("chkSelector", "getPosForward"); fd == nil {
			problem("chkSelector.getPosForward not found")
		} else if n := len(fd.Body.List); n > 0 {
			if rs, ok := fd.Body.List[n-1].(*ast.ReturnStmt); ok && len(rs.Results) == 4 {
				fromDecision = !strings.Contains(c03Str(rs.Results[2]), "Count()")
			}
		}
		l.p("/-- `chkSelector.getPosForward`: the end-of-data position does not read `Count()` again (53beb1f) -/")
		l.p("def fwdEndPosFromDecisionCount : Bool := %s", leanBool(fromDecision))
		sorts := false
		if fds := cp.funcs["newCursor"]; len(fds) != 1 {
			problem("cursor.newCursor not found")
		} else {
			sorts = c03SortsSources(cp, fds[0])
		}
		l.p("/-- `newCursor` builds the mixer tree over the sources sorted by tag line (f086c95) -/")
		l.p("def newCursorSortsSources : Bool := %s", leanBool(sorts))
		keepsState := false
		if g, r := cp.method("provider", "GetOrCreate"), cp.method("provider", "Release"); g == nil || r == nil {
			problem("provider.GetOrCreate / Release not found")
		} else {
			keepsState = c03EmptyCursorKeepsState(cp, g, r)
		}
		l.p("/-- the empty cursor (no partition matches) is built with the request's Query and Pos and `Release` returns them (a8a4a54) -/")
		l.p("def emptyCursorKeepsState : Bool := %s", leanBool(keepsState))
		drops22 := false
		if fd := cp.method("crsr", "ApplyState"); fd == nil {
			problem("crsr.ApplyState not found")
		} else {
			drops22 = c03DropsBuffers(cp, fd)
		}
		l.p("/-- `crsr.ApplyState`: after a position that differs from the cursor's own was applied, the wrapping iterators are made to forget their buffered event / selection (direction switch there and back; 0706090) -/")
		l.p("def applyStateDropsBuffers : Bool := %s", leanBool(drops22))
		keepsIt := false
		if fd := pp.method("JIterator", "advanceChunk"); fd == nil {
			problem("partition.JIterator.advanceChunk not found")
		} else {
			keepsIt = c03AssignsPosOnEOF(fd)
		}
		l.p("/-- `partition.JIterator.advanceChunk`: when the selector answers end of data the iterator keeps the position its chunk iterator stopped at (proposed repair of F59) -/")
		l.p("def advanceKeepsIteratorPos : Bool := %s", leanBool(keepsIt))
		contZero := true
		for _, q := range [][3]string{{"pkg/backend", "Querier", "Query"}, {"api/rpc", "ServerQuerier", "query"}} {
			pk := c03LoadPkg(q[0])
			fd := pk.method(q[1], q[2])
			if fd == nil {
				problem("%s: %s.%s not found", q[0], q[1], q[2])
				contZero = false
				continue
			}
			ok, found := c03ContinuationOffsetZero(pk, fd)
			if !found {
				problem("%s: %s.%s: the continuation request (writeQueryRequest / NextQueryRequest) was not recognised", q[0], q[1], q[2])
			}
			contZero = contZero && ok
		}
		l.p("/-- both query loops hand back a continuation request (NextQueryRequest) whose Offset is 0: the offset of the served request is applied once -/")
		l.p("def continuationOffsetZero : Bool := %s", leanBool(contZero))
		rechecks := false
		if fd := cp.method("fiterator", "Get"); fd == nil {
			problem("fiterator.Get not found")
		} else {
			rechecks = c03RechecksRange(cp, fd)
		}
		l.p("/-- `fiterator.Get` re-checks every event against both bounds of the time range (windows of the ranged iterator may be wider than the range) -/")
		l.p("def fiteratorRechecksRange : Bool := %s", leanBool(rechecks))
		leaves := false
		if fd := pp.method("JIterator", "Next"); fd == nil {
			problem("partition.JIterator.Next not found")
		} else {
			leaves = c03NextLeavesWindow(pp, fd)
		}
		l.p("/-- `partition.JIterator.Next` leaves the chunk (advanceChunk) when the chunk iterator steps outside [minPos, maxPos] -/")
		l.p("def nextLeavesChunkOutsideWindow : Bool := %s", leanBool(leaves))
		l.write()
	}
	generators["C03"] = gen
}
