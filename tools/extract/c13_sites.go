package main

import (
	"bytes"
	"fmt"
	"go/ast"
	"go/printer"
	"go/token"
	"path/filepath"
	"sort"
	"strconv"
	"strings"
)

// C13, census of the Go-level panic sites of pkg/lql (non-test, non-verif files): every index expression, slice expression,
// single-value type assertion, explicit pointer dereference, explicit panic call, and every method call on an optional (pointer)
// field of a grammar node. Each site is classified by the guard that makes it safe, read STRUCTURALLY from the source:
//
//	len:<k>            a dominating test establishes len(X) >= what the site needs (enclosing if / &&, ||, for condition, or an
//	                   earlier `if … { return }` whose negation holds afterwards)
//	bound              X[i] with a dominating i < len(X)
//	nonnil             *v / v.m() with a dominating v != nil
//	nilsafe-method     x.f.m(): every method named m of the package starts with `if recv == nil { return }` (or does not touch recv)
//	range              the operand is the value variable of a range loop (never out of range)
//	map                map index (never panics on read; the map is made in the same function)
//	contract:<which>   the guard is a documented contract of a library, recognised by the call the operand comes from:
//	                   participle-capture (Capture(values) is called with >= 1 captured token and an allocated receiver),
//	                   regexp-submatch (FindSubmatchIndex: nil or 2*(1+NumSubexp) entries; SubexpNames: 1+NumSubexp entries),
//	                   bytes-count-lastindex (bytes.LastIndex(b, sep) >= 0 when bytes.Count(b, sep) != 0)
//	caller:<what>      the operand is a parameter and every call site in the package establishes the bound before the call
//	unguarded          none of these: the theorem Props.C13.lql_sites_guarded breaks
//
// Output: lean/Logrange/Generated/C13Sites.lean (namespace Logrange.Generated.C13Sites).

type c13Site struct {
	file, fn, kind, expr, guard string
	need                        int // index/slice: the length the operand must have at least (0 = not a constant need)
}

// string constants of the package under census (name -> length), so that len(cPrefix) counts as a literal
var c13ConstLen = map[string]int{}

// c13LitX: an integer literal, or len(C) for a string constant C of the package
func c13LitX(e ast.Expr) (int64, bool) {
	if k, ok := c13Lit(e); ok {
		return k, true
	}
	if ce, ok := c13Unparen(e).(*ast.CallExpr); ok && len(ce.Args) == 1 {
		if id, ok := ce.Fun.(*ast.Ident); ok && id.Name == "len" {
			if a, ok := c13Unparen(ce.Args[0]).(*ast.Ident); ok {
				if n, ok := c13ConstLen[a.Name]; ok {
					return int64(n), true
				}
			}
		}
	}
	return 0, false
}

func c13Src(n ast.Node) string {
	var b bytes.Buffer
	printer.Fprint(&b, fset, n)
	return strings.Join(strings.Fields(b.String()), " ")
}

// facts established when cond is true (pos) or false (!pos)
func c13Facts(cond ast.Expr, pos bool, out map[string]int) {
	cond = c13Unparen(cond)
	switch e := cond.(type) {
	case *ast.UnaryExpr:
		if e.Op == token.NOT {
			c13Facts(e.X, !pos, out)
		}
	case *ast.BinaryExpr:
		switch e.Op {
		case token.LAND:
			if pos {
				c13Facts(e.X, true, out)
				c13Facts(e.Y, true, out)
			}
		case token.LOR:
			if !pos {
				c13Facts(e.X, false, out)
				c13Facts(e.Y, false, out)
			}
		case token.EQL, token.NEQ, token.LSS, token.GTR, token.LEQ, token.GEQ:
			op := e.Op
			x, y := c13Unparen(e.X), c13Unparen(e.Y)
			if !pos {
				op = map[token.Token]token.Token{token.EQL: token.NEQ, token.NEQ: token.EQL, token.LSS: token.GEQ, token.GEQ: token.LSS, token.GTR: token.LEQ, token.LEQ: token.GTR}[op]
			}
			// nil tests
			if id, ok := y.(*ast.Ident); ok && id.Name == "nil" && op == token.NEQ {
				out["nonnil:"+c13Src(x)] = 1
			}
			if id, ok := x.(*ast.Ident); ok && id.Name == "nil" && op == token.NEQ {
				out["nonnil:"+c13Src(y)] = 1
			}
			// len(X) ? n   /   n ? len(X)
			lenOf := func(a ast.Expr) (string, bool) {
				if ce, ok := a.(*ast.CallExpr); ok && len(ce.Args) == 1 {
					if id, ok := ce.Fun.(*ast.Ident); ok && id.Name == "len" {
						if _, isConst := c13LitX(a); isConst {
							return "", false
						}
						return c13Src(ce.Args[0]), true
					}
				}
				return "", false
			}
			set := func(x string, k int64) {
				if k > int64(out["len:"+x]) {
					out["len:"+x] = int(k)
				}
			}
			// v >= 0, v > -1, v != -1 (the result of an Index… call)
			{
				neg1 := func(a ast.Expr) bool {
					if u, ok := a.(*ast.UnaryExpr); ok && u.Op == token.SUB {
						if k, ok := c13Lit(u.X); ok && k == 1 {
							return true
						}
					}
					return false
				}
				if k, ok := c13Lit(y); ok && k == 0 && op == token.GEQ {
					out["nonneg:"+c13Src(x)] = 1
				}
				if neg1(y) && (op == token.GTR || op == token.NEQ) {
					out["nonneg:"+c13Src(x)] = 1
				}
			}
			if lx, ok := lenOf(x); ok {
				if _, isLit := c13LitX(y); !isLit && op == token.GTR {
					out["bound:"+c13Src(y)+"<"+lx] = 1 // len(X) > i
				}
				if n, ok := c13LitX(y); ok {
					switch op {
					case token.GTR:
						set(lx, n+1)
					case token.GEQ, token.EQL:
						set(lx, n)
					case token.NEQ:
						if n == 0 {
							set(lx, 1)
						}
					}
				}
			}
			if ly, ok := lenOf(y); ok {
				if n, ok := c13LitX(x); ok {
					switch op {
					case token.LSS:
						set(ly, n+1)
					case token.LEQ, token.EQL:
						set(ly, n)
					}
				} else if op == token.LSS {
					out["bound:"+c13Src(x)+"<"+ly] = 1 // i < len(X)
				}
			}
		}
	}
}

// ends in return / continue / break / goto / panic: the negation of the condition holds after the if statement
func c13Leaves(b *ast.BlockStmt) bool {
	if b == nil || len(b.List) == 0 {
		return false
	}
	switch s := b.List[len(b.List)-1].(type) {
	case *ast.ReturnStmt:
		return true
	case *ast.BranchStmt:
		return s.Tok != token.FALLTHROUGH
	case *ast.ExprStmt:
		if ce, ok := s.X.(*ast.CallExpr); ok {
			if id, ok := ce.Fun.(*ast.Ident); ok && id.Name == "panic" {
				return true
			}
		}
	}
	return false
}

// c13FactsAt: the facts that hold at node `at` inside function body `body` (path = ancestors from body down to at)
func c13FactsAt(path []ast.Node) map[string]int {
	facts := map[string]int{}
	for i := 0; i+1 < len(path); i++ {
		child := path[i+1]
		switch p := path[i].(type) {
		case *ast.IfStmt:
			if child == ast.Node(p.Body) {
				c13Facts(p.Cond, true, facts)
			} else if p.Else != nil && child == p.Else {
				c13Facts(p.Cond, false, facts)
			}
		case *ast.ForStmt:
			if p.Cond != nil && child == ast.Node(p.Body) {
				c13Facts(p.Cond, true, facts)
			}
		case *ast.BinaryExpr:
			if child == ast.Node(p.Y) {
				if p.Op == token.LAND {
					c13Facts(p.X, true, facts)
				} else if p.Op == token.LOR {
					c13Facts(p.X, false, facts)
				}
			}
		case *ast.BlockStmt:
			for _, st := range p.List {
				if st == child {
					break
				}
				if is, ok := st.(*ast.IfStmt); ok && is.Else == nil && c13Leaves(is.Body) {
					c13Facts(is.Cond, false, facts)
				}
			}
		case *ast.CaseClause:
			if i >= 2 && len(p.List) == 1 {
				if sw, ok := path[i-2].(*ast.SwitchStmt); ok && sw.Tag == nil {
					inBody := false
					for _, st := range p.Body {
						inBody = inBody || st == child
					}
					if inBody {
						c13Facts(p.List[0], true, facts)
					}
				}
			}
			for _, st := range p.Body {
				if st == child {
					break
				}
				if is, ok := st.(*ast.IfStmt); ok && is.Else == nil && c13Leaves(is.Body) {
					c13Facts(is.Cond, false, facts)
				}
			}
		}
	}
	return facts
}

// walk with the ancestor path
func c13WalkPath(root ast.Node, visit func(path []ast.Node)) {
	var path []ast.Node
	ast.Inspect(root, func(n ast.Node) bool {
		if n == nil {
			path = path[:len(path)-1]
			return true
		}
		path = append(path, n)
		visit(path)
		return true
	})
}

func c13RecvName(fd *ast.FuncDecl) (name string, ptr bool, typ string) {
	if fd.Recv == nil || len(fd.Recv.List) != 1 {
		return "", false, ""
	}
	f := fd.Recv.List[0]
	if len(f.Names) == 1 {
		name = f.Names[0].Name
	}
	switch t := f.Type.(type) {
	case *ast.StarExpr:
		ptr = true
		if id, ok := t.X.(*ast.Ident); ok {
			typ = id.Name
		}
	case *ast.Ident:
		typ = t.Name
	}
	return
}

// a pointer-receiver method is nil-safe when it starts with `if recv == nil { return … }`, never mentions its receiver, or uses it
// only as the receiver of calls of methods that are all nil-safe themselves (x.String() { x.makeString(&sb) })
func c13NilSafe(fd *ast.FuncDecl, methods map[string][]*ast.FuncDecl, seen map[*ast.FuncDecl]bool) bool {
	name, ptr, _ := c13RecvName(fd)
	if !ptr {
		return false // value receiver: the call through a nil pointer dereferences it
	}
	if name == "" || name == "_" {
		return true
	}
	if seen[fd] {
		return true
	}
	seen[fd] = true
	if len(fd.Body.List) > 0 {
		if is, ok := fd.Body.List[0].(*ast.IfStmt); ok && is.Init == nil && c13Leaves(is.Body) {
			f := map[string]int{}
			c13Facts(is.Cond, false, f)
			if f["nonnil:"+name] == 1 {
				return true
			}
		}
	}
	ok := true
	c13WalkPath(fd.Body, func(path []ast.Node) {
		id, isId := path[len(path)-1].(*ast.Ident)
		if !isId || id.Name != name {
			return
		}
		// must be X of a selector that is the Fun of a call of a nil-safe method
		if len(path) >= 3 {
			if se, isSel := path[len(path)-2].(*ast.SelectorExpr); isSel && se.X == ast.Expr(id) {
				if ce, isCall := path[len(path)-3].(*ast.CallExpr); isCall && ce.Fun == ast.Expr(se) {
					ms := methods[se.Sel.Name]
					if len(ms) > 0 {
						all := true
						for _, m := range ms {
							all = all && c13NilSafe(m, methods, seen)
						}
						if all {
							return
						}
					}
				}
			}
		}
		ok = false
	})
	return ok
}

// c13RelPattern: see the use; returns the first-byte literal and the case literals of the switch over the last byte
func c13RelPattern(fd *ast.FuncDecl, x string, before token.Pos, byName map[string][]*ast.FuncDecl, localDef map[string]ast.Expr, localN map[string]int) (int, []int, bool) {
	charLit := func(e ast.Expr) (int, bool) {
		if bl, ok := c13Unparen(e).(*ast.BasicLit); ok && bl.Kind == token.CHAR {
			if v, _, _, err := strconv.UnquoteChar(bl.Value[1:len(bl.Value)-1], '\''); err == nil && v < 128 {
				return int(v), true
			}
		}
		return 0, false
	}
	// source text with single-assignment locals expanded (last := len(dt) - 1; dt[last])
	var expand func(e ast.Expr, depth int) string
	expand = func(e ast.Expr, depth int) string {
		switch t := c13Unparen(e).(type) {
		case *ast.Ident:
			if d := localDef[t.Name]; d != nil && localN[t.Name] == 1 && depth < 3 {
				return expand(d, depth+1)
			}
			return t.Name
		case *ast.IndexExpr:
			return expand(t.X, depth) + "[" + expand(t.Index, depth) + "]"
		case *ast.BinaryExpr:
			return expand(t.X, depth) + t.Op.String() + expand(t.Y, depth)
		}
		return strings.Replace(c13Src(e), " ", "", -1)
	}
	lastText := x + "[len(" + x + ")-1]"
	// the cases of a switch over `tag` whose default (or the end of the function, for a helper returning a bool) leaves / says false
	switchDims := func(sw *ast.SwitchStmt, helper bool) ([]int, bool) {
		var dims []int
		good, hasDefault := true, false
		for _, c := range sw.Body.List {
			cc := c.(*ast.CaseClause)
			if cc.List == nil {
				if helper {
					rs, ok := cc.Body[len(cc.Body)-1].(*ast.ReturnStmt)
					hasDefault = ok && len(rs.Results) > 0 && c13Src(rs.Results[len(rs.Results)-1]) == "false"
					good = good && hasDefault
				} else {
					hasDefault = len(cc.Body) > 0 && c13Leaves(&ast.BlockStmt{List: cc.Body})
				}
				continue
			}
			for _, v := range cc.List {
				if d, ok := charLit(v); ok {
					dims = append(dims, d)
				} else {
					good = false
				}
			}
			if helper {
				// every accepted case must say true
				if len(cc.Body) == 0 {
					good = false
					continue
				}
				rs, ok := cc.Body[len(cc.Body)-1].(*ast.ReturnStmt)
				if !ok || len(rs.Results) == 0 || c13Src(rs.Results[len(rs.Results)-1]) != "true" {
					good = false
				}
			}
		}
		return dims, good && (hasDefault || helper)
	}
	first, haveFirst := 0, false
	lastVar := ""
	var dims []int
	haveSwitch := false
	stmts := fd.Body.List
	for si, st := range stmts {
		if st.Pos() >= before {
			break
		}
		switch t := st.(type) {
		case *ast.IfStmt:
			if t.Else != nil || !c13Leaves(t.Body) {
				continue
			}
			f := map[string]int{}
			c13Facts(t.Cond, false, f)
			if f["len:"+x] < 1 {
				continue
			}
			ast.Inspect(t.Cond, func(n ast.Node) bool {
				if be, ok := n.(*ast.BinaryExpr); ok && be.Op == token.NEQ && c13Src(be.X) == x+"[0]" {
					if c, ok := charLit(be.Y); ok {
						first, haveFirst = c, true
					}
				}
				return true
			})
		case *ast.AssignStmt:
			if len(t.Lhs) == 1 && len(t.Rhs) == 1 && expand(t.Rhs[0], 0) == lastText {
				if id, ok := t.Lhs[0].(*ast.Ident); ok {
					lastVar = id.Name
				}
				continue
			}
			// _, ok := helper(lastVar); if !ok { return }  — the helper switches over its parameter
			if len(t.Lhs) == 2 && len(t.Rhs) == 1 && lastVar != "" && si+1 < len(stmts) {
				ce, isCall := t.Rhs[0].(*ast.CallExpr)
				okv, isId := t.Lhs[1].(*ast.Ident)
				if !isCall || !isId || len(ce.Args) != 1 || (c13Src(ce.Args[0]) != lastVar && expand(ce.Args[0], 0) != lastText) {
					continue
				}
				is, isIf := stmts[si+1].(*ast.IfStmt)
				if !isIf || is.Else != nil || !c13Leaves(is.Body) || c13Src(c13Unparen(is.Cond)) != "!"+okv.Name {
					continue
				}
				hs := byName[c13CallName(ce)]
				if len(hs) != 1 || hs[0].Recv != nil || len(hs[0].Type.Params.List) != 1 || len(hs[0].Type.Params.List[0].Names) != 1 {
					continue
				}
				h := hs[0]
				pn := h.Type.Params.List[0].Names[0].Name
				// the helper: a switch over its parameter, then `return …, false`
				if len(h.Body.List) == 0 {
					continue
				}
				endsFalse := false
				if rs, ok := h.Body.List[len(h.Body.List)-1].(*ast.ReturnStmt); ok && len(rs.Results) > 0 && c13Src(rs.Results[len(rs.Results)-1]) == "false" {
					endsFalse = true
				}
				for _, hst := range h.Body.List {
					if sw, ok := hst.(*ast.SwitchStmt); ok && sw.Tag != nil && c13Src(sw.Tag) == pn {
						if d, good := switchDims(sw, true); good && endsFalse {
							dims, haveSwitch = d, true
						}
					}
				}
			}
		case *ast.SwitchStmt:
			if t.Tag == nil || (lastVar == "" || c13Src(t.Tag) != lastVar) && expand(t.Tag, 0) != lastText {
				continue
			}
			if d, good := switchDims(t, false); good {
				dims, haveSwitch = d, true
			}
		}
	}
	if !haveFirst || !haveSwitch {
		return 0, nil, false
	}
	return first, dims, true
}

var (
	relFirst int
	relDims  []int
	relFound bool
)

func c13Sites(l *leanFile) {
	_ = l
	relFirst, relDims, relFound = 0, nil, false
	c13ConstLen = map[string]int{}
	dir := "pkg/lql"
	files, _ := filepath.Glob(filepath.Join(repo, dir, "*.go"))
	sort.Strings(files)
	var sites []c13Site
	methods := map[string][]*ast.FuncDecl{} // by bare name
	var all []*ast.FuncDecl
	fileOf := map[*ast.FuncDecl]string{}
	var parsed []*ast.File
	ptrFields := map[string]bool{} // field names of the package's struct types that are pointers (optional grammar nodes)
	for _, fn := range files {
		if strings.HasSuffix(fn, "_test.go") || strings.HasSuffix(fn, "_verif.go") {
			continue
		}
		rel, _ := filepath.Rel(repo, fn)
		f := parseFile(rel)
		if f == nil {
			continue
		}
		parsed = append(parsed, f)
		for _, d := range f.Decls {
			if gd, ok := d.(*ast.GenDecl); ok && gd.Tok == token.CONST {
				for _, sp := range gd.Specs {
					if vs, ok := sp.(*ast.ValueSpec); ok {
						for i, nm := range vs.Names {
							if i < len(vs.Values) {
								if bl, ok := vs.Values[i].(*ast.BasicLit); ok && bl.Kind == token.STRING {
									if v, err := strconv.Unquote(bl.Value); err == nil {
										c13ConstLen[nm.Name] = len(v)
									}
								}
							}
						}
					}
				}
			}
		}
		ast.Inspect(f, func(n ast.Node) bool {
			if st, ok := n.(*ast.StructType); ok {
				for _, fl := range st.Fields.List {
					if _, ok := fl.Type.(*ast.StarExpr); ok {
						for _, nm := range fl.Names {
							ptrFields[nm.Name] = true
						}
					}
				}
			}
			return true
		})
		for _, d := range f.Decls {
			if fd, ok := d.(*ast.FuncDecl); ok && fd.Body != nil {
				all = append(all, fd)
				fileOf[fd] = filepath.Base(rel)
				if fd.Recv != nil {
					methods[fd.Name.Name] = append(methods[fd.Name.Name], fd)
				}
			}
		}
	}
	if len(all) == 0 {
		problem("pkg/lql: no function found — the census of panic sites cannot be made")
		return
	}
	byName := map[string][]*ast.FuncDecl{}
	for _, fd := range all {
		byName[fd.Name.Name] = append(byName[fd.Name.Name], fd)
	}

	for _, fd := range all {
		fname := fd.Name.Name
		recvName, _, recvT := c13RecvName(fd)
		if recvT != "" {
			fname = recvT + "." + fname
		}
		isCapture := fd.Name.Name == "Capture" && fd.Recv != nil && len(fd.Type.Params.List) == 1
		captureParam := ""
		if isCapture && len(fd.Type.Params.List[0].Names) == 1 {
			captureParam = fd.Type.Params.List[0].Names[0].Name
		}
		params := map[string]int{}
		pi := 0
		for _, p := range fd.Type.Params.List {
			for _, nm := range p.Names {
				params[nm.Name] = pi
				pi++
			}
		}
		// local knowledge: range value variables, maps made here, variables holding library results
		rangeVars, mapVars, submatchVars, lowerOf := map[string]bool{}, map[string]bool{}, map[string]bool{}, map[string]string{}
		localDef, localN := map[string]ast.Expr{}, map[string]int{}     // locals assigned exactly once: expanded in index / slice bounds
		rangeKeyOf, indexOf := map[string]string{}, map[string]string{} // i of `for i := range X`; v of `v := strings.Index…(X, …)`
		ast.Inspect(fd.Body, func(n ast.Node) bool {
			switch s := n.(type) {
			case *ast.RangeStmt:
				if id, ok := s.Value.(*ast.Ident); ok {
					rangeVars[id.Name] = true
				}
				if id, ok := s.Key.(*ast.Ident); ok && id.Name != "_" {
					rangeKeyOf[id.Name] = c13Src(s.X)
				}
			case *ast.AssignStmt:
				if len(s.Lhs) == len(s.Rhs) {
					for i, l := range s.Lhs {
						if id, ok := l.(*ast.Ident); ok {
							localDef[id.Name] = s.Rhs[i]
							localN[id.Name]++
						}
					}
				} else {
					for _, l := range s.Lhs {
						if id, ok := l.(*ast.Ident); ok {
							localN[id.Name] += 2
						}
					}
				}
				if len(s.Lhs) == 1 && len(s.Rhs) == 1 {
					id, ok := s.Lhs[0].(*ast.Ident)
					if !ok {
						break
					}
					switch r := s.Rhs[0].(type) {
					case *ast.CompositeLit:
						if _, ok := r.Type.(*ast.MapType); ok {
							mapVars[id.Name] = true
						}
					case *ast.CallExpr:
						switch c13CallName(r) {
						case "FindSubmatchIndex", "FindStringSubmatchIndex":
							submatchVars[id.Name] = true
						case "Index", "IndexByte", "IndexRune", "IndexAny", "LastIndex", "LastIndexByte", "LastIndexAny", "IndexFunc":
							if len(r.Args) >= 1 {
								indexOf[id.Name] = c13Src(r.Args[0])
							}
						case "ToLower", "ToUpper":
							if len(r.Args) == 1 {
								lowerOf[id.Name] = c13Src(r.Args[0])
							}
						case "make":
							if len(r.Args) > 0 {
								if _, ok := r.Args[0].(*ast.MapType); ok {
									mapVars[id.Name] = true
								}
							}
						}
					}
				}
			}
			return true
		})

		add := func(kind string, n ast.Node, guard string, need int) {
			sites = append(sites, c13Site{fileOf[fd], fname, kind, c13Src(n), guard, need})
		}
		// need of an index / slice bound expression relative to operand text x: constant k -> k(+1); len(x)-c -> c
		var needOf func(e ast.Expr, x string, isIndex bool) (int, bool)
		needOf = func(e ast.Expr, x string, isIndex bool) (int, bool) {
			if e == nil {
				return 0, true
			}
			if id, ok := c13Unparen(e).(*ast.Ident); ok && localN[id.Name] == 1 && localDef[id.Name] != nil {
				if _, self := c13Unparen(localDef[id.Name]).(*ast.Ident); !self {
					return needOf(localDef[id.Name], x, isIndex)
				}
			}
			if k, ok := c13LitX(e); ok && k >= 0 {
				if isIndex {
					return int(k) + 1, true
				}
				return int(k), true
			}
			if be, ok := c13Unparen(e).(*ast.BinaryExpr); ok && be.Op == token.SUB {
				if c, ok := c13Lit(be.Y); ok && c >= 0 && c13Src(be.X) == "len("+x+")" {
					return int(c), true
				}
			}
			return 0, false
		}
		callerChecks := func(param string, need int) string {
			// every call site of this function in the package establishes len(arg) >= need, directly or on a lower/upper-cased copy
			idx, ok := params[param]
			if !ok {
				return ""
			}
			n, good, viaCopy := 0, 0, false
			for _, caller := range all {
				c13WalkPath(caller.Body, func(path []ast.Node) {
					ce, ok := path[len(path)-1].(*ast.CallExpr)
					if !ok || c13CallName(ce) != fd.Name.Name || idx >= len(ce.Args) {
						return
					}
					n++
					facts := c13FactsAt(path)
					arg := c13Src(ce.Args[idx])
					if facts["len:"+arg] >= need {
						good++
						return
					}
					// a variable v := strings.ToLower(arg) with len(v) >= need
					found := false
					ast.Inspect(caller.Body, func(m ast.Node) bool {
						if as, ok := m.(*ast.AssignStmt); ok && len(as.Lhs) == 1 && len(as.Rhs) == 1 && as.Pos() < ce.Pos() {
							if id, ok := as.Lhs[0].(*ast.Ident); ok {
								if r, ok := as.Rhs[0].(*ast.CallExpr); ok && (c13CallName(r) == "ToLower" || c13CallName(r) == "ToUpper") && len(r.Args) == 1 && c13Src(r.Args[0]) == arg {
									if facts["len:"+id.Name] >= need {
										found = true
									}
								}
							}
						}
						return true
					})
					if found {
						good++
						viaCopy = true
					}
				})
			}
			if n > 0 && good == n {
				if viaCopy {
					return fmt.Sprintf("caller:len>=%d on a case-folded copy (identifiers are ASCII: lexer classes)", need)
				}
				return fmt.Sprintf("caller:len>=%d", need)
			}
			return ""
		}

		c13WalkPath(fd.Body, func(path []ast.Node) {
			n := path[len(path)-1]
			switch e := n.(type) {
			case *ast.IndexExpr:
				x := c13Src(e.X)
				// map?
				if id, ok := e.X.(*ast.Ident); ok && mapVars[id.Name] {
					add("index", e, "map", 0)
					return
				}
				if ce, ok := e.X.(*ast.CallExpr); ok && c13CallName(ce) == "Symbols" {
					add("index", e, "map", 0)
					return
				}
				if se, ok := e.X.(*ast.SelectorExpr); ok && (se.Sel.Name == "tags" || se.Sel.Name == "symbols") {
					add("index", e, "map", 0)
					return
				}
				facts := c13FactsAt(path)
				if isCapture && x == captureParam {
					if k, ok := c13Lit(e.Index); ok && k == 0 {
						add("index", e, "contract:participle-capture", 1)
						return
					}
				}
				if need, ok := needOf(e.Index, x, true); ok {
					if facts["len:"+x] >= need {
						add("index", e, "len:"+strconv.Itoa(need), need)
						return
					}
					if id, ok := e.X.(*ast.Ident); ok && submatchVars[id.Name] && facts["nonnil:"+x] == 1 && need <= 2 {
						add("index", e, "contract:regexp-submatch", need)
						return
					}
					if g := callerChecks(x, need); g != "" {
						add("index", e, g, need)
						return
					}
				}
				// X[i] with i < len(X); names[i/2] with i < len(matches) (regexp: len(matches) = 2*len(names))
				if facts["bound:"+c13Src(e.Index)+"<"+x] == 1 {
					add("index", e, "bound", 0)
					return
				}
				if id, ok := c13Unparen(e.Index).(*ast.Ident); ok {
					if rangeKeyOf[id.Name] == x {
						add("index", e, "bound (range key)", 0)
						return
					}
					if indexOf[id.Name] == x && facts["nonneg:"+id.Name] == 1 {
						add("index", e, "bound (Index result >= 0)", 0)
						return
					}
				}
				if be, ok := c13Unparen(e.Index).(*ast.BinaryExpr); ok && be.Op == token.QUO {
					if d, ok := c13Lit(be.Y); ok && d == 2 {
						for k := range facts {
							if strings.HasPrefix(k, "bound:"+c13Src(be.X)+"<") && submatchVars[strings.TrimPrefix(k, "bound:"+c13Src(be.X)+"<")] {
								add("index", e, "contract:regexp-submatch", 0)
								return
							}
						}
					}
				}
				add("index", e, "unguarded", 0)
			case *ast.SliceExpr:
				x := c13Src(e.X)
				facts := c13FactsAt(path)
				if ce, ok := e.X.(*ast.CallExpr); ok && c13CallName(ce) == "SubexpNames" {
					add("slice", e, "contract:regexp-submatch", 1)
					return
				}
				lo, ok1 := needOf(e.Low, x, false)
				hi, ok2 := needOf(e.High, x, false)
				if ok1 && ok2 {
					need := lo
					// X[a:len(X)-c] needs a <= len-c, i.e. len >= a+c ; X[a:b] with constant b needs len >= b >= a
					if e.High != nil {
						if _, isConst := c13Lit(e.High); isConst {
							need = hi
							if lo > hi {
								add("slice", e, "unguarded", 0)
								return
							}
						} else {
							need = lo + hi
						}
					}
					if facts["len:"+x] >= need {
						add("slice", e, "len:"+strconv.Itoa(need), need)
						return
					}
					if g := callerChecks(x, need); g != "" {
						add("slice", e, g, need)
						return
					}
				}
				// X[:v] / X[v:] / X[v+1:] where v := Index…(X, …) and v >= 0 holds
				{
					idxBound := func(b ast.Expr) bool {
						if b == nil {
							return true
						}
						b = c13Unparen(b)
						if be, ok := b.(*ast.BinaryExpr); ok && be.Op == token.ADD {
							if k, ok := c13Lit(be.Y); ok && k == 1 {
								b = c13Unparen(be.X)
							}
						}
						id, ok := b.(*ast.Ident)
						return ok && indexOf[id.Name] == x && facts["nonneg:"+id.Name] == 1
					}
					if (e.Low != nil || e.High != nil) && idxBound(e.Low) && idxBound(e.High) && (e.Low == nil || e.High == nil) {
						add("slice", e, "bound (Index result >= 0)", 0)
						return
					}
				}
				// X[:m[1]] / X[m[1]:] where m is a submatch index vector of X's own match (regexp contract: 0 <= m[1] <= len(X))
				sub := func(b ast.Expr) bool {
					if b == nil {
						return true
					}
					if ie, ok := b.(*ast.IndexExpr); ok {
						if id, ok := ie.X.(*ast.Ident); ok && submatchVars[id.Name] && facts["nonnil:"+id.Name] == 1 {
							return true
						}
					}
					return false
				}
				if (e.Low != nil || e.High != nil) && sub(e.Low) && sub(e.High) {
					add("slice", e, "contract:regexp-submatch", 0)
					return
				}
				// match[bytes.LastIndex(match, sep):] under lines != 0 where lines = bytes.Count(match, sep)
				if ce, ok := e.Low.(*ast.CallExpr); ok && e.High == nil && c13CallName(ce) == "LastIndex" && len(ce.Args) == 2 && c13Src(ce.Args[0]) == x {
					inElse := false
					for i := 0; i+1 < len(path); i++ {
						if is, ok := path[i].(*ast.IfStmt); ok && is.Else != nil && path[i+1] == is.Else {
							if be, ok := c13Unparen(is.Cond).(*ast.BinaryExpr); ok && be.Op == token.EQL {
								if z, ok := c13Lit(be.Y); ok && z == 0 {
									inElse = true
								}
							}
						}
					}
					if inElse {
						add("slice", e, "contract:bytes-count-lastindex (LastIndex >= 0 when Count != 0)", 0)
						return
					}
				}
				// X[1:len(X)-1] after `if len(X) == 0 || X[0] != c0 { return }` and `switch X[len(X)-1] { case c…: … default: return }`
				// with c0 not among the cases: the last byte is not the first one, so len(X) >= 2 (Props.C13.rel_datetime_total)
				if ok1 && ok2 && lo == 1 && hi == 1 {
					if c0, dims, ok := c13RelPattern(fd, x, e.Pos(), byName, localDef, localN); ok {
						relFirst, relDims, relFound = c0, dims, true
						add("slice", e, "model:rel-datetime", 2)
						return
					}
				}
				add("slice", e, "unguarded", 0)
			case *ast.TypeAssertExpr:
				if e.Type == nil {
					return // type switch
				}
				// the two-value form never panics
				if len(path) >= 2 {
					if as, ok := path[len(path)-2].(*ast.AssignStmt); ok && len(as.Lhs) == 2 && len(as.Rhs) == 1 {
						return
					}
					if vs, ok := path[len(path)-2].(*ast.ValueSpec); ok && len(vs.Names) == 2 {
						return
					}
				}
				add("type-assertion", e, "unguarded", 0)
			case *ast.StarExpr:
				// only dereferences in expression position: skip types (receiver, params, conversions are types syntactically: parent decides)
				if len(path) >= 2 {
					switch p := path[len(path)-2].(type) {
					case *ast.Field, *ast.ValueSpec, *ast.ArrayType, *ast.MapType, *ast.CompositeLit, *ast.TypeAssertExpr, *ast.FuncType, *ast.StarExpr:
						return
					case *ast.CallExpr:
						if p.Fun == ast.Expr(e) {
							return // conversion (*T)(x)
						}
					}
				}
				v := c13Src(e.X)
				facts := c13FactsAt(path)
				switch {
				case facts["nonnil:"+v] == 1:
					add("deref", e, "nonnil", 0)
				case isCapture && v == recvName:
					add("deref", e, "contract:participle-capture", 0)
				default:
					add("deref", e, "unguarded", 0)
				}
			case *ast.CallExpr:
				if id, ok := e.Fun.(*ast.Ident); ok && id.Name == "panic" {
					add("panic-call", e, "unguarded", 0)
					return
				}
				// x.f.m(...) where f is an optional (pointer) field and m a method of this package
				se, ok := e.Fun.(*ast.SelectorExpr)
				if !ok {
					return
				}
				inner, ok := se.X.(*ast.SelectorExpr)
				if !ok || !ptrFields[inner.Sel.Name] {
					return
				}
				ms := methods[se.Sel.Name]
				if len(ms) == 0 {
					return
				}
				facts := c13FactsAt(path)
				if facts["nonnil:"+c13Src(inner)] == 1 {
					add("call-on-optional", e.Fun, "nonnil", 0)
					return
				}
				safe := true
				for _, m := range ms {
					safe = safe && c13NilSafe(m, methods, map[*ast.FuncDecl]bool{})
				}
				if safe {
					add("call-on-optional", e.Fun, "nilsafe-method", 0)
				} else {
					add("call-on-optional", e.Fun, "unguarded", 0)
				}
			}
		})
	}
	sites = append(sites, c13ImplicitDerefs(parsed, all, fileOf)...)
	if len(sites) == 0 {
		problem("pkg/lql: the census found no index / slice / dereference site at all — the walker no longer understands the package")
	}
	// one entry per distinct (file, function, kind, expression, guard)
	{
		seen := map[c13Site]bool{}
		var u []c13Site
		for _, s := range sites {
			if !seen[s] {
				seen[s] = true
				u = append(u, s)
			}
		}
		sites = u
	}
	sort.SliceStable(sites, func(i, j int) bool {
		if sites[i].file != sites[j].file {
			return sites[i].file < sites[j].file
		}
		return sites[i].fn < sites[j].fn
	})
	out := newLean("C13Sites", "Census of the Go-level panic sites of pkg/lql (index, slice, single-value type assertion, explicit dereference, panic call,\nmethod call on an optional grammar node) with the guard the extractor read for each (tools/extract/c13_sites.go).")
	out.p("structure Site where")
	out.p("  file : String")
	out.p("  fn : String")
	out.p("  kind : String")
	out.p("  expr : String")
	out.p("  guard : String")
	out.p("  need : Nat")
	out.p("  /-- the guard class as a number: 0 unguarded, 1 len, 2 bound, 3 nonnil, 4 nilsafe-method, 5 range, 6 map, 7 contract (library), 8 caller, 9 model, 10 fresh, 11 slice-element, 12 grammar (participle), 13 param -/")
	out.p("  code : Nat")
	out.p("  deriving Repr, DecidableEq")
	out.p("")
	out.p("def sites : List Site := [")
	for i, s := range sites {
		sep := ","
		if i == len(sites)-1 {
			sep = ""
		}
		code := 0
		for k, pfx := range []string{"unguarded", "len:", "bound", "nonnil", "nilsafe-method", "range", "map", "contract:", "caller:", "model:", "fresh", "slice-element", "grammar:", "param:"} {
			if strings.HasPrefix(s.guard, pfx) {
				code = k
			}
		}
		out.p("  ⟨%s, %s, %s, %s, %s, %d, %d⟩%s", leanStr(s.file), leanStr(s.fn), leanStr(s.kind), leanStr(s.expr), leanStr(s.guard), s.need, code, sep)
	}
	out.p("]")
	ung := 0
	for _, s := range sites {
		if s.guard == "unguarded" {
			ung++
		}
	}
	ds := make([]string, len(relDims))
	for i, d := range relDims {
		ds[i] = strconv.Itoa(d)
	}
	out.p("/-- parseRalativeDateTime: the shape `if len(dt) == 0 || dt[0] != c0 {return}; switch dt[len(dt)-1] {case dims…; default: return}` was found before dt[1:len(dt)-1] -/")
	out.p("def relDateShape : Bool := %s", leanBool(relFound))
	out.p("/-- the byte the text must start with -/")
	out.p("def relDateFirst : Nat := %d", relFirst)
	out.p("/-- the bytes the switch over the last byte accepts -/")
	out.p("def relDateDims : List Nat := [%s]", strings.Join(ds, ", "))
	out.p("/-- the number of sites for which no guard was recognised -/")
	out.p("def unguarded : Nat := %d", ung)
	out.write()
}
