package main

import (
	"go/ast"
	"go/token"
)

// C06: the create branch of tindex.getOrCreateJournal — where `smap` is written relative to the index save and what the
// failure path of the save rolls back. Found by structure: the `if err != nil { … }` that directly follows the statement
// calling saveStateUnsafe() inside getOrCreateJournal; map writes `ims.smap[…] = …`, deletes `delete(ims.tmap|smap, …)`.
func init() {
	generators["C06"] = func() {
		l := newLean("C06", "Facts about pkg/tindex/inmem.go: getOrCreateJournal's create branch (order of the smap registration and the\nindex save, roll-back on a failed save).")
		f := parseFile("pkg/tindex/inmem.go")
		fd := funcDecl(f, "inmemService", "getOrCreateJournal")
		before, delT, delS := true, true, true // pinned values, kept when the code is not found
		if fd == nil {
			problem("tindex.inmemService.getOrCreateJournal not found")
		} else {
			savePos, failBlock := token.NoPos, (*ast.BlockStmt)(nil)
			var smapWrites []token.Pos
			isSaveCall := func(n ast.Node) bool {
				found := false
				ast.Inspect(n, func(m ast.Node) bool {
					if ce, ok := m.(*ast.CallExpr); ok {
						if se, ok := ce.Fun.(*ast.SelectorExpr); ok && se.Sel.Name == "saveStateUnsafe" {
							found = true
						}
					}
					return !found
				})
				return found
			}
			mapName := func(e ast.Expr) string { // ims.smap[...] → "smap"
				if ix, ok := e.(*ast.IndexExpr); ok {
					if se, ok := ix.X.(*ast.SelectorExpr); ok {
						return se.Sel.Name
					}
				}
				return ""
			}
			ast.Inspect(fd.Body, func(n ast.Node) bool {
				switch x := n.(type) {
				case *ast.BlockStmt:
					for i, s := range x.List {
						if _, isIf := s.(*ast.IfStmt); isIf {
							// `if err := ims.saveStateUnsafe(); err != nil { … }`
							is := s.(*ast.IfStmt)
							if is.Init != nil && isSaveCall(is.Init) && savePos == token.NoPos {
								savePos, failBlock = is.Pos(), is.Body
							}
							continue
						}
						_, isAssign := s.(*ast.AssignStmt)
						_, isExpr := s.(*ast.ExprStmt)
						if (isAssign || isExpr) && isSaveCall(s) && savePos == token.NoPos {
							savePos = s.Pos()
							if i+1 < len(x.List) {
								if is, ok := x.List[i+1].(*ast.IfStmt); ok {
									failBlock = is.Body
								}
							}
						}
					}
				case *ast.AssignStmt:
					for _, lhs := range x.Lhs {
						if mapName(lhs) == "smap" {
							smapWrites = append(smapWrites, x.Pos())
						}
					}
				}
				return true
			})
			if savePos == token.NoPos || len(smapWrites) == 0 {
				problem("tindex.getOrCreateJournal: the call of saveStateUnsafe() or the smap registration was not found (pinned facts kept)")
			} else {
				before = false
				for _, p := range smapWrites {
					if p < savePos {
						before = true
					}
				}
				delT, delS = false, false
				if failBlock != nil {
					ast.Inspect(failBlock, func(n ast.Node) bool {
						if ce, ok := n.(*ast.CallExpr); ok && len(ce.Args) == 2 {
							if id, ok := ce.Fun.(*ast.Ident); ok && id.Name == "delete" {
								if se, ok := ce.Args[0].(*ast.SelectorExpr); ok {
									switch se.Sel.Name {
									case "tmap":
										delT = true
									case "smap":
										delS = true
									}
								}
							}
						}
						return true
					})
				}
			}
		}
		l.p("/-- `ims.smap[td.Src] = td` stands before the call of `saveStateUnsafe()` in the create branch -/")
		l.p("def smapBeforeSave : Bool := %s", leanBool(before))
		l.p("/-- the failure path of the save contains `delete(ims.tmap, …)` -/")
		l.p("def saveFailureDeletesTmap : Bool := %s", leanBool(delT))
		l.p("/-- the failure path of the save contains `delete(ims.smap, …)` -/")
		l.p("def saveFailureDeletesSmap : Bool := %s", leanBool(delS))
		l.write()
	}
}
