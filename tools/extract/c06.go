package main

import (
	"bytes"
	"go/ast"
	"go/printer"
	"go/token"
	"sort"
	"strconv"
	"strings"
)

// c06Expr prints an expression after replacing every identifier that the function defines exactly once by `x := e`
// (single left-hand side) with that e — so that `key := tgs.Line(); delete(m, key)` and `delete(m, tgs.Line())` compare equal
func c06Expr(e ast.Expr, defs map[string]ast.Expr, depth int) string {
	if id, ok := e.(*ast.Ident); ok && depth < 4 {
		if d, ok := defs[id.Name]; ok && d != nil {
			return c06Expr(d, defs, depth+1)
		}
	}
	var b bytes.Buffer
	printer.Fprint(&b, token.NewFileSet(), e)
	return b.String()
}

// c06Defs: identifiers assigned exactly once in fd, by a `:=` or `=` with one left-hand side (nil = assigned more than once)
func c06Defs(fd *ast.FuncDecl) map[string]ast.Expr {
	defs := map[string]ast.Expr{}
	ast.Inspect(fd.Body, func(n ast.Node) bool {
		if as, ok := n.(*ast.AssignStmt); ok {
			for i, lhs := range as.Lhs {
				if id, ok := lhs.(*ast.Ident); ok && id.Name != "_" {
					if _, seen := defs[id.Name]; seen || len(as.Lhs) != 1 || len(as.Rhs) != 1 {
						defs[id.Name] = nil
					} else {
						defs[id.Name] = as.Rhs[i]
					}
				}
			}
		}
		return true
	})
	return defs
}

// c06ReparseGuard: is there, in getOrCreateJournal between the first and the second read of ims.tmap, an
// `if !x.M() { … return … }` where M is a method of tag.Set whose body calls kvstring.ToMap and kvstring.MapsEquals
// (proposed-fixes/F08r.diff)?
func c06ReparseGuard(fd *ast.FuncDecl) bool {
	tagf := parseFile("pkg/model/tag/tags.go")
	isReparse := func(name string) bool {
		if tagf == nil {
			return false
		}
		m := funcDecl(tagf, "Set", name)
		if m == nil || m.Body == nil {
			return false
		}
		toMap, eq := false, false
		ast.Inspect(m.Body, func(n ast.Node) bool {
			if ce, ok := n.(*ast.CallExpr); ok {
				if se, ok := ce.Fun.(*ast.SelectorExpr); ok {
					switch se.Sel.Name {
					case "ToMap":
						toMap = true
					case "MapsEquals":
						eq = true
					}
				}
			}
			return true
		})
		return toMap && eq
	}
	var reads []token.Pos
	ast.Inspect(fd.Body, func(n ast.Node) bool {
		if ix, ok := n.(*ast.IndexExpr); ok {
			if se, ok := ix.X.(*ast.SelectorExpr); ok && se.Sel.Name == "tmap" {
				reads = append(reads, ix.Pos())
			}
		}
		return true
	})
	found := false
	ast.Inspect(fd.Body, func(n ast.Node) bool {
		is, ok := n.(*ast.IfStmt)
		if !ok || is.Init != nil {
			return true
		}
		ue, ok := is.Cond.(*ast.UnaryExpr)
		if !ok || ue.Op != token.NOT {
			return true
		}
		ce, ok := ue.X.(*ast.CallExpr)
		if !ok || len(ce.Args) != 0 {
			return true
		}
		se, ok := ce.Fun.(*ast.SelectorExpr)
		if !ok || !isReparse(se.Sel.Name) {
			return true
		}
		returns := false
		for _, st := range is.Body.List {
			if _, ok := st.(*ast.ReturnStmt); ok {
				returns = true
			}
		}
		if returns && len(reads) >= 2 && is.Pos() > reads[0] && is.Pos() < reads[1] {
			found = true
		}
		return true
	})
	return found
}

// c06Utf8Guard: fix a7918dd — in getOrCreateJournal, between the first and the second read of ims.tmap, an
// `if <bool parameter> && !utf8.ValidString(<…>.Line()…) { … return … }`. Returns (found, onlyOnCreate): onlyOnCreate = the
// condition is the conjunction with a bool parameter of the function (the `create` flag); a guard of another shape is a problem.
func c06Utf8Guard(fd *ast.FuncDecl) (bool, bool) {
	boolParams := map[string]bool{}
	if fd.Type.Params != nil {
		for _, fl := range fd.Type.Params.List {
			if id, ok := fl.Type.(*ast.Ident); ok && id.Name == "bool" {
				for _, n := range fl.Names {
					boolParams[n.Name] = true
				}
			}
		}
	}
	var reads []token.Pos
	ast.Inspect(fd.Body, func(n ast.Node) bool {
		if ix, ok := n.(*ast.IndexExpr); ok {
			if se, ok := ix.X.(*ast.SelectorExpr); ok && se.Sel.Name == "tmap" {
				reads = append(reads, ix.Pos())
			}
		}
		return true
	})
	isNotValid := func(e ast.Expr) bool {
		ue, ok := e.(*ast.UnaryExpr)
		if !ok || ue.Op != token.NOT {
			return false
		}
		ce, ok := ue.X.(*ast.CallExpr)
		if !ok || len(ce.Args) != 1 {
			return false
		}
		se, ok := ce.Fun.(*ast.SelectorExpr)
		if !ok || (se.Sel.Name != "ValidString" && se.Sel.Name != "Valid") {
			return false
		}
		// the argument mentions the canonical line: a call of a method named Line somewhere inside
		hasLine := false
		ast.Inspect(ce.Args[0], func(n ast.Node) bool {
			if c2, ok := n.(*ast.CallExpr); ok {
				if s2, ok := c2.Fun.(*ast.SelectorExpr); ok && s2.Sel.Name == "Line" {
					hasLine = true
				}
			}
			return true
		})
		return hasLine
	}
	found, onCreate := false, false
	ast.Inspect(fd.Body, func(n ast.Node) bool {
		is, ok := n.(*ast.IfStmt)
		if !ok || is.Init != nil || len(reads) < 2 || is.Pos() < reads[0] || is.Pos() > reads[1] {
			return true
		}
		returns := false
		for _, st := range is.Body.List {
			if _, ok := st.(*ast.ReturnStmt); ok {
				returns = true
			}
		}
		if !returns {
			return true
		}
		if isNotValid(is.Cond) {
			found, onCreate = true, false
			return true
		}
		if be, ok := is.Cond.(*ast.BinaryExpr); ok && be.Op == token.LAND {
			for _, pr := range [][2]ast.Expr{{be.X, be.Y}, {be.Y, be.X}} {
				if id, ok := pr[0].(*ast.Ident); ok && boolParams[id.Name] && isNotValid(pr[1]) {
					found, onCreate = true, true
				}
			}
		}
		return true
	})
	return found, onCreate
}

// c06VisitorError: pkg/partition Service.GetJournals — the closure handed to TIndex.Visit reports its failures ("could not open
// the journal", "Limit exceeds") through a variable of the enclosing function that is tested after the visit. True iff some
// variable tested `!= nil` after the Visit call is assigned (`=`) inside the closure and the closure does not re-declare
// (`:=`) any of the tested names (a shadowed error variable lets GetJournals return the partitions collected so far as if
// they were all).
func c06VisitorError() bool {
	f := parseFile("pkg/partition/partition.go")
	if f == nil {
		problem("pkg/partition/partition.go not found")
		return true
	}
	fd := funcDecl(f, "Service", "GetJournals")
	if fd == nil {
		problem("partition.Service.GetJournals not found")
		return true
	}
	var lit *ast.FuncLit
	visitEnd := token.NoPos
	ast.Inspect(fd.Body, func(n ast.Node) bool {
		if ce, ok := n.(*ast.CallExpr); ok && lit == nil {
			if se, ok := ce.Fun.(*ast.SelectorExpr); ok && se.Sel.Name == "Visit" {
				for _, a := range ce.Args {
					if fl, ok := a.(*ast.FuncLit); ok {
						lit, visitEnd = fl, ce.End()
					}
				}
			}
		}
		return true
	})
	if lit == nil {
		problem("partition.Service.GetJournals: the visitor closure handed to Visit was not found (pinned fact kept)")
		return true
	}
	tested := map[string]bool{} // names compared with nil after the visit
	ast.Inspect(fd.Body, func(n ast.Node) bool {
		if be, ok := n.(*ast.BinaryExpr); ok && be.Pos() > visitEnd && be.Op == token.NEQ {
			if id, ok := be.X.(*ast.Ident); ok {
				if y, ok := be.Y.(*ast.Ident); ok && y.Name == "nil" {
					tested[id.Name] = true
				}
			}
		}
		return true
	})
	assigned, shadowed := false, false
	ast.Inspect(lit.Body, func(n ast.Node) bool {
		if as, ok := n.(*ast.AssignStmt); ok {
			for _, lhs := range as.Lhs {
				if id, ok := lhs.(*ast.Ident); ok && tested[id.Name] {
					if as.Tok == token.DEFINE {
						shadowed = true
					} else {
						assigned = true
					}
				}
			}
		}
		return true
	})
	if !assigned && !shadowed {
		problem("partition.Service.GetJournals: the closure assigns no variable that is tested after the visit (pinned fact kept)")
		return true
	}
	return assigned && !shadowed
}

// c06ApplyStateChecksQuery: pkg/cursor crsr.ApplyState refuses a state whose Query differs from the cursor's: some `if` whose
// condition contains `<x>.Query != <y>.Query` and whose body returns (provider.GetOrCreate relies on it to reject a cached
// cursor that belongs to another query).
func c06ApplyStateChecksQuery() bool {
	f := parseFile("pkg/cursor/cursor.go")
	if f == nil {
		problem("pkg/cursor/cursor.go not found")
		return true
	}
	fd := funcDecl(f, "crsr", "ApplyState")
	if fd == nil || fd.Body == nil {
		problem("cursor.crsr.ApplyState not found")
		return true
	}
	found := false
	ast.Inspect(fd.Body, func(n ast.Node) bool {
		is, ok := n.(*ast.IfStmt)
		if !ok {
			return true
		}
		returns := false
		for _, st := range is.Body.List {
			if _, ok := st.(*ast.ReturnStmt); ok {
				returns = true
			}
		}
		if !returns {
			return true
		}
		ast.Inspect(is.Cond, func(m ast.Node) bool {
			if be, ok := m.(*ast.BinaryExpr); ok && be.Op == token.NEQ {
				sx, ok1 := be.X.(*ast.SelectorExpr)
				sy, ok2 := be.Y.(*ast.SelectorExpr)
				if ok1 && ok2 && sx.Sel.Name == "Query" && sy.Sel.Name == "Query" {
					found = true
				}
			}
			return true
		})
		return true
	})
	return found
}

// c06IdSeed: pkg/utils/simpleid.go — how the id counter is seeded in init() and advanced in NextSimpleId():
// clock method of time.Now() (UnixNano / Unix / …), the mask applied (0 = none), a left shift (0 = none), the increment.
func c06IdSeed() (clock string, mask, shift, inc uint64) {
	clock, mask, shift, inc = "UnixNano", 0xFFFFFFFFFFFF0000, 0, 0x10000 // pinned, kept when the code is not found
	f := parseFile("pkg/utils/simpleid.go")
	if f == nil {
		problem("pkg/utils/simpleid.go not found")
		return
	}
	lit := func(e ast.Expr) (uint64, bool) {
		if bl, ok := e.(*ast.BasicLit); ok && bl.Kind == token.INT {
			v, err := strconv.ParseUint(bl.Value, 0, 64)
			return v, err == nil
		}
		return 0, false
	}
	var initFn, next *ast.FuncDecl
	for _, d := range f.Decls {
		if fd, ok := d.(*ast.FuncDecl); ok && fd.Recv == nil {
			if fd.Name.Name == "init" {
				initFn = fd
			}
			if fd.Name.Name == "NextSimpleId" {
				next = fd
			}
		}
	}
	if initFn == nil || next == nil {
		problem("utils.init / utils.NextSimpleId not found (pinned id-seed facts kept)")
		return
	}
	c, m, sh, foundClock := "", uint64(0), uint64(0), false
	ast.Inspect(initFn.Body, func(n ast.Node) bool {
		switch x := n.(type) {
		case *ast.CallExpr:
			if se, ok := x.Fun.(*ast.SelectorExpr); ok {
				if inner, ok := se.X.(*ast.CallExpr); ok {
					if s2, ok := inner.Fun.(*ast.SelectorExpr); ok && s2.Sel.Name == "Now" {
						c, foundClock = se.Sel.Name, true
					}
				}
			}
		case *ast.BinaryExpr:
			if x.Op == token.AND {
				if v, ok := lit(x.Y); ok && v > 0xFFFF {
					m = v
				}
			}
			if x.Op == token.SHL {
				if v, ok := lit(x.Y); ok {
					sh = v
				}
			}
		}
		return true
	})
	step, foundInc := uint64(0), false
	ast.Inspect(next.Body, func(n ast.Node) bool {
		if be, ok := n.(*ast.BinaryExpr); ok && be.Op == token.ADD {
			if v, ok := lit(be.Y); ok {
				step, foundInc = v, true
			}
		}
		return true
	})
	if !foundClock || !foundInc {
		problem("utils.init: time.Now().<clock>() or the increment of NextSimpleId not found (pinned id-seed facts kept)")
		return
	}
	return c, m, sh, step
}

// c06NewSrcFormat: the fmt.Sprintf format of tindex.newSrc()
func c06NewSrcFormat() string {
	f := parseFile("pkg/tindex/idgen.go")
	if f == nil {
		problem("pkg/tindex/idgen.go not found")
		return "%X%02X"
	}
	fd := funcDecl(f, "", "newSrc")
	out := ""
	if fd != nil {
		ast.Inspect(fd.Body, func(n ast.Node) bool {
			if ce, ok := n.(*ast.CallExpr); ok {
				if se, ok := ce.Fun.(*ast.SelectorExpr); ok && se.Sel.Name == "Sprintf" && len(ce.Args) > 0 {
					if bl, ok := ce.Args[0].(*ast.BasicLit); ok {
						if v, err := strconv.Unquote(bl.Value); err == nil {
							out = v
						}
					}
				}
			}
			return true
		})
	}
	if out == "" {
		problem("tindex.newSrc: the Sprintf format was not found")
		return "%X%02X"
	}
	return out
}

// c06FastPathMaps: the maps of the index that getOrCreateJournal READS with a key built from its raw text parameter (the
// first string parameter: `m[tags]`, `m[tag.Line(tags)]`, …). `fast_path_sound` assumes the raw text is looked up in tmap only
// (a second map keyed by the client's spelling is a memo that Delete and the roll-back do not know about).
func c06FastPathMaps(fd *ast.FuncDecl) []string {
	raw := ""
	if fd.Type.Params != nil {
		for _, fl := range fd.Type.Params.List {
			if id, ok := fl.Type.(*ast.Ident); ok && id.Name == "string" && len(fl.Names) > 0 && raw == "" {
				raw = fl.Names[0].Name
			}
		}
	}
	seen := map[string]bool{}
	var names []string
	assigned := map[*ast.IndexExpr]bool{}
	ast.Inspect(fd.Body, func(n ast.Node) bool {
		if as, ok := n.(*ast.AssignStmt); ok {
			for _, lhs := range as.Lhs {
				if ix, ok := lhs.(*ast.IndexExpr); ok {
					assigned[ix] = true
				}
			}
		}
		return true
	})
	ast.Inspect(fd.Body, func(n ast.Node) bool {
		ix, ok := n.(*ast.IndexExpr)
		if !ok || assigned[ix] {
			return true
		}
		se, ok := ix.X.(*ast.SelectorExpr)
		if !ok {
			return true
		}
		usesRaw := false
		ast.Inspect(ix.Index, func(m ast.Node) bool {
			if id, ok := m.(*ast.Ident); ok && id.Name == raw {
				usesRaw = true
			}
			return true
		})
		if usesRaw && !seen[se.Sel.Name] {
			seen[se.Sel.Name] = true
			names = append(names, se.Sel.Name)
		}
		return true
	})
	sort.Strings(names)
	return names
}

// c06CreateSite: the function that holds the create branch — getOrCreateJournal itself when it calls saveStateUnsafe()
// directly, otherwise the first method of the same receiver called from it (depth <= 2) that does (a refactoring may move
// "register the new descriptor and save" into a helper)
func c06CreateSite(f *ast.File, fd *ast.FuncDecl) *ast.FuncDecl {
	callsSave := func(d *ast.FuncDecl) bool {
		found := false
		ast.Inspect(d.Body, func(n ast.Node) bool {
			if ce, ok := n.(*ast.CallExpr); ok {
				if se, ok := ce.Fun.(*ast.SelectorExpr); ok && se.Sel.Name == "saveStateUnsafe" {
					found = true
				}
			}
			return !found
		})
		return found
	}
	callees := func(d *ast.FuncDecl) []*ast.FuncDecl {
		var r []*ast.FuncDecl
		ast.Inspect(d.Body, func(n ast.Node) bool {
			if ce, ok := n.(*ast.CallExpr); ok {
				if se, ok := ce.Fun.(*ast.SelectorExpr); ok {
					if m := funcDecl(f, "inmemService", se.Sel.Name); m != nil && m.Body != nil && m != d && se.Sel.Name != "saveStateUnsafe" {
						r = append(r, m)
					}
				}
			}
			return true
		})
		return r
	}
	if callsSave(fd) {
		return fd
	}
	for _, m := range callees(fd) {
		if callsSave(m) {
			return m
		}
	}
	for _, m := range callees(fd) {
		for _, m2 := range callees(m) {
			if callsSave(m2) {
				return m2
			}
		}
	}
	return fd
}

// C06: the create branch of tindex.getOrCreateJournal — where `smap` is written relative to the index save and what the
// failure path of the save rolls back. Found by structure: the `if err != nil { … }` that directly follows the statement
// calling saveStateUnsafe() inside getOrCreateJournal; map writes `ims.smap[…] = …`, deletes `delete(ims.tmap|smap, …)`.
func init() {
	generators["C06"] = func() {
		l := newLean("C06", "Facts about pkg/tindex/inmem.go: getOrCreateJournal's create branch (order of the smap registration and the\nindex save, roll-back on a failed save).")
		f := parseFile("pkg/tindex/inmem.go")
		fd := funcDecl(f, "inmemService", "getOrCreateJournal")
		before, delT, delS := true, true, true // pinned values, kept when the code is not found
		if fd == nil {
			problem("tindex.inmemService.getOrCreateJournal not found")
		} else {
			savePos, failBlock := token.NoPos, (*ast.BlockStmt)(nil)
			var smapWrites []token.Pos
			afd := c06CreateSite(f, fd)
			defs := c06Defs(afd)
			tmapInsertKey := "" // the key expression of the last `ims.tmap[K] = td` before the save (the create branch)
			var tmapWrites []*ast.IndexExpr
			isSaveCall := func(n ast.Node) bool {
				found := false
				ast.Inspect(n, func(m ast.Node) bool {
					if ce, ok := m.(*ast.CallExpr); ok {
						if se, ok := ce.Fun.(*ast.SelectorExpr); ok && se.Sel.Name == "saveStateUnsafe" {
							found = true
						}
					}
					return !found
				})
				return found
			}
			mapName := func(e ast.Expr) string { // ims.smap[...] → "smap"
				if ix, ok := e.(*ast.IndexExpr); ok {
					if se, ok := ix.X.(*ast.SelectorExpr); ok {
						return se.Sel.Name
					}
				}
				return ""
			}
			ast.Inspect(afd.Body, func(n ast.Node) bool {
				switch x := n.(type) {
				case *ast.BlockStmt:
					for i, s := range x.List {
						if _, isIf := s.(*ast.IfStmt); isIf {
							// `if err := ims.saveStateUnsafe(); err != nil { … }`
							is := s.(*ast.IfStmt)
							if is.Init != nil && isSaveCall(is.Init) && savePos == token.NoPos {
								savePos, failBlock = is.Pos(), is.Body
							}
							continue
						}
						_, isAssign := s.(*ast.AssignStmt)
						_, isExpr := s.(*ast.ExprStmt)
						if (isAssign || isExpr) && isSaveCall(s) && savePos == token.NoPos {
							savePos = s.Pos()
							if i+1 < len(x.List) {
								if is, ok := x.List[i+1].(*ast.IfStmt); ok {
									failBlock = is.Body
								}
							}
						}
					}
				case *ast.AssignStmt:
					for _, lhs := range x.Lhs {
						if mapName(lhs) == "smap" {
							smapWrites = append(smapWrites, x.Pos())
						}
						if mapName(lhs) == "tmap" {
							tmapWrites = append(tmapWrites, lhs.(*ast.IndexExpr))
						}
					}
				}
				return true
			})
			if savePos == token.NoPos || len(smapWrites) == 0 {
				problem("tindex.getOrCreateJournal: the call of saveStateUnsafe() or the smap registration was not found (pinned facts kept)")
			} else {
				before = false
				for _, p := range smapWrites {
					if p < savePos {
						before = true
					}
				}
				delT, delS = false, false
				for _, w := range tmapWrites {
					if w.Pos() < savePos {
						tmapInsertKey = c06Expr(w.Index, defs, 0)
					}
				}
				if failBlock != nil {
					ast.Inspect(failBlock, func(n ast.Node) bool {
						if ce, ok := n.(*ast.CallExpr); ok && len(ce.Args) == 2 {
							if id, ok := ce.Fun.(*ast.Ident); ok && id.Name == "delete" {
								if se, ok := ce.Args[0].(*ast.SelectorExpr); ok {
									switch se.Sel.Name {
									case "tmap":
										// the roll-back must remove the key the descriptor was inserted under
										if k := c06Expr(ce.Args[1], defs, 0); tmapInsertKey == "" || k == tmapInsertKey {
											delT = true
										} else {
											problem("tindex.getOrCreateJournal: the failed-save path deletes tmap[%s] but the descriptor was inserted as tmap[%s]", k, tmapInsertKey)
										}
									case "smap":
										delS = true
									}
								}
							}
						}
						return true
					})
				}
			}
		}
		l.p("/-- `ims.smap[td.Src] = td` stands before the call of `saveStateUnsafe()` in the create branch -/")
		l.p("def smapBeforeSave : Bool := %s", leanBool(before))
		l.p("/-- the failure path of the save contains `delete(ims.tmap, …)` -/")
		l.p("def saveFailureDeletesTmap : Bool := %s", leanBool(delT))
		l.p("/-- the failure path of the save contains `delete(ims.smap, …)` -/")
		l.p("def saveFailureDeletesSmap : Bool := %s", leanBool(delS))
		l.p("/-- proposed-fixes/F08r.diff: between the raw-text look-up and the look-up of the canonical line there is an")
		l.p("`if !tgs.Reparses() { … return … }` (a tag.Set method calling kvstring.ToMap and kvstring.MapsEquals) -/")
		l.p("def reparseGuardBeforeLookup : Bool := %s", leanBool(fd != nil && c06ReparseGuard(fd)))
		ug, ugc := false, false
		if fd != nil {
			ug, ugc = c06Utf8Guard(fd)
			if ug && !ugc {
				problem("tindex.getOrCreateJournal: the UTF-8 guard is not of the shape `create && !utf8.ValidString(line)` (the model refuses only when a partition would be created)")
			}
		}
		l.p("/-- fix a7918dd: between the raw-text look-up and the look-up of the canonical line there is an")
		l.p("`if create && !utf8.ValidString(string(tgs.Line())) { … return … }` -/")
		l.p("def utf8GuardOnCreate : Bool := %s", leanBool(ug && ugc))
		l.p("/-- pkg/partition GetJournals: the failures of the visitor closure (journal not opened, limit reached) are assigned to a")
		l.p("variable of the enclosing function that is tested after the visit, and the closure does not re-declare it -/")
		l.p("def getJournalsVisitorErrorReachesCaller : Bool := %s", leanBool(c06VisitorError()))
		fpm := []string{"tmap"}
		if fd != nil {
			fpm = c06FastPathMaps(fd)
		}
		l.p("/-- the maps getOrCreateJournal reads with a key built from its raw text parameter (the fast path) -/")
		l.p("def fastPathMaps : List String := [%s]", func() string {
			q := []string{}
			for _, n := range fpm {
				q = append(q, leanStr(n))
			}
			return strings.Join(q, ", ")
		}())
		l.p("/-- pkg/cursor crsr.ApplyState: `if … a.Query != b.Query … { return <error> }` — a cached cursor is refused for a request that")
		l.p("carries another query text -/")
		l.p("def applyStateChecksQuery : Bool := %s", leanBool(c06ApplyStateChecksQuery()))
		clk, msk, shf, inc := c06IdSeed()
		l.p("/-- pkg/utils/simpleid.go init(): the clock the id counter is seeded from (`time.Now().<this>()`), the mask applied to it")
		l.p("(0 = none), a left shift (0 = none); NextSimpleId(): the increment per id -/")
		l.p("def idSeedClock : String := %s", leanStr(clk))
		l.p("def idSeedMask : Nat := %d", msk)
		l.p("def idSeedShift : Nat := %d", shf)
		l.p("def idIncrement : Nat := %d", inc)
		l.p("/-- tindex.newSrc(): the Sprintf format that spells the counter as a source id -/")
		l.p("def newSrcFormat : String := %s", leanStr(c06NewSrcFormat()))
		l.write()
	}
}
