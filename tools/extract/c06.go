package main

import (
	"bytes"
	"go/ast"
	"go/printer"
	"go/token"
)

// c06Expr prints an expression after replacing every identifier that the function defines exactly once by `x := e`
// (single left-hand side) with that e — so that `key := tgs.Line(); delete(m, key)` and `delete(m, tgs.Line())` compare equal
func c06Expr(e ast.Expr, defs map[string]ast.Expr, depth int) string {
	if id, ok := e.(*ast.Ident); ok && depth < 4 {
		if d, ok := defs[id.Name]; ok && d != nil {
			return c06Expr(d, defs, depth+1)
		}
	}
	var b bytes.Buffer
	printer.Fprint(&b, token.NewFileSet(), e)
	return b.String()
}

// c06Defs: identifiers assigned exactly once in fd, by a `:=` or `=` with one left-hand side (nil = assigned more than once)
func c06Defs(fd *ast.FuncDecl) map[string]ast.Expr {
	defs := map[string]ast.Expr{}
	ast.Inspect(fd.Body, func(n ast.Node) bool {
		if as, ok := n.(*ast.AssignStmt); ok {
			for i, lhs := range as.Lhs {
				if id, ok := lhs.(*ast.Ident); ok && id.Name != "_" {
					if _, seen := defs[id.Name]; seen || len(as.Lhs) != 1 || len(as.Rhs) != 1 {
						defs[id.Name] = nil
					} else {
						defs[id.Name] = as.Rhs[i]
					}
				}
			}
		}
		return true
	})
	return defs
}

// c06ReparseGuard: is there, in getOrCreateJournal between the first and the second read of ims.tmap, an
// `if !x.M() { … return … }` where M is a method of tag.Set whose body calls kvstring.ToMap and kvstring.MapsEquals
// (proposed-fixes/F08r.diff)?
func c06ReparseGuard(fd *ast.FuncDecl) bool {
	tagf := parseFile("pkg/model/tag/tags.go")
	isReparse := func(name string) bool {
		if tagf == nil {
			return false
		}
		m := funcDecl(tagf, "Set", name)
		if m == nil || m.Body == nil {
			return false
		}
		toMap, eq := false, false
		ast.Inspect(m.Body, func(n ast.Node) bool {
			if ce, ok := n.(*ast.CallExpr); ok {
				if se, ok := ce.Fun.(*ast.SelectorExpr); ok {
					switch se.Sel.Name {
					case "ToMap":
						toMap = true
					case "MapsEquals":
						eq = true
					}
				}
			}
			return true
		})
		return toMap && eq
	}
	var reads []token.Pos
	ast.Inspect(fd.Body, func(n ast.Node) bool {
		if ix, ok := n.(*ast.IndexExpr); ok {
			if se, ok := ix.X.(*ast.SelectorExpr); ok && se.Sel.Name == "tmap" {
				reads = append(reads, ix.Pos())
			}
		}
		return true
	})
	found := false
	ast.Inspect(fd.Body, func(n ast.Node) bool {
		is, ok := n.(*ast.IfStmt)
		if !ok || is.Init != nil {
			return true
		}
		ue, ok := is.Cond.(*ast.UnaryExpr)
		if !ok || ue.Op != token.NOT {
			return true
		}
		ce, ok := ue.X.(*ast.CallExpr)
		if !ok || len(ce.Args) != 0 {
			return true
		}
		se, ok := ce.Fun.(*ast.SelectorExpr)
		if !ok || !isReparse(se.Sel.Name) {
			return true
		}
		returns := false
		for _, st := range is.Body.List {
			if _, ok := st.(*ast.ReturnStmt); ok {
				returns = true
			}
		}
		if returns && len(reads) >= 2 && is.Pos() > reads[0] && is.Pos() < reads[1] {
			found = true
		}
		return true
	})
	return found
}


// c06CreateSite: the function that holds the create branch — getOrCreateJournal itself when it calls saveStateUnsafe()
// directly, otherwise the first method of the same receiver called from it (depth <= 2) that does (a refactoring may move
// "register the new descriptor and save" into a helper)
func c06CreateSite(f *ast.File, fd *ast.FuncDecl) *ast.FuncDecl {
	callsSave := func(d *ast.FuncDecl) bool {
		found := false
		ast.Inspect(d.Body, func(n ast.Node) bool {
			if ce, ok := n.(*ast.CallExpr); ok {
				if se, ok := ce.Fun.(*ast.SelectorExpr); ok && se.Sel.Name == "saveStateUnsafe" {
					found = true
				}
			}
			return !found
		})
		return found
	}
	callees := func(d *ast.FuncDecl) []*ast.FuncDecl {
		var r []*ast.FuncDecl
		ast.Inspect(d.Body, func(n ast.Node) bool {
			if ce, ok := n.(*ast.CallExpr); ok {
				if se, ok := ce.Fun.(*ast.SelectorExpr); ok {
					if m := funcDecl(f, "inmemService", se.Sel.Name); m != nil && m.Body != nil && m != d && se.Sel.Name != "saveStateUnsafe" {
						r = append(r, m)
					}
				}
			}
			return true
		})
		return r
	}
	if callsSave(fd) {
		return fd
	}
	for _, m := range callees(fd) {
		if callsSave(m) {
			return m
		}
	}
	for _, m := range callees(fd) {
		for _, m2 := range callees(m) {
			if callsSave(m2) {
				return m2
			}
		}
	}
	return fd
}

// C06: the create branch of tindex.getOrCreateJournal — where `smap` is written relative to the index save and what the
// failure path of the save rolls back. Found by structure: the `if err != nil { … }` that directly follows the statement
// calling saveStateUnsafe() inside getOrCreateJournal; map writes `ims.smap[…] = …`, deletes `delete(ims.tmap|smap, …)`.
func init() {
	generators["C06"] = func() {
		l := newLean("C06", "Facts about pkg/tindex/inmem.go: getOrCreateJournal's create branch (order of the smap registration and the\nindex save, roll-back on a failed save).")
		f := parseFile("pkg/tindex/inmem.go")
		fd := funcDecl(f, "inmemService", "getOrCreateJournal")
		before, delT, delS := true, true, true // pinned values, kept when the code is not found
		if fd == nil {
			problem("tindex.inmemService.getOrCreateJournal not found")
		} else {
			savePos, failBlock := token.NoPos, (*ast.BlockStmt)(nil)
			var smapWrites []token.Pos
			afd := c06CreateSite(f, fd)
			defs := c06Defs(afd)
			tmapInsertKey := "" // the key expression of the last `ims.tmap[K] = td` before the save (the create branch)
			var tmapWrites []*ast.IndexExpr
			isSaveCall := func(n ast.Node) bool {
				found := false
				ast.Inspect(n, func(m ast.Node) bool {
					if ce, ok := m.(*ast.CallExpr); ok {
						if se, ok := ce.Fun.(*ast.SelectorExpr); ok && se.Sel.Name == "saveStateUnsafe" {
							found = true
						}
					}
					return !found
				})
				return found
			}
			mapName := func(e ast.Expr) string { // ims.smap[...] → "smap"
				if ix, ok := e.(*ast.IndexExpr); ok {
					if se, ok := ix.X.(*ast.SelectorExpr); ok {
						return se.Sel.Name
					}
				}
				return ""
			}
			ast.Inspect(afd.Body, func(n ast.Node) bool {
				switch x := n.(type) {
				case *ast.BlockStmt:
					for i, s := range x.List {
						if _, isIf := s.(*ast.IfStmt); isIf {
							// `if err := ims.saveStateUnsafe(); err != nil { … }`
							is := s.(*ast.IfStmt)
							if is.Init != nil && isSaveCall(is.Init) && savePos == token.NoPos {
								savePos, failBlock = is.Pos(), is.Body
							}
							continue
						}
						_, isAssign := s.(*ast.AssignStmt)
						_, isExpr := s.(*ast.ExprStmt)
						if (isAssign || isExpr) && isSaveCall(s) && savePos == token.NoPos {
							savePos = s.Pos()
							if i+1 < len(x.List) {
								if is, ok := x.List[i+1].(*ast.IfStmt); ok {
									failBlock = is.Body
								}
							}
						}
					}
				case *ast.AssignStmt:
					for _, lhs := range x.Lhs {
						if mapName(lhs) == "smap" {
							smapWrites = append(smapWrites, x.Pos())
						}
						if mapName(lhs) == "tmap" {
							tmapWrites = append(tmapWrites, lhs.(*ast.IndexExpr))
						}
					}
				}
				return true
			})
			if savePos == token.NoPos || len(smapWrites) == 0 {
				problem("tindex.getOrCreateJournal: the call of saveStateUnsafe() or the smap registration was not found (pinned facts kept)")
			} else {
				before = false
				for _, p := range smapWrites {
					if p < savePos {
						before = true
					}
				}
				delT, delS = false, false
				for _, w := range tmapWrites {
					if w.Pos() < savePos {
						tmapInsertKey = c06Expr(w.Index, defs, 0)
					}
				}
				if failBlock != nil {
					ast.Inspect(failBlock, func(n ast.Node) bool {
						if ce, ok := n.(*ast.CallExpr); ok && len(ce.Args) == 2 {
							if id, ok := ce.Fun.(*ast.Ident); ok && id.Name == "delete" {
								if se, ok := ce.Args[0].(*ast.SelectorExpr); ok {
									switch se.Sel.Name {
									case "tmap":
										// the roll-back must remove the key the descriptor was inserted under
										if k := c06Expr(ce.Args[1], defs, 0); tmapInsertKey == "" || k == tmapInsertKey {
											delT = true
										} else {
											problem("tindex.getOrCreateJournal: the failed-save path deletes tmap[%s] but the descriptor was inserted as tmap[%s]", k, tmapInsertKey)
										}
									case "smap":
										delS = true
									}
								}
							}
						}
						return true
					})
				}
			}
		}
		l.p("/-- `ims.smap[td.Src] = td` stands before the call of `saveStateUnsafe()` in the create branch -/")
		l.p("def smapBeforeSave : Bool := %s", leanBool(before))
		l.p("/-- the failure path of the save contains `delete(ims.tmap, …)` -/")
		l.p("def saveFailureDeletesTmap : Bool := %s", leanBool(delT))
		l.p("/-- the failure path of the save contains `delete(ims.smap, …)` -/")
		l.p("def saveFailureDeletesSmap : Bool := %s", leanBool(delS))
		l.p("/-- proposed-fixes/F08r.diff: between the raw-text look-up and the look-up of the canonical line there is an")
		l.p("`if !tgs.Reparses() { … return … }` (a tag.Set method calling kvstring.ToMap and kvstring.MapsEquals) -/")
		l.p("def reparseGuardBeforeLookup : Bool := %s", leanBool(fd != nil && c06ReparseGuard(fd)))
		l.write()
	}
}
