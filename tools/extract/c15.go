package main

import (
	"fmt"
	"go/ast"
	"go/parser"
	"go/token"
	"path/filepath"
	"sort"
	"strconv"
	"strings"
)

// C15: constants of cursor.NewProvider, the caching rule's constant, lock discipline of provider.go and two
// structural facts the counterexample theorems depend on.

var c15Guarded = map[string]bool{"curs": true, "busy": true, "free": true, "freePoolSz": true}

// c15Consts: the named constants of package cursor (package level and function level, every non-test file): name -> defining
// expression. A literal of provider.go that is given a name (`const cMaxFreePoolSize = 1000`) is still the same fact.
var c15Consts = map[string]ast.Expr{}

func c15LoadConsts(dir string) {
	files, _ := filepath.Glob(filepath.Join(repo, dir, "*.go"))
	sort.Strings(files)
	for _, fn := range files {
		if strings.HasSuffix(fn, "_test.go") {
			continue
		}
		f, err := parser.ParseFile(fset, fn, nil, 0)
		if err != nil {
			continue
		}
		ast.Inspect(f, func(n ast.Node) bool {
			gd, ok := n.(*ast.GenDecl)
			if !ok || gd.Tok != token.CONST {
				return true
			}
			for _, sp := range gd.Specs {
				vs, ok := sp.(*ast.ValueSpec)
				if !ok {
					continue
				}
				for i, nm := range vs.Names {
					if i < len(vs.Values) {
						c15Consts[nm.Name] = vs.Values[i]
					}
				}
			}
			return true
		})
	}
}

// c15Seconds evaluates expressions like `time.Duration(60 * time.Second)`, `5 * time.Minute`, a named constant of the
// package, to seconds / a plain number (-1 = unknown).
func c15Seconds(e ast.Expr) int64 { return c15Eval(e, 0) }

func c15Eval(e ast.Expr, depth int) int64 {
	if depth > 8 {
		return -1
	}
	if id, ok := e.(*ast.Ident); ok {
		if d, ok := c15Consts[id.Name]; ok {
			return c15Eval(d, depth+1)
		}
		return -1
	}
	return c15Seconds1(e, depth)
}

func c15Seconds1(e ast.Expr, depth int) int64 {
	c15Seconds := func(e ast.Expr) int64 { return c15Eval(e, depth+1) }
	switch x := e.(type) {
	case *ast.ParenExpr:
		return c15Seconds(x.X)
	case *ast.CallExpr:
		if len(x.Args) == 1 {
			return c15Seconds(x.Args[0])
		}
	case *ast.BasicLit:
		if x.Kind == token.INT {
			v, err := strconv.ParseInt(x.Value, 0, 64)
			if err == nil {
				return v
			}
		}
	case *ast.SelectorExpr:
		if id, ok := x.X.(*ast.Ident); ok && id.Name == "time" {
			switch x.Sel.Name {
			case "Second":
				return 1
			case "Minute":
				return 60
			case "Hour":
				return 3600
			}
		}
	case *ast.BinaryExpr:
		a, b := c15Seconds(x.X), c15Seconds(x.Y)
		if a >= 0 && b >= 0 && x.Op == token.MUL {
			return a * b
		}
	}
	return -1
}

func c15IsSel(e ast.Expr, recv, field string) bool {
	se, ok := e.(*ast.SelectorExpr)
	if !ok || se.Sel.Name != field {
		return false
	}
	id, ok := se.X.(*ast.Ident)
	return ok && id.Name == recv
}

// c15Recv is the receiver name of the method being analysed (matched by structure: whatever the method calls its receiver)
var c15Recv = "p"

// c15LockExpr: +1 for <recv>.lock.Lock(), -1 for <recv>.lock.Unlock(), 0 otherwise
func c15LockExpr(e ast.Expr, recv string) int {
	ce, ok := e.(*ast.CallExpr)
	if !ok {
		return 0
	}
	se, ok := ce.Fun.(*ast.SelectorExpr)
	if !ok || !c15IsSel(se.X, recv, "lock") {
		return 0
	}
	switch se.Sel.Name {
	case "Lock":
		return 1
	case "Unlock":
		return -1
	}
	return 0
}

// c15LockCall: the same for a statement
func c15LockCall(s ast.Stmt) int {
	es, ok := s.(*ast.ExprStmt)
	if !ok {
		return 0
	}
	return c15LockExpr(es.X, c15Recv)
}

// c15Site is a call of a method of the receiver: whom, and whether the mutex is held at the call site
type c15Site struct {
	callee string
	locked bool
}

type c15Walker struct {
	fn       string
	recv     string
	alias    map[string]bool // locals that are copies of the receiver pointer (`x := recv`)
	deferred bool     // `defer <recv>.lock.Unlock()` (or a deferred closure that unlocks) seen: locked until the function returns
	unlocked []string // accesses to guarded fields outside a locked region
	sites    []c15Site
}

func (w *c15Walker) sub(suffix string) *c15Walker {
	return &c15Walker{fn: w.fn + suffix, recv: w.recv, alias: w.alias}
}

// lockExpr: +1 / -1 for Lock / Unlock of the mutex through the receiver or a local copy of it
func (w *c15Walker) lockExpr(e ast.Expr) int {
	if d := c15LockExpr(e, w.recv); d != 0 {
		return d
	}
	for a := range w.alias {
		if d := c15LockExpr(e, a); d != 0 {
			return d
		}
	}
	return 0
}

// isRecv: the receiver or a local copy of it
func (w *c15Walker) isRecv(name string) bool { return name == w.recv || w.alias[name] }

// c15Aliases: locals of the method that are plain copies of the receiver (`x := recv`, `x = recv`, `var x = recv`)
func c15Aliases(fd *ast.FuncDecl) map[string]bool {
	recv := c15RecvName(fd)
	res := map[string]bool{}
	if recv == "" || fd.Body == nil {
		return res
	}
	for round := 0; round < 3; round++ {
		ast.Inspect(fd.Body, func(n ast.Node) bool {
			switch x := n.(type) {
			case *ast.AssignStmt:
				if len(x.Lhs) == len(x.Rhs) {
					for i := range x.Lhs {
						l, ok1 := x.Lhs[i].(*ast.Ident)
						r, ok2 := x.Rhs[i].(*ast.Ident)
						if ok1 && ok2 && (r.Name == recv || res[r.Name]) && l.Name != "_" {
							res[l.Name] = true
						}
					}
				}
			case *ast.ValueSpec:
				if len(x.Names) == len(x.Values) {
					for i := range x.Names {
						if r, ok := x.Values[i].(*ast.Ident); ok && (r.Name == recv || res[r.Name]) {
							res[x.Names[i].Name] = true
						}
					}
				}
			}
			return true
		})
	}
	return res
}

func (w *c15Walker) take(sub *c15Walker) {
	w.unlocked = append(w.unlocked, sub.unlocked...)
	w.sites = append(w.sites, sub.sites...)
}

func (w *c15Walker) expr(n ast.Node, locked bool) {
	if n == nil {
		return
	}
	locked = locked || w.deferred
	ast.Inspect(n, func(m ast.Node) bool {
		switch x := m.(type) {
		case *ast.FuncLit:
			// a closure that is not the operand of go/defer (stored, passed on): it may run later, without the lock
			sub := w.sub("(closure)")
			sub.block(x.Body.List, false)
			w.take(sub)
			return false
		case *ast.CallExpr:
			if se, ok := x.Fun.(*ast.SelectorExpr); ok {
				if id, ok := se.X.(*ast.Ident); ok && w.isRecv(id.Name) {
					w.sites = append(w.sites, c15Site{se.Sel.Name, locked})
				}
			}
		case *ast.SelectorExpr:
			if id, ok := x.X.(*ast.Ident); ok && w.isRecv(id.Name) && c15Guarded[x.Sel.Name] && !locked {
				w.unlocked = append(w.unlocked, fmt.Sprintf("%s:%d:p.%s", w.fn, fset.Position(x.Pos()).Line, x.Sel.Name))
			}
		}
		return true
	})
}

// call handles the operand of `go` (atExit = false: a new goroutine never holds the lock) and of `defer` (atExit = true: it
// runs when the function returns — under the lock only if an unlock was deferred BEFORE it, deferred calls run last-in first-out).
// The arguments are evaluated where the statement stands.
func (w *c15Walker) call(c *ast.CallExpr, locked bool, atExit bool) {
	for _, a := range c.Args {
		w.expr(a, locked)
	}
	then := atExit && w.deferred
	switch f := c.Fun.(type) {
	case *ast.FuncLit:
		sub := w.sub("(closure)")
		entry := then
		if atExit && !w.deferred {
			// `Lock(); defer func() { …; Unlock() }()`: the closure is entered with the state the function keeps to its end
			entry = locked
		}
		after, _ := sub.block(f.Body.List, entry)
		w.take(sub)
		if atExit && entry && !after {
			w.deferred = true // the deferred closure is what unlocks
		}
	case *ast.SelectorExpr:
		if id, ok := f.X.(*ast.Ident); ok && w.isRecv(id.Name) {
			w.sites = append(w.sites, c15Site{f.Sel.Name, then})
		} else {
			w.expr(f.X, locked)
		}
	}
}

func c15Terminates(s ast.Stmt) bool {
	switch x := s.(type) {
	case *ast.ReturnStmt:
		return true
	case *ast.ExprStmt:
		if ce, ok := x.X.(*ast.CallExpr); ok {
			if id, ok := ce.Fun.(*ast.Ident); ok && id.Name == "panic" {
				return true
			}
		}
	}
	return false
}

// block walks a statement list; returns the lock state after it and whether it always leaves the function.
func (w *c15Walker) block(stmts []ast.Stmt, locked bool) (bool, bool) {
	for _, s := range stmts {
		if es, ok := s.(*ast.ExprStmt); ok {
			if d := w.lockExpr(es.X); d != 0 {
				locked = d > 0
				continue
			}
		}
		switch x := s.(type) {
		case *ast.IfStmt:
			if x.Init != nil {
				w.expr(x.Init, locked)
			}
			w.expr(x.Cond, locked)
			l1, t1 := w.block(x.Body.List, locked)
			l2, t2 := locked, false
			if x.Else != nil {
				switch e := x.Else.(type) {
				case *ast.BlockStmt:
					l2, t2 = w.block(e.List, locked)
				default:
					l2, t2 = w.block([]ast.Stmt{e}, locked)
				}
			}
			switch {
			case t1 && t2:
				return locked, true
			case t1:
				locked = l2
			case t2:
				locked = l1
			default:
				if l1 != l2 {
					problem("C15: %s: lock state differs between the branches of the if at line %d", w.fn, fset.Position(x.Pos()).Line)
				}
				locked = l1
			}
		case *ast.ForStmt:
			if x.Init != nil {
				w.expr(x.Init, locked)
			}
			if x.Cond != nil {
				w.expr(x.Cond, locked)
			}
			if x.Post != nil {
				w.expr(x.Post, locked)
			}
			l, _ := w.block(x.Body.List, locked)
			if l != locked {
				problem("C15: %s: loop body at line %d changes the lock state", w.fn, fset.Position(x.Pos()).Line)
			}
		case *ast.RangeStmt:
			w.expr(x.X, locked)
			w.block(x.Body.List, locked)
		case *ast.BlockStmt:
			var t bool
			locked, t = w.block(x.List, locked)
			if t {
				return locked, true
			}
		case *ast.LabeledStmt:
			var t bool
			locked, t = w.block([]ast.Stmt{x.Stmt}, locked)
			if t {
				return locked, true
			}
		case *ast.SelectStmt:
			for _, c := range x.Body.List {
				cc := c.(*ast.CommClause)
				if cc.Comm != nil {
					w.expr(cc.Comm, locked)
				}
				w.block(cc.Body, locked)
			}
		case *ast.SwitchStmt:
			if x.Init != nil {
				w.expr(x.Init, locked)
			}
			if x.Tag != nil {
				w.expr(x.Tag, locked)
			}
			for _, c := range x.Body.List {
				cc := c.(*ast.CaseClause)
				for _, e := range cc.List {
					w.expr(e, locked)
				}
				w.block(cc.Body, locked)
			}
		case *ast.TypeSwitchStmt:
			w.expr(x.Assign, locked)
			for _, c := range x.Body.List {
				w.block(c.(*ast.CaseClause).Body, locked)
			}
		case *ast.DeferStmt:
			if w.lockExpr(x.Call) < 0 {
				w.deferred = true // locked until the function returns
				continue
			}
			w.call(x.Call, locked, true)
		case *ast.GoStmt:
			w.call(x.Call, locked, false)
		default:
			w.expr(s, locked)
			if c15Terminates(s) {
				return locked, true
			}
		}
	}
	return locked, false
}

// c15RecvName: the name a method gives its receiver ("" when it has none)
func c15RecvName(fd *ast.FuncDecl) string {
	if fd == nil || fd.Recv == nil || len(fd.Recv.List) == 0 || len(fd.Recv.List[0].Names) == 0 {
		return ""
	}
	return fd.Recv.List[0].Names[0].Name
}

// c15LockDiscipline: accesses to the guarded fields outside the mutex, over all methods. A method counts as entered WITH the
// lock when it is unexported, has call sites in the file, and every one of them holds the lock — transitively (least fixpoint:
// a helper of a helper that is only called under the lock is entered with it too); `go x.m()` and a deferred `x.m()` that runs
// after the unlock are call sites without the lock.
func c15LockDiscipline(methods map[string]*ast.FuncDecl) []string {
	names := []string{}
	for n := range methods {
		names = append(names, n)
	}
	sort.Strings(names)
	lockedEntry := map[string]bool{}
	var unlocked []string
	for round := 0; round <= len(names)+1; round++ {
		unlocked = nil
		all := map[string]bool{}  // has a call site
		some := map[string]bool{} // has a call site without the lock
		for _, n := range names {
			w := &c15Walker{fn: n, recv: c15RecvName(methods[n]), alias: c15Aliases(methods[n])}
			w.block(methods[n].Body.List, lockedEntry[n])
			unlocked = append(unlocked, w.unlocked...)
			for _, st := range w.sites {
				all[st.callee] = true
				if !st.locked {
					some[st.callee] = true
				}
			}
		}
		next := map[string]bool{}
		for _, n := range names {
			if all[n] && !some[n] && !ast.IsExported(n) {
				next[n] = true
			}
		}
		same := len(next) == len(lockedEntry)
		for n := range next {
			if !lockedEntry[n] {
				same = false
			}
		}
		if same {
			break
		}
		lockedEntry = next
	}
	sort.Strings(unlocked)
	out := []string{}
	for i, u := range unlocked {
		if i == 0 || u != unlocked[i-1] {
			out = append(out, u)
		}
	}
	return out
}

func init() {
	generators["C15"] = func() {
		l := newLean("C15", "Facts about pkg/cursor/provider.go (NewProvider constants, lock discipline, shape of Release and of the\nsecond locked section of GetOrCreate) and the caching rule constant of pkg/backend/querier.go.")
		f := parseFile("pkg/cursor/provider.go")
		c15LoadConsts("pkg/cursor")

		// --- constants of NewProvider
		maxCurs, idleTo, busyTo := int64(-1), int64(-1), int64(-1)
		if fd := funcDecl(f, "", "NewProvider"); fd == nil {
			problem("C15: cursor.NewProvider not found")
		} else {
			// the local the new provider is built in: `<x> := new(provider)`
			c15Recv = "p"
			ast.Inspect(fd.Body, func(n ast.Node) bool {
				if as, ok := n.(*ast.AssignStmt); ok && len(as.Lhs) == 1 && len(as.Rhs) == 1 {
					if ce, ok := as.Rhs[0].(*ast.CallExpr); ok {
						if id, ok := ce.Fun.(*ast.Ident); ok && id.Name == "new" && len(ce.Args) == 1 {
							if t, ok := ce.Args[0].(*ast.Ident); ok && t.Name == "provider" {
								if l, ok := as.Lhs[0].(*ast.Ident); ok {
									c15Recv = l.Name
								}
							}
						}
					}
				}
				return true
			})
			ast.Inspect(fd.Body, func(n ast.Node) bool {
				as, ok := n.(*ast.AssignStmt)
				if !ok || len(as.Lhs) != 1 || len(as.Rhs) != 1 {
					return true
				}
				switch {
				case c15IsSel(as.Lhs[0], c15Recv, "maxCurs"):
					maxCurs = c15Seconds(as.Rhs[0])
				case c15IsSel(as.Lhs[0], c15Recv, "idleTo"):
					idleTo = c15Seconds(as.Rhs[0])
				case c15IsSel(as.Lhs[0], c15Recv, "busyTo"):
					busyTo = c15Seconds(as.Rhs[0])
				}
				return true
			})
			if maxCurs < 0 || idleTo < 0 || busyTo < 0 {
				problem("C15: NewProvider: maxCurs/idleTo/busyTo assignments not understood (%d, %d, %d)", maxCurs, idleTo, busyTo)
			}
		}
		// --- free pool cap (`<recv>.freePoolSz < N`) and the sweeper period (`<recv>.idleTo / N`): wherever a method of the
		// provider has them (sweepByTime / sweeper today; a helper extracted from them is as good)
		freeCap, divisor := int64(-1), int64(-1)
		if f != nil {
			for _, d := range f.Decls {
				fd, ok := d.(*ast.FuncDecl)
				if !ok || fd.Recv == nil || fd.Body == nil {
					continue
				}
				c15Recv = c15RecvName(fd)
				ast.Inspect(fd.Body, func(n ast.Node) bool {
					if be, ok := n.(*ast.BinaryExpr); ok && be.Op == token.LSS && c15IsSel(be.X, c15Recv, "freePoolSz") {
						if v := c15Seconds(be.Y); freeCap >= 0 && v != freeCap {
							problem("C15: two different free-pool caps (%d, %d)", freeCap, v)
						} else {
							freeCap = v
						}
					}
					if be, ok := n.(*ast.BinaryExpr); ok && be.Op == token.QUO && c15IsSel(be.X, c15Recv, "idleTo") {
						divisor = c15Seconds(be.Y)
					}
					return true
				})
			}
		}
		if freeCap < 0 {
			problem("C15: `<provider>.freePoolSz < N` not found")
		}
		if divisor < 0 {
			problem("C15: `<provider>.idleTo / N` (the sweeper's period) not found")
		}
		// --- Shutdown closes only clsdCh
		shutdownClosesCursors := false
		if fd := funcDecl(f, "provider", "Shutdown"); fd == nil {
			problem("C15: provider.Shutdown not found")
		} else {
			c15Recv = c15RecvName(fd)
			ast.Inspect(fd.Body, func(n ast.Node) bool {
				if se, ok := n.(*ast.SelectorExpr); ok && (se.Sel.Name == "close" || c15IsSel(se, c15Recv, "curs") || c15IsSel(se, c15Recv, "busy")) {
					shutdownClosesCursors = true
				}
				return true
			})
		}

		// --- lock discipline
		methods := map[string]*ast.FuncDecl{}
		if f != nil {
			for _, d := range f.Decls {
				if fd, ok := d.(*ast.FuncDecl); ok && fd.Recv != nil && fd.Body != nil {
					methods[fd.Name.Name] = fd
				}
			}
		}
		unlocked := c15LockDiscipline(methods)
		if len(methods) == 0 {
			problem("C15: no methods of provider found in pkg/cursor/provider.go")
		}
		for _, need := range []string{"GetOrCreate", "Release", "sweepBySize", "sweepByTime", "sweeper"} {
			if methods[need] == nil {
				problem("C15: provider.%s not found", need)
			}
		}

		// --- Release finds the holder by cur.Id() and never compares the holder's cursor with the one released
		byId, comparesObj := false, false
		if fd := methods["Release"]; fd != nil {
			c15Recv = c15RecvName(fd)
			ast.Inspect(fd.Body, func(n ast.Node) bool {
				switch x := n.(type) {
				case *ast.IndexExpr:
					if c15IsSel(x.X, c15Recv, "curs") {
						if ce, ok := x.Index.(*ast.CallExpr); ok {
							if se, ok := ce.Fun.(*ast.SelectorExpr); ok && se.Sel.Name == "Id" {
								byId = true
							}
						}
					}
				case *ast.BinaryExpr:
					if x.Op == token.EQL || x.Op == token.NEQ {
						// `<holder>.cur == cur` / `!=` in either order (holder: ch, e.Val.(*curHldr), …)
						isHolderCur := func(e ast.Expr) bool {
							se, ok := e.(*ast.SelectorExpr)
							return ok && se.Sel.Name == "cur"
						}
						isCur := func(e ast.Expr) bool {
							id, ok := e.(*ast.Ident)
							return ok && (id.Name == "cur" || id.Name == "curs")
						}
						if (isHolderCur(x.X) && isCur(x.Y)) || (isHolderCur(x.Y) && isCur(x.X)) {
							comparesObj = true
						}
					}
				}
				return true
			})
			if !byId {
				problem("C15: Release: `p.curs[cur.Id()]` not found")
			}
		}
		// --- second locked section of GetOrCreate: is the map read before `p.curs[cur.Id()] = e`?
		insertChecks := false
		if fd := methods["GetOrCreate"]; fd != nil {
			c15Recv = c15RecvName(fd)
			var lastLock token.Pos
			nLocks := 0
			for _, s := range fd.Body.List {
				if c15LockCall(s) > 0 {
					lastLock = s.Pos()
					nLocks++
				}
			}
			// the first Lock() sits inside `if state.Id > 0 {…}`, the second one is a top-level statement
			if nLocks != 1 {
				problem("C15: GetOrCreate: expected exactly one top-level p.lock.Lock() (the second locked section), found %d", nLocks)
			}
			stored := false
			lhs := map[ast.Node]bool{}
			ast.Inspect(fd.Body, func(n ast.Node) bool {
				if as, ok := n.(*ast.AssignStmt); ok && as.Pos() > lastLock {
					for _, e := range as.Lhs {
						if ie, ok := e.(*ast.IndexExpr); ok && c15IsSel(ie.X, c15Recv, "curs") {
							lhs[ie] = true
							stored = true
						}
					}
				}
				return true
			})
			ast.Inspect(fd.Body, func(n ast.Node) bool {
				if ie, ok := n.(*ast.IndexExpr); ok && nLocks == 1 && ie.Pos() > lastLock && c15IsSel(ie.X, c15Recv, "curs") && !lhs[ie] {
					insertChecks = true
				}
				return true
			})
			if !stored {
				problem("C15: GetOrCreate: the store `p.curs[…] = e` after the second Lock() was not found")
			}
		}

		// --- caching rule constant
		qml := int64(-1)
		if bf := parseFile("pkg/backend/querier.go"); bf != nil {
			for _, d := range bf.Decls {
				gd, ok := d.(*ast.GenDecl)
				if !ok || gd.Tok != token.CONST {
					continue
				}
				for _, sp := range gd.Specs {
					vs := sp.(*ast.ValueSpec)
					for i, n := range vs.Names {
						if n.Name == "QueryMaxLimit" && i < len(vs.Values) {
							qml = c15Seconds(vs.Values[i])
						}
					}
				}
			}
		}
		if qml < 0 {
			problem("C15: backend.QueryMaxLimit not found")
		}

		l.p("/-- `p.maxCurs` as set by `NewProvider` -/")
		l.p("def maxCurs : Nat := %d", maxCurs)
		l.p("/-- `p.idleTo`, seconds -/")
		l.p("def idleToSec : Nat := %d", idleTo)
		l.p("/-- `p.busyTo`, seconds -/")
		l.p("def busyToSec : Nat := %d", busyTo)
		l.p("/-- `p.freePoolSz < N` in `sweepByTime` -/")
		l.p("def freePoolCap : Nat := %d", freeCap)
		l.p("/-- the sweeper wakes every `p.idleTo / N` -/")
		l.p("def sweeperPeriodDivisor : Nat := %d", divisor)
		l.p("/-- `backend.QueryMaxLimit`: a cursor is cached when `WaitTimeout > 0` or the limit was clipped to this -/")
		l.p("def queryMaxLimit : Nat := %d", qml)
		l.p("/-- accesses to `p.curs`, `p.busy`, `p.free`, `p.freePoolSz` in methods of `provider` that are not inside a")
		l.p("    `p.lock.Lock()` … `p.lock.Unlock()` region (a method only ever called under the lock counts as locked);")
		l.p("    `function:line:field` -/")
		quoted := []string{}
		for _, u := range unlocked {
			quoted = append(quoted, leanStr(u))
		}
		l.p("def unlockedAccesses : List String := [%s]", strings.Join(quoted, ", "))
		l.p("/-- `Release` finds the holder with `p.curs[cur.Id()]` and never compares `ch.cur` with the released cursor -/")
		l.p("def releaseLooksUpById : Bool := %s", leanBool(byId && !comparesObj))
		l.p("/-- the second locked section of `GetOrCreate` reads `p.curs` before storing into it -/")
		l.p("def insertChecksExisting : Bool := %s", leanBool(insertChecks))
		l.p("/-- `Shutdown` touches cursors (it only closes `clsdCh` when false) -/")
		l.p("def shutdownClosesCursors : Bool := %s", leanBool(shutdownClosesCursors))
		l.write()
	}
}
