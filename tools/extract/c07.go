package main

import (
	"go/ast"
	"go/token"
	"path/filepath"
	"sort"
	"strconv"
	"strings"
)

// C07: file names of persisted state, the order of file-system calls in tindex.saveStateUnsafe, who calls the
// savers (pipes.dat, cindex.dat), whether loadState ever reads the backup, whether newPPipe drops loadPipeInfo's error,
// and the "hull is set" test of lightFill.

func c07Const(f *ast.File, name string) (string, bool) {
	if f == nil {
		return "", false
	}
	for _, d := range f.Decls {
		gd, ok := d.(*ast.GenDecl)
		if !ok || gd.Tok != token.CONST {
			continue
		}
		for _, s := range gd.Specs {
			vs := s.(*ast.ValueSpec)
			for i, n := range vs.Names {
				if n.Name == name && i < len(vs.Values) {
					if bl, ok := vs.Values[i].(*ast.BasicLit); ok && bl.Kind == token.STRING {
						v, err := strconv.Unquote(bl.Value)
						return v, err == nil
					}
				}
			}
		}
	}
	return "", false
}

func c07Sel(e ast.Expr) string {
	switch x := e.(type) {
	case *ast.SelectorExpr:
		return c07Sel(x.X) + "." + x.Sel.Name
	case *ast.Ident:
		return x.Name
	}
	return "?"
}

// callers of method/function `callee` (matched by selector suffix) among the functions of the files
func c07Callers(files []*ast.File, callee string) []string {
	var res []string
	for _, f := range files {
		if f == nil {
			continue
		}
		for _, d := range f.Decls {
			fd, ok := d.(*ast.FuncDecl)
			if !ok || fd.Body == nil {
				continue
			}
			found := false
			ast.Inspect(fd.Body, func(n ast.Node) bool {
				if ce, ok := n.(*ast.CallExpr); ok {
					s := c07Sel(ce.Fun)
					if s == callee || strings.HasSuffix(s, "."+callee) {
						found = true
					}
				}
				return true
			})
			if found && fd.Name.Name != callee {
				res = append(res, fd.Name.Name)
			}
		}
	}
	sort.Strings(res)
	return res
}

func c07UsesIdent(fd *ast.FuncDecl, name string) bool {
	found := false
	if fd == nil || fd.Body == nil {
		return false
	}
	ast.Inspect(fd.Body, func(n ast.Node) bool {
		if id, ok := n.(*ast.Ident); ok && id.Name == name {
			found = true
		}
		return true
	})
	return found
}

// ---- tolerant reading of a function: same-package callees are followed (depth <= 2), file arguments are classified
// by what they denote (which file-name constant they are built from), not by the names of local variables

// c07ParsePkg parses every non-test Go file of a package directory (build-tagged verif exports excluded)
func c07ParsePkg(rel string) []*ast.File {
	var fs []*ast.File
	names, _ := filepath.Glob(filepath.Join(repo, rel, "*.go"))
	sort.Strings(names)
	for _, n := range names {
		b := filepath.Base(n)
		if strings.HasSuffix(b, "_test.go") || strings.Contains(b, "verif") {
			continue
		}
		if f := parseFile(filepath.Join(rel, b)); f != nil {
			fs = append(fs, f)
		}
	}
	return fs
}

func c07PkgFuncs(files []*ast.File) map[string][]*ast.FuncDecl {
	m := map[string][]*ast.FuncDecl{}
	for _, f := range files {
		if f == nil {
			continue
		}
		for _, d := range f.Decls {
			if fd, ok := d.(*ast.FuncDecl); ok && fd.Body != nil {
				m[fd.Name.Name] = append(m[fd.Name.Name], fd)
			}
		}
	}
	return m
}

// c07Callee resolves a call to a function or method of the same package (by name; a selector call is taken for a method
// call when its X is a plain identifier that is not an imported package name used by the FS calls we look for)
func c07Callee(funcs map[string][]*ast.FuncDecl, ce *ast.CallExpr) *ast.FuncDecl {
	name := ""
	switch f := ce.Fun.(type) {
	case *ast.Ident:
		name = f.Name
	case *ast.SelectorExpr:
		if id, ok := f.X.(*ast.Ident); ok {
			switch id.Name {
			case "os", "ioutil", "path", "json", "errors", "fmt", "filepath", "fileutil", "strings", "sort":
				return nil
			}
		}
		name = f.Sel.Name
	}
	if fds := funcs[name]; len(fds) == 1 {
		return fds[0]
	}
	return nil
}

// c07Reaches: does fd (callees followed to the given depth) contain a call whose selector ends with suffix
func c07Reaches(funcs map[string][]*ast.FuncDecl, fd *ast.FuncDecl, suffix string, depth int) bool {
	if fd == nil || fd.Body == nil {
		return false
	}
	found := false
	ast.Inspect(fd.Body, func(n ast.Node) bool {
		ce, ok := n.(*ast.CallExpr)
		if !ok || found {
			return !found
		}
		sel := c07Sel(ce.Fun)
		if sel == suffix || strings.HasSuffix(sel, "."+suffix) {
			found = true
			return false
		}
		if depth > 0 {
			if cal := c07Callee(funcs, ce); cal != nil && cal != fd && c07Reaches(funcs, cal, suffix, depth-1) {
				found = true
			}
		}
		return !found
	})
	return found
}

// c07StrConsts: names of the string constants of the package under analysis (set by the generator before c07FsCalls), so
// that a temp-file suffix given as a named constant (`fn + cIdxTmpFileSuffix`) is recognised like a literal (`fn + ".tmp"`)
var c07StrConsts = map[string]bool{}

func c07CollectStrConsts(files []*ast.File) {
	c07StrConsts = map[string]bool{}
	for _, f := range files {
		if f == nil {
			continue
		}
		for _, d := range f.Decls {
			gd, ok := d.(*ast.GenDecl)
			if !ok || gd.Tok != token.CONST {
				continue
			}
			for _, sp := range gd.Specs {
				vs := sp.(*ast.ValueSpec)
				for i, n := range vs.Names {
					if i < len(vs.Values) {
						if bl, ok := vs.Values[i].(*ast.BasicLit); ok && bl.Kind == token.STRING {
							c07StrConsts[n.Name] = true
						}
					}
				}
			}
		}
	}
}

// c07Role classifies a file-name expression: "dat" (built from datConst), "bak" (from bakConst), "tmp" (a dat name plus
// a string literal), or "?"; identifiers are looked up in env
func c07Role(e ast.Expr, env map[string]string, datConst, bakConst string) string {
	switch x := e.(type) {
	case *ast.Ident:
		if x.Name == datConst {
			return "dat"
		}
		if bakConst != "" && x.Name == bakConst {
			return "bak"
		}
		if r, ok := env[x.Name]; ok {
			return r
		}
	case *ast.BinaryExpr:
		if x.Op == token.ADD {
			suffix := false
			switch y := x.Y.(type) {
			case *ast.BasicLit:
				suffix = y.Kind == token.STRING
			case *ast.Ident: // a named string constant other than the two file names, or a local bound to a literal
				suffix = (c07StrConsts[y.Name] && y.Name != datConst && y.Name != bakConst) || env[y.Name] == "lit"
			}
			if suffix && c07Role(x.X, env, datConst, bakConst) == "dat" {
				return "tmp"
			}
		}
	case *ast.CallExpr: // path.Join(dir, <const>) / filepath.Join: any other function of a file name is an unknown name
		if sel := c07Sel(x.Fun); sel != "path.Join" && sel != "filepath.Join" {
			return "?"
		}
		for _, a := range x.Args {
			if r := c07Role(a, env, datConst, bakConst); r != "?" && r != "lit" {
				return r
			}
		}
	case *ast.ParenExpr:
		return c07Role(x.X, env, datConst, bakConst)
	case *ast.BasicLit:
		if x.Kind == token.STRING {
			return "lit"
		}
	}
	return "?"
}

// c07FsCalls linearises the os.* / ioutil.* calls of fd in source order as "<func>(<role>,<role>)", following
// same-package callees (parameters bound to the roles of the arguments)
func c07FsCalls(funcs map[string][]*ast.FuncDecl, fd *ast.FuncDecl, env map[string]string, datConst, bakConst string, depth int) []string {
	var res []string
	if fd == nil || fd.Body == nil {
		return res
	}
	ast.Inspect(fd.Body, func(n ast.Node) bool {
		switch x := n.(type) {
		case *ast.AssignStmt:
			for i, lh := range x.Lhs {
				if id, ok := lh.(*ast.Ident); ok && i < len(x.Rhs) && len(x.Lhs) == len(x.Rhs) {
					if r := c07Role(x.Rhs[i], env, datConst, bakConst); r != "?" {
						env[id.Name] = r
					}
				}
			}
		case *ast.ValueSpec:
			for i, id := range x.Names {
				if i < len(x.Values) {
					if r := c07Role(x.Values[i], env, datConst, bakConst); r != "?" {
						env[id.Name] = r
					}
				}
			}
		case *ast.CallExpr:
			sel := c07Sel(x.Fun)
			switch sel {
			case "os.Stat", "os.Rename", "os.Link", "os.Remove", "ioutil.WriteFile", "os.WriteFile", "os.Create", "os.OpenFile", "os.Truncate":
				var roles []string
				for i, a := range x.Args {
					if i < 2 {
						roles = append(roles, c07Role(a, env, datConst, bakConst))
					}
				}
				if (sel == "ioutil.WriteFile" || sel == "os.WriteFile" || sel == "os.Stat" || sel == "os.Remove") && len(roles) > 1 {
					roles = roles[:1]
				}
				res = append(res, strings.TrimPrefix(strings.TrimPrefix(sel, "ioutil."), "os.")+"("+strings.Join(roles, ",")+")")
			default:
				if depth > 0 {
					if cal := c07Callee(funcs, x); cal != nil && cal != fd {
						sub := map[string]string{}
						i := 0
						if cal.Type.Params != nil {
							for _, fld := range cal.Type.Params.List {
								for _, nm := range fld.Names {
									if i < len(x.Args) {
										if r := c07Role(x.Args[i], env, datConst, bakConst); r != "?" {
											sub[nm.Name] = r
										}
									}
									i++
								}
							}
						}
						res = append(res, c07FsCalls(funcs, cal, sub, datConst, bakConst, depth-1)...)
					}
				}
			}
		}
		return true
	})
	return res
}

func init() {
	generators["C07"] = func() {
		l := newLean("C07", "Facts about persisted state: pkg/tindex/inmem.go (saveStateUnsafe, loadState), pkg/tmindex/cindex.go\n(snapshot, lightFill), pkg/pipe/persister.go, service.go, ppipe.go.")
		tf := parseFile("pkg/tindex/inmem.go")
		cf := parseFile("pkg/tmindex/cindex.go")
		pf := parseFile("pkg/pipe/persister.go")
		sf := parseFile("pkg/pipe/service.go")
		ppf := parseFile("pkg/pipe/ppipe.go")
		pfuncs := c07PkgFuncs(c07ParsePkg("pkg/pipe"))

		get := func(f *ast.File, n, where string) string {
			v, ok := c07Const(f, n)
			if !ok {
				problem("constant %s not found in %s", n, where)
			}
			return v
		}
		l.p("def tindexFileName : List UInt8 := %s  -- %q", leanBytes(get(tf, "cIdxFileName", "pkg/tindex/inmem.go")), get(tf, "cIdxFileName", ""))
		l.p("def tindexBackupFileName : List UInt8 := %s  -- %q", leanBytes(get(tf, "cIdxBackupFileName", "pkg/tindex/inmem.go")), get(tf, "cIdxBackupFileName", ""))
		l.p("def cindexFileName : List UInt8 := %s  -- %q", leanBytes(get(cf, "cIndexFileName", "pkg/tmindex/cindex.go")), get(cf, "cIndexFileName", ""))
		l.p("def pipesFileName : List UInt8 := %s  -- %q", leanBytes(get(pf, "cPipesFileName", "pkg/pipe/persister.go")), get(pf, "cPipesFileName", ""))

		// pipeFileName: path.Join(sp.dir, "<prefix>" + efn + "<suffix>"), efn := fileutil.EscapeToFileName(name)
		prefix, suffix, escapes, shape := "", "", false, false
		if fd := funcDecl(pf, "persister", "pipeFileName"); fd != nil {
			ast.Inspect(fd.Body, func(n ast.Node) bool {
				switch x := n.(type) {
				case *ast.CallExpr:
					if strings.HasSuffix(c07Sel(x.Fun), "EscapeToFileName") {
						escapes = true
					}
				case *ast.BinaryExpr:
					// ("pipe" + efn) + ".dat"
					if x.Op == token.ADD {
						if in, ok := x.X.(*ast.BinaryExpr); ok && in.Op == token.ADD {
							a, ok1 := in.X.(*ast.BasicLit)
							b, ok2 := x.Y.(*ast.BasicLit)
							if ok1 && ok2 {
								prefix, _ = strconv.Unquote(a.Value)
								suffix, _ = strconv.Unquote(b.Value)
								shape = true
							}
						}
					}
				}
				return true
			})
		}
		if !shape {
			problem("persister.pipeFileName no longer has the shape \"<lit>\" + escaped + \"<lit>\"")
		}
		l.p("/-- `persister.pipeFileName(name)` = dir / (prefix ++ escaped name ++ suffix) -/")
		l.p("def pipeFilePrefix : List UInt8 := %s  -- %q", leanBytes(prefix), prefix)
		l.p("def pipeFileSuffix : List UInt8 := %s  -- %q", leanBytes(suffix), suffix)
		l.p("def pipeFileNameEscapes : Bool := %s", leanBool(escapes))

		// order of file-system calls in saveStateUnsafe
		l.p("")
		l.p("/-- file-system relevant calls of `inmemService.saveStateUnsafe`, in source order -/")
		l.p("inductive FsCall where")
		l.p("  | statDat          -- os.Stat(fn)")
		l.p("  | renameDatToBak   -- os.Rename(fn, bFn)")
		l.p("  | writeDat         -- ioutil.WriteFile(fn, data): rewrite in place")
		l.p("  | writeTmp         -- ioutil.WriteFile(tmpFn, data)")
		l.p("  | removeBak        -- os.Remove(bFn)")
		l.p("  | linkDatToBak     -- os.Link(fn, bFn)")
		l.p("  | renameTmpToDat   -- os.Rename(tmpFn, fn)")
		l.p("  | other")
		l.p("deriving DecidableEq, Repr")
		var calls []string
		tfiles := c07ParsePkg("pkg/tindex")
		tfuncs := c07PkgFuncs(tfiles)
		c07CollectStrConsts(tfiles)
		if fd := funcDecl(tf, "inmemService", "saveStateUnsafe"); fd == nil {
			problem("tindex.inmemService.saveStateUnsafe not found")
		} else {
			for _, c := range c07FsCalls(tfuncs, fd, map[string]string{}, "cIdxFileName", "cIdxBackupFileName", 2) {
				switch c {
				case "Stat(dat)":
					calls = append(calls, ".statDat")
				case "Rename(dat,bak)":
					calls = append(calls, ".renameDatToBak")
				case "Rename(tmp,dat)":
					calls = append(calls, ".renameTmpToDat")
				case "Link(dat,bak)":
					calls = append(calls, ".linkDatToBak")
				case "WriteFile(dat)":
					calls = append(calls, ".writeDat")
				case "WriteFile(tmp)":
					calls = append(calls, ".writeTmp")
				case "Remove(bak)":
					calls = append(calls, ".removeBak")
				default:
					// a file-system call on a file whose role (index file / backup / temp file) is not recognised: the step list the
					// crash theorems talk about would silently lose a step
					problem("tindex.saveStateUnsafe: file-system call %s is not of a recognised shape", c)
					calls = append(calls, ".other")
				}
			}
		}
		l.p("def saveStateCalls : List FsCall := [%s]", strings.Join(calls, ", "))
		// repair of F-C07-901: getOrCreateJournal refuses to CREATE a partition whose tag line is not valid UTF-8 (a test with
		// utf8.ValidString / utf8.Valid whose branch returns); F-C07-902: newPPipe refuses a name / condition that is not
		validGuard := func(fd *ast.FuncDecl, fields []string) bool {
			if fd == nil || fd.Body == nil {
				return false
			}
			seen := map[string]bool{}
			guard := false
			ast.Inspect(fd.Body, func(n ast.Node) bool {
				is, ok := n.(*ast.IfStmt)
				if !ok {
					return true
				}
				calls := 0
				ast.Inspect(is.Cond, func(m ast.Node) bool {
					if ce, ok := m.(*ast.CallExpr); ok {
						if sel := c07Sel(ce.Fun); sel == "utf8.ValidString" || sel == "utf8.Valid" {
							calls++
							ast.Inspect(ce, func(a ast.Node) bool {
								if se, ok := a.(*ast.SelectorExpr); ok {
									seen[se.Sel.Name] = true
								}
								return true
							})
						}
					}
					return true
				})
				if calls > 0 {
					ast.Inspect(is.Body, func(y ast.Node) bool {
						if _, ok := y.(*ast.ReturnStmt); ok {
							guard = true
						}
						return true
					})
				}
				return true
			})
			for _, f := range fields {
				if !seen[f] {
					return false
				}
			}
			return guard
		}
		gocj := funcDecl(tf, "inmemService", "getOrCreateJournal")
		if gocj == nil {
			problem("tindex.inmemService.getOrCreateJournal not found")
		}
		l.p("/-- `getOrCreateJournal` refuses to create a partition whose tag line is not valid UTF-8 (repair of F-C07-901: the tag line is")
		l.p("a key of the JSON object in `tindex.dat`) -/")
		l.p("def getOrCreateJournalRefusesInvalidUtf8 : Bool := %s", leanBool(validGuard(gocj, nil)))

		l.p("/-- `loadState` mentions the backup file name (falls back to tindex.bak) -/")
		l.p("def loadStateReadsBackup : Bool := %s", leanBool(c07UsesIdent(funcDecl(tf, "inmemService", "loadState"), "cIdxBackupFileName")))

		// who saves pipes.dat / cindex.dat
		sp := c07Callers([]*ast.File{sf, ppf}, "savePipes")
		// Service.savePipes itself calls psr.savePipes: drop the wrapper
		var sp2 []string
		for _, c := range sp {
			if c != "savePipes" {
				sp2 = append(sp2, c)
			}
		}
		has := func(xs []string, x string) bool {
			for _, y := range xs {
				if y == x {
					return true
				}
			}
			return false
		}
		q := func(xs []string) string {
			r := make([]string, len(xs))
			for i, x := range xs {
				r[i] = leanStr(x)
			}
			return "[" + strings.Join(r, ", ") + "]"
		}
		if !c07Reaches(pfuncs, funcDecl(sf, "Service", "Shutdown"), "savePipes", 2) {
			problem("pipe.Service.Shutdown no longer calls savePipes")
		}
		// persister.savePipes: WriteFile(fn) in place, or WriteFile(tmpFn) + Rename(tmpFn, fn)
		inPlace, viaTmp, renames := false, false, false
		if fd := funcDecl(pf, "persister", "savePipes"); fd == nil {
			problem("pipe.persister.savePipes not found")
		} else {
			c07CollectStrConsts(c07ParsePkg("pkg/pipe"))
			seq := c07FsCalls(pfuncs, fd, map[string]string{}, "cPipesFileName", "", 2)
			for _, c := range seq {
				if strings.Contains(c, "?") {
					problem("pipe.persister.savePipes: file-system call %s is not of a recognised shape", c)
				}
				switch c {
				case "WriteFile(dat)":
					inPlace = true
				case "WriteFile(tmp)":
					viaTmp = true
				case "Rename(tmp,dat)":
					renames = viaTmp // the rename follows the write
				}
			}
			if !inPlace && !(viaTmp && renames) {
				problem("persister.savePipes neither rewrites the file in place nor writes a temp file and renames it (calls: %v)", seq)
			}
		}
		l.p("")
		l.p("/-- `persister.savePipes` writes `pipes.dat.tmp` and renames it over `pipes.dat` (false: rewrites `pipes.dat` in place) -/")
		l.p("def savePipesViaTmpRename : Bool := %s", leanBool(viaTmp && renames && !inPlace))
		l.p("/-- functions of pkg/pipe that call `savePipes` -/")
		l.p("def savePipesCallers : List String := %s", q(sp2))
		// "saved" means: before CreatePipe / DeletePipe returns, a registry save that STARTED AFTER the change of the pipe map has
		// completed. (1) Service.savePipes reaches persister.savePipes on every path: no return statement in front of that call,
		// the call not in a go statement; (2) in CreatePipe / DeletePipe the call of savePipes comes after the map update
		// (`s.ppipes[…] = …` / `delete(s.ppipes, …)`) and is not in a go statement
		saveSync := false
		if fd := funcDecl(sf, "Service", "savePipes"); fd == nil {
			problem("pipe.Service.savePipes not found")
		} else {
			var callPos token.Pos
			inGo := false
			var walk func(n ast.Node, g bool)
			walk = func(n ast.Node, g bool) {
				ast.Inspect(n, func(x ast.Node) bool {
					switch y := x.(type) {
					case *ast.GoStmt:
						walk(y.Call, true)
						return false
					case *ast.CallExpr:
						if sel := c07Sel(y.Fun); strings.HasSuffix(sel, "psr.savePipes") && callPos == token.NoPos {
							callPos = y.Pos()
							inGo = g
						}
					}
					return true
				})
			}
			walk(fd.Body, false)
			early := false
			ast.Inspect(fd.Body, func(x ast.Node) bool {
				if r, ok := x.(*ast.ReturnStmt); ok && callPos != token.NoPos && r.Pos() < callPos {
					early = true
				}
				return true
			})
			if callPos == token.NoPos {
				problem("pipe.Service.savePipes does not call persister.savePipes")
			}
			saveSync = callPos != token.NoPos && !inGo && !early
		}
		savedAfterUpdate := func(fd *ast.FuncDecl, isUpdate func(ast.Node) bool) bool {
			if fd == nil {
				return false
			}
			var updPos, savePos token.Pos
			inGo := false
			var walk func(n ast.Node, g bool)
			walk = func(n ast.Node, g bool) {
				ast.Inspect(n, func(x ast.Node) bool {
					if gs, ok := x.(*ast.GoStmt); ok {
						walk(gs.Call, true)
						return false
					}
					if isUpdate(x) && updPos == token.NoPos {
						updPos = x.Pos()
					}
					if ce, ok := x.(*ast.CallExpr); ok {
						if sel := c07Sel(ce.Fun); sel == "savePipes" || strings.HasSuffix(sel, ".savePipes") {
							savePos = ce.Pos() // the LAST save counts
							inGo = g
						}
					}
					return true
				})
			}
			walk(fd.Body, false)
			return updPos != token.NoPos && savePos != token.NoPos && updPos < savePos && !inGo
		}
		isMapAssign := func(x ast.Node) bool {
			as, ok := x.(*ast.AssignStmt)
			if !ok {
				return false
			}
			for _, lh := range as.Lhs {
				if ie, ok := lh.(*ast.IndexExpr); ok && strings.HasSuffix(c07Sel(ie.X), "ppipes") {
					return true
				}
			}
			return false
		}
		isMapDelete := func(x ast.Node) bool {
			ce, ok := x.(*ast.CallExpr)
			return ok && c07Sel(ce.Fun) == "delete" && len(ce.Args) == 2 && strings.HasSuffix(c07Sel(ce.Args[0]), "ppipes")
		}
		l.p("/-- before `CreatePipe` / `DeletePipe` returns, a registry save that started after the change of the pipe map has completed:")
		l.p("`Service.savePipes` has no return in front of `persister.savePipes` and does not start it in a goroutine, and the caller")
		l.p("calls it after the map update, not in a goroutine -/")
		l.p("def pipeDefsSavedOnCreate : Bool := %s", leanBool(saveSync && c07Reaches(pfuncs, funcDecl(sf, "Service", "CreatePipe"), "savePipes", 2) && savedAfterUpdate(funcDecl(sf, "Service", "CreatePipe"), isMapAssign)))
		l.p("def pipeDefsSavedOnDelete : Bool := %s", leanBool(saveSync && c07Reaches(pfuncs, funcDecl(sf, "Service", "DeletePipe"), "savePipes", 2) && savedAfterUpdate(funcDecl(sf, "Service", "DeletePipe"), isMapDelete)))
		// DeletePipe: is the position file removed (a call that reaches persister.onDeleteStream, e.g. ppipe.delete) BEFORE the
		// registry is saved, both synchronously (not inside a go statement)?
		removeFirst := false
		if dp := funcDecl(sf, "Service", "DeletePipe"); dp == nil {
			problem("pipe.Service.DeletePipe not found")
		} else {
			var removePos, savePos token.Pos
			async := false
			var walk func(n ast.Node, inGo bool)
			walk = func(n ast.Node, inGo bool) {
				ast.Inspect(n, func(x ast.Node) bool {
					switch y := x.(type) {
					case *ast.GoStmt:
						walk(y.Call, true)
						return false
					case *ast.CallExpr:
						sel := c07Sel(y.Fun)
						isRemove := sel == "onDeleteStream" || strings.HasSuffix(sel, ".onDeleteStream")
						if !isRemove {
							if cal := c07Callee(pfuncs, y); cal != nil && cal != dp && c07Reaches(pfuncs, cal, "onDeleteStream", 2) {
								isRemove = true
							}
						}
						if isRemove && removePos == 0 {
							removePos = y.Pos()
							async = async || inGo
						}
						if (sel == "savePipes" || strings.HasSuffix(sel, ".savePipes")) && savePos == 0 {
							savePos = y.Pos()
							async = async || inGo
						}
					}
					return true
				})
			}
			walk(dp.Body, false)
			if removePos == 0 {
				problem("pipe.Service.DeletePipe: no call that removes the position file (onDeleteStream) found")
			}
			removeFirst = removePos != 0 && savePos != 0 && removePos < savePos && !async
		}
		// worker.run: inside the copy loop, between the copy (`….Write(…)`) and `saveState` only error paths (an `if` whose
		// condition tests `err`) may leave or skip: a finished copy is always followed by a position save
		wf := parseFile("pkg/pipe/worker.go")
		savesAfterCopy := false
		if fd := funcDecl(wf, "worker", "run"); fd == nil {
			problem("pipe.worker.run not found")
		} else {
			ast.Inspect(fd.Body, func(n ast.Node) bool {
				fs, ok := n.(*ast.ForStmt)
				if !ok {
					return true
				}
				hasCall := func(x ast.Node, suffix string) bool {
					f := false
					ast.Inspect(x, func(y ast.Node) bool {
						if ce, ok := y.(*ast.CallExpr); ok && strings.HasSuffix(c07Sel(ce.Fun), suffix) {
							f = true
						}
						return true
					})
					return f
				}
				wi, si := -1, -1
				for i, st := range fs.Body.List {
					if wi < 0 && hasCall(st, ".Write") {
						wi = i
					}
					if wi >= 0 && si < 0 && hasCall(st, ".saveState") {
						si = i
					}
				}
				if wi < 0 || si < 0 {
					return true
				}
				ok2 := true
				for _, st := range fs.Body.List[wi+1 : si] {
					leaves := false
					ast.Inspect(st, func(y ast.Node) bool {
						switch z := y.(type) {
						case *ast.BranchStmt:
							leaves = leaves || z.Tok == token.BREAK || z.Tok == token.CONTINUE || z.Tok == token.GOTO
						case *ast.ReturnStmt:
							leaves = true
						}
						return true
					})
					if !leaves {
						continue
					}
					is, isIf := st.(*ast.IfStmt)
					onErr := false
					if isIf {
						ast.Inspect(is.Cond, func(y ast.Node) bool {
							if id, ok := y.(*ast.Ident); ok && id.Name == "err" {
								onErr = true
							}
							return true
						})
					}
					if !onErr {
						ok2 = false
					}
				}
				savesAfterCopy = ok2
				return false
			})
		}
		l.p("/-- `worker.run`: between a copy (`Journals.Write`) and `saveState` only error paths leave the loop: a copy that succeeded is")
		l.p("always followed by a save of the position, also when the pipe is being closed -/")
		l.p("def workerSavesPositionAfterEveryCopy : Bool := %s", leanBool(savesAfterCopy))
		// ppipe.saveState: the positions file is written inside the critical section of the pipe's lock that took the snapshot
		// of the position map — the call that reaches the file write (savePipeInfo, or any helper of pkg/pipe, followed to
		// depth 2) lies after `….lock.Lock()` and before the final `….lock.Unlock()`, and an Unlock in front of it belongs
		// to a branch that returns. Otherwise two workers of one pipe can write their snapshots in the other order.
		saveUnderLock := false
		if fd := funcDecl(ppf, "ppipe", "saveState"); fd == nil {
			problem("pipe.ppipe.saveState not found")
		} else {
			var lockPos, writePos, lastUnlock token.Pos
			ast.Inspect(fd.Body, func(n ast.Node) bool {
				ce, ok := n.(*ast.CallExpr)
				if !ok {
					return true
				}
				sel := c07Sel(ce.Fun)
				switch {
				case strings.HasSuffix(sel, "lock.Lock") && lockPos == token.NoPos:
					lockPos = ce.Pos()
				case strings.HasSuffix(sel, "lock.Unlock"):
					if ce.Pos() > lastUnlock {
						lastUnlock = ce.Pos()
					}
				default:
					if writePos == token.NoPos {
						writes := strings.HasSuffix(sel, "WriteFile")
						if !writes {
							if cal := c07Callee(pfuncs, ce); cal != nil && cal != fd && c07Reaches(pfuncs, cal, "WriteFile", 2) {
								writes = true
							}
						}
						if writes {
							writePos = ce.Pos()
						}
					}
				}
				return true
			})
			if writePos == token.NoPos {
				problem("pipe.ppipe.saveState: no call that writes the positions file found")
			}
			early := false // an Unlock in front of the write that is not followed by a return in its block
			ast.Inspect(fd.Body, func(n ast.Node) bool {
				bl, ok := n.(*ast.BlockStmt)
				if !ok {
					return true
				}
				for i, st := range bl.List {
					es, ok := st.(*ast.ExprStmt)
					if !ok {
						continue
					}
					ce, ok := es.X.(*ast.CallExpr)
					if !ok || !strings.HasSuffix(c07Sel(ce.Fun), "lock.Unlock") || ce.Pos() > writePos {
						continue
					}
					ret := false
					for _, later := range bl.List[i+1:] {
						if _, ok := later.(*ast.ReturnStmt); ok {
							ret = true
						}
					}
					if !ret {
						early = true
					}
				}
				return true
			})
			saveUnderLock = lockPos != token.NoPos && writePos != token.NoPos && lockPos < writePos && writePos < lastUnlock && !early
		}
		l.p("/-- `ppipe.saveState` writes the positions file while it holds the pipe's lock under which the position map was changed and")
		l.p("serialised: position files reach the disk in the order their snapshots are taken (the model's `savePipeInfo` is one step) -/")
		l.p("def positionsFileWrittenUnderPipeLock : Bool := %s", leanBool(saveUnderLock))
		npp := funcDecl(ppf, "", "newPPipe")
		if npp == nil {
			problem("pipe.newPPipe not found")
		}
		l.p("/-- `newPPipe` (every CREATE / ENSURE PIPE and every pipe of the registry at start) refuses a name, source condition or filter")
		l.p("that is not valid UTF-8 (repair of F-C07-902: they are JSON strings in `pipes.dat`) -/")
		l.p("def newPPipeRefusesInvalidUtf8 : Bool := %s", leanBool(validGuard(npp, []string{"Name", "TagsCond", "FltCond"})))
		l.p("/-- `Service.DeletePipe` removes the pipe's position file (`ppipe.delete` → `onDeleteStream`) before it saves the registry,")
		l.p("both before it returns (84f34ca); false: the registry is saved first, or one of the two runs in its own goroutine -/")
		l.p("def deletePipeRemovesPositionsBeforeSave : Bool := %s", leanBool(removeFirst))
		cs := c07Callers([]*ast.File{cf}, "saveDataToFile")
		if !has(cs, "close") {
			problem("cindex.close no longer calls saveDataToFile")
		}
		l.p("/-- functions of pkg/tmindex/cindex.go that call `saveDataToFile` -/")
		l.p("def cindexSaveCallers : List String := %s", q(cs))
		l.p("def cindexSnapshotOnlyAtClose : Bool := %s", leanBool(len(cs) == 1 && cs[0] == "close"))

		// newPPipe drops loadPipeInfo's error
		ignored := false
		if fd := funcDecl(ppf, "", "newPPipe"); fd == nil {
			problem("pipe.newPPipe not found")
		} else {
			ast.Inspect(fd.Body, func(n ast.Node) bool {
				if es, ok := n.(*ast.ExprStmt); ok {
					if ce, ok := es.X.(*ast.CallExpr); ok && strings.HasSuffix(c07Sel(ce.Fun), "loadPipeInfo") {
						ignored = true
					}
				}
				return true
			})
		}
		l.p("/-- `newPPipe` calls `loadPipeInfo` as a statement: its error is dropped -/")
		l.p("def loadPipeInfoErrorIgnored : Bool := %s", leanBool(ignored))

		// lightFill: `if c.MaxTs > 0 { continue }`
		skip := false
		if fd := funcDecl(cf, "cindex", "lightFill"); fd == nil {
			problem("cindex.lightFill not found")
		} else {
			ast.Inspect(fd.Body, func(n ast.Node) bool {
				if is, ok := n.(*ast.IfStmt); ok {
					if be, ok := is.Cond.(*ast.BinaryExpr); ok && be.Op == token.GTR && c07Sel(be.X) == "c.MaxTs" {
						if bl, ok := be.Y.(*ast.BasicLit); ok && bl.Value == "0" {
							skip = true
						}
					}
				}
				return true
			})
		}
		// partition.Service.Shutdown: does it sync the journals?
		parFiles := c07ParsePkg("pkg/partition")
		var shut *ast.FuncDecl
		for _, f := range parFiles {
			if fd := funcDecl(f, "Service", "Shutdown"); fd != nil {
				shut = fd
			}
		}
		if shut == nil {
			problem("partition.Service.Shutdown not found")
		}
		syncs := c07Reaches(c07PkgFuncs(parFiles), shut, "Sync", 2)
		// partition.Service.deleteJournal: a journal that still holds records is refused BEFORE the record leaves the tag index
		var delJ *ast.FuncDecl
		for _, f := range parFiles {
			if fd := funcDecl(f, "Service", "deleteJournal"); fd != nil {
				delJ = fd
			}
		}
		refusesNonEmpty := false
		if delJ == nil {
			problem("partition.Service.deleteJournal not found")
		} else {
			var guardPos, deletePos token.Pos
			hasCall := func(n ast.Node, name string) bool {
				found := false
				if n == nil {
					return false
				}
				ast.Inspect(n, func(x ast.Node) bool {
					if ce, ok := x.(*ast.CallExpr); ok {
						if se, ok := ce.Fun.(*ast.SelectorExpr); ok && se.Sel.Name == name {
							found = true
						}
					}
					return true
				})
				return found
			}
			ast.Inspect(delJ.Body, func(n ast.Node) bool {
				switch x := n.(type) {
				case *ast.IfStmt:
					sized := hasCall(x.Cond, "Size")
					if x.Init != nil && hasCall(x.Init, "Size") {
						sized = true
					}
					returns := false
					ast.Inspect(x.Body, func(y ast.Node) bool {
						if _, ok := y.(*ast.ReturnStmt); ok {
							returns = true
						}
						return true
					})
					if sized && returns && guardPos == 0 {
						guardPos = x.Pos()
					}
				case *ast.CallExpr:
					if se, ok := x.Fun.(*ast.SelectorExpr); ok && se.Sel.Name == "Delete" && deletePos == 0 {
						deletePos = x.Pos()
					}
				}
				return true
			})
			if deletePos == 0 {
				problem("partition.Service.deleteJournal: no call of TIndex.Delete found")
			}
			refusesNonEmpty = guardPos != 0 && guardPos < deletePos
		}
		l.p("/-- `partition.Service.deleteJournal` returns without touching the tag index when the journal still holds records (a test of")
		l.p("`Size()` in front of `TIndex.Delete`): the tag-index save of a deletion never drops the record of a journal with data -/")
		l.p("def deleteJournalRefusesNonEmpty : Bool := %s", leanBool(refusesNonEmpty))
		l.p("/-- `partition.Service.Shutdown` calls `Sync()` on the journals (the library's journal controller has no Shutdown) -/")
		l.p("def partitionShutdownSyncsJournals : Bool := %s", leanBool(syncs))
		// cindex.onWrite: (1) the branch for a source the index has no entry for (`!ok`, an if or a switch case) sets
		// newChk = true; (2) the guard `if newChk && firstRec > 0 { makeCorrupted … }` (→ background rebuild) exists
		unknownSetsNew, guard := false, false
		if fd := funcDecl(cf, "cindex", "onWrite"); fd == nil {
			problem("cindex.onWrite not found")
		} else {
			isNotOk := func(e ast.Expr) bool {
				u, ok := e.(*ast.UnaryExpr)
				return ok && u.Op == token.NOT && c07Sel(u.X) == "ok"
			}
			setsNew := func(body []ast.Stmt) bool {
				found := false
				for _, st := range body {
					ast.Inspect(st, func(n ast.Node) bool {
						if as, ok := n.(*ast.AssignStmt); ok && len(as.Lhs) == 1 && len(as.Rhs) == 1 && c07Sel(as.Lhs[0]) == "newChk" && c07Sel(as.Rhs[0]) == "true" {
							found = true
						}
						return true
					})
				}
				return found
			}
			ast.Inspect(fd.Body, func(n ast.Node) bool {
				switch x := n.(type) {
				case *ast.IfStmt:
					if isNotOk(x.Cond) && setsNew(x.Body.List) {
						unknownSetsNew = true
					}
					if be, ok := x.Cond.(*ast.BinaryExpr); ok && be.Op == token.LAND && c07Sel(be.X) == "newChk" {
						if c, ok := be.Y.(*ast.BinaryExpr); ok && c.Op == token.GTR && c07Sel(c.X) == "firstRec" {
							ast.Inspect(x.Body, func(m ast.Node) bool {
								if ce, ok := m.(*ast.CallExpr); ok && strings.HasSuffix(c07Sel(ce.Fun), "makeCorrupted") {
									guard = true
								}
								return true
							})
						}
					}
				case *ast.CaseClause:
					for _, e := range x.List {
						if isNotOk(e) && setsNew(x.Body) {
							unknownSetsNew = true
						}
					}
				}
				return true
			})
		}
		// cindex.syncChunks: what is known about a chunk that holds more records than the hull accounts for is dropped
		tmFuncs := c07PkgFuncs(c07ParsePkg("pkg/tmindex"))
		if funcDecl(cf, "cindex", "syncChunks") == nil {
			problem("cindex.syncChunks not found")
		}
		dropsStale := c07Reaches(tmFuncs, funcDecl(cf, "cindex", "syncChunks"), "dropStale", 2)
		if funcDecl(cf, "cindex", "init") == nil {
			problem("cindex.init not found")
		}
		// the refined shape of the F06 repair (7ea0278)
		onlyLoaded, staleWriteNew, deletes := false, false, 0
		if fds := tmFuncs["dropStale"]; len(fds) == 1 {
			ast.Inspect(fds[0].Body, func(n ast.Node) bool {
				if se, ok := n.(*ast.SelectorExpr); ok && se.Sel.Name == "loaded" {
					onlyLoaded = true
				}
				return true
			})
		}
		if fd := funcDecl(cf, "cindex", "onWrite"); fd != nil {
			ast.Inspect(fd.Body, func(n ast.Node) bool {
				is, ok := n.(*ast.IfStmt)
				if !ok {
					return true
				}
				cmp := false
				ast.Inspect(is.Cond, func(m ast.Node) bool {
					if be, ok := m.(*ast.BinaryExpr); ok && be.Op == token.GTR && c07Sel(be.X) == "firstRec" && strings.HasSuffix(c07Sel(be.Y), ".Recs") {
						cmp = true
					}
					return true
				})
				if cmp {
					for _, st := range is.Body.List {
						if as, ok := st.(*ast.AssignStmt); ok && len(as.Lhs) == 1 && c07Sel(as.Lhs[0]) == "newChk" && c07Sel(as.Rhs[0]) == "true" {
							staleWriteNew = true
						}
					}
				}
				return true
			})
		}
		if fd := funcDecl(cf, "cindex", "syncChunks"); fd != nil {
			ast.Inspect(fd.Body, func(n ast.Node) bool {
				if ce, ok := n.(*ast.CallExpr); ok && c07Sel(ce.Fun) == "delete" && len(ce.Args) == 2 && c07Sel(ce.Args[0]) == "ci.journals" {
					deletes++
				}
				return true
			})
		}
		// order inside syncChunks' first locked section: dropStale BEFORE the hull copy apply(sc, true); and a7caf30: the
		// selector leaves a chunk wholly open while the journal has confirmed more records than the index accounts for
		dropPos, copyPos := token.NoPos, token.NoPos
		if fd := funcDecl(cf, "cindex", "syncChunks"); fd != nil {
			ast.Inspect(fd.Body, func(n ast.Node) bool {
				if ce, ok := n.(*ast.CallExpr); ok {
					sel := c07Sel(ce.Fun)
					if strings.HasSuffix(sel, ".dropStale") && dropPos == token.NoPos {
						dropPos = ce.Pos()
					}
					if strings.HasSuffix(sel, ".apply") && len(ce.Args) == 2 && c07Sel(ce.Args[1]) == "true" && copyPos == token.NoPos {
						copyPos = ce.Pos()
					}
				}
				return true
			})
		}
		if copyPos == token.NoPos {
			problem("cindex.syncChunks: the hull copy apply(sc, true) was not found")
		}
		l.p("/-- in `syncChunks` the stale entries are taken out (`dropStale`) BEFORE the known hulls are copied into the new list")
		l.p("(`apply(sc, true)`): copied first, a stale hull would survive in the new entry and `lightFill` would skip it -/")
		l.p("def syncChunksDropsStaleBeforeHullCopy : Bool := %s", leanBool(dropPos != token.NoPos && copyPos != token.NoPos && dropPos < copyPos))
		opens := false
		for _, f := range parFiles {
			if fd := funcDecl(f, "chkSelector", "updatePoss"); fd != nil {
				usesKnown := c07Reaches(c07PkgFuncs(parFiles), fd, "KnownRecordsInfo", 1)
				ast.Inspect(fd.Body, func(n ast.Node) bool {
					if be, ok := n.(*ast.BinaryExpr); ok && be.Op == token.GTR && strings.HasSuffix(c07Sel(be.X), ".count") && c07Sel(be.Y) == "known" {
						opens = usesKnown
					}
					return true
				})
			}
		}
		l.p("/-- `chkSelector.updatePoss` (a7caf30): when the chunk has confirmed more records than the time index accounts for")
		l.p("(`chkSt.count > known`, `KnownRecordsInfo`), neither hull nor index closes the window — the whole chunk stays open -/")
		l.p("def selectorOpensChunkAheadOfIndex : Bool := %s", leanBool(opens))
		l.p("/-- `dropStale` looks only at entries read from the snapshot file (`chkInfo.loaded`): a live entry, whose chunk is ahead")
		l.p("of it for the moment between a confirmed write and its notification, is never dropped (7ea0278) -/")
		l.p("def dropStaleOnlySnapshotEntries : Bool := %s", leanBool(onlyLoaded))
		l.p("/-- `cindex.onWrite`: a write that lands on a snapshot entry beyond the records it accounts for (`firstRec > last.Recs`)")
		l.p("sets `newChk`, so the chunk is rebuilt like one notified from the middle (7ea0278) -/")
		l.p("def onWriteStaleSnapshotEntryIsNewChk : Bool := %s", leanBool(staleWriteNew))
		// … and that test comes BEFORE the entry's record count is raised to the end of the batch (`X.Recs = lastRec + 1`): the
		// other way round `firstRec > X.Recs` can never hold
		staleBeforeBump := false
		if fd := funcDecl(cf, "cindex", "onWrite"); fd != nil {
			stalePos, bumpPos := token.NoPos, token.NoPos
			ast.Inspect(fd.Body, func(n ast.Node) bool {
				switch x := n.(type) {
				case *ast.IfStmt:
					ast.Inspect(x.Cond, func(m ast.Node) bool {
						if be, ok := m.(*ast.BinaryExpr); ok && be.Op == token.GTR && c07Sel(be.X) == "firstRec" && strings.HasSuffix(c07Sel(be.Y), ".Recs") && stalePos == token.NoPos {
							stalePos = x.Pos()
						}
						return true
					})
				case *ast.AssignStmt:
					if len(x.Lhs) == 1 && strings.HasSuffix(c07Sel(x.Lhs[0]), ".Recs") && bumpPos == token.NoPos {
						bumpPos = x.Pos()
					}
				}
				return true
			})
			staleBeforeBump = stalePos != token.NoPos && (bumpPos == token.NoPos || stalePos < bumpPos)
		}
		l.p("/-- in `cindex.onWrite` the staleness test `firstRec > last.Recs` is evaluated before `last.Recs` is raised to the end of")
		l.p("the notified batch (after that assignment it could never hold) -/")
		l.p("def onWriteChecksStalenessBeforeRecsBump : Bool := %s", leanBool(staleBeforeBump))
		l.p("/-- `cindex.syncChunks` removes the partition from the map instead of storing an empty chunk list after `dropStale` -/")
		l.p("def syncChunksNeverStoresEmptyList : Bool := %s", leanBool(deletes >= 2))
		l.p("/-- `cindex.init` checks every loaded root (`ckiCtrlr.isRoot`: the block can be read and is not empty) and forgets the")
		l.p("ones that fail, so that the chunk takes the \"no index → rebuild\" path (repair of finding F47) -/")
		l.p("def cindexInitValidatesRoots : Bool := %s", leanBool(c07Reaches(tmFuncs, funcDecl(cf, "cindex", "init"), "isRoot", 2)))
		l.p("/-- `cindex.syncChunks` drops the entry of a chunk that holds more records than its hull accounts for (`chkInfo.Recs`,")
		l.p("persisted in the snapshot): the chunk is then handled like one the index does not know (repair of finding F06) -/")
		l.p("def syncChunksDropsStaleEntries : Bool := %s", leanBool(dropsStale))
		l.p("/-- `cindex.onWrite`: for a source the index has no entry for, the new entry counts as a new chunk (`newChk = true`) -/")
		l.p("def onWriteUnknownSourceSetsNewChk : Bool := %s", leanBool(unknownSetsNew))
		l.p("/-- `cindex.onWrite`: `if newChk && firstRec > 0 { makeCorrupted; return ErrTmIndexCorrupted }` — a chunk that is new to the")
		l.p("index but already holds records is handed to the background rebuilder -/")
		l.p("def onWriteNewChunkMidwayRebuilds : Bool := %s", leanBool(guard))
		l.p("/-- `lightFill` leaves a chunk alone when its `MaxTs > 0` (hull considered known) -/")
		l.p("def lightFillSkipsWhenMaxTsPositive : Bool := %s", leanBool(skip))
		l.write()
	}
}
