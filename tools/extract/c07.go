package main

import (
	"go/ast"
	"go/token"
	"sort"
	"strconv"
	"strings"
)

// C07: file names of persisted state, the order of file-system calls in tindex.saveStateUnsafe, who calls the
// savers (pipes.dat, cindex.dat), whether loadState ever reads the backup, whether newPPipe drops loadPipeInfo's error,
// and the "hull is set" test of lightFill.

func c07Const(f *ast.File, name string) (string, bool) {
	if f == nil {
		return "", false
	}
	for _, d := range f.Decls {
		gd, ok := d.(*ast.GenDecl)
		if !ok || gd.Tok != token.CONST {
			continue
		}
		for _, s := range gd.Specs {
			vs := s.(*ast.ValueSpec)
			for i, n := range vs.Names {
				if n.Name == name && i < len(vs.Values) {
					if bl, ok := vs.Values[i].(*ast.BasicLit); ok && bl.Kind == token.STRING {
						v, err := strconv.Unquote(bl.Value)
						return v, err == nil
					}
				}
			}
		}
	}
	return "", false
}

func c07Sel(e ast.Expr) string {
	switch x := e.(type) {
	case *ast.SelectorExpr:
		return c07Sel(x.X) + "." + x.Sel.Name
	case *ast.Ident:
		return x.Name
	}
	return "?"
}

// callers of method/function `callee` (matched by selector suffix) among the functions of the files
func c07Callers(files []*ast.File, callee string) []string {
	var res []string
	for _, f := range files {
		if f == nil {
			continue
		}
		for _, d := range f.Decls {
			fd, ok := d.(*ast.FuncDecl)
			if !ok || fd.Body == nil {
				continue
			}
			found := false
			ast.Inspect(fd.Body, func(n ast.Node) bool {
				if ce, ok := n.(*ast.CallExpr); ok {
					s := c07Sel(ce.Fun)
					if s == callee || strings.HasSuffix(s, "."+callee) {
						found = true
					}
				}
				return true
			})
			if found && fd.Name.Name != callee {
				res = append(res, fd.Name.Name)
			}
		}
	}
	sort.Strings(res)
	return res
}

func c07UsesIdent(fd *ast.FuncDecl, name string) bool {
	found := false
	if fd == nil || fd.Body == nil {
		return false
	}
	ast.Inspect(fd.Body, func(n ast.Node) bool {
		if id, ok := n.(*ast.Ident); ok && id.Name == name {
			found = true
		}
		return true
	})
	return found
}

func init() {
	generators["C07"] = func() {
		l := newLean("C07", "Facts about persisted state: pkg/tindex/inmem.go (saveStateUnsafe, loadState), pkg/tmindex/cindex.go\n(snapshot, lightFill), pkg/pipe/persister.go, service.go, ppipe.go.")
		tf := parseFile("pkg/tindex/inmem.go")
		cf := parseFile("pkg/tmindex/cindex.go")
		pf := parseFile("pkg/pipe/persister.go")
		sf := parseFile("pkg/pipe/service.go")
		ppf := parseFile("pkg/pipe/ppipe.go")

		get := func(f *ast.File, n, where string) string {
			v, ok := c07Const(f, n)
			if !ok {
				problem("constant %s not found in %s", n, where)
			}
			return v
		}
		l.p("def tindexFileName : List UInt8 := %s  -- %q", leanBytes(get(tf, "cIdxFileName", "pkg/tindex/inmem.go")), get(tf, "cIdxFileName", ""))
		l.p("def tindexBackupFileName : List UInt8 := %s  -- %q", leanBytes(get(tf, "cIdxBackupFileName", "pkg/tindex/inmem.go")), get(tf, "cIdxBackupFileName", ""))
		l.p("def cindexFileName : List UInt8 := %s  -- %q", leanBytes(get(cf, "cIndexFileName", "pkg/tmindex/cindex.go")), get(cf, "cIndexFileName", ""))
		l.p("def pipesFileName : List UInt8 := %s  -- %q", leanBytes(get(pf, "cPipesFileName", "pkg/pipe/persister.go")), get(pf, "cPipesFileName", ""))

		// pipeFileName: path.Join(sp.dir, "<prefix>" + efn + "<suffix>"), efn := fileutil.EscapeToFileName(name)
		prefix, suffix, escapes, shape := "", "", false, false
		if fd := funcDecl(pf, "persister", "pipeFileName"); fd != nil {
			ast.Inspect(fd.Body, func(n ast.Node) bool {
				switch x := n.(type) {
				case *ast.CallExpr:
					if strings.HasSuffix(c07Sel(x.Fun), "EscapeToFileName") {
						escapes = true
					}
				case *ast.BinaryExpr:
					// ("pipe" + efn) + ".dat"
					if x.Op == token.ADD {
						if in, ok := x.X.(*ast.BinaryExpr); ok && in.Op == token.ADD {
							a, ok1 := in.X.(*ast.BasicLit)
							b, ok2 := x.Y.(*ast.BasicLit)
							if ok1 && ok2 {
								prefix, _ = strconv.Unquote(a.Value)
								suffix, _ = strconv.Unquote(b.Value)
								shape = true
							}
						}
					}
				}
				return true
			})
		}
		if !shape {
			problem("persister.pipeFileName no longer has the shape \"<lit>\" + escaped + \"<lit>\"")
		}
		l.p("/-- `persister.pipeFileName(name)` = dir / (prefix ++ escaped name ++ suffix) -/")
		l.p("def pipeFilePrefix : List UInt8 := %s  -- %q", leanBytes(prefix), prefix)
		l.p("def pipeFileSuffix : List UInt8 := %s  -- %q", leanBytes(suffix), suffix)
		l.p("def pipeFileNameEscapes : Bool := %s", leanBool(escapes))

		// order of file-system calls in saveStateUnsafe
		l.p("")
		l.p("/-- file-system relevant calls of `inmemService.saveStateUnsafe`, in source order -/")
		l.p("inductive FsCall where")
		l.p("  | statDat          -- os.Stat(fn)")
		l.p("  | renameDatToBak   -- os.Rename(fn, bFn)")
		l.p("  | writeDat         -- ioutil.WriteFile(fn, data): rewrite in place")
		l.p("  | writeTmp         -- ioutil.WriteFile(tmpFn, data)")
		l.p("  | removeBak        -- os.Remove(bFn)")
		l.p("  | linkDatToBak     -- os.Link(fn, bFn)")
		l.p("  | renameTmpToDat   -- os.Rename(tmpFn, fn)")
		l.p("  | other")
		l.p("deriving DecidableEq, Repr")
		var calls []string
		if fd := funcDecl(tf, "inmemService", "saveStateUnsafe"); fd == nil {
			problem("tindex.inmemService.saveStateUnsafe not found")
		} else {
			ast.Inspect(fd.Body, func(n ast.Node) bool {
				ce, ok := n.(*ast.CallExpr)
				if !ok {
					return true
				}
				arg := func(i int) string {
					if i < len(ce.Args) {
						return c07Sel(ce.Args[i])
					}
					return ""
				}
				switch c07Sel(ce.Fun) {
				case "os.Stat":
					if arg(0) == "fn" {
						calls = append(calls, ".statDat")
					} else {
						calls = append(calls, ".other")
					}
				case "os.Rename":
					switch {
					case arg(0) == "fn" && arg(1) == "bFn":
						calls = append(calls, ".renameDatToBak")
					case arg(0) == "tmpFn" && arg(1) == "fn":
						calls = append(calls, ".renameTmpToDat")
					default:
						calls = append(calls, ".other")
					}
				case "os.Link":
					if arg(0) == "fn" && arg(1) == "bFn" {
						calls = append(calls, ".linkDatToBak")
					} else {
						calls = append(calls, ".other")
					}
				case "ioutil.WriteFile", "os.WriteFile":
					switch arg(0) {
					case "fn":
						calls = append(calls, ".writeDat")
					case "tmpFn":
						calls = append(calls, ".writeTmp")
					default:
						calls = append(calls, ".other")
					}
				case "os.Remove":
					if arg(0) == "bFn" {
						calls = append(calls, ".removeBak")
					} else {
						calls = append(calls, ".other")
					}
				case "os.Create", "os.OpenFile":
					calls = append(calls, ".other")
				}
				return true
			})
		}
		l.p("def saveStateCalls : List FsCall := [%s]", strings.Join(calls, ", "))
		l.p("/-- `loadState` mentions the backup file name (falls back to tindex.bak) -/")
		l.p("def loadStateReadsBackup : Bool := %s", leanBool(c07UsesIdent(funcDecl(tf, "inmemService", "loadState"), "cIdxBackupFileName")))

		// who saves pipes.dat / cindex.dat
		sp := c07Callers([]*ast.File{sf, ppf}, "savePipes")
		// Service.savePipes itself calls psr.savePipes: drop the wrapper
		var sp2 []string
		for _, c := range sp {
			if c != "savePipes" {
				sp2 = append(sp2, c)
			}
		}
		has := func(xs []string, x string) bool {
			for _, y := range xs {
				if y == x {
					return true
				}
			}
			return false
		}
		q := func(xs []string) string {
			r := make([]string, len(xs))
			for i, x := range xs {
				r[i] = leanStr(x)
			}
			return "[" + strings.Join(r, ", ") + "]"
		}
		if !has(sp2, "Shutdown") {
			problem("pipe.Service.Shutdown no longer calls savePipes")
		}
		// persister.savePipes: WriteFile(fn) in place, or WriteFile(tmpFn) + Rename(tmpFn, fn)
		inPlace, viaTmp, renames := false, false, false
		if fd := funcDecl(pf, "persister", "savePipes"); fd == nil {
			problem("pipe.persister.savePipes not found")
		} else {
			ast.Inspect(fd.Body, func(n ast.Node) bool {
				if ce, ok := n.(*ast.CallExpr); ok {
					a0, a1 := "", ""
					if len(ce.Args) > 0 {
						a0 = c07Sel(ce.Args[0])
					}
					if len(ce.Args) > 1 {
						a1 = c07Sel(ce.Args[1])
					}
					switch c07Sel(ce.Fun) {
					case "ioutil.WriteFile", "os.WriteFile":
						inPlace = inPlace || a0 == "fn"
						viaTmp = viaTmp || a0 == "tmpFn"
					case "os.Rename":
						renames = renames || (a0 == "tmpFn" && a1 == "fn")
					}
				}
				return true
			})
			if !inPlace && !(viaTmp && renames) {
				problem("persister.savePipes neither rewrites the file in place nor writes a temp file and renames it")
			}
		}
		l.p("")
		l.p("/-- `persister.savePipes` writes `pipes.dat.tmp` and renames it over `pipes.dat` (false: rewrites `pipes.dat` in place) -/")
		l.p("def savePipesViaTmpRename : Bool := %s", leanBool(viaTmp && renames && !inPlace))
		l.p("/-- functions of pkg/pipe that call `savePipes` -/")
		l.p("def savePipesCallers : List String := %s", q(sp2))
		l.p("def pipeDefsSavedOnCreate : Bool := %s", leanBool(has(sp2, "CreatePipe")))
		l.p("def pipeDefsSavedOnDelete : Bool := %s", leanBool(has(sp2, "DeletePipe")))
		cs := c07Callers([]*ast.File{cf}, "saveDataToFile")
		if !has(cs, "close") {
			problem("cindex.close no longer calls saveDataToFile")
		}
		l.p("/-- functions of pkg/tmindex/cindex.go that call `saveDataToFile` -/")
		l.p("def cindexSaveCallers : List String := %s", q(cs))
		l.p("def cindexSnapshotOnlyAtClose : Bool := %s", leanBool(len(cs) == 1 && cs[0] == "close"))

		// newPPipe drops loadPipeInfo's error
		ignored := false
		if fd := funcDecl(ppf, "", "newPPipe"); fd == nil {
			problem("pipe.newPPipe not found")
		} else {
			ast.Inspect(fd.Body, func(n ast.Node) bool {
				if es, ok := n.(*ast.ExprStmt); ok {
					if ce, ok := es.X.(*ast.CallExpr); ok && strings.HasSuffix(c07Sel(ce.Fun), "loadPipeInfo") {
						ignored = true
					}
				}
				return true
			})
		}
		l.p("/-- `newPPipe` calls `loadPipeInfo` as a statement: its error is dropped -/")
		l.p("def loadPipeInfoErrorIgnored : Bool := %s", leanBool(ignored))

		// lightFill: `if c.MaxTs > 0 { continue }`
		skip := false
		if fd := funcDecl(cf, "cindex", "lightFill"); fd == nil {
			problem("cindex.lightFill not found")
		} else {
			ast.Inspect(fd.Body, func(n ast.Node) bool {
				if is, ok := n.(*ast.IfStmt); ok {
					if be, ok := is.Cond.(*ast.BinaryExpr); ok && be.Op == token.GTR && c07Sel(be.X) == "c.MaxTs" {
						if bl, ok := be.Y.(*ast.BasicLit); ok && bl.Value == "0" {
							skip = true
						}
					}
				}
				return true
			})
		}
		// partition.Service.Shutdown: does it sync the journals?
		syncs := false
		if fd := funcDecl(parseFile("pkg/partition/partition.go"), "Service", "Shutdown"); fd == nil {
			problem("partition.Service.Shutdown not found")
		} else {
			ast.Inspect(fd.Body, func(n ast.Node) bool {
				if ce, ok := n.(*ast.CallExpr); ok && strings.HasSuffix(c07Sel(ce.Fun), ".Sync") {
					syncs = true
				}
				return true
			})
		}
		l.p("/-- `partition.Service.Shutdown` calls `Sync()` on the journals (the library's journal controller has no Shutdown) -/")
		l.p("def partitionShutdownSyncsJournals : Bool := %s", leanBool(syncs))
		// cindex.onWrite: (1) the branch for a source the index has no entry for (`!ok`, an if or a switch case) sets
		// newChk = true; (2) the guard `if newChk && firstRec > 0 { makeCorrupted … }` (→ background rebuild) exists
		unknownSetsNew, guard := false, false
		if fd := funcDecl(cf, "cindex", "onWrite"); fd == nil {
			problem("cindex.onWrite not found")
		} else {
			isNotOk := func(e ast.Expr) bool {
				u, ok := e.(*ast.UnaryExpr)
				return ok && u.Op == token.NOT && c07Sel(u.X) == "ok"
			}
			setsNew := func(body []ast.Stmt) bool {
				found := false
				for _, st := range body {
					ast.Inspect(st, func(n ast.Node) bool {
						if as, ok := n.(*ast.AssignStmt); ok && len(as.Lhs) == 1 && len(as.Rhs) == 1 && c07Sel(as.Lhs[0]) == "newChk" && c07Sel(as.Rhs[0]) == "true" {
							found = true
						}
						return true
					})
				}
				return found
			}
			ast.Inspect(fd.Body, func(n ast.Node) bool {
				switch x := n.(type) {
				case *ast.IfStmt:
					if isNotOk(x.Cond) && setsNew(x.Body.List) {
						unknownSetsNew = true
					}
					if be, ok := x.Cond.(*ast.BinaryExpr); ok && be.Op == token.LAND && c07Sel(be.X) == "newChk" {
						if c, ok := be.Y.(*ast.BinaryExpr); ok && c.Op == token.GTR && c07Sel(c.X) == "firstRec" {
							ast.Inspect(x.Body, func(m ast.Node) bool {
								if ce, ok := m.(*ast.CallExpr); ok && strings.HasSuffix(c07Sel(ce.Fun), "makeCorrupted") {
									guard = true
								}
								return true
							})
						}
					}
				case *ast.CaseClause:
					for _, e := range x.List {
						if isNotOk(e) && setsNew(x.Body) {
							unknownSetsNew = true
						}
					}
				}
				return true
			})
		}
		// cindex.syncChunks: what is known about a chunk that holds more records than the hull accounts for is dropped
		dropsStale := false
		if fd := funcDecl(cf, "cindex", "syncChunks"); fd == nil {
			problem("cindex.syncChunks not found")
		} else {
			ast.Inspect(fd.Body, func(n ast.Node) bool {
				if ce, ok := n.(*ast.CallExpr); ok && strings.HasSuffix(c07Sel(ce.Fun), ".dropStale") {
					dropsStale = true
				}
				return true
			})
		}
		l.p("/-- `cindex.syncChunks` drops the entry of a chunk that holds more records than its hull accounts for (`chkInfo.Recs`,")
		l.p("persisted in the snapshot): the chunk is then handled like one the index does not know (repair of finding F06) -/")
		l.p("def syncChunksDropsStaleEntries : Bool := %s", leanBool(dropsStale))
		l.p("/-- `cindex.onWrite`: for a source the index has no entry for, the new entry counts as a new chunk (`newChk = true`) -/")
		l.p("def onWriteUnknownSourceSetsNewChk : Bool := %s", leanBool(unknownSetsNew))
		l.p("/-- `cindex.onWrite`: `if newChk && firstRec > 0 { makeCorrupted; return ErrTmIndexCorrupted }` — a chunk that is new to the")
		l.p("index but already holds records is handed to the background rebuilder -/")
		l.p("def onWriteNewChunkMidwayRebuilds : Bool := %s", leanBool(guard))
		l.p("/-- `lightFill` leaves a chunk alone when its `MaxTs > 0` (hull considered known) -/")
		l.p("def lightFillSkipsWhenMaxTsPositive : Bool := %s", leanBool(skip))
		l.write()
	}
}
