module verifextract

go 1.21
