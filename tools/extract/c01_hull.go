package main

// C01: how does iwrapper.Get know that minTs/maxTs hold no timestamp yet? Read by STRUCTURE from Get and the same-package
// functions/methods it calls (followed to depth 2), whatever the helpers, fields and locals are called:
//
//   flag form      a boolean receiver field F is tested negated (`!r.F`, `r.F == false`) — as a disjunct of the conditions that
//                  guard the two hull assignments (`if r.min > ts || !r.F { r.min = ts }` …) or as the condition of a "first
//                  timestamp" branch that assigns both hull fields (`if !r.F { r.min, r.max = ts, ts; r.F = true; return }`) —
//                  and `r.F = true` is assigned somewhere in that code; no hull field is compared with the literal 0
//   zero sentinel  two receiver fields are compared with the literal 0 in such conditions (`… || r.min == 0`)
//
// anything else is an EXTRACT-PROBLEM. The fact only selects the model's variant; that the comparisons themselves are right is
// the correspondence harness' business (section writeloop compares the hull of every OnWrite call).

import (
	"go/ast"
	"go/token"
	"os"
	"path/filepath"
	"strings"
)

func c01HullUsesFlag() bool {
	dir := "pkg/partition"
	ents, err := os.ReadDir(filepath.Join(repo, dir))
	if err != nil {
		problem("cannot list %s: %v", dir, err)
		return true
	}
	var files []*ast.File
	for _, e := range ents {
		if strings.HasSuffix(e.Name(), ".go") && !strings.HasSuffix(e.Name(), "_test.go") && !strings.Contains(e.Name(), "_verif") {
			if f := parseFile(filepath.Join(dir, e.Name())); f != nil {
				files = append(files, f)
			}
		}
	}
	recvType := func(fd *ast.FuncDecl) string {
		if fd.Recv == nil || len(fd.Recv.List) != 1 {
			return ""
		}
		switch t := fd.Recv.List[0].Type.(type) {
		case *ast.StarExpr:
			if id, ok := t.X.(*ast.Ident); ok {
				return id.Name
			}
		case *ast.Ident:
			return t.Name
		}
		return ""
	}
	find := func(recv, name string) *ast.FuncDecl {
		for _, f := range files {
			for _, d := range f.Decls {
				if fd, ok := d.(*ast.FuncDecl); ok && fd.Body != nil && fd.Name.Name == name && recvType(fd) == recv {
					return fd
				}
			}
		}
		return nil
	}
	get := find("iwrapper", "Get")
	if get == nil {
		problem("iwrapper.Get not found")
		return true
	}
	// Get and what it calls in the same package, to depth 2
	seen := map[*ast.FuncDecl]bool{get: true}
	level := []*ast.FuncDecl{get}
	all := []*ast.FuncDecl{get}
	for depth := 0; depth < 2; depth++ {
		var next []*ast.FuncDecl
		for _, fd := range level {
			rn := ""
			if fd.Recv != nil && len(fd.Recv.List) == 1 && len(fd.Recv.List[0].Names) == 1 {
				rn = fd.Recv.List[0].Names[0].Name
			}
			rt := recvType(fd)
			ast.Inspect(fd.Body, func(n ast.Node) bool {
				ce, ok := n.(*ast.CallExpr)
				if !ok {
					return true
				}
				var callee *ast.FuncDecl
				switch fn := ce.Fun.(type) {
				case *ast.SelectorExpr:
					if id, ok := fn.X.(*ast.Ident); ok && rn != "" && id.Name == rn {
						callee = find(rt, fn.Sel.Name)
					}
				case *ast.Ident:
					callee = find("", fn.Name)
				}
				if callee != nil && !seen[callee] {
					seen[callee] = true
					next = append(next, callee)
					all = append(all, callee)
				}
				return true
			})
		}
		level = next
	}
	flagGuards := map[string]map[string]bool{} // flag field -> receiver fields assigned under a condition that tests it negated
	flagSet := map[string]bool{}               // flag field assigned `true`
	zeroTested := map[string]bool{}            // receiver fields compared with the literal 0 in a guarding condition
	for _, fd := range all {
		if fd.Recv == nil || len(fd.Recv.List) != 1 || len(fd.Recv.List[0].Names) != 1 {
			continue
		}
		rn := fd.Recv.List[0].Names[0].Name
		field := func(e ast.Expr) (string, bool) {
			se, ok := unparen(e).(*ast.SelectorExpr)
			if !ok {
				return "", false
			}
			id, ok := se.X.(*ast.Ident)
			return se.Sel.Name, ok && id.Name == rn
		}
		isLit := func(e ast.Expr, v string) bool {
			switch x := unparen(e).(type) {
			case *ast.BasicLit:
				return x.Value == v
			case *ast.Ident:
				return x.Name == v
			}
			return false
		}
		var disjuncts func(e ast.Expr, out *[]ast.Expr)
		disjuncts = func(e ast.Expr, out *[]ast.Expr) {
			if be, ok := unparen(e).(*ast.BinaryExpr); ok && be.Op == token.LOR {
				disjuncts(be.X, out)
				disjuncts(be.Y, out)
				return
			}
			*out = append(*out, unparen(e))
		}
		assignedFields := func(b *ast.BlockStmt) []string {
			var fs []string
			ast.Inspect(b, func(n ast.Node) bool {
				if as, ok := n.(*ast.AssignStmt); ok {
					for _, l := range as.Lhs {
						if f, ok := field(l); ok {
							fs = append(fs, f)
						}
					}
				}
				return true
			})
			return fs
		}
		ast.Inspect(fd.Body, func(n ast.Node) bool {
			switch x := n.(type) {
			case *ast.IfStmt:
				var ds []ast.Expr
				disjuncts(x.Cond, &ds)
				for _, d := range ds {
					// !r.F   |   r.F == false   |   false == r.F
					flag := ""
					if ue, ok := d.(*ast.UnaryExpr); ok && ue.Op == token.NOT {
						if f, ok := field(ue.X); ok {
							flag = f
						}
					}
					if be, ok := d.(*ast.BinaryExpr); ok && be.Op == token.EQL {
						if f, ok := field(be.X); ok && isLit(be.Y, "false") {
							flag = f
						}
						if f, ok := field(be.Y); ok && isLit(be.X, "false") {
							flag = f
						}
						// r.H == 0   |   0 == r.H
						if f, ok := field(be.X); ok && isLit(be.Y, "0") {
							zeroTested[f] = true
						}
						if f, ok := field(be.Y); ok && isLit(be.X, "0") {
							zeroTested[f] = true
						}
					}
					if flag != "" {
						if flagGuards[flag] == nil {
							flagGuards[flag] = map[string]bool{}
						}
						for _, f := range assignedFields(x.Body) {
							if f != flag {
								flagGuards[flag][f] = true
							}
						}
					}
				}
			case *ast.AssignStmt:
				for i, l := range x.Lhs {
					if f, ok := field(l); ok && i < len(x.Rhs) && isLit(x.Rhs[i], "true") {
						flagSet[f] = true
					}
				}
			}
			return true
		})
	}
	flagForm := false
	for f, guarded := range flagGuards {
		if flagSet[f] && len(guarded) >= 2 {
			flagForm = true
		}
	}
	zeroForm := len(zeroTested) >= 2
	switch {
	case flagForm && !zeroForm:
		return true
	case zeroForm && !flagForm:
		return false
	}
	problem("iwrapper.Get (with the same-package helpers it calls, depth 2): the timestamp hull is neither initialised under a negated boolean receiver field that is then set to true (flag form, incl. the early-return form) nor under `== 0` tests of two receiver fields (zero sentinel); found flag candidates=%d set-true fields=%d zero-tested fields=%d", len(flagGuards), len(flagSet), len(zeroTested))
	return true
}
