package main

import (
	"go/ast"
	"go/token"
	"path/filepath"
	"sort"
	"strconv"
	"strings"
)

// Helpers of the C13 extractor that make the structural facts tolerant to behaviour-preserving refactorings: a fact is read
// from a function's body WITH the bodies of the same-package functions / methods it calls inlined at the call (depth <= 2), in
// source order, and patterns are identified by structure (which calls, which comparisons, which returns), not by local names.

// c13PkgFuncs indexes the functions and methods (by bare name) of the non-test, non-verif files of a package directory.
func c13PkgFuncs(dir string) (map[string]*ast.FuncDecl, []*ast.FuncDecl) {
	idx := map[string]*ast.FuncDecl{}
	var all []*ast.FuncDecl
	files, _ := filepath.Glob(filepath.Join(repo, dir, "*.go"))
	sort.Strings(files)
	for _, fn := range files {
		if strings.HasSuffix(fn, "_test.go") || strings.HasSuffix(fn, "_verif.go") {
			continue
		}
		rel, _ := filepath.Rel(repo, fn)
		f := parseFile(rel)
		if f == nil {
			continue
		}
		for _, d := range f.Decls {
			if fd, ok := d.(*ast.FuncDecl); ok && fd.Body != nil {
				if _, dup := idx[fd.Name.Name]; !dup {
					idx[fd.Name.Name] = fd
				}
				all = append(all, fd)
			}
		}
	}
	return idx, all
}

// c13Callee: the same-package function or method a call expression refers to (f(...) or recv.m(...)), or nil.
func c13Callee(ce *ast.CallExpr, pkg map[string]*ast.FuncDecl) *ast.FuncDecl {
	switch f := ce.Fun.(type) {
	case *ast.Ident:
		if fd, ok := pkg[f.Name]; ok && fd.Recv == nil {
			return fd
		}
	case *ast.SelectorExpr:
		if _, ok := f.X.(*ast.Ident); ok {
			if fd, ok := pkg[f.Sel.Name]; ok && fd.Recv != nil {
				return fd
			}
		}
	}
	return nil
}

// c13Walk visits the nodes under root in source order; at a call of a same-package function its body is visited in place.
func c13Walk(root ast.Node, pkg map[string]*ast.FuncDecl, depth int, seen map[*ast.FuncDecl]bool, visit func(n ast.Node)) {
	ast.Inspect(root, func(n ast.Node) bool {
		if n == nil {
			return false
		}
		visit(n)
		if ce, ok := n.(*ast.CallExpr); ok && depth > 0 {
			if fd := c13Callee(ce, pkg); fd != nil && !seen[fd] {
				seen[fd] = true
				c13Walk(fd.Body, pkg, depth-1, seen, visit)
				delete(seen, fd)
			}
		}
		return true
	})
}

func c13Unparen(e ast.Expr) ast.Expr {
	for {
		p, ok := e.(*ast.ParenExpr)
		if !ok {
			return e
		}
		e = p.X
	}
}

func c13IsLenCall(e ast.Expr) bool {
	ce, ok := c13Unparen(e).(*ast.CallExpr)
	if !ok || len(ce.Args) != 1 {
		return false
	}
	id, ok := ce.Fun.(*ast.Ident)
	return ok && id.Name == "len"
}

func c13Lit(e ast.Expr) (int64, bool) {
	bl, ok := c13Unparen(e).(*ast.BasicLit)
	if !ok || bl.Kind != token.INT {
		return 0, false
	}
	n, err := strconv.ParseInt(bl.Value, 0, 64)
	return n, err == nil
}

// c13LenLimit: `len(x) > N`, `N < len(x)`, `len(x) >= N+1`, `N+1 <= len(x)` — the largest length that passes the test.
func c13LenLimit(e ast.Expr) (int64, bool) {
	be, ok := c13Unparen(e).(*ast.BinaryExpr)
	if !ok {
		return 0, false
	}
	switch {
	case c13IsLenCall(be.X):
		if n, ok := c13Lit(be.Y); ok {
			switch be.Op {
			case token.GTR:
				return n, true
			case token.GEQ:
				return n - 1, true
			}
		}
	case c13IsLenCall(be.Y):
		if n, ok := c13Lit(be.X); ok {
			switch be.Op {
			case token.LSS:
				return n, true
			case token.LEQ:
				return n - 1, true
			}
		}
	}
	return 0, false
}

// c13ReturnsError: a return statement whose last result is not the identifier nil
func c13ReturnsError(n ast.Node) bool {
	rs, ok := n.(*ast.ReturnStmt)
	if !ok || len(rs.Results) == 0 {
		return false
	}
	id, isID := rs.Results[len(rs.Results)-1].(*ast.Ident)
	return !isID || id.Name != "nil"
}

func c13CallName(n ast.Node) string {
	ce, ok := n.(*ast.CallExpr)
	if !ok {
		return ""
	}
	switch f := ce.Fun.(type) {
	case *ast.Ident:
		return f.Name
	case *ast.SelectorExpr:
		return f.Sel.Name
	}
	return ""
}
