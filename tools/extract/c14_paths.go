package main

import (
	"fmt"
	"go/ast"
	"go/token"
)

// Matched release inside one function: for the callers of the tag index that acquire a partition by id and are meant to give
// it back before they return / go to the next loop iteration (ppipe.catchUp, Service.truncateGlobally, Service.cleanupTsIndex,
// tmirebuilder.serve), every path from the successful acquisition to a way out — `return`, `continue` / `break` of the loop the
// acquisition stands in, the end of that loop body or of the function, `panic` — must pass a `Release(…)` (a deferred one
// counts for every later way out). The walk is over the statements (if / else, switch, nested loops, blocks, closures as
// functions of their own); the acquisition is recognised by the call (`GetJournal(…)`, `GetJournalTags(…, true)`), the
// not-acquired branch by the test of the error it returned (`if err != nil {…}` / `if err == nil {…} else {…}`), whatever the
// variables are called.

type c14PathWalker struct {
	fn      string
	errVar  string // the error variable of the last acquisition whose outcome has not been tested yet
	defRel  bool   // a deferred Release is registered
	depth   int    // loops entered since the acquisition
	reports []string
}

func c14IsAcquire(n ast.Node) bool {
	found := false
	ast.Inspect(n, func(m ast.Node) bool {
		if _, ok := m.(*ast.FuncLit); ok {
			return false
		}
		ce, ok := m.(*ast.CallExpr)
		if !ok {
			return true
		}
		se, ok := ce.Fun.(*ast.SelectorExpr)
		if !ok {
			return true
		}
		switch se.Sel.Name {
		case "GetJournal":
			if len(ce.Args) == 2 { // partition.Service.GetJournal(ctx, src): acquires; tindex.GetJournal(tags) has one argument
				found = true
			}
		case "GetJournalTags":
			if len(ce.Args) == 2 {
				if id, ok := ce.Args[1].(*ast.Ident); ok && id.Name == "true" {
					found = true
				}
			}
		}
		return true
	})
	return found
}

func c14IsReleaseCall(e ast.Expr) bool {
	ce, ok := e.(*ast.CallExpr)
	if !ok {
		return false
	}
	se, ok := ce.Fun.(*ast.SelectorExpr)
	return ok && se.Sel.Name == "Release" && len(ce.Args) == 1
}

// errTest: +1 for `<v> != nil`, -1 for `<v> == nil`, 0 otherwise
func c14ErrTest(e ast.Expr, v string) int {
	be, ok := e.(*ast.BinaryExpr)
	if !ok || v == "" {
		return 0
	}
	id, ok1 := be.X.(*ast.Ident)
	nl, ok2 := be.Y.(*ast.Ident)
	if !ok1 || !ok2 || id.Name != v || nl.Name != "nil" {
		return 0
	}
	switch be.Op {
	case token.NEQ:
		return 1
	case token.EQL:
		return -1
	}
	return 0
}

func (w *c14PathWalker) exit(held bool, what string, pos token.Pos) {
	if held && !w.defRel {
		w.reports = append(w.reports, fmt.Sprintf("%s: %s at line %d with the partition still acquired", w.fn, what, fset.Position(pos).Line))
	}
}

// stmts: (held afterwards, control cannot fall through)
func (w *c14PathWalker) stmts(l []ast.Stmt, held bool) (bool, bool) {
	for _, s := range l {
		var t bool
		held, t = w.stmt(s, held)
		if t {
			return held, true
		}
	}
	return held, false
}

func (w *c14PathWalker) closures(n ast.Node) {
	ast.Inspect(n, func(m ast.Node) bool {
		if fl, ok := m.(*ast.FuncLit); ok {
			sub := &c14PathWalker{fn: w.fn + "(closure)"}
			h, t := sub.stmts(fl.Body.List, false)
			if !t {
				sub.exit(h, "end of the closure", fl.Body.Rbrace)
			}
			w.reports = append(w.reports, sub.reports...)
			return false
		}
		return true
	})
}

func (w *c14PathWalker) stmt(s ast.Stmt, held bool) (bool, bool) {
	switch x := s.(type) {
	case nil:
		return held, false
	case *ast.AssignStmt:
		w.closures(x)
		if c14IsAcquire(x) {
			// the error is the last value on the left
			w.errVar = ""
			if id, ok := x.Lhs[len(x.Lhs)-1].(*ast.Ident); ok {
				w.errVar = id.Name
			}
			w.depth = 0
			return true, false // (may be held: the test of the error decides)
		}
		return held, false
	case *ast.ExprStmt:
		w.closures(x)
		if c14IsReleaseCall(x.X) {
			return false, false
		}
		if ce, ok := x.X.(*ast.CallExpr); ok {
			if id, ok := ce.Fun.(*ast.Ident); ok && id.Name == "panic" {
				w.exit(held, "panic", x.Pos())
				return held, true
			}
		}
		return held, false
	case *ast.DeferStmt:
		if c14IsReleaseCall(x.Call) {
			w.defRel = true
			return held, false
		}
		w.closures(x)
		return held, false
	case *ast.GoStmt:
		w.closures(x)
		return held, false
	case *ast.ReturnStmt:
		w.closures(x)
		w.exit(held, "return", x.Pos())
		return held, true
	case *ast.BranchStmt:
		if (x.Tok == token.CONTINUE || x.Tok == token.BREAK) && w.depth == 0 {
			w.exit(held, x.Tok.String(), x.Pos())
		}
		return held, true
	case *ast.BlockStmt:
		return w.stmts(x.List, held)
	case *ast.LabeledStmt:
		return w.stmt(x.Stmt, held)
	case *ast.IfStmt:
		if x.Init != nil {
			held, _ = w.stmt(x.Init, held)
		}
		w.closures(x.Cond)
		hThen, hElse := held, held
		switch c14ErrTest(x.Cond, w.errVar) {
		case 1:
			hThen = false // the acquisition failed on this branch
			w.errVar = ""
		case -1:
			hElse = false
			w.errVar = ""
		}
		defBefore := w.defRel
		h1, t1 := w.stmts(x.Body.List, hThen)
		defThen := w.defRel
		w.defRel = defBefore
		h2, t2 := hElse, false
		if x.Else != nil {
			h2, t2 = w.stmt(x.Else, hElse)
		}
		defElse := w.defRel
		// a Release deferred on the branch on which the partition is held covers the ways out behind the if
		w.defRel = defBefore || (defThen && (t2 || !h2)) || (defElse && (t1 || !h1)) || (defThen && defElse)
		switch {
		case t1 && t2:
			return held, true
		case t1:
			return h2, false
		case t2:
			return h1, false
		default:
			return h1 || h2, false
		}
	case *ast.ForStmt, *ast.RangeStmt:
		var body *ast.BlockStmt
		if f, ok := x.(*ast.ForStmt); ok {
			body = f.Body
		} else {
			body = x.(*ast.RangeStmt).Body
		}
		// a loop: an acquisition inside its body must be matched inside the body (depth 0 there); an acquisition made
		// before the loop is carried through it
		outerErr, outerDepth := w.errVar, w.depth
		w.depth++
		h, t := w.stmts(body.List, held)
		if !t && h && !held {
			w.exit(true, "end of the loop body", body.Rbrace)
			h = false
		}
		w.errVar, w.depth = outerErr, outerDepth
		return held && h, false
	case *ast.SwitchStmt:
		res, all := false, true
		for _, c := range x.Body.List {
			h, t := w.stmts(c.(*ast.CaseClause).Body, held)
			if !t {
				res = res || h
				all = false
			}
		}
		_ = all
		return res || held, false
	case *ast.SelectStmt:
		res := held
		for _, c := range x.Body.List {
			h, t := w.stmts(c.(*ast.CommClause).Body, held)
			if !t {
				res = res || h
			}
		}
		return res, false
	default:
		w.closures(s)
		return held, false
	}
}

// c14MatchedRelease: the ways out of fd that leave an acquisition behind (nil fd → problem reported by the caller)
func c14MatchedRelease(name string, fd *ast.FuncDecl) []string {
	w := &c14PathWalker{fn: name}
	h, t := w.stmts(fd.Body.List, false)
	if !t {
		w.exit(h, "end of the function", fd.Body.Rbrace)
	}
	return w.reports
}
