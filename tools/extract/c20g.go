package main

import (
	"go/ast"
	"go/token"
	"io/ioutil"
	"path/filepath"
	"sort"
	"strings"
)

// C20G: facts about the GLUE around the date-time parsers (a second generated module of C20, so that the big kernel evaluations
// over Generated/C20.lean are not re-run when one of these changes):
//   - pkg/lql and pkg/scanner/parser/date keep no mutable package-level state (a memo of parsed literals or formats makes the
//     answer depend on what the process parsed before: relative literals, `minute`/`hour`/`day`/`week`, today's-date and
//     current-year formats go stale),
//   - (*DateTime).Capture parses its literal on every call,
//   - Admin.cmdCreatePipe hands the printed FROM / WHERE text to the pipe service unchanged (a literal's blanks are significant:
//     `Mon Mar  4 …` is a `_D` text).
func init() {
	generators["C20G"] = func() {
		l := newLean("C20G", "Facts about the glue around the date-time parsers: package-level state of pkg/lql and pkg/scanner/parser/date, (*DateTime).Capture, Admin.cmdCreatePipe.")
		for _, d := range []struct{ dir, name string }{{"pkg/lql", "lql"}, {"pkg/scanner/parser/date", "date"}} {
			names := c20gMutablePackageVars(d.dir)
			l.p("/-- package-level variables of %s that are written by the package's own code (assigned, incremented, indexed-and-assigned, or", d.dir)
			l.p("the receiver of Store/LoadOrStore/Delete/Put/Swap/CompareAndSwap/Add/Lock) or whose type is a map / channel / sync.* container: %s -/", func() string {
				if len(names) == 0 {
					return "none"
				}
				return strings.Join(names, ", ")
			}())
			l.p("def %sMutablePackageVars : Nat := %d", d.name, len(names))
		}
		pf := parseFile("pkg/lql/parser.go")
		every := false
		if fd := funcDecl(pf, "DateTime", "Capture"); fd == nil {
			problem("lql.(*DateTime).Capture not found")
		} else {
			every = c20gCaptureParsesFirst(fd)
		}
		l.p("/-- `(*DateTime).Capture` calls `parseLqlDateTime` on its argument as its first statement (no look-up, no early return before it) -/")
		l.p("def captureParsesEveryTime : Bool := %s", leanBool(every))
		af := parseFile("pkg/backend/admin.go")
		keeps := false
		if fd := funcDecl(af, "Admin", "cmdCreatePipe"); fd == nil {
			problem("backend.(*Admin).cmdCreatePipe not found")
		} else {
			keeps = c20gCreatePipeKeepsText(fd)
		}
		l.p("/-- `cmdCreatePipe` builds the pipe definition with `TagsCond: <p>.From.String()` and `FltCond: <p>.Where.String()` — the printed text,")
		l.p("not a transformation of it -/")
		l.p("def createPipeKeepsConditionText : Bool := %s", leanBool(keeps))
		l.write()
	}
}

// c20gMutablePackageVars: see the doc comment emitted above. Files `*_test.go` and `*_verif.go` are not part of the product.
func c20gMutablePackageVars(rel string) []string {
	dir := filepath.Join(repo, rel)
	fis, err := ioutil.ReadDir(dir)
	if err != nil {
		problem("cannot read " + rel)
		return nil
	}
	var files []*ast.File
	for _, fi := range fis {
		n := fi.Name()
		if !strings.HasSuffix(n, ".go") || strings.HasSuffix(n, "_test.go") || strings.HasSuffix(n, "_verif.go") {
			continue
		}
		if f := parseFile(filepath.Join(rel, n)); f != nil {
			files = append(files, f)
		}
	}
	pkgVars := map[string]bool{}
	specOf := map[*ast.ValueSpec]bool{}
	mutable := map[string]bool{}
	containerType := func(e ast.Expr) bool {
		switch t := e.(type) {
		case *ast.MapType, *ast.ChanType:
			return true
		case *ast.SelectorExpr:
			if x, ok := t.X.(*ast.Ident); ok && (x.Name == "sync" || x.Name == "atomic") {
				return true
			}
		}
		return false
	}
	for _, f := range files {
		for _, d := range f.Decls {
			gd, ok := d.(*ast.GenDecl)
			if !ok || gd.Tok != token.VAR {
				continue
			}
			for _, sp := range gd.Specs {
				vs := sp.(*ast.ValueSpec)
				specOf[vs] = true
				for i, n := range vs.Names {
					if n.Name == "_" {
						continue
					}
					pkgVars[n.Name] = true
					if vs.Type != nil && containerType(vs.Type) {
						mutable[n.Name] = true
					}
					if i < len(vs.Values) {
						switch v := vs.Values[i].(type) {
						case *ast.CompositeLit:
							if containerType(v.Type) {
								mutable[n.Name] = true
							}
						case *ast.CallExpr:
							if id, ok := v.Fun.(*ast.Ident); ok && id.Name == "make" && len(v.Args) > 0 && containerType(v.Args[0]) {
								mutable[n.Name] = true
							}
						}
					}
				}
			}
		}
	}
	// is this identifier a use of a package-level variable (not a local of the same name)?
	isPkgVar := func(id *ast.Ident) bool {
		if !pkgVars[id.Name] {
			return false
		}
		if id.Obj == nil {
			return true // declared in another file of the package
		}
		vs, ok := id.Obj.Decl.(*ast.ValueSpec)
		return ok && specOf[vs]
	}
	root := func(e ast.Expr) *ast.Ident { // x, x[i], x.f, *x -> x
		for {
			switch t := e.(type) {
			case *ast.Ident:
				return t
			case *ast.IndexExpr:
				e = t.X
			case *ast.SelectorExpr:
				e = t.X
			case *ast.StarExpr:
				e = t.X
			case *ast.ParenExpr:
				e = t.X
			default:
				return nil
			}
		}
	}
	mutators := map[string]bool{"Store": true, "LoadOrStore": true, "LoadAndDelete": true, "Delete": true, "Put": true, "Swap": true, "CompareAndSwap": true, "Add": true, "Lock": true, "Range": false}
	for _, f := range files {
		for _, d := range f.Decls {
			fd, ok := d.(*ast.FuncDecl)
			if !ok || fd.Body == nil {
				continue
			}
			ast.Inspect(fd.Body, func(n ast.Node) bool {
				switch s := n.(type) {
				case *ast.AssignStmt:
					if s.Tok == token.DEFINE {
						return true
					}
					for _, lhs := range s.Lhs {
						if id := root(lhs); id != nil && isPkgVar(id) {
							mutable[id.Name] = true
						}
					}
				case *ast.IncDecStmt:
					if id := root(s.X); id != nil && isPkgVar(id) {
						mutable[id.Name] = true
					}
				case *ast.CallExpr:
					if se, ok := s.Fun.(*ast.SelectorExpr); ok && mutators[se.Sel.Name] {
						if id, ok := se.X.(*ast.Ident); ok && isPkgVar(id) {
							mutable[id.Name] = true
						}
					}
				}
				return true
			})
		}
	}
	var out []string
	for n := range mutable {
		out = append(out, n)
	}
	sort.Strings(out)
	return out
}

// c20gCaptureParsesFirst: the first statement of the body is `<a>, <b> := parseLqlDateTime(<anything>)` (or `=`).
func c20gCaptureParsesFirst(fd *ast.FuncDecl) bool {
	if len(fd.Body.List) == 0 {
		return false
	}
	as, ok := fd.Body.List[0].(*ast.AssignStmt)
	if !ok || len(as.Rhs) != 1 {
		return false
	}
	ce, ok := as.Rhs[0].(*ast.CallExpr)
	if !ok {
		return false
	}
	id, ok := ce.Fun.(*ast.Ident)
	return ok && id.Name == "parseLqlDateTime"
}

// c20gCreatePipeKeepsText: some composite literal `<pkg>.Pipe{…}` in the function has the fields TagsCond and FltCond whose values
// are exactly `<x>.From.String()` and `<x>.Where.String()`.
func c20gCreatePipeKeepsText(fd *ast.FuncDecl) bool {
	isPrinted := func(e ast.Expr, field string) bool {
		ce, ok := e.(*ast.CallExpr)
		if !ok || len(ce.Args) != 0 {
			return false
		}
		se, ok := ce.Fun.(*ast.SelectorExpr)
		if !ok || se.Sel.Name != "String" {
			return false
		}
		inner, ok := se.X.(*ast.SelectorExpr)
		return ok && inner.Sel.Name == field
	}
	found := false
	ast.Inspect(fd.Body, func(n ast.Node) bool {
		cl, ok := n.(*ast.CompositeLit)
		if !ok {
			return true
		}
		if se, ok := cl.Type.(*ast.SelectorExpr); !ok || se.Sel.Name != "Pipe" {
			return true
		}
		tags, flt := false, false
		for _, el := range cl.Elts {
			kv, ok := el.(*ast.KeyValueExpr)
			if !ok {
				continue
			}
			k, ok := kv.Key.(*ast.Ident)
			if !ok {
				continue
			}
			if k.Name == "TagsCond" && isPrinted(kv.Value, "From") {
				tags = true
			}
			if k.Name == "FltCond" && isPrinted(kv.Value, "Where") {
				flt = true
			}
		}
		if tags && flt {
			found = true
		}
		return true
	})
	return found
}
