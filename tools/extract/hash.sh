#!/bin/sh
# usage: hash.sh <verif-dir> <repo> <relfile>...  — normalised hashes of source files (see hashFiles in main.go)
V="$1"; REPO="$2"; shift 2
cd "$V/tools/extract" || exit 2
export GOFLAGS=-mod=mod GOPROXY=off GOSUMDB=off GOTOOLCHAIN=local GOCACHE="$V/.cache/gocache"
mkdir -p "$V/.cache/bin"
[ -x "$V/.cache/bin/extract_hash" ] && [ "$V/.cache/bin/extract_hash" -nt main.go ] || go build -o "$V/.cache/bin/extract_hash" main.go || exit 3
"$V/.cache/bin/extract_hash" -hash "$REPO" "$@"
