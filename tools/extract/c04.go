package main

import (
	"go/ast"
	"go/token"
	"strconv"
)

// C04: the merge limit newCursor passes to GetJournals, the comparison GetJournals makes against it, the operator of
// model.GetEarliest, and whether testFunc negates the comparison when the mixer runs backward.
func init() {
	generators["C04"] = func() {
		l := newLean("C04", "Facts about pkg/cursor/cursor.go (getSourcesByState), pkg/partition/partition.go (GetJournals),\npkg/model/mixer.go (GetEarliest, testFunc).")

		// 1. the literal third argument of itf.GetJournals(ctx, sel.Source, 50)
		limit := -1
		fd := funcDecl(parseFile("pkg/cursor/cursor.go"), "", "getSourcesByState")
		if fd == nil {
			problem("cursor.getSourcesByState not found")
		} else {
			ast.Inspect(fd.Body, func(n ast.Node) bool {
				c, ok := n.(*ast.CallExpr)
				if !ok {
					return true
				}
				if se, ok := c.Fun.(*ast.SelectorExpr); ok && se.Sel.Name == "GetJournals" && len(c.Args) == 3 {
					if bl, ok := c.Args[2].(*ast.BasicLit); ok && bl.Kind == token.INT {
						if v, err := strconv.Atoi(bl.Value); err == nil {
							limit = v
						}
					}
				}
				return true
			})
			if limit < 0 {
				problem("the merge limit passed to GetJournals in getSourcesByState is no longer an integer literal")
				limit = 0
			}
		}
		l.p("/-- `itf.GetJournals(ctx, sel.Source, <this>)` in `getSourcesByState` -/")
		l.p("def mergeLimit : Nat := %d", limit)

		// 2. `if len(res) == maxLimit` inside GetJournals
		op := ""
		gj := funcDecl(parseFile("pkg/partition/partition.go"), "Service", "GetJournals")
		if gj == nil {
			problem("partition.Service.GetJournals not found")
		} else {
			ast.Inspect(gj.Body, func(n ast.Node) bool {
				be, ok := n.(*ast.BinaryExpr)
				if !ok {
					return true
				}
				isMax := func(e ast.Expr) bool { id, ok := e.(*ast.Ident); return ok && id.Name == "maxLimit" }
				isLen := func(e ast.Expr) bool {
					c, ok := e.(*ast.CallExpr)
					if !ok {
						return false
					}
					id, ok := c.Fun.(*ast.Ident)
					return ok && id.Name == "len"
				}
				if (isMax(be.Y) && isLen(be.X)) || (isMax(be.X) && isLen(be.Y)) {
					op = be.Op.String()
					if isMax(be.X) { // normalise to len(res) OP maxLimit
						switch op {
						case "<":
							op = ">"
						case ">":
							op = "<"
						case "<=":
							op = ">="
						case ">=":
							op = "<="
						}
					}
				}
				return true
			})
			if op == "" {
				problem("GetJournals no longer compares len(res) with maxLimit")
			}
		}
		l.p("/-- the operator of `len(res) OP maxLimit` in `GetJournals` -/")
		l.p("def limitCheckOp : String := %s", leanStr(op))

		// 3. GetEarliest: `return ev1.Timestamp <= ev2.Timestamp`
		mf := parseFile("pkg/model/mixer.go")
		geOp := ""
		if ge := funcDecl(mf, "", "GetEarliest"); ge == nil {
			problem("model.GetEarliest not found")
		} else {
			ast.Inspect(ge.Body, func(n ast.Node) bool {
				if rs, ok := n.(*ast.ReturnStmt); ok && len(rs.Results) == 1 {
					if be, ok := rs.Results[0].(*ast.BinaryExpr); ok {
						x, okx := be.X.(*ast.SelectorExpr)
						y, oky := be.Y.(*ast.SelectorExpr)
						if okx && oky && x.Sel.Name == "Timestamp" && y.Sel.Name == "Timestamp" {
							xi, _ := x.X.(*ast.Ident)
							yi, _ := y.X.(*ast.Ident)
							if xi != nil && yi != nil && xi.Name == "ev1" && yi.Name == "ev2" {
								geOp = be.Op.String()
							}
						}
					}
				}
				return true
			})
			if geOp == "" {
				problem("model.GetEarliest is no longer `return ev1.Timestamp OP ev2.Timestamp`")
			}
		}
		l.p("/-- the operator of `ev1.Timestamp OP ev2.Timestamp` in `model.GetEarliest` -/")
		l.p("def getEarliestOp : String := %s", leanStr(geOp))

		// 4. testFunc: `if mr.bkwd { return !res }`
		neg := false
		if tf := funcDecl(mf, "Mixer", "testFunc"); tf == nil {
			problem("model.Mixer.testFunc not found")
		} else {
			ast.Inspect(tf.Body, func(n ast.Node) bool {
				is, ok := n.(*ast.IfStmt)
				if !ok {
					return true
				}
				if se, ok := is.Cond.(*ast.SelectorExpr); ok && se.Sel.Name == "bkwd" {
					for _, st := range is.Body.List {
						if rs, ok := st.(*ast.ReturnStmt); ok && len(rs.Results) == 1 {
							if ue, ok := rs.Results[0].(*ast.UnaryExpr); ok && ue.Op == token.NOT {
								neg = true
							}
						}
					}
				}
				return true
			})
		}
		l.p("/-- `testFunc` returns the negated comparison when `mr.bkwd` -/")
		l.p("def testFuncNegatesBackward : Bool := %s", leanBool(neg))

		// 5. newCursor initialises every mixer with model.GetEarliest
		usesGE := false
		if nc := funcDecl(parseFile("pkg/cursor/cursor.go"), "", "newCursor"); nc == nil {
			problem("cursor.newCursor not found")
		} else {
			ast.Inspect(nc.Body, func(n ast.Node) bool {
				c, ok := n.(*ast.CallExpr)
				if !ok {
					return true
				}
				if se, ok := c.Fun.(*ast.SelectorExpr); ok && se.Sel.Name == "Init" && len(c.Args) == 3 {
					if a, ok := c.Args[0].(*ast.SelectorExpr); ok && a.Sel.Name == "GetEarliest" {
						usesGE = true
					}
				}
				return true
			})
		}
		l.p("/-- `newCursor` initialises its mixers with `model.GetEarliest` -/")
		l.p("def newCursorUsesGetEarliest : Bool := %s", leanBool(usesGE))

		// 6. newCursor sorts the tag lines before it fills the slice the reduction works on:
		//    keys collected by ranging over the map `srcs` into a slice S, `sort.Slice(S, func(i, j) bool { return S[i] < S[j] })`
		//    (or sort.Strings-like call on S), and `mxs[i] = …` assigned inside `for i, … := range S` (not inside a range over the map)
		sorts := false
		if nc := funcDecl(parseFile("pkg/cursor/cursor.go"), "", "newCursor"); nc != nil {
			sortedSlice := ""
			sortPos := token.NoPos
			ast.Inspect(nc.Body, func(n ast.Node) bool {
				c, ok := n.(*ast.CallExpr)
				if !ok {
					return true
				}
				se, ok := c.Fun.(*ast.SelectorExpr)
				if !ok {
					return true
				}
				pk, _ := se.X.(*ast.Ident)
				if pk == nil || pk.Name != "sort" || se.Sel.Name != "Slice" || len(c.Args) != 2 {
					return true
				}
				id, _ := c.Args[0].(*ast.Ident)
				fl, _ := c.Args[1].(*ast.FuncLit)
				if id == nil || fl == nil || len(fl.Body.List) != 1 {
					return true
				}
				rs, _ := fl.Body.List[0].(*ast.ReturnStmt)
				if rs == nil || len(rs.Results) != 1 {
					return true
				}
				be, _ := rs.Results[0].(*ast.BinaryExpr)
				if be == nil || be.Op != token.LSS {
					return true
				}
				ix, _ := be.X.(*ast.IndexExpr)
				iy, _ := be.Y.(*ast.IndexExpr)
				if ix == nil || iy == nil {
					return true
				}
				ax, _ := ix.X.(*ast.Ident)
				ay, _ := iy.X.(*ast.Ident)
				ii, _ := ix.Index.(*ast.Ident)
				jj, _ := iy.Index.(*ast.Ident)
				if ax == nil || ay == nil || ii == nil || jj == nil || ax.Name != id.Name || ay.Name != id.Name {
					return true
				}
				// the less function's parameters, in order
				var params []string
				for _, f := range fl.Type.Params.List {
					for _, nm := range f.Names {
						params = append(params, nm.Name)
					}
				}
				if len(params) == 2 && ii.Name == params[0] && jj.Name == params[1] {
					sortedSlice = id.Name
					sortPos = c.Pos()
				}
				return true
			})
			if sortedSlice != "" {
				// the slice is filled from the keys of srcs before the sort, and mxs is filled by ranging over it after the sort
				filled, consumed := false, false
				ast.Inspect(nc.Body, func(n ast.Node) bool {
					rs, ok := n.(*ast.RangeStmt)
					if !ok {
						return true
					}
					over, _ := rs.X.(*ast.Ident)
					if over == nil {
						return true
					}
					if over.Name == "srcs" && rs.Pos() < sortPos {
						ast.Inspect(rs.Body, func(m ast.Node) bool {
							if as, ok := m.(*ast.AssignStmt); ok && len(as.Lhs) == 1 {
								if l, ok := as.Lhs[0].(*ast.Ident); ok && l.Name == sortedSlice {
									filled = true
								}
							}
							return true
						})
					}
					if over.Name == sortedSlice && rs.Pos() > sortPos {
						key, _ := rs.Key.(*ast.Ident)
						ast.Inspect(rs.Body, func(m ast.Node) bool {
							if as, ok := m.(*ast.AssignStmt); ok && len(as.Lhs) == 1 {
								if ie, ok := as.Lhs[0].(*ast.IndexExpr); ok {
									arr, _ := ie.X.(*ast.Ident)
									idx, _ := ie.Index.(*ast.Ident)
									if arr != nil && idx != nil && key != nil && arr.Name == "mxs" && idx.Name == key.Name {
										consumed = true
									}
								}
							}
							return true
						})
					}
					return true
				})
				sorts = filled && consumed
			}
		}
		l.p("/-- `newCursor` collects the tag lines of the map `srcs`, sorts them ascending (`sort.Slice` with `<` on `tag.Line`) and")
		l.p("fills the slice the reduction works on in that order -/")
		l.p("def newCursorSortsSources : Bool := %s", leanBool(sorts))
		l.write()
	}
}
