package main

import (
	"go/ast"
	"go/parser"
	"go/token"
	"os"
	"path/filepath"
	"sort"
	"strconv"
	"strings"
)

// C04 facts: the merge limit newCursor passes to GetJournals, the comparison GetJournals makes against it, the operator of
// model.GetEarliest, whether testFunc negates the comparison when the mixer runs backward, that newCursor mixes with
// GetEarliest, and that it sorts the tag lines before the reduction.
//
// The shapes are matched *structurally*: a shape is looked for in the anchor function and in the same-package
// functions/methods it calls (depth <= 2, in statement order); parameters are identified by position, local variables by
// role, never by name; if / switch / early-return / negated forms of the same decision are accepted. A behaviour-preserving
// refactoring (extracting a helper, renaming locals, if-cascade -> switch) therefore leaves the facts unchanged.

// ---------------------------------------------------------------------------------------------
// a package: all its non-test files, functions by name

type c04pkg struct {
	files []*ast.File
	funcs []*ast.FuncDecl
}

func c04loadPkg(relDir string) *c04pkg {
	p := &c04pkg{}
	dir := filepath.Join(repo, relDir)
	ents, err := os.ReadDir(dir)
	if err != nil {
		problem("cannot read %s: %v", relDir, err)
		return p
	}
	var names []string
	for _, e := range ents {
		if !e.IsDir() && strings.HasSuffix(e.Name(), ".go") && !strings.HasSuffix(e.Name(), "_test.go") {
			names = append(names, e.Name())
		}
	}
	sort.Strings(names)
	for _, n := range names {
		f, err := parser.ParseFile(fset, filepath.Join(dir, n), nil, 0)
		if err != nil {
			continue // a half-written file of somebody else must not break this extractor
		}
		p.files = append(p.files, f)
		for _, d := range f.Decls {
			if fd, ok := d.(*ast.FuncDecl); ok && fd.Body != nil {
				p.funcs = append(p.funcs, fd)
			}
		}
	}
	return p
}

func c04recv(fd *ast.FuncDecl) string {
	if fd.Recv == nil || len(fd.Recv.List) != 1 {
		return ""
	}
	switch t := fd.Recv.List[0].Type.(type) {
	case *ast.StarExpr:
		if id, ok := t.X.(*ast.Ident); ok {
			return id.Name
		}
	case *ast.Ident:
		return t.Name
	}
	return "?"
}

// find: function (recv == "") or method of the given receiver type; recv == "*" = any receiver, must be unique
func (p *c04pkg) find(recv, name string) *ast.FuncDecl {
	var hit []*ast.FuncDecl
	for _, fd := range p.funcs {
		if fd.Name.Name != name {
			continue
		}
		r := c04recv(fd)
		if recv == "*" && r != "" || recv != "*" && r == recv {
			hit = append(hit, fd)
		}
	}
	if len(hit) == 1 {
		return hit[0]
	}
	return nil
}

// callee: the same-package declaration a call goes to, when that can be told without type information: `f(…)` with f a
// package-level function; `x.m(…)` / `x.y.m(…)` with exactly one method named m in the package (and x not an imported package)
func (p *c04pkg) callee(c *ast.CallExpr) *ast.FuncDecl {
	switch f := c.Fun.(type) {
	case *ast.Ident:
		return p.find("", f.Name)
	case *ast.SelectorExpr:
		if id, ok := f.X.(*ast.Ident); ok && id.Obj == nil {
			// an unresolved identifier in front of the dot: an imported package (sort.Slice, errors.Errorf, …) — or a
			// package-level variable; a unique method of that name decides
			for _, file := range p.files {
				for _, im := range file.Imports {
					path, _ := strconv.Unquote(im.Path.Value)
					nm := path[strings.LastIndexByte(path, '/')+1:]
					if im.Name != nil {
						nm = im.Name.Name
					}
					if nm == id.Name {
						return nil
					}
				}
			}
		}
		return p.find("*", f.Sel.Name)
	}
	return nil
}

// reach: fd and the same-package functions it calls, transitively to the given depth, in statement order, each once
func (p *c04pkg) reach(fd *ast.FuncDecl, depth int) []*ast.FuncDecl {
	if fd == nil {
		return nil
	}
	res := []*ast.FuncDecl{fd}
	seen := map[*ast.FuncDecl]bool{fd: true}
	var walk func(f *ast.FuncDecl, d int)
	walk = func(f *ast.FuncDecl, d int) {
		if d == 0 {
			return
		}
		var next []*ast.FuncDecl
		ast.Inspect(f.Body, func(n ast.Node) bool {
			if c, ok := n.(*ast.CallExpr); ok {
				if g := p.callee(c); g != nil && !seen[g] {
					seen[g] = true
					res = append(res, g)
					next = append(next, g)
				}
			}
			return true
		})
		for _, g := range next {
			walk(g, d-1)
		}
	}
	walk(fd, depth)
	return res
}

// intConst: an integer literal, or an identifier naming a package-level constant with an integer literal value
func (p *c04pkg) intConst(e ast.Expr) (int, bool) {
	switch x := e.(type) {
	case *ast.BasicLit:
		if x.Kind == token.INT {
			v, err := strconv.ParseInt(x.Value, 0, 64)
			return int(v), err == nil
		}
	case *ast.ParenExpr:
		return p.intConst(x.X)
	case *ast.Ident:
		for _, f := range p.files {
			for _, d := range f.Decls {
				gd, ok := d.(*ast.GenDecl)
				if !ok || gd.Tok != token.CONST {
					continue
				}
				for _, s := range gd.Specs {
					vs := s.(*ast.ValueSpec)
					for i, nm := range vs.Names {
						if nm.Name == x.Name && i < len(vs.Values) {
							return p.intConst(vs.Values[i])
						}
					}
				}
			}
		}
	}
	return 0, false
}

func c04params(fd *ast.FuncDecl) []string {
	var ps []string
	if fd.Type.Params != nil {
		for _, f := range fd.Type.Params.List {
			if len(f.Names) == 0 {
				ps = append(ps, "_")
			}
			for _, n := range f.Names {
				ps = append(ps, n.Name)
			}
		}
	}
	return ps
}

func c04unparen(e ast.Expr) ast.Expr {
	for {
		p, ok := e.(*ast.ParenExpr)
		if !ok {
			return e
		}
		e = p.X
	}
}

var c04swap = map[string]string{"<": ">", ">": "<", "<=": ">=", ">=": "<=", "==": "==", "!=": "!="}
var c04neg = map[string]string{"<": ">=", ">": "<=", "<=": ">", ">=": "<", "==": "!=", "!=": "=="}

// cmpOp: e as `L OP R` for the two operand recognisers (swapped operands and negations normalised); "" = not of that shape
func c04cmpOp(e ast.Expr, isL, isR func(ast.Expr) bool) string {
	e = c04unparen(e)
	if u, ok := e.(*ast.UnaryExpr); ok && u.Op == token.NOT {
		if op := c04cmpOp(u.X, isL, isR); op != "" {
			return c04neg[op]
		}
		return ""
	}
	be, ok := e.(*ast.BinaryExpr)
	if !ok {
		return ""
	}
	op := be.Op.String()
	if _, known := c04swap[op]; !known {
		return ""
	}
	if isL(c04unparen(be.X)) && isR(c04unparen(be.Y)) {
		return op
	}
	if isR(c04unparen(be.X)) && isL(c04unparen(be.Y)) {
		return c04swap[op]
	}
	return ""
}

func c04boolLit(e ast.Expr) (bool, bool) {
	if id, ok := c04unparen(e).(*ast.Ident); ok && (id.Name == "true" || id.Name == "false") {
		return id.Name == "true", true
	}
	return false, false
}

// boolResult: the comparison a boolean function body returns, through `return E`, `if E { return true }; return false`,
// `if E { return false }; return true`, `if E { return true } else { return false }`
func c04boolBody(body *ast.BlockStmt, cmp func(ast.Expr) string) string {
	if body == nil {
		return ""
	}
	st := body.List
	if len(st) == 1 {
		if rs, ok := st[0].(*ast.ReturnStmt); ok && len(rs.Results) == 1 {
			return cmp(rs.Results[0])
		}
	}
	retLit := func(s ast.Stmt) (bool, bool) {
		if b, ok := s.(*ast.BlockStmt); ok && len(b.List) == 1 {
			s = b.List[0]
		}
		if rs, ok := s.(*ast.ReturnStmt); ok && len(rs.Results) == 1 {
			return c04boolLit(rs.Results[0])
		}
		return false, false
	}
	if len(st) >= 1 {
		if is, ok := st[0].(*ast.IfStmt); ok && is.Init == nil {
			thenV, ok1 := retLit(is.Body)
			var elseV, ok2 bool
			if is.Else != nil && len(st) == 1 {
				elseV, ok2 = retLit(is.Else)
			} else if is.Else == nil && len(st) == 2 {
				elseV, ok2 = retLit(st[1])
			}
			if ok1 && ok2 && thenV != elseV {
				op := cmp(is.Cond)
				if op != "" && !thenV {
					op = c04neg[op]
				}
				return op
			}
		}
	}
	return ""
}

func init() {
	generators["C04"] = func() {
		l := newLean("C04", "Facts about pkg/cursor/cursor.go (newCursor and what it calls), pkg/partition/partition.go (GetJournals),\npkg/model/mixer.go (GetEarliest, testFunc). Shapes are matched structurally, through same-package helpers (depth 2).")
		cur := c04loadPkg("pkg/cursor")
		part := c04loadPkg("pkg/partition")
		mdl := c04loadPkg("pkg/model")

		newCursor := cur.find("", "newCursor")
		if newCursor == nil {
			problem("cursor.newCursor not found")
		}
		curReach := cur.reach(newCursor, 2)

		// 1. the limit: third argument of a call `<x>.GetJournals(a, b, LIMIT)` made by newCursor or what it calls
		limit := -1
		for _, fd := range curReach {
			ast.Inspect(fd.Body, func(n ast.Node) bool {
				c, ok := n.(*ast.CallExpr)
				if !ok || limit >= 0 {
					return true
				}
				if se, ok := c.Fun.(*ast.SelectorExpr); ok && se.Sel.Name == "GetJournals" && len(c.Args) == 3 {
					if v, ok := cur.intConst(c.Args[2]); ok {
						limit = v
					}
				}
				return true
			})
		}
		if limit < 0 {
			problem("no call GetJournals(_, _, <integer constant>) reachable from cursor.newCursor")
			limit = 0
		}
		l.p("/-- the limit `newCursor` (through `getSourcesByState`) passes to `GetJournals` -/")
		l.p("def mergeLimit : Nat := %d", limit)

		// 2. `len(<map>) OP <third parameter>` in GetJournals (or a helper it calls; the parameter may be passed on by position)
		op := ""
		gj := part.find("Service", "GetJournals")
		if gj == nil {
			problem("partition.Service.GetJournals not found")
		} else {
			ps := c04params(gj)
			limName := ""
			if len(ps) == 3 {
				limName = ps[2]
			}
			isLen := func(e ast.Expr) bool {
				c, ok := e.(*ast.CallExpr)
				if !ok {
					return false
				}
				id, ok := c.Fun.(*ast.Ident)
				return ok && id.Name == "len" && len(c.Args) == 1
			}
			var look func(fd *ast.FuncDecl, name string, depth int)
			look = func(fd *ast.FuncDecl, name string, depth int) {
				isLim := func(e ast.Expr) bool { id, ok := e.(*ast.Ident); return ok && id.Name == name }
				ast.Inspect(fd.Body, func(n ast.Node) bool {
					if e, ok := n.(ast.Expr); ok && op == "" {
						if _, isBin := c04unparen(e).(*ast.BinaryExpr); isBin {
							if o := c04cmpOp(e, isLen, isLim); o != "" {
								op = o
							}
						}
					}
					if c, ok := n.(*ast.CallExpr); ok && depth > 0 && op == "" {
						if g := part.callee(c); g != nil && g != fd {
							gp := c04params(g)
							for i, a := range c.Args {
								if isLim(c04unparen(a)) && i < len(gp) {
									look(g, gp[i], depth-1)
								}
							}
						}
					}
					return true
				})
			}
			if limName != "" {
				look(gj, limName, 2)
			}
			if op == "" {
				problem("GetJournals no longer compares len(<result map>) with its limit parameter")
			}
		}
		l.p("/-- the operator of `len(res) OP maxLimit` in `GetJournals` (operands and negations normalised) -/")
		l.p("def limitCheckOp : String := %s", leanStr(op))

		// 3. GetEarliest(p1, p2): p1.Timestamp OP p2.Timestamp
		geOp := ""
		if ge := mdl.find("", "GetEarliest"); ge == nil {
			problem("model.GetEarliest not found")
		} else {
			ps := c04params(ge)
			if len(ps) == 2 {
				ts := func(name string) func(ast.Expr) bool {
					return func(e ast.Expr) bool {
						se, ok := e.(*ast.SelectorExpr)
						if !ok || se.Sel.Name != "Timestamp" {
							return false
						}
						id, ok := se.X.(*ast.Ident)
						return ok && id.Name == name
					}
				}
				geOp = c04boolBody(ge.Body, func(e ast.Expr) string { return c04cmpOp(e, ts(ps[0]), ts(ps[1])) })
			}
			if geOp == "" {
				problem("model.GetEarliest no longer decides by comparing the two timestamps")
			}
		}
		l.p("/-- the operator of `ev1.Timestamp OP ev2.Timestamp` in `model.GetEarliest` (operands and negations normalised) -/")
		l.p("def getEarliestOp : String := %s", leanStr(geOp))

		// 4. testFunc: the result of the select function is negated exactly when the mixer runs backward
		neg := false
		if tf := mdl.find("Mixer", "testFunc"); tf == nil {
			problem("model.Mixer.testFunc not found")
		} else {
			isBk := func(e ast.Expr) bool {
				se, ok := c04unparen(e).(*ast.SelectorExpr)
				return ok && se.Sel.Name == "bkwd"
			}
			isNotBk := func(e ast.Expr) bool {
				u, ok := c04unparen(e).(*ast.UnaryExpr)
				return ok && u.Op == token.NOT && isBk(u.X)
			}
			isNot := func(e ast.Expr) bool { u, ok := c04unparen(e).(*ast.UnaryExpr); return ok && u.Op == token.NOT }
			retOf := func(b *ast.BlockStmt) ast.Expr {
				if b != nil && len(b.List) == 1 {
					if rs, ok := b.List[0].(*ast.ReturnStmt); ok && len(rs.Results) == 1 {
						return rs.Results[0]
					}
				}
				return nil
			}
			for _, fd := range mdl.reach(tf, 1) {
				stmts := fd.Body.List
				for i, s := range stmts {
					switch st := s.(type) {
					case *ast.IfStmt:
						var after ast.Expr
						if st.Else != nil {
							if eb, ok := st.Else.(*ast.BlockStmt); ok {
								after = retOf(eb)
							}
						} else if i+1 < len(stmts) {
							if rs, ok := stmts[i+1].(*ast.ReturnStmt); ok && len(rs.Results) == 1 {
								after = rs.Results[0]
							}
						}
						then := retOf(st.Body)
						// if bkwd { return !res }; return res        |  if !bkwd { return res }; return !res
						if isBk(st.Cond) && then != nil && isNot(then) && after != nil && !isNot(after) {
							neg = true
						}
						if isNotBk(st.Cond) && then != nil && !isNot(then) && after != nil && isNot(after) {
							neg = true
						}
						// if bkwd { res = !res }; return res
						if isBk(st.Cond) && len(st.Body.List) == 1 {
							if as, ok := st.Body.List[0].(*ast.AssignStmt); ok && len(as.Lhs) == 1 && len(as.Rhs) == 1 && isNot(as.Rhs[0]) {
								l0, ok1 := as.Lhs[0].(*ast.Ident)
								r0, ok2 := c04unparen(as.Rhs[0]).(*ast.UnaryExpr).X.(*ast.Ident)
								if ok1 && ok2 && l0.Name == r0.Name {
									neg = true
								}
							}
						}
					case *ast.ReturnStmt:
						// return res != bkwd   (exclusive or)
						if len(st.Results) == 1 {
							if be, ok := c04unparen(st.Results[0]).(*ast.BinaryExpr); ok && be.Op == token.NEQ && (isBk(be.X) != isBk(be.Y)) {
								neg = true
							}
						}
					}
				}
			}
		}
		l.p("/-- `testFunc` returns the negated comparison exactly when `mr.bkwd` -/")
		l.p("def testFuncNegatesBackward : Bool := %s", leanBool(neg))

		// 5. the mixers newCursor (or a helper it calls) makes are initialised with GetEarliest: `<m>.Init(<…>.GetEarliest, a, b)`
		usesGE, otherInit := false, false
		for _, fd := range curReach {
			ast.Inspect(fd.Body, func(n ast.Node) bool {
				c, ok := n.(*ast.CallExpr)
				if !ok {
					return true
				}
				if se, ok := c.Fun.(*ast.SelectorExpr); ok && se.Sel.Name == "Init" && len(c.Args) == 3 {
					a := c04unparen(c.Args[0])
					name := ""
					switch x := a.(type) {
					case *ast.SelectorExpr:
						name = x.Sel.Name
					case *ast.Ident:
						name = x.Name
					}
					if name == "GetEarliest" {
						usesGE = true
					} else {
						otherInit = true
					}
				}
				return true
			})
		}
		l.p("/-- every `Mixer.Init` reachable from `newCursor` selects with `model.GetEarliest` -/")
		l.p("def newCursorUsesGetEarliest : Bool := %s", leanBool(usesGE && !otherInit))

		// 6. the tag lines are sorted before the slice of the reduction is filled:
		//    some slice S is appended to inside a range loop (the map's keys), then `sort.Slice[Stable](S, func(a, b int) bool
		//    { return S[a] < S[b] })` (normalised), then either `for k, … := range S { ARR[k] = … }` / `… = append(ARR, …)`, or S
		//    is returned by the helper and the caller ranges over the helper's result in that way
		sorts := false
		c04sawSort = false
		for _, fd := range curReach {
			if c04sortsThenFills(cur, fd, curReach) {
				sorts = true
			}
		}
		if !sorts && c04sawSort {
			// a slice of map keys IS sorted ascending, but how it reaches the slice of the reduction was not recognised: an unknown
			// shape, not evidence that the order is the map order
			problem("newCursor (or a helper) sorts a slice filled from a map range, but the loop that fills the reduction's slice from the sorted one was not recognised")
		}
		l.p("/-- `newCursor` collects the tag lines of the map `srcs`, sorts them ascending (`sort.Slice` with `<` on `tag.Line`) and")
		l.p("fills the slice the reduction works on in that order -/")
		l.p("def newCursorSortsSources : Bool := %s", leanBool(sorts))

		// 7. ApplyState re-synchronises the iterator tree after a re-position: `X.SetBackward(true); X.SetBackward(false)` on the
		//    cursor's iterator, under no condition other than "the position differs" (in ApplyState or in a helper it calls
		//    under no other condition)
		resync := false
		if as := cur.find("crsr", "ApplyState"); as == nil {
			problem("cursor.crsr.ApplyState not found")
		} else {
			resync = c04resyncIn(cur, as, 2)
		}
		l.p("/-- `crsr.ApplyState`, when the position differs, switches the whole iterator tree backward and forward again")
		l.p("(`cur.it.SetBackward(true); cur.it.SetBackward(false)`) — unconditionally, with or without a filter on top -/")
		l.p("def applyStateResyncs : Bool := %s", leanBool(resync))

		// 8.. the callers: the two Query read loops, the tag line on its way to the result, the limit error on its way to the client
		c04callerFacts(l)
		l.write()
	}
}

// c04fillLoop: after position `from`, a `for k, … := range <slice>` whose body stores into `ARR[k]` or appends to a slice
func c04fillLoop(fd *ast.FuncDecl, slice string, from token.Pos) bool {
	return c04fillLoopX(fd, func(e ast.Expr) bool {
		over, _ := c04unparen(e).(*ast.Ident)
		return over != nil && over.Name == slice
	}, from)
}

// c04fillLoopX: the same for a range expression recognised by isOver (a variable, or directly the call of the helper that
// returns the sorted slice)
func c04fillLoopX(fd *ast.FuncDecl, isOver func(ast.Expr) bool, from token.Pos) bool {
	ok := false
	ast.Inspect(fd.Body, func(n ast.Node) bool {
		rs, isR := n.(*ast.RangeStmt)
		if !isR || rs.Pos() < from {
			return true
		}
		if !isOver(rs.X) {
			return true
		}
		key, _ := rs.Key.(*ast.Ident)
		ast.Inspect(rs.Body, func(m ast.Node) bool {
			as, isA := m.(*ast.AssignStmt)
			if !isA || len(as.Lhs) != 1 || len(as.Rhs) != 1 {
				return true
			}
			if ie, isI := as.Lhs[0].(*ast.IndexExpr); isI && key != nil {
				if idx, isId := c04unparen(ie.Index).(*ast.Ident); isId && idx.Name == key.Name {
					ok = true
				}
			}
			if c, isC := c04unparen(as.Rhs[0]).(*ast.CallExpr); isC {
				if f, isId := c.Fun.(*ast.Ident); isId && f.Name == "append" {
					ok = true
				}
			}
			return true
		})
		return true
	})
	return ok
}

// c04sawSort: set when some function reachable from newCursor sorts a slice ascending (`sort.Slice(S, S[a] < S[b])`) that was
// filled inside a range loop — whether or not the way the sorted slice reaches the reduction was recognised
var c04sawSort bool

func c04sortsThenFills(p *c04pkg, fd *ast.FuncDecl, all []*ast.FuncDecl) bool {
	slice := ""
	sortPos := token.NoPos
	ast.Inspect(fd.Body, func(n ast.Node) bool {
		c, ok := n.(*ast.CallExpr)
		if !ok {
			return true
		}
		se, ok := c.Fun.(*ast.SelectorExpr)
		if !ok {
			return true
		}
		pk, _ := se.X.(*ast.Ident)
		if pk == nil || pk.Name != "sort" || (se.Sel.Name != "Slice" && se.Sel.Name != "SliceStable") || len(c.Args) != 2 {
			return true
		}
		id, _ := c04unparen(c.Args[0]).(*ast.Ident)
		fl, _ := c.Args[1].(*ast.FuncLit)
		if id == nil || fl == nil {
			return true
		}
		var ps []string
		for _, f := range fl.Type.Params.List {
			for _, nm := range f.Names {
				ps = append(ps, nm.Name)
			}
		}
		if len(ps) != 2 {
			return true
		}
		at := func(k string) func(ast.Expr) bool {
			return func(e ast.Expr) bool {
				ie, ok := e.(*ast.IndexExpr)
				if !ok {
					return false
				}
				a, ok1 := c04unparen(ie.X).(*ast.Ident)
				i, ok2 := c04unparen(ie.Index).(*ast.Ident)
				return ok1 && ok2 && a.Name == id.Name && i.Name == k
			}
		}
		if c04boolBody(fl.Body, func(e ast.Expr) string { return c04cmpOp(e, at(ps[0]), at(ps[1])) }) == "<" {
			slice = id.Name
			sortPos = c.Pos()
		}
		return true
	})
	if slice == "" {
		return false
	}
	// filled before the sort: inside a range loop (over something else) an assignment to the slice
	filled := false
	ast.Inspect(fd.Body, func(n ast.Node) bool {
		rs, ok := n.(*ast.RangeStmt)
		if !ok || rs.Pos() > sortPos {
			return true
		}
		if over, _ := c04unparen(rs.X).(*ast.Ident); over != nil && over.Name == slice {
			return true
		}
		ast.Inspect(rs.Body, func(m ast.Node) bool {
			if as, ok := m.(*ast.AssignStmt); ok && len(as.Lhs) == 1 {
				if lh, ok := as.Lhs[0].(*ast.Ident); ok && lh.Name == slice {
					filled = true
				}
			}
			return true
		})
		return true
	})
	if !filled {
		return false
	}
	c04sawSort = true
	if c04fillLoop(fd, slice, sortPos) {
		return true
	}
	// the helper returns the sorted slice: the caller ranges over the result
	returns := false
	ast.Inspect(fd.Body, func(n ast.Node) bool {
		if rs, ok := n.(*ast.ReturnStmt); ok && rs.Pos() > sortPos {
			for _, r := range rs.Results {
				if id, ok := c04unparen(r).(*ast.Ident); ok && id.Name == slice {
					returns = true
				}
			}
		}
		return true
	})
	if !returns {
		return false
	}
	for _, caller := range all {
		if caller == fd {
			continue
		}
		found := false
		ast.Inspect(caller.Body, func(n ast.Node) bool {
			as, ok := n.(*ast.AssignStmt)
			if !ok || len(as.Rhs) != 1 {
				return true
			}
			c, ok := c04unparen(as.Rhs[0]).(*ast.CallExpr)
			if !ok || p.callee(c) != fd {
				return true
			}
			for _, lh := range as.Lhs {
				if id, ok := lh.(*ast.Ident); ok && id.Name != "_" && c04fillLoop(caller, id.Name, as.Pos()) {
					found = true
				}
			}
			return true
		})
		// … or ranges directly over the helper's call: `for k, … := range helper(…) { ARR[k] = … }`
		if c04fillLoopX(caller, func(e ast.Expr) bool {
			c, ok := c04unparen(e).(*ast.CallExpr)
			return ok && p.callee(c) == fd
		}, token.NoPos) {
			found = true
		}
		if found {
			return true
		}
	}
	return false
}

func c04exprStr(e ast.Expr) string {
	switch x := c04unparen(e).(type) {
	case *ast.Ident:
		return x.Name
	case *ast.SelectorExpr:
		return c04exprStr(x.X) + "." + x.Sel.Name
	}
	return "?"
}

// setBackwardCall: `X.SetBackward(<bool literal>)` as a statement
func c04setBackwardCall(s ast.Stmt) (recv string, val bool, ok bool) {
	es, isE := s.(*ast.ExprStmt)
	if !isE {
		return
	}
	c, isC := es.X.(*ast.CallExpr)
	if !isC || len(c.Args) != 1 {
		return
	}
	se, isS := c.Fun.(*ast.SelectorExpr)
	if !isS || se.Sel.Name != "SetBackward" {
		return
	}
	v, isB := c04boolLit(c.Args[0])
	if !isB {
		return
	}
	return c04exprStr(se.X), v, true
}

// the guard "the position differs": `a.Pos != b.Pos` (any operands ending in .Pos)
func c04posGuard(e ast.Expr) bool {
	be, ok := c04unparen(e).(*ast.BinaryExpr)
	if !ok || be.Op != token.NEQ {
		return false
	}
	return strings.HasSuffix(c04exprStr(be.X), ".Pos") && strings.HasSuffix(c04exprStr(be.Y), ".Pos")
}

// c04resyncIn: does fd contain, under no condition other than the position guard, the pair SetBackward(true); SetBackward(false)
// on the same receiver — directly or through a same-package callee called under no other condition?
func c04resyncIn(p *c04pkg, fd *ast.FuncDecl, depth int) bool {
	found := false
	var walk func(stmts []ast.Stmt)
	walk = func(stmts []ast.Stmt) {
		for i, s := range stmts {
			if r1, v1, ok1 := c04setBackwardCall(s); ok1 && v1 && i+1 < len(stmts) {
				if r2, v2, ok2 := c04setBackwardCall(stmts[i+1]); ok2 && !v2 && r1 == r2 && r1 != "?" {
					found = true
				}
			}
			switch st := s.(type) {
			case *ast.BlockStmt:
				walk(st.List)
			case *ast.IfStmt:
				// only the position guard may stand above the pair; its else branch does not count
				if c04posGuard(st.Cond) && st.Init == nil {
					walk(st.Body.List)
				}
			case *ast.ExprStmt:
				if c, ok := st.X.(*ast.CallExpr); ok && depth > 0 {
					if g := p.callee(c); g != nil && g != fd && c04resyncIn(p, g, depth-1) {
						found = true
					}
				}
			}
		}
	}
	walk(fd.Body.List)
	return found
}
