package main

// Structure-based helpers for the C17 / C18 extractors: a function body is flattened into the sequence of the things
// it does in statement order — calls (by callee name), channel sends, assignments, guards (an if / case whose body
// ends with continue or return), loop nesting — following calls to functions and methods of the same package
// (depth <= 2). Facts are then order/containment queries on that sequence, so that extracting a helper, turning an
// if cascade into a switch, an early return into an inverted guard or an index loop into a range loop does not change
// a fact. A fact that cannot be identified is reported with problem(...) — never regenerated with another value.

import (
	"go/ast"
	"go/parser"
	"go/token"
	"io/ioutil"
	"path/filepath"
	"strings"
)

type flowPkg struct {
	funcs map[string]*ast.FuncDecl // by name (methods and plain functions of the package, non-test, non-verif files)
	files []*ast.File
}

func loadFlowPkg(relDir string) *flowPkg {
	p := &flowPkg{funcs: map[string]*ast.FuncDecl{}}
	ents, err := ioutil.ReadDir(filepath.Join(repo, relDir))
	if err != nil {
		problem("cannot read %s: %v", relDir, err)
		return p
	}
	for _, e := range ents {
		n := e.Name()
		if e.IsDir() || !strings.HasSuffix(n, ".go") || strings.HasSuffix(n, "_test.go") || strings.Contains(n, "_verif") {
			continue
		}
		f, err := parser.ParseFile(fset, filepath.Join(repo, relDir, n), nil, 0)
		if err != nil {
			problem("cannot parse %s/%s: %v", relDir, n, err)
			continue
		}
		p.files = append(p.files, f)
		for _, d := range f.Decls {
			if fd, ok := d.(*ast.FuncDecl); ok && fd.Body != nil {
				p.funcs[fd.Name.Name] = fd
			}
		}
	}
	return p
}

// method finds a method by receiver type name and method name (any file of the package)
func (p *flowPkg) method(recv, name string) *ast.FuncDecl {
	for _, f := range p.files {
		if fd := funcDecl(f, recv, name); fd != nil {
			return fd
		}
	}
	return nil
}

type flowEv struct {
	kind    string // call | send | assign | guard | return | continue
	name    string // call: callee name (selector or identifier); assign: rendered LHS ("x", "a.b"); guard: "continue"|"return"
	call    *ast.CallExpr
	assign  *ast.AssignStmt
	node    ast.Node
	loops   []ast.Node // enclosing loops, outermost first (across inlined callees)
	inline  int        // inlining depth
	fn      *ast.FuncDecl
	anc     []ast.Node // ancestors, outermost first (across inlined callees)
	inGuard []ast.Node // enclosing if / case-clause nodes (across inlined callees)
}

func flowExprName(e ast.Expr) string {
	switch x := e.(type) {
	case *ast.Ident:
		return x.Name
	case *ast.SelectorExpr:
		return flowExprName(x.X) + "." + x.Sel.Name
	case *ast.StarExpr:
		return "*" + flowExprName(x.X)
	case *ast.ParenExpr:
		return flowExprName(x.X)
	case *ast.IndexExpr:
		return flowExprName(x.X) + "[]"
	}
	return "?"
}

func flowCallee(c *ast.CallExpr) string {
	switch f := c.Fun.(type) {
	case *ast.Ident:
		return f.Name
	case *ast.SelectorExpr:
		return f.Sel.Name
	}
	return ""
}

func flowEndsWithJump(list []ast.Stmt) string {
	if len(list) == 0 {
		return ""
	}
	switch s := list[len(list)-1].(type) {
	case *ast.BranchStmt:
		if s.Tok == token.CONTINUE {
			return "continue"
		}
	case *ast.ReturnStmt:
		return "return"
	}
	return ""
}

// flatten walks body in source order. Calls are emitted after their arguments; a call to a same-package function is
// followed by the flattened body of that function (inline depth <= maxInline, no recursion).
func (p *flowPkg) flatten(fn *ast.FuncDecl, maxInline int) []flowEv {
	var evs []flowEv
	var walk func(fd *ast.FuncDecl, n ast.Node, loops []ast.Node, outer []ast.Node, inline int, active map[string]bool)
	walk = func(fd *ast.FuncDecl, root ast.Node, loops []ast.Node, outer []ast.Node, inline int, active map[string]bool) {
		stack := append([]ast.Node{}, outer...)
		curLoops := append([]ast.Node{}, loops...)
		guards := func() []ast.Node {
			var g []ast.Node
			for _, a := range stack {
				switch a.(type) {
				case *ast.IfStmt, *ast.CaseClause, *ast.CommClause:
					g = append(g, a)
				}
			}
			return g
		}
		emit := func(e flowEv, n ast.Node) {
			e.node, e.fn, e.inline = n, fd, inline
			e.loops = append([]ast.Node{}, curLoops...)
			e.anc = append([]ast.Node{}, stack...)
			e.inGuard = guards()
			evs = append(evs, e)
		}
		var visit func(n ast.Node)
		visit = func(n ast.Node) {
			if n == nil {
				return
			}
			stack = append(stack, n)
			defer func() { stack = stack[:len(stack)-1] }()
			switch x := n.(type) {
			case *ast.ForStmt:
				if x.Init != nil {
					visit(x.Init)
				}
				curLoops = append(curLoops, x)
				if x.Cond != nil {
					visit(x.Cond)
				}
				visit(x.Body)
				if x.Post != nil {
					visit(x.Post)
				}
				curLoops = curLoops[:len(curLoops)-1]
				return
			case *ast.RangeStmt:
				visit(x.X)
				curLoops = append(curLoops, x)
				visit(x.Body)
				curLoops = curLoops[:len(curLoops)-1]
				return
			case *ast.IfStmt:
				if x.Init != nil {
					visit(x.Init)
				}
				visit(x.Cond)
				if j := flowEndsWithJump(x.Body.List); j != "" {
					emit(flowEv{kind: "guard", name: j}, x)
				}
				visit(x.Body)
				if x.Else != nil {
					visit(x.Else)
				}
				return
			case *ast.CaseClause:
				for _, e := range x.List {
					visit(e)
				}
				if j := flowEndsWithJump(x.Body); j != "" {
					emit(flowEv{kind: "guard", name: j}, x)
				}
				for _, s := range x.Body {
					visit(s)
				}
				return
			case *ast.CommClause:
				if x.Comm != nil {
					visit(x.Comm)
				}
				for _, s := range x.Body {
					visit(s)
				}
				return
			case *ast.SendStmt:
				visit(x.Chan)
				visit(x.Value)
				emit(flowEv{kind: "send", name: flowExprName(x.Chan)}, x)
				return
			case *ast.AssignStmt:
				for _, r := range x.Rhs {
					visit(r)
				}
				for _, l := range x.Lhs {
					emit(flowEv{kind: "assign", name: flowExprName(l), assign: x}, x)
				}
				return
			case *ast.BranchStmt:
				if x.Tok == token.CONTINUE {
					emit(flowEv{kind: "continue"}, x)
				}
				return
			case *ast.ReturnStmt:
				for _, r := range x.Results {
					visit(r)
				}
				emit(flowEv{kind: "return"}, x)
				return
			case *ast.CallExpr:
				visit(x.Fun)
				for _, a := range x.Args {
					visit(a)
				}
				name := flowCallee(x)
				emit(flowEv{kind: "call", name: name, call: x}, x)
				if callee, ok := p.funcs[name]; ok && inline < maxInline && !active[name] && callee != fd {
					active[name] = true
					walk(callee, callee.Body, curLoops, stack, inline+1, active)
					delete(active, name)
				}
				return
			}
			// generic: children in source order
			ast.Inspect(n, func(m ast.Node) bool {
				if m == nil || m == n {
					return m == n
				}
				visit(m)
				return false
			})
		}
		visit(root)
	}
	walk(fn, fn.Body, nil, nil, 0, map[string]bool{fn.Name.Name: true})
	return evs
}

func flowIndex(evs []flowEv, kind, name string) int {
	for i, e := range evs {
		if e.kind == kind && e.name == name {
			return i
		}
	}
	return -1
}

func flowCount(evs []flowEv, kind, name string) int {
	n := 0
	for _, e := range evs {
		if e.kind == kind && e.name == name {
			n++
		}
	}
	return n
}

func flowInLoop(e flowEv, loop ast.Node) bool {
	for _, l := range e.loops {
		if l == loop {
			return true
		}
	}
	return false
}

func flowMentions(n ast.Node, name string) bool {
	found := false
	ast.Inspect(n, func(m ast.Node) bool {
		if id, ok := m.(*ast.Ident); ok && id.Name == name {
			found = true
		}
		return true
	})
	return found
}

// flowCallsNamed: does the node contain a call of that callee name
func flowCallsNamed(n ast.Node, name string) bool {
	found := false
	ast.Inspect(n, func(m ast.Node) bool {
		if c, ok := m.(*ast.CallExpr); ok && flowCallee(c) == name {
			found = true
		}
		return true
	})
	return found
}
