package main

import (
	"go/ast"
	"go/parser"
	"go/token"
	"os"
	"path/filepath"
	"strconv"
	"strings"
)

// Structure-tolerant extraction of the "quote this value?" decision of an emitter (tagMap.line, Fields.AsKVString).
//
// The decision is looked for by structure, not by local names:
//
//	if COND { … strconv.Quote(…) … }            in the function itself, or
//	… helper(…) …                                in a same-package helper it calls (depth ≤ 2) that contains such an
//	                                             `if`, or whose result is used as COND (`if needsQuotes(v) { … Quote … }`),
//	                                             also helpers of package kvstring (selector call kvstring.X).
//
// COND must decompose into a disjunction (||, nested parentheses, calls of bool helpers whose body is one `return COND`
// or `if COND { return true } … return false`) of atoms
//
//	len(x) == 0 | 0 == len(x) | x == "" | len(x) < 1                                        "empty"
//	strings.IndexByte(x, B) >= 0 | != -1 | > -1 | strings.IndexRune/Index/Contains/ContainsRune(x, B)     "contains byte B"
//	strings.ContainsAny(x, "…") | strings.IndexAny(x, "…") >= 0                                  "contains one of …"
//
// where B is a char literal, a one-byte string literal, or kvstring.<Const>[0] / <Const>[0] / <Const> of the separator
// constants. Anything else makes the fact "not found": the caller reports an EXTRACT-PROBLEM (a broken obligation) and
// keeps the pinned trigger, it never regenerates an empty table.
type pkgFuncs struct {
	funcs map[string]*ast.FuncDecl // plain functions and methods by name (methods also as Recv.Name)
}

func loadPkgFuncs(rel string) *pkgFuncs {
	pf := &pkgFuncs{funcs: map[string]*ast.FuncDecl{}}
	ents, err := os.ReadDir(filepath.Join(repo, rel))
	if err != nil {
		return pf
	}
	for _, e := range ents {
		n := e.Name()
		if e.IsDir() || !strings.HasSuffix(n, ".go") || strings.HasSuffix(n, "_test.go") || strings.Contains(n, "_verif") {
			continue
		}
		f, err := parser.ParseFile(fset, filepath.Join(repo, rel, n), nil, 0)
		if err != nil {
			continue
		}
		for _, d := range f.Decls {
			if fd, ok := d.(*ast.FuncDecl); ok && fd.Body != nil {
				if _, dup := pf.funcs[fd.Name.Name]; !dup {
					pf.funcs[fd.Name.Name] = fd
				}
			}
		}
	}
	return pf
}

type triggerFinder struct {
	consts map[string]string // separator constants of kvstring
	own    *pkgFuncs         // package of the emitter
	kv     *pkgFuncs         // pkg/utils/kvstring
}

type trigger struct {
	empty bool
	bytes []byte
}

func (t *trigger) add(b byte) {
	for _, x := range t.bytes {
		if x == b {
			return
		}
	}
	t.bytes = append(t.bytes, b)
}

// resolve a called function: same package (ident or method selector on a local value) or kvstring.X
func (tf *triggerFinder) callee(ce *ast.CallExpr) *ast.FuncDecl {
	switch f := ce.Fun.(type) {
	case *ast.Ident:
		return tf.own.funcs[f.Name]
	case *ast.SelectorExpr:
		if id, ok := f.X.(*ast.Ident); ok {
			switch id.Name {
			case "strings", "strconv", "sort", "fmt", "bytes", "errors":
				return nil
			case "kvstring":
				return tf.kv.funcs[f.Sel.Name]
			}
		}
		return tf.own.funcs[f.Sel.Name] // method of a same-package type
	}
	return nil
}

func containsQuoteCall(n ast.Node) bool {
	found := false
	ast.Inspect(n, func(m ast.Node) bool {
		if ce, ok := m.(*ast.CallExpr); ok {
			if se, ok := ce.Fun.(*ast.SelectorExpr); ok && se.Sel.Name == "Quote" {
				if id, ok := se.X.(*ast.Ident); ok && id.Name == "strconv" {
					found = true
				}
			}
		}
		return !found
	})
	return found
}

// byteOf: the byte an expression denotes
func (tf *triggerFinder) byteOf(e ast.Expr) (byte, bool) {
	switch x := e.(type) {
	case *ast.ParenExpr:
		return tf.byteOf(x.X)
	case *ast.CallExpr: // byte('='), rune(…)
		if len(x.Args) == 1 {
			return tf.byteOf(x.Args[0])
		}
	case *ast.BasicLit:
		switch x.Kind {
		case token.CHAR:
			if v, _, _, err := strconv.UnquoteChar(x.Value[1:len(x.Value)-1], '\''); err == nil && v < 256 {
				return byte(v), true
			}
		case token.STRING:
			if v, err := strconv.Unquote(x.Value); err == nil && len(v) == 1 {
				return v[0], true
			}
		case token.INT:
			if v, err := strconv.Atoi(x.Value); err == nil && v >= 0 && v < 256 {
				return byte(v), true
			}
		}
	case *ast.IndexExpr:
		if bl, ok := x.Index.(*ast.BasicLit); ok && bl.Value == "0" {
			if v, ok := tf.constOf(x.X); ok && len(v) > 0 {
				return v[0], true
			}
		}
	case *ast.Ident, *ast.SelectorExpr:
		if v, ok := tf.constOf(e); ok && len(v) == 1 {
			return v[0], true
		}
	}
	return 0, false
}

func (tf *triggerFinder) constOf(e ast.Expr) (string, bool) {
	switch x := e.(type) {
	case *ast.Ident:
		v, ok := tf.consts[x.Name]
		return v, ok
	case *ast.SelectorExpr:
		v, ok := tf.consts[x.Sel.Name]
		return v, ok
	case *ast.BasicLit:
		if x.Kind == token.STRING {
			v, err := strconv.Unquote(x.Value)
			return v, err == nil
		}
	}
	return "", false
}

func isIntLit(e ast.Expr, v string) bool {
	if u, ok := e.(*ast.UnaryExpr); ok && u.Op == token.SUB {
		if bl, ok := u.X.(*ast.BasicLit); ok {
			return "-"+bl.Value == v
		}
	}
	bl, ok := e.(*ast.BasicLit)
	return ok && bl.Kind == token.INT && bl.Value == v
}

func isLenCall(e ast.Expr) bool {
	ce, ok := e.(*ast.CallExpr)
	if !ok || len(ce.Args) != 1 {
		return false
	}
	id, ok := ce.Fun.(*ast.Ident)
	return ok && id.Name == "len"
}

func stringsCall(e ast.Expr) (name string, args []ast.Expr, ok bool) {
	ce, isCall := e.(*ast.CallExpr)
	if !isCall {
		return
	}
	se, isSel := ce.Fun.(*ast.SelectorExpr)
	if !isSel {
		return
	}
	if id, isID := se.X.(*ast.Ident); !isID || (id.Name != "strings" && id.Name != "bytes") {
		return
	}
	return se.Sel.Name, ce.Args, true
}

// cond decomposes a boolean expression into the trigger; false = some part is not understood
func (tf *triggerFinder) cond(e ast.Expr, t *trigger, depth int) bool {
	switch x := e.(type) {
	case *ast.ParenExpr:
		return tf.cond(x.X, t, depth)
	case *ast.CallExpr:
		// strings.Contains…(x, B) used as a boolean
		if name, args, ok := stringsCall(x); ok && len(args) == 2 {
			switch name {
			case "Contains", "ContainsRune":
				if b, ok := tf.byteOf(args[1]); ok {
					t.add(b)
					return true
				}
			case "ContainsAny":
				if s, ok := tf.constOf(args[1]); ok {
					for i := 0; i < len(s); i++ {
						t.add(s[i])
					}
					return true
				}
			}
			return false
		}
		// a bool helper of the same package / kvstring
		if depth > 0 {
			if fd := tf.callee(x); fd != nil {
				return tf.boolHelper(fd, t, depth-1)
			}
		}
		return false
	case *ast.BinaryExpr:
		switch x.Op {
		case token.LOR:
			return tf.cond(x.X, t, depth) && tf.cond(x.Y, t, depth)
		case token.EQL:
			l, r := x.X, x.Y
			if isIntLit(l, "0") || isEmptyStr(l) {
				l, r = r, l
			}
			if isLenCall(l) && isIntLit(r, "0") { // len(x) == 0
				t.empty = true
				return true
			}
			if isEmptyStr(r) { // x == ""
				t.empty = true
				return true
			}
			return false
		case token.LSS:
			if isLenCall(x.X) && isIntLit(x.Y, "1") { // len(x) < 1
				t.empty = true
				return true
			}
			return false
		case token.GEQ, token.NEQ, token.GTR:
			// strings.IndexByte(x, B) >= 0 | != -1 | > -1 ; IndexAny(x, "…") likewise
			want := map[token.Token]string{token.GEQ: "0", token.NEQ: "-1", token.GTR: "-1"}[x.Op]
			if !isIntLit(x.Y, want) {
				return false
			}
			name, args, ok := stringsCall(x.X)
			if !ok || len(args) != 2 {
				return false
			}
			switch name {
			case "IndexByte", "IndexRune", "Index":
				if b, ok := tf.byteOf(args[1]); ok {
					t.add(b)
					return true
				}
			case "IndexAny":
				if s, ok := tf.constOf(args[1]); ok {
					for i := 0; i < len(s); i++ {
						t.add(s[i])
					}
					return true
				}
			}
			return false
		}
	}
	return false
}

func isEmptyStr(e ast.Expr) bool {
	bl, ok := e.(*ast.BasicLit)
	return ok && bl.Kind == token.STRING && (bl.Value == `""` || bl.Value == "``")
}

// boolHelper: body is `return COND`, or a sequence of `if COND { return true }` ended by `return false`
func (tf *triggerFinder) boolHelper(fd *ast.FuncDecl, t *trigger, depth int) bool {
	stmts := fd.Body.List
	if len(stmts) == 0 {
		return false
	}
	for i, s := range stmts {
		last := i == len(stmts)-1
		switch x := s.(type) {
		case *ast.ReturnStmt:
			if !last || len(x.Results) != 1 {
				return false
			}
			if id, ok := x.Results[0].(*ast.Ident); ok && id.Name == "false" {
				return i > 0
			}
			return tf.cond(x.Results[0], t, depth)
		case *ast.IfStmt:
			if x.Init != nil || x.Else != nil || len(x.Body.List) != 1 {
				return false
			}
			r, ok := x.Body.List[0].(*ast.ReturnStmt)
			if !ok || len(r.Results) != 1 {
				return false
			}
			if id, ok := r.Results[0].(*ast.Ident); !ok || id.Name != "true" {
				return false
			}
			if !tf.cond(x.Cond, t, depth) {
				return false
			}
		default:
			return false
		}
	}
	return false
}

// find the quote decision in fd (following helper calls); status: "ok" | "not-found" | "not-understood"
func (tf *triggerFinder) find(fd *ast.FuncDecl, depth int) (t trigger, status string) {
	status = "not-found"
	if fd == nil || fd.Body == nil {
		return
	}
	// (a) an `if` whose body quotes (switch with one quoting case clause is accepted too)
	ast.Inspect(fd.Body, func(n ast.Node) bool {
		if status != "not-found" {
			return false
		}
		switch x := n.(type) {
		case *ast.IfStmt:
			if x.Init == nil && containsQuoteCall(x.Body) && !containsQuoteCall(x.Cond) {
				var tt trigger
				if tf.cond(x.Cond, &tt, 2) {
					t, status = tt, "ok"
				} else {
					status = "not-understood"
				}
				return false
			}
		case *ast.SwitchStmt:
			if x.Tag == nil && x.Init == nil {
				for _, c := range x.Body.List {
					cc := c.(*ast.CaseClause)
					if len(cc.List) == 0 {
						continue
					}
					quotes := false
					for _, s := range cc.Body {
						quotes = quotes || containsQuoteCall(s)
					}
					if quotes {
						var tt trigger
						okAll := true
						for _, e := range cc.List {
							okAll = okAll && tf.cond(e, &tt, 2)
						}
						if okAll {
							t, status = tt, "ok"
						} else {
							status = "not-understood"
						}
						return false
					}
				}
			}
		}
		return true
	})
	if status != "not-found" || depth == 0 {
		return
	}
	// (b) a helper the function calls contains the decision
	var callees []*ast.FuncDecl
	ast.Inspect(fd.Body, func(n ast.Node) bool {
		if ce, ok := n.(*ast.CallExpr); ok {
			if c := tf.callee(ce); c != nil && c != fd {
				callees = append(callees, c)
			}
		}
		return true
	})
	for _, c := range callees {
		if tt, st := tf.find(c, depth-1); st != "not-found" {
			return tt, st
		}
	}
	return
}
