package main

import (
	"go/ast"
	"go/token"
	"strconv"
	"strings"
)

// C02: constants and small structural facts of the time index / ranged read path.
//
//	pkg/tmindex/cindex.go    sparseSpace, the "big gap" factor (sparseSpace*20)
//	pkg/tmindex/ckindex.go   maxRecsPerBlock
//	pkg/partition/cselector.go updatePoss: the lower bound handed to the index is decremented (fix 94ffdf8)
//	pkg/cursor/fiterator.go  fitInRange: ts >= MinTs && ts <= MaxTs
//	pkg/cursor/cursor.go     newCursor: defaults of a missing RANGE bound
//	pkg/partition/iwrapper.go Get: 0 used as "unset" for minTs/maxTs
// c02Reachable: the function `recv.name` of file f and the functions of the same file it calls (methods called on its own
// receiver variable and plain functions), transitively
func c02Reachable(f *ast.File, recv, name string) []*ast.FuncDecl {
	var out []*ast.FuncDecl
	seen := map[string]bool{}
	var visit func(r, n string)
	visit = func(r, n string) {
		if seen[r+"."+n] {
			return
		}
		seen[r+"."+n] = true
		fd := funcDecl(f, r, n)
		if fd == nil || fd.Body == nil {
			return
		}
		out = append(out, fd)
		rv := ""
		if fd.Recv != nil && len(fd.Recv.List) == 1 && len(fd.Recv.List[0].Names) == 1 {
			rv = fd.Recv.List[0].Names[0].Name
		}
		ast.Inspect(fd.Body, func(m ast.Node) bool {
			if ce, ok := m.(*ast.CallExpr); ok {
				switch fn := ce.Fun.(type) {
				case *ast.Ident:
					visit("", fn.Name)
				case *ast.SelectorExpr:
					if id, ok := fn.X.(*ast.Ident); ok && rv != "" && id.Name == rv {
						visit(r, fn.Sel.Name)
					}
				}
			}
			return true
		})
	}
	visit(recv, name)
	return out
}

// c02FindCall: the first call of a method named `name` in the block
func c02FindCall(b *ast.BlockStmt, name string) *ast.CallExpr {
	var found *ast.CallExpr
	ast.Inspect(b, func(m ast.Node) bool {
		if ce, ok := m.(*ast.CallExpr); ok && found == nil {
			if se, ok := ce.Fun.(*ast.SelectorExpr); ok && se.Sel.Name == name {
				found = ce
			}
		}
		return true
	})
	return found
}

// c02ConstPos: 0, an integer literal, or math.MaxUint32
func c02ConstPos(e ast.Expr) (int64, bool) {
	switch x := e.(type) {
	case *ast.BasicLit:
		if v, err := strconv.ParseInt(x.Value, 0, 64); err == nil {
			return v, true
		}
	case *ast.SelectorExpr:
		if id, ok := x.X.(*ast.Ident); ok && id.Name == "math" && x.Sel.Name == "MaxUint32" {
			return 4294967295, true
		}
	}
	return 0, false
}

// c02ErrFallback: in the function that calls `which`, the statement list that contains the call is followed (or the call's if
// statement is) by `if err != nil { … }`; the constant assigned to a position / returned there
func c02ErrFallback(fd *ast.FuncDecl, which string) (int64, bool) {
	var res int64
	ok := false
	ast.Inspect(fd.Body, func(n ast.Node) bool {
		blk, isBlk := n.(*ast.BlockStmt)
		if !isBlk || ok {
			return true
		}
		for i, st := range blk.List {
			// the statement itself (not a nested block) must contain the call
			as, isAs := st.(*ast.AssignStmt)
			if !isAs || c02FindCallExprs(as.Rhs, which) == nil {
				continue
			}
			for _, nx := range blk.List[i+1:] {
				is, isIf := nx.(*ast.IfStmt)
				if !isIf {
					continue
				}
				be, isBe := is.Cond.(*ast.BinaryExpr)
				if !isBe || be.Op != token.NEQ {
					continue
				}
				if id, isId := be.X.(*ast.Ident); !isId || id.Name != "err" {
					continue
				}
				ast.Inspect(is.Body, func(m ast.Node) bool {
					switch y := m.(type) {
					case *ast.ReturnStmt:
						if len(y.Results) == 1 {
							if v, good := c02ConstPos(y.Results[0]); good && !ok {
								res, ok = v, true
							}
						}
					case *ast.AssignStmt:
						if len(y.Lhs) == 1 && len(y.Rhs) == 1 && y.Tok == token.ASSIGN {
							if v, good := c02ConstPos(y.Rhs[0]); good && !ok {
								res, ok = v, true
							}
						}
					}
					return true
				})
				break
			}
		}
		return true
	})
	return res, ok
}

func c02FindCallExprs(es []ast.Expr, name string) *ast.CallExpr {
	for _, e := range es {
		var found *ast.CallExpr
		ast.Inspect(e, func(m ast.Node) bool {
			if ce, ok := m.(*ast.CallExpr); ok && found == nil {
				if se, ok := ce.Fun.(*ast.SelectorExpr); ok && se.Sel.Name == name {
					found = ce
				}
			}
			return true
		})
		if found != nil {
			return found
		}
	}
	return nil
}

func init() {
	generators["C02"] = func() {
		l := newLean("C02", "Facts about pkg/tmindex (cindex.go, ckindex.go), pkg/partition (cselector.go, iwrapper.go), pkg/cursor (fiterator.go, cursor.go).")

		intConst := func(f *ast.File, name string) (int64, bool) {
			if f == nil {
				return 0, false
			}
			for _, d := range f.Decls {
				gd, ok := d.(*ast.GenDecl)
				if !ok || gd.Tok != token.CONST {
					continue
				}
				for _, s := range gd.Specs {
					vs := s.(*ast.ValueSpec)
					for i, n := range vs.Names {
						if n.Name == name && i < len(vs.Values) {
							if bl, ok := vs.Values[i].(*ast.BasicLit); ok {
								v, err := strconv.ParseInt(bl.Value, 0, 64)
								return v, err == nil
							}
						}
					}
				}
			}
			return 0, false
		}

		// --- cindex.go
		fc := parseFile("pkg/tmindex/cindex.go")
		sparse, ok := intConst(fc, "sparseSpace")
		if !ok {
			problem("tmindex.sparseSpace not found as an integer constant")
			sparse = 250
		}
		gapFactor := int64(-1)
		skipLess := false
		if fd := funcDecl(fc, "cindex", "onWrite"); fd != nil {
			ast.Inspect(fd.Body, func(n ast.Node) bool {
				be, ok := n.(*ast.BinaryExpr)
				if !ok {
					return true
				}
				if be.Op == token.MUL {
					if id, ok := be.X.(*ast.Ident); ok && id.Name == "sparseSpace" {
						if bl, ok := be.Y.(*ast.BasicLit); ok {
							gapFactor, _ = strconv.ParseInt(bl.Value, 0, 64)
						}
					}
				}
				// lastRec-last.lastRec < sparseSpace
				if be.Op == token.LSS {
					if id, ok := be.Y.(*ast.Ident); ok && id.Name == "sparseSpace" {
						skipLess = true
					}
				}
				return true
			})
		} else {
			problem("cindex.onWrite not found")
		}
		if gapFactor < 0 {
			problem("cindex.onWrite: big-gap factor (sparseSpace*N) not found")
			gapFactor = 20
		}
		if !skipLess {
			problem("cindex.onWrite: sparse skip test (… < sparseSpace) not found")
		}
		rebuildSegLess := false
		if fd := funcDecl(fc, "cindex", "rebuildIndexInt"); fd != nil {
			ast.Inspect(fd.Body, func(n ast.Node) bool {
				if be, ok := n.(*ast.BinaryExpr); ok && be.Op == token.LSS {
					if id, ok := be.Y.(*ast.Ident); ok && id.Name == "sparseSpace" {
						rebuildSegLess = true
					}
				}
				return true
			})
		} else {
			problem("cindex.rebuildIndexInt not found")
		}
		segMaxInit := "0"
		if fd := funcDecl(fc, "cindex", "rebuildIndexInt"); fd != nil {
			found := false
			ast.Inspect(fd.Body, func(n ast.Node) bool {
				cl, ok := n.(*ast.CompositeLit)
				if !ok {
					return true
				}
				if id, ok := cl.Type.(*ast.Ident); !ok || id.Name != "RecordsInfo" {
					return true
				}
				hasMin := false
				mx := "0"
				for _, e := range cl.Elts {
					if kv, ok := e.(*ast.KeyValueExpr); ok {
						if k, ok := kv.Key.(*ast.Ident); ok {
							if k.Name == "MinTs" {
								hasMin = true
							}
							if k.Name == "MaxTs" {
								mx = "?"
								if se, ok := kv.Value.(*ast.SelectorExpr); ok && se.Sel.Name == "MinInt64" {
									mx = "(-9223372036854775808)"
								}
								if bl, ok := kv.Value.(*ast.BasicLit); ok {
									mx = bl.Value
								}
							}
						}
					}
				}
				if hasMin {
					found = true
					segMaxInit = mx
				}
				return true
			})
			if !found || segMaxInit == "?" {
				problem("cindex.rebuildIndexInt: initial segment RecordsInfo{MinTs: …} not recognised")
				segMaxInit = "0"
			}
		}
		lightFillPositive := false
		if fd := funcDecl(fc, "cindex", "lightFill"); fd != nil {
			ast.Inspect(fd.Body, func(n ast.Node) bool {
				if be, ok := n.(*ast.BinaryExpr); ok && be.Op == token.GTR {
					if se, ok := be.X.(*ast.SelectorExpr); ok && se.Sel.Name == "MaxTs" {
						if bl, ok := be.Y.(*ast.BasicLit); ok && bl.Value == "0" {
							lightFillPositive = true
						}
					}
				}
				return true
			})
		}

		// --- the F06 repair (a2ca477): chkInfo.Recs = number of records the hull accounts for; syncChunks drops entries
		// whose chunk holds more (dropStale), the chunk is then light-filled like an unknown one
		assignsField := func(recv, fn, field string) bool {
			found := false
			if fd := funcDecl(fc, recv, fn); fd != nil {
				ast.Inspect(fd.Body, func(n ast.Node) bool {
					if as, ok := n.(*ast.AssignStmt); ok {
						for _, l := range as.Lhs {
							if se, ok := l.(*ast.SelectorExpr); ok && se.Sel.Name == field {
								found = true
							}
						}
					}
					return true
				})
			}
			return found
		}
		callsMethod := func(recv, fn, callee string) bool {
			found := false
			if fd := funcDecl(fc, recv, fn); fd != nil {
				ast.Inspect(fd.Body, func(n ast.Node) bool {
					if ce, ok := n.(*ast.CallExpr); ok {
						if se, ok := ce.Fun.(*ast.SelectorExpr); ok && se.Sel.Name == callee {
							found = true
						}
					}
					return true
				})
			}
			return found
		}
		onWriteSetsRecs := assignsField("cindex", "onWrite", "Recs")
		// proposed repair F78: lightFill reads EVERY record of a chunk the index does not know (a loop that calls getRecordTimestamp
		// and moves the iterator with Next) instead of the first and the last one (SetPos to Count()-1)
		lightFillScansAll, lightFillSetPosLast := false, false
		if fd := funcDecl(fc, "cindex", "lightFill"); fd != nil {
			ast.Inspect(fd.Body, func(n ast.Node) bool {
				switch x := n.(type) {
				case *ast.ForStmt:
					reads, nexts := false, false
					ast.Inspect(x.Body, func(m ast.Node) bool {
						if ce, ok := m.(*ast.CallExpr); ok {
							if id, ok := ce.Fun.(*ast.Ident); ok && id.Name == "getRecordTimestamp" {
								reads = true
							}
							if se, ok := ce.Fun.(*ast.SelectorExpr); ok && se.Sel.Name == "Next" {
								nexts = true
							}
						}
						return true
					})
					// the loop over the records: it reads and advances, and it is not the loop over the chunks (which contains SetPos or another for)
					inner := false
					ast.Inspect(x.Body, func(m ast.Node) bool {
						if _, ok := m.(*ast.ForStmt); ok {
							inner = true
						}
						if _, ok := m.(*ast.RangeStmt); ok {
							inner = true
						}
						return true
					})
					if reads && nexts && !inner {
						lightFillScansAll = true
					}
				case *ast.CallExpr:
					if se, ok := x.Fun.(*ast.SelectorExpr); ok && se.Sel.Name == "SetPos" {
						lightFillSetPosLast = true
					}
				}
				return true
			})
			if lightFillScansAll == lightFillSetPosLast {
				problem("cindex.lightFill: neither 'first and last record' (SetPos) nor 'every record' (a loop over getRecordTimestamp/Next) recognised, or both: scansAll=%v setPos=%v", lightFillScansAll, lightFillSetPosLast)
			}
		}
		lightFillSetsRecs := assignsField("cindex", "lightFill", "Recs")
		dropsStale := callsMethod("cindex", "syncChunks", "dropStale")
		dropStaleStrict := false // stale means Count() > Recs
		dropOnlyLoaded := false  // … and only for entries read from the snapshot file (`c.loaded && …`, fix 7ea0278)
		if fd := funcDecl(fc, "sortedChunks", "dropStale"); fd != nil {
			ast.Inspect(fd.Body, func(n ast.Node) bool {
				if be, ok := n.(*ast.BinaryExpr); ok && be.Op == token.GTR {
					if se, ok := be.Y.(*ast.SelectorExpr); ok && se.Sel.Name == "Recs" {
						dropStaleStrict = true
					}
				}
				if be, ok := n.(*ast.BinaryExpr); ok && be.Op == token.LAND {
					hasLoaded, hasCmp := false, false
					ast.Inspect(be, func(m ast.Node) bool {
						if se, ok := m.(*ast.SelectorExpr); ok && se.Sel.Name == "loaded" {
							hasLoaded = true
						}
						if b2, ok := m.(*ast.BinaryExpr); ok && b2.Op == token.GTR {
							if se, ok := b2.Y.(*ast.SelectorExpr); ok && se.Sel.Name == "Recs" {
								hasCmp = true
							}
						}
						return true
					})
					if hasLoaded && hasCmp {
						dropOnlyLoaded = true
					}
				}
				return true
			})
		}
		// onWrite on a snapshot entry that does not account for the records in front of the batch: handled as a chunk notified from the middle
		onWriteLoadedMiddle := false
		if fd := funcDecl(fc, "cindex", "onWrite"); fd != nil {
			ast.Inspect(fd.Body, func(n ast.Node) bool {
				if is, ok := n.(*ast.IfStmt); ok {
					hasLoaded, hasCmp := false, false
					ast.Inspect(is.Cond, func(m ast.Node) bool {
						if se, ok := m.(*ast.SelectorExpr); ok && se.Sel.Name == "loaded" {
							hasLoaded = true
						}
						if b2, ok := m.(*ast.BinaryExpr); ok && b2.Op == token.GTR {
							if se, ok := b2.Y.(*ast.SelectorExpr); ok && se.Sel.Name == "Recs" {
								hasCmp = true
							}
						}
						return true
					})
					if hasLoaded && hasCmp {
						onWriteLoadedMiddle = true
					}
				}
				return true
			})
		}
		if dropOnlyLoaded != onWriteLoadedMiddle {
			problem("cindex: snapshot-entry handling only partly recognised: dropStale tests loaded=%v, onWrite treats a loaded entry written beyond Recs as new=%v", dropOnlyLoaded, onWriteLoadedMiddle)
		}
		// repair of F53 (proposed): syncChunks' second critical section keeps known chunks that are newer than the last chunk of
		// the caller's list (a comparison of an entry's Id with the Id() of a chunk of the list inside syncChunks)
		keepsNewer := false
		if fd := funcDecl(fc, "cindex", "syncChunks"); fd != nil {
			ast.Inspect(fd.Body, func(n ast.Node) bool {
				if be, ok := n.(*ast.BinaryExpr); ok && (be.Op == token.GTR || be.Op == token.LEQ) {
					if se, ok := be.X.(*ast.SelectorExpr); ok && se.Sel.Name == "Id" {
						if ce, ok := be.Y.(*ast.CallExpr); ok {
							if se2, ok := ce.Fun.(*ast.SelectorExpr); ok && se2.Sel.Name == "Id" {
								keepsNewer = true
							}
						}
					}
				}
				return true
			})
		}
		// proposed repair of F85: onWrite ignores the index part of a notification that arrives late (lastRec <= last.lastRec in the
		// skip test) and never lowers Recs (the assignment is guarded by a comparison of Recs with lastRec+1)
		skipsLate, recsGuarded := false, false
		if fd := funcDecl(fc, "cindex", "onWrite"); fd != nil {
			ast.Inspect(fd.Body, func(n ast.Node) bool {
				if be, ok := n.(*ast.BinaryExpr); ok && (be.Op == token.LEQ || be.Op == token.LSS) {
					xi, xok := be.X.(*ast.Ident)
					ys, yok := be.Y.(*ast.SelectorExpr)
					if xok && yok && xi.Name == "lastRec" && ys.Sel.Name == "lastRec" {
						skipsLate = true
					}
				}
				if is, ok := n.(*ast.IfStmt); ok {
					condRecs := false
					ast.Inspect(is.Cond, func(m ast.Node) bool {
						if se, ok := m.(*ast.SelectorExpr); ok && se.Sel.Name == "Recs" {
							condRecs = true
						}
						return true
					})
					if condRecs {
						ast.Inspect(is.Body, func(m ast.Node) bool {
							if as, ok := m.(*ast.AssignStmt); ok && len(as.Lhs) == 1 {
								if se, ok := as.Lhs[0].(*ast.SelectorExpr); ok && se.Sel.Name == "Recs" {
									recsGuarded = true
								}
							}
							return true
						})
					}
				}
				return true
			})
		}
		// proposed repair of F-C02-901: onWrite decides "late" by Recs — a boolean defined from `… <= <entry>.Recs` BEFORE the
		// statement that raises Recs, and used in the condition of an if — and rebuildIndex raises Recs to what it has scanned
		// (an assignment to a Recs field inside rebuildIndex)
		lateByRecs, rebuildRecs := false, false
		if fd := funcDecl(fc, "cindex", "onWrite"); fd != nil {
			lateIdent, latePos, recsAssignPos := "", token.NoPos, token.NoPos
			ast.Inspect(fd.Body, func(n ast.Node) bool {
				if as, ok := n.(*ast.AssignStmt); ok && len(as.Lhs) == 1 && len(as.Rhs) == 1 {
					if id, ok := as.Lhs[0].(*ast.Ident); ok {
						if be, ok := as.Rhs[0].(*ast.BinaryExpr); ok && (be.Op == token.LEQ || be.Op == token.LSS) {
							if se, ok := be.Y.(*ast.SelectorExpr); ok && se.Sel.Name == "Recs" {
								lateIdent, latePos = id.Name, as.Pos()
							}
						}
					}
					if se, ok := as.Lhs[0].(*ast.SelectorExpr); ok && se.Sel.Name == "Recs" && recsAssignPos == token.NoPos {
						recsAssignPos = as.Pos()
					}
				}
				return true
			})
			if lateIdent != "" {
				used := false
				ast.Inspect(fd.Body, func(n ast.Node) bool {
					if is, ok := n.(*ast.IfStmt); ok {
						ast.Inspect(is.Cond, func(m ast.Node) bool {
							if id, ok := m.(*ast.Ident); ok && id.Name == lateIdent {
								used = true
							}
							return true
						})
					}
					return true
				})
				if used && recsAssignPos != token.NoPos && latePos < recsAssignPos {
					lateByRecs = true
				} else {
					problem("cindex.onWrite: a boolean is derived from a comparison with Recs (%s) but it is not used in a condition, or it is computed after Recs has been raised (used=%v): unknown shape", lateIdent, used)
				}
			}
		}
		if fd := funcDecl(fc, "cindex", "rebuildIndex"); fd != nil {
			ast.Inspect(fd.Body, func(n ast.Node) bool {
				if as, ok := n.(*ast.AssignStmt); ok {
					for _, l := range as.Lhs {
						if se, ok := l.(*ast.SelectorExpr); ok && se.Sel.Name == "Recs" {
							rebuildRecs = true
						}
					}
				}
				return true
			})
		}
		// proposed repair of F86: sortedChunks.apply hands what lightFill has read now to a known entry that could not be filled
		// before (an assignment to the Recs of an element of its argument)
		refills := false
		if fd := funcDecl(fc, "sortedChunks", "apply"); fd != nil && len(fd.Type.Params.List) > 0 && len(fd.Type.Params.List[0].Names) > 0 {
			arg := fd.Type.Params.List[0].Names[0].Name
			ast.Inspect(fd.Body, func(n ast.Node) bool {
				if as, ok := n.(*ast.AssignStmt); ok {
					for _, l := range as.Lhs {
						if se, ok := l.(*ast.SelectorExpr); ok && se.Sel.Name == "Recs" {
							if ie, ok := se.X.(*ast.IndexExpr); ok {
								if id, ok := ie.X.(*ast.Ident); ok && id.Name == arg {
									refills = true
								}
							}
						}
					}
				}
				return true
			})
		}
		staleRepair := onWriteSetsRecs && lightFillSetsRecs && dropsStale && dropStaleStrict
		if (onWriteSetsRecs || lightFillSetsRecs || dropsStale) && !staleRepair {
			problem("cindex: the stale-entry handling (onWrite/lightFill set Recs, syncChunks calls dropStale, stale = Count() > Recs) is only partly recognised: onWrite=%v lightFill=%v syncChunks=%v strict=%v", onWriteSetsRecs, lightFillSetsRecs, dropsStale, dropStaleStrict)
		}

		// --- ckindex.go
		fk := parseFile("pkg/tmindex/ckindex.go")
		maxRecs, ok := intConst(fk, "maxRecsPerBlock")
		if !ok {
			problem("tmindex.maxRecsPerBlock not found as an integer constant")
			maxRecs = 41
		}

		// --- cselector.go updatePoss
		fs := parseFile("pkg/partition/cselector.go")
		// updatePoss together with the same-file helpers it calls (methods of the same receiver or plain functions, transitively):
		// a refactoring that moves a look-up into a helper must not change what is read
		upBodies := c02Reachable(fs, "chkSelector", "updatePoss")
		if len(upBodies) == 0 {
			problem("chkSelector.updatePoss not found")
		}
		// (a) which value is handed to GetPosForGreaterOrEqualTime: a local copy that was decremented (`x--` / `x -= 1` / `x = x - 1`),
		// or `… - 1` directly; (b) what the position becomes when a look-up fails (assignment or return inside `if err != nil`)
		lowerFound, lowerAskMinusOne := false, false
		lowerErrPos, upperErrPos := int64(-1), int64(-1)
		for _, fd := range upBodies {
			decremented := map[string]bool{}
			ast.Inspect(fd.Body, func(n ast.Node) bool {
				switch x := n.(type) {
				case *ast.IncDecStmt:
					if id, ok := x.X.(*ast.Ident); ok && x.Tok == token.DEC {
						decremented[id.Name] = true
					}
				case *ast.AssignStmt:
					if len(x.Lhs) == 1 && len(x.Rhs) == 1 {
						if id, ok := x.Lhs[0].(*ast.Ident); ok {
							if x.Tok == token.SUB_ASSIGN {
								if bl, ok := x.Rhs[0].(*ast.BasicLit); ok && bl.Value == "1" {
									decremented[id.Name] = true
								}
							}
							if be, ok := x.Rhs[0].(*ast.BinaryExpr); ok && be.Op == token.SUB {
								if xi, ok := be.X.(*ast.Ident); ok && xi.Name == id.Name {
									if bl, ok := be.Y.(*ast.BasicLit); ok && bl.Value == "1" {
										decremented[id.Name] = true
									}
								}
							}
						}
					}
				}
				return true
			})
			for _, which := range []string{"GetPosForGreaterOrEqualTime", "GetPosForLessTime"} {
				call := c02FindCall(fd.Body, which)
				if call == nil {
					continue
				}
				if which == "GetPosForGreaterOrEqualTime" {
					lowerFound = true
					if len(call.Args) != 3 {
						problem("chkSelector.updatePoss: GetPosForGreaterOrEqualTime is not called with 3 arguments: unknown shape")
					} else {
						switch a := call.Args[2].(type) {
						case *ast.Ident:
							lowerAskMinusOne = decremented[a.Name]
						case *ast.SelectorExpr:
							lowerAskMinusOne = false // the range bound itself
						case *ast.BinaryExpr:
							bl, ok := a.Y.(*ast.BasicLit)
							if a.Op == token.SUB && ok && bl.Value == "1" {
								lowerAskMinusOne = true
							} else {
								problem("chkSelector.updatePoss: the timestamp handed to GetPosForGreaterOrEqualTime is an expression the extractor cannot read")
							}
						default:
							problem("chkSelector.updatePoss: the timestamp handed to GetPosForGreaterOrEqualTime is an expression the extractor cannot read")
						}
					}
				}
				v, ok := c02ErrFallback(fd, which)
				if !ok {
					problem("chkSelector.updatePoss: cannot read what the position becomes when %s fails (no `if err != nil` with an assignment / return of a constant after the call)", which)
				} else if which == "GetPosForGreaterOrEqualTime" {
					lowerErrPos = v
				} else {
					upperErrPos = v
				}
			}
		}
		if len(upBodies) > 0 && !lowerFound {
			problem("chkSelector.updatePoss (and the same-file helpers it calls): no call of GetPosForGreaterOrEqualTime found")
		}
		if lowerErrPos < 0 {
			if lowerFound {
				problem("chkSelector.updatePoss: error fallback of the lower look-up not found")
			}
			lowerErrPos = 0
		}
		if upperErrPos < 0 {
			problem("chkSelector.updatePoss (and the same-file helpers it calls): no call of GetPosForLessTime with a readable error fallback found")
			upperErrPos = 4294967295
		}
		// repair of F46 (proposed): updatePoss asks the index how many records it has been told about (optional capability
		// KnownRecords) and leaves the whole chunk open when the confirmed count is above it
		opensUnknownTail := false
		for _, fd := range upBodies {
			ast.Inspect(fd.Body, func(n ast.Node) bool {
				if ce, ok := n.(*ast.CallExpr); ok {
					if se, ok := ce.Fun.(*ast.SelectorExpr); ok && strings.HasPrefix(se.Sel.Name, "KnownRecords") {
						opensUnknownTail = true
					}
				}
				return true
			})
		}

		// --- jiterator.go advanceChunk (fix 008ef8e): the end-of-data position of the last chunk is the chunk iterator's own
		fj := parseFile("pkg/partition/jiterator.go")
		keepsItPos := false
		if fd := funcDecl(fj, "JIterator", "advanceChunk"); fd != nil {
			readsCiPos, restores := false, false
			ast.Inspect(fd.Body, func(n ast.Node) bool {
				switch x := n.(type) {
				case *ast.CallExpr:
					if se, ok := x.Fun.(*ast.SelectorExpr); ok && se.Sel.Name == "Pos" {
						if s2, ok := se.X.(*ast.SelectorExpr); ok && s2.Sel.Name == "ci" {
							readsCiPos = true
						}
					}
				case *ast.IfStmt:
					// if err == io.EOF && … { jit.pos = … }
					isEOF := false
					ast.Inspect(x.Cond, func(m ast.Node) bool {
						if se, ok := m.(*ast.SelectorExpr); ok && se.Sel.Name == "EOF" {
							isEOF = true
						}
						return true
					})
					if isEOF {
						ast.Inspect(x.Body, func(m ast.Node) bool {
							if as, ok := m.(*ast.AssignStmt); ok && len(as.Lhs) == 1 {
								if se, ok := as.Lhs[0].(*ast.SelectorExpr); ok && se.Sel.Name == "pos" {
									restores = true
								}
							}
							return true
						})
					}
				}
				return true
			})
			keepsItPos = readsCiPos && restores
		} else {
			problem("JIterator.advanceChunk not found")
		}

		// --- fiterator.go fitInRange
		ff := parseFile("pkg/cursor/fiterator.go")
		loOp, hiOp := "", ""
		if fd := funcDecl(ff, "fiterator", "fitInRange"); fd != nil {
			ast.Inspect(fd.Body, func(n ast.Node) bool {
				be, ok := n.(*ast.BinaryExpr)
				if !ok || be.Op == token.LAND {
					return true
				}
				if se, ok := be.Y.(*ast.SelectorExpr); ok {
					switch se.Sel.Name {
					case "MinTs":
						loOp = be.Op.String()
					case "MaxTs":
						hiOp = be.Op.String()
					}
				}
				return true
			})
		} else {
			problem("fiterator.fitInRange not found")
		}

		// --- cursor.go newCursor range defaults
		fcu := parseFile("pkg/cursor/cursor.go")
		defLo, defHi := "", ""
		if fd := funcDecl(fcu, "", "newCursor"); fd != nil {
			ast.Inspect(fd.Body, func(n ast.Node) bool {
				ce, ok := n.(*ast.CallExpr)
				if !ok {
					return true
				}
				se, ok := ce.Fun.(*ast.SelectorExpr)
				if !ok || se.Sel.Name != "GetInt64Val" || len(ce.Args) != 2 {
					return true
				}
				which := ""
				ast.Inspect(ce.Args[0], func(m ast.Node) bool {
					if s, ok := m.(*ast.SelectorExpr); ok {
						if s.Sel.Name == "TmPoint1" || s.Sel.Name == "TmPoint2" {
							which = s.Sel.Name
						}
					}
					return true
				})
				val := ""
				switch a := ce.Args[1].(type) {
				case *ast.BasicLit:
					val = a.Value
				case *ast.SelectorExpr:
					val = a.Sel.Name
				case *ast.UnaryExpr:
					if bl, ok := a.X.(*ast.BasicLit); ok {
						val = a.Op.String() + bl.Value
					}
				}
				if which == "TmPoint1" {
					defLo = val
				} else if which == "TmPoint2" {
					defHi = val
				}
				return true
			})
		} else {
			problem("cursor.newCursor not found")
		}
		leanOfDefault := func(v string) (string, bool) {
			switch v {
			case "MinInt64":
				return "(-9223372036854775808)", true
			case "MaxInt64":
				return "9223372036854775807", true
			}
			if i, err := strconv.ParseInt(v, 0, 64); err == nil {
				if i < 0 {
					return "(" + strconv.FormatInt(i, 10) + ")", true
				}
				return strconv.FormatInt(i, 10), true
			}
			return "0", false
		}
		lo, ok1 := leanOfDefault(defLo)
		hi, ok2 := leanOfDefault(defHi)
		if !ok1 || !ok2 {
			problem("cursor.newCursor: defaults of the RANGE bounds not recognised (%q, %q)", defLo, defHi)
		}

		// --- iwrapper.go Get: `== 0` sentinels
		fi := parseFile("pkg/partition/iwrapper.go")
		minSent, maxSent := false, false
		flagTests, flagSet := 0, false
		if fd := funcDecl(fi, "iwrapper", "Get"); fd != nil {
			ast.Inspect(fd.Body, func(n ast.Node) bool {
				be, ok := n.(*ast.BinaryExpr)
				if !ok || be.Op != token.EQL {
					return true
				}
				if bl, ok := be.Y.(*ast.BasicLit); !ok || bl.Value != "0" {
					return true
				}
				if se, ok := be.X.(*ast.SelectorExpr); ok {
					switch se.Sel.Name {
					case "minTs":
						minSent = true
					case "maxTs":
						maxSent = true
					}
				}
				return true
			})
			// the flag-based shape (fix 6624754): `!iw.tsSet` in the conditions and `iw.tsSet = true` afterwards
			ast.Inspect(fd.Body, func(n ast.Node) bool {
				switch x := n.(type) {
				case *ast.UnaryExpr:
					if se, ok := x.X.(*ast.SelectorExpr); ok && x.Op == token.NOT && se.Sel.Name == "tsSet" {
						flagTests++
					}
				case *ast.AssignStmt:
					if len(x.Lhs) == 1 && len(x.Rhs) == 1 {
						if se, ok := x.Lhs[0].(*ast.SelectorExpr); ok && se.Sel.Name == "tsSet" {
							if id, ok := x.Rhs[0].(*ast.Ident); ok && id.Name == "true" {
								flagSet = true
							}
						}
					}
				}
				return true
			})
		} else {
			problem("iwrapper.Get not found")
		}
		seenFlag := flagTests >= 2 && flagSet
		if !seenFlag && !(minSent && maxSent) {
			problem("iwrapper.Get: neither the 0 sentinels nor the seen-flag shape (`!iw.tsSet` twice, `iw.tsSet = true`) recognised: the model of the running min/max no longer follows the code")
		}
		if seenFlag && (minSent || maxSent) {
			problem("iwrapper.Get: mixes the seen flag with a 0 sentinel")
		}

		l.p("/-- `sparseSpace`: a point is written when at least this many records arrived since the last one -/")
		l.p("def sparseSpace : Nat := %d", sparse)
		l.p("/-- `onWrite`: a first interval spanning more than `sparseSpace * bigGapFactor` records marks the index corrupted -/")
		l.p("def bigGapFactor : Nat := %d", gapFactor)
		l.p("/-- `onWrite` skips when `lastRec - last.lastRec < sparseSpace` (strict) -/")
		l.p("def onWriteSkipIsStrictLess : Bool := %s", leanBool(skipLess))
		l.p("/-- `rebuildIndexInt` closes a segment when `pos1 - pos0 < sparseSpace` fails -/")
		l.p("def rebuildSegmentIsStrictLess : Bool := %s", leanBool(rebuildSegLess))
		l.p("/-- `rebuildIndexInt`: value the maximum of a segment starts from (`RecordsInfo{MinTs: math.MaxInt64}` leaves MaxTs = 0) -/")
		l.p("def rebuildSegmentMaxInit : Int := %s", segMaxInit)
		l.p("/-- `syncChunks` drops what the index knows about a chunk that holds more records than the entry accounts for (`Recs`, set by `onWrite` and `lightFill`); the chunk is then light-filled like an unknown one (fix a2ca477) -/")
		l.p("def syncChunksDropsStaleEntries : Bool := %s", leanBool(staleRepair))
		l.p("/-- … but only entries read from the snapshot file at start (`loaded`), compared once; `onWrite` on such an entry beyond the records it accounts for treats the chunk as notified from the middle (fix 7ea0278). Entries of a running server are never dropped. -/")
		l.p("def staleDropOnlyForSnapshotEntries : Bool := %s", leanBool(dropOnlyLoaded && onWriteLoadedMiddle))
		l.p("/-- `syncChunks`' second critical section keeps a known chunk that is newer than the last chunk of the caller's list (repair of F53); false: every known chunk missing from the list is forgotten -/")
		l.p("def syncChunksKeepsNewerChunks : Bool := %s", leanBool(keepsNewer))
		l.p("/-- `syncChunks` fills a KNOWN entry that accounts for no record (`Recs = 0`: empty chunk, or a `lightFill` that could not read) when the chunk has records now (proposed repair of F86); false: what `lightFill` reads for a known entry is thrown away by the second `apply` -/")
		l.p("def syncChunksRefillsUnfilledEntries : Bool := %s", leanBool(refills))
		l.p("/-- `onWrite` leaves the index alone for a notification that arrives late (`lastRec <= last.lastRec`), and never lowers `Recs` (proposed repair of F85); false: the late interval is merged behind the newer point and `Recs` goes down -/")
		l.p("def onWriteSkipsLateNotification : Bool := %s", leanBool(skipsLate))
		l.p("def onWriteRecsNeverDecrease : Bool := %s", leanBool(recsGuarded))
		l.p("/-- `onWrite` decides that a notification is late by `Recs` as it was before the notification (`lastRec+1 <= Recs`), whatever `lastRec` of the entry is, and `rebuildIndex` raises `Recs` to the number of records it has scanned (proposed repair of F-C02-901); false: a late notification is recognised only while `last.lastRec > 0`, which a rebuild resets -/")
		l.p("def onWriteLateByRecs : Bool := %s", leanBool(lateByRecs))
		l.p("def rebuildRaisesRecs : Bool := %s", leanBool(rebuildRecs))
		l.p("/-- `lightFill` treats `MaxTs > 0` as \"hull known\" -/")
		l.p("def lightFillKnownMeansPositive : Bool := %s", leanBool(lightFillPositive))
		l.p("/-- `lightFill` derives the hull of a chunk the index does not know from EVERY record (proposed repair F78); false: from the first and the last record only -/")
		l.p("def lightFillScansAllRecords : Bool := %s", leanBool(lightFillScansAll))
		l.p("/-- `maxRecsPerBlock`: records per index block -/")
		l.p("def maxRecsPerBlock : Nat := %d", maxRecs)
		l.p("/-- `updatePoss` hands `MinTs - 1` (a decremented copy) to `GetPosForGreaterOrEqualTime` (fix 94ffdf8) -/")
		l.p("def lowerAskMinusOne : Bool := %s", leanBool(lowerAskMinusOne))
		l.p("/-- `updatePoss`: the position a failed look-up leaves (`GetPosForGreaterOrEqualTime` → minPos, `GetPosForLessTime` → maxPos) -/")
		l.p("def updatePossLowerErrPos : Nat := %d", lowerErrPos)
		l.p("def updatePossUpperErrPos : Nat := %d", upperErrPos)
		l.p("/-- `updatePoss` leaves the whole chunk open when the confirmed count is above the number of records the index has been told about (`KnownRecords` = `Recs`; repair of F46) -/")
		l.p("def updatePossOpensUnknownTail : Bool := %s", leanBool(opensUnknownTail))
		l.p("/-- `advanceChunk`: when no chunk follows the one just left, the end-of-data position is where the chunk iterator stopped (fix 008ef8e) -/")
		l.p("def advanceChunkKeepsIteratorPos : Bool := %s", leanBool(keepsItPos))
		l.p("/-- `fitInRange` compares with `>=` at the lower and `<=` at the upper bound -/")
		l.p("def fitLowerInclusive : Bool := %s", leanBool(loOp == ">="))
		l.p("def fitUpperInclusive : Bool := %s", leanBool(hiOp == "<="))
		l.p("/-- `newCursor`: value of a missing lower / upper RANGE bound -/")
		l.p("def rangeDefaultLower : Int := %s", lo)
		l.p("def rangeDefaultUpper : Int := %s", hi)
		l.p("/-- `iwrapper.Get` uses `== 0` as \"unset\" for minTs / maxTs -/")
		l.p("def iwrapperMinZeroSentinel : Bool := %s", leanBool(minSent))
		l.p("def iwrapperMaxZeroSentinel : Bool := %s", leanBool(maxSent))
		l.p("/-- `iwrapper.Get` keeps a flag saying whether a timestamp has been seen (`!iw.tsSet` guards both updates, set after them) -/")
		l.p("def iwrapperSeenFlag : Bool := %s", leanBool(seenFlag))
		l.write()
	}
}
