package main

import "go/ast"

// C19: does the range loop of pipe.Service.GetPipes advance its insertion counter?
func init() {
	generators["C19"] = func() {
		l := newLean("C19", "Facts about pkg/pipe/service.go (GetPipes) and pkg/backend/admin.go (cmdShowPipes).")
		f := parseFile("pkg/pipe/service.go")
		fd := funcDecl(f, "Service", "GetPipes")
		incr, searchOverCnt := false, false
		if fd == nil {
			problem("pipe.Service.GetPipes not found")
		} else {
			ast.Inspect(fd.Body, func(n ast.Node) bool {
				rs, ok := n.(*ast.RangeStmt)
				if !ok {
					return true
				}
				ast.Inspect(rs.Body, func(m ast.Node) bool {
					switch s := m.(type) {
					case *ast.IncDecStmt:
						if id, ok := s.X.(*ast.Ident); ok && id.Name == "cnt" && s.Tok.String() == "++" {
							incr = true
						}
					case *ast.CallExpr:
						if se, ok := s.Fun.(*ast.SelectorExpr); ok && se.Sel.Name == "Search" && len(s.Args) == 2 {
							if id, ok := s.Args[0].(*ast.Ident); ok && id.Name == "cnt" {
								searchOverCnt = true
							}
						}
					}
					return true
				})
				return false
			})
		}
		l.p("/-- the `for … range s.ppipes` loop of `GetPipes` contains `cnt++` -/")
		l.p("def getPipesIncrementsCnt : Bool := %s", leanBool(incr))
		l.p("/-- the loop searches the insertion point with `sort.Search(cnt, …)` -/")
		l.p("def getPipesSearchesOverCnt : Bool := %s", leanBool(searchOverCnt))
		l.write()
	}
}
