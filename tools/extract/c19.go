package main

import "go/ast"

// C19: does the range loop of pipe.Service.GetPipes advance its insertion counter?
func init() {
	generators["C19"] = func() {
		l := newLean("C19", "Facts about pkg/pipe/service.go (GetPipes) and pkg/backend/admin.go (cmdShowPipes).")
		f := parseFile("pkg/pipe/service.go")
		fd := funcDecl(f, "Service", "GetPipes")
		incr, searchOverCnt := false, false
		if fd == nil {
			problem("pipe.Service.GetPipes not found")
		} else {
			ast.Inspect(fd.Body, func(n ast.Node) bool {
				rs, ok := n.(*ast.RangeStmt)
				if !ok {
					return true
				}
				ast.Inspect(rs.Body, func(m ast.Node) bool {
					switch s := m.(type) {
					case *ast.IncDecStmt:
						if id, ok := s.X.(*ast.Ident); ok && id.Name == "cnt" && s.Tok.String() == "++" {
							incr = true
						}
					case *ast.CallExpr:
						if se, ok := s.Fun.(*ast.SelectorExpr); ok && se.Sel.Name == "Search" && len(s.Args) == 2 {
							if id, ok := s.Args[0].(*ast.Ident); ok && id.Name == "cnt" {
								searchOverCnt = true
							}
						}
					}
					return true
				})
				return false
			})
		}
		// CreatePipe: how many times is the registry map consulted by name inside a Lock()/Unlock() pair, and is the store
		// `s.ppipes[p.Name] = …` guarded by the second look-up's negative result?
		lookups, guardedStore := 0, false
		cp := funcDecl(f, "Service", "CreatePipe")
		if cp == nil {
			problem("pipe.Service.CreatePipe not found")
		} else {
			ast.Inspect(cp.Body, func(n ast.Node) bool {
				switch s := n.(type) {
				case *ast.AssignStmt:
					// _, ok := s.ppipes[p.Name]   /   _, ok = s.ppipes[p.Name]
					if len(s.Lhs) == 2 && len(s.Rhs) == 1 {
						if ix, ok := s.Rhs[0].(*ast.IndexExpr); ok && isSel(ix.X, "s", "ppipes") {
							lookups++
						}
					}
				case *ast.IfStmt:
					// if !ok { s.ppipes[p.Name] = stm … }
					if u, ok := s.Cond.(*ast.UnaryExpr); ok && u.Op.String() == "!" {
						if id, ok := u.X.(*ast.Ident); ok && id.Name == "ok" {
							ast.Inspect(s.Body, func(m ast.Node) bool {
								if as, ok := m.(*ast.AssignStmt); ok && len(as.Lhs) == 1 {
									if ix, ok := as.Lhs[0].(*ast.IndexExpr); ok && isSel(ix.X, "s", "ppipes") {
										guardedStore = true
									}
								}
								return true
							})
						}
					}
				}
				return true
			})
		}
		l.p("/-- `CreatePipe` looks the name up twice (before and after building the pipe) and stores only under the second look-up's negative answer -/")
		l.p("def createPipeRechecks : Bool := %s", leanBool(lookups >= 2 && guardedStore))
		l.p("/-- the `for … range s.ppipes` loop of `GetPipes` contains `cnt++` -/")
		l.p("def getPipesIncrementsCnt : Bool := %s", leanBool(incr))
		l.p("/-- the loop searches the insertion point with `sort.Search(cnt, …)` -/")
		l.p("def getPipesSearchesOverCnt : Bool := %s", leanBool(searchOverCnt))
		l.write()
	}
}

func isSel(e ast.Expr, x, sel string) bool {
	se, ok := e.(*ast.SelectorExpr)
	if !ok || se.Sel.Name != sel {
		return false
	}
	id, ok := se.X.(*ast.Ident)
	return ok && id.Name == x
}
