package main

import "go/ast"

// C19: does the range loop of pipe.Service.GetPipes advance its insertion counter?
func init() {
	generators["C19"] = func() {
		l := newLean("C19", "Facts about pkg/pipe/service.go (GetPipes) and pkg/backend/admin.go (cmdShowPipes).")
		f := parseFile("pkg/pipe/service.go")
		fd := funcDecl(f, "Service", "GetPipes")
		incr, searchOverCnt, libSort := false, false, false
		if fd == nil {
			problem("pipe.Service.GetPipes not found")
		} else {
			libSort = c19LibrarySortShape(fd)
			ast.Inspect(fd.Body, func(n ast.Node) bool {
				rs, ok := n.(*ast.RangeStmt)
				if !ok {
					return true
				}
				ast.Inspect(rs.Body, func(m ast.Node) bool {
					switch s := m.(type) {
					case *ast.IncDecStmt:
						// the counter is whatever identifier sort.Search is given as its bound (see below); any `x++` of an
						// identifier that is also used as that bound counts
						if id, ok := s.X.(*ast.Ident); ok && s.Tok.String() == "++" && c19SearchBound(rs.Body) == id.Name {
							incr = true
						}
					case *ast.CallExpr:
						if se, ok := s.Fun.(*ast.SelectorExpr); ok && se.Sel.Name == "Search" && len(s.Args) == 2 {
							if _, ok := s.Args[0].(*ast.Ident); ok {
								searchOverCnt = true
							}
						}
					}
					return true
				})
				return false
			})
		}
		// CreatePipe: how many times is the registry map consulted by name inside a Lock()/Unlock() pair, and is the store
		// `s.ppipes[p.Name] = …` guarded by the second look-up's negative result?
		lookups, guardedStore := 0, false
		cp := funcDecl(f, "Service", "CreatePipe")
		if cp == nil {
			problem("pipe.Service.CreatePipe not found")
		} else {
			lookups, guardedStore = c19CreateShape(cp)
		}
		callsSave := func(name string) bool {
			fd := funcDecl(f, "Service", name)
			if fd == nil {
				problem("pipe.Service." + name + " not found")
				return false
			}
			found := false
			ast.Inspect(fd.Body, func(n ast.Node) bool {
				if c, ok := n.(*ast.CallExpr); ok {
					if se, ok := c.Fun.(*ast.SelectorExpr); ok && se.Sel.Name == "savePipes" {
						found = true
					}
				}
				return true
			})
			return found
		}
		l.p("/-- `CreatePipe` persists the registry (`savePipes`) before it returns success -/")
		l.p("def createPipeSaves : Bool := %s", leanBool(callsSave("CreatePipe")))
		l.p("/-- `DeletePipe` persists the registry after a successful delete -/")
		l.p("def deletePipeSaves : Bool := %s", leanBool(callsSave("DeletePipe")))
		l.p("/-- `Shutdown` persists the registry -/")
		l.p("def shutdownSaves : Bool := %s", leanBool(callsSave("Shutdown")))
		l.p("/-- the whole of `savePipes` (snapshot of the registry and the write of pipes.dat) runs under one mutex of its own -/")
		l.p("def savePipesSerialized : Bool := %s", leanBool(c19SaveSerialized(f)))
		l.p("/-- `CreatePipe` looks the name up twice (before and after building the pipe) and stores only under the second look-up's negative answer -/")
		l.p("def createPipeRechecks : Bool := %s", leanBool(lookups >= 2 && guardedStore))
		l.p("/-- the `for … range s.ppipes` loop of `GetPipes` contains `cnt++` -/")
		l.p("def getPipesIncrementsCnt : Bool := %s", leanBool(incr))
		if !libSort && !searchOverCnt {
			problem("pipe.Service.GetPipes: neither the insertion loop over sort.Search nor collect-then-library-sort was recognised")
		}
		l.p("/-- `GetPipes` collects the values of the map and sorts them by `Name` ascending with the standard library (under the lock) -/")
		l.p("def getPipesLibrarySort : Bool := %s", leanBool(libSort))
		l.p("/-- the loop searches the insertion point with `sort.Search(cnt, …)` -/")
		l.p("def getPipesSearchesOverCnt : Bool := %s", leanBool(searchOverCnt))
		// newPPipe (pkg/pipe/ppipe.go) refuses a definition whose name or conditions are not valid UTF-8: an `if` whose condition
		// calls utf8.ValidString on all three fields of its Pipe parameter and whose body returns
		utf8Req := false
		if pf := parseFile("pkg/pipe/ppipe.go"); pf != nil {
			if nd := funcDeclPlain(pf, "newPPipe"); nd != nil {
				utf8Req = c19RequiresUtf8(nd)
			} else {
				problem("pipe.newPPipe not found")
			}
		}
		l.p("/-- `newPPipe` refuses a definition whose Name, TagsCond or FltCond is not valid UTF-8 (so every registered pipe can be written to pipes.dat unchanged) -/")
		l.p("def newPPipeRequiresUtf8 : Bool := %s", leanBool(utf8Req))
		cmp := libSort
		if fd != nil && !libSort {
			cmp = c19SearchComparesNames(fd)
		}
		l.p("/-- the predicate given to `sort.Search` is the byte-wise `res[i].Name >= key` on the names as stored, `key` being the map key (or the Name of the value) of the")
		l.p("current iteration (true also for the library-sort shape, whose comparison is checked separately) -/")
		l.p("def getPipesSearchComparesNames : Bool := %s", leanBool(cmp))
		l.write()
	}
}

// isPpipesIndex: <anything>.ppipes[…]
func c19IsPpipesIndex(e ast.Expr) bool {
	ix, ok := e.(*ast.IndexExpr)
	if !ok {
		return false
	}
	se, ok := ix.X.(*ast.SelectorExpr)
	return ok && se.Sel.Name == "ppipes"
}

// c19SearchBound returns the identifier the loop body passes to sort.Search as its bound ("" if none).
func c19SearchBound(body *ast.BlockStmt) string {
	res := ""
	ast.Inspect(body, func(m ast.Node) bool {
		if c, ok := m.(*ast.CallExpr); ok {
			if se, ok := c.Fun.(*ast.SelectorExpr); ok && se.Sel.Name == "Search" && len(c.Args) == 2 {
				if id, ok := c.Args[0].(*ast.Ident); ok {
					res = id.Name
				}
			}
		}
		return true
	})
	return res
}

// c19LibrarySortShape: the function ranges over the map appending (or storing) every value and afterwards calls
// sort.Slice / sort.SliceStable with a comparison `x[i].Name < x[j].Name`, or sort.Sort/sort.Stable on the result;
// no sort.Search insertion inside the loop.
func c19LibrarySortShape(fd *ast.FuncDecl) bool {
	collected, sorted, insertion := false, false, false
	ast.Inspect(fd.Body, func(n ast.Node) bool {
		switch s := n.(type) {
		case *ast.RangeStmt:
			if se, ok := s.X.(*ast.SelectorExpr); ok && se.Sel.Name == "ppipes" {
				collected = true
				if c19SearchBound(s.Body) != "" {
					insertion = true
				}
			}
		case *ast.CallExpr:
			se, ok := s.Fun.(*ast.SelectorExpr)
			if !ok {
				return true
			}
			if pk, ok := se.X.(*ast.Ident); !ok || pk.Name != "sort" {
				return true
			}
			switch se.Sel.Name {
			case "Slice", "SliceStable":
				if len(s.Args) == 2 {
					if fl, ok := s.Args[1].(*ast.FuncLit); ok && c19LessByNameAsc(fl) {
						sorted = true
					}
				}
			}
		}
		return true
	})
	return collected && sorted && !insertion
}

// func(i, j int) bool { return x[i].Name < x[j].Name }
func c19LessByNameAsc(fl *ast.FuncLit) bool {
	if fl.Type.Params == nil || len(fl.Body.List) != 1 {
		return false
	}
	var names []string
	for _, p := range fl.Type.Params.List {
		for _, n := range p.Names {
			names = append(names, n.Name)
		}
	}
	if len(names) != 2 {
		return false
	}
	rs, ok := fl.Body.List[0].(*ast.ReturnStmt)
	if !ok || len(rs.Results) != 1 {
		return false
	}
	be, ok := rs.Results[0].(*ast.BinaryExpr)
	if !ok {
		return false
	}
	idxOf := func(e ast.Expr) string { // x[i].Name -> "i"
		se, ok := e.(*ast.SelectorExpr)
		if !ok || se.Sel.Name != "Name" {
			return ""
		}
		ix, ok := se.X.(*ast.IndexExpr)
		if !ok {
			return ""
		}
		if id, ok := ix.Index.(*ast.Ident); ok {
			return id.Name
		}
		return ""
	}
	l, r := idxOf(be.X), idxOf(be.Y)
	switch be.Op.String() {
	case "<":
		return l == names[0] && r == names[1]
	case ">":
		return l == names[1] && r == names[0]
	}
	return false
}

// c19CreateShape counts the look-ups of the registry map by name in CreatePipe and tells whether the store
// `….ppipes[name] = …` happens only under the negative answer of a look-up made in the same critical section:
// either inside `if !ok { … }` (ok from the look-up) or after `if ok { …; return … }` / `if _, ok := …ppipes[…]; ok { …return }`
// in the same block. Local names are free.
func c19CreateShape(cp *ast.FuncDecl) (int, bool) {
	lookups, guarded := 0, false
	isLookup := func(st ast.Stmt) (string, bool) { // returns the name of the bool the answer is stored in
		as, ok := st.(*ast.AssignStmt)
		if !ok || len(as.Lhs) != 2 || len(as.Rhs) != 1 || !c19IsPpipesIndex(as.Rhs[0]) {
			return "", false
		}
		if id, ok := as.Lhs[1].(*ast.Ident); ok {
			return id.Name, true
		}
		return "", false
	}
	hasStore := func(n ast.Node) bool {
		found := false
		ast.Inspect(n, func(m ast.Node) bool {
			if as, ok := m.(*ast.AssignStmt); ok && len(as.Lhs) == 1 && c19IsPpipesIndex(as.Lhs[0]) {
				found = true
			}
			return true
		})
		return found
	}
	endsWithReturn := func(b *ast.BlockStmt) bool {
		if len(b.List) == 0 {
			return false
		}
		_, ok := b.List[len(b.List)-1].(*ast.ReturnStmt)
		return ok
	}
	var walk func(b *ast.BlockStmt)
	walk = func(b *ast.BlockStmt) {
		okName := ""    // the bool of the latest look-up in this block
		negKnown := false // a look-up's positive answer has left the function: the rest of the block runs under !ok
		for _, st := range b.List {
			if nm, ok := isLookup(st); ok {
				lookups++
				okName, negKnown = nm, false
				continue
			}
			switch s := st.(type) {
			case *ast.IfStmt:
				cond := s.Cond
				if s.Init != nil {
					if nm, ok := isLookup(s.Init); ok {
						lookups++
						okName, negKnown = nm, false
					}
				}
				if u, ok := cond.(*ast.UnaryExpr); ok && u.Op.String() == "!" {
					if id, ok := u.X.(*ast.Ident); ok && id.Name == okName && okName != "" && hasStore(s.Body) {
						guarded = true
						continue
					}
				}
				if id, ok := cond.(*ast.Ident); ok && id.Name == okName && okName != "" && endsWithReturn(s.Body) {
					negKnown = true
					continue
				}
				walk(s.Body)
				if eb, ok := s.Else.(*ast.BlockStmt); ok {
					walk(eb)
				}
			case *ast.AssignStmt:
				if len(s.Lhs) == 1 && c19IsPpipesIndex(s.Lhs[0]) && negKnown {
					guarded = true
				}
			case *ast.ExprStmt:
				// an Unlock()/Lock() between the look-up and the store ends the critical section
				if c, ok := s.X.(*ast.CallExpr); ok {
					if se, ok := c.Fun.(*ast.SelectorExpr); ok && (se.Sel.Name == "Unlock" || se.Sel.Name == "Lock") {
						okName, negKnown = "", false
					}
				}
			}
		}
	}
	walk(cp.Body)
	return lookups, guarded
}


// c19SaveSerialized: in Service.savePipes some mutex M is locked before the snapshot loop (the range over the registry map) and
// is still held when the persister is called: M's Unlock is deferred, or comes after the persister call. (The registry lock
// itself is released before the write, so it does not count.)
func c19SaveSerialized(f *ast.File) bool {
	fd := funcDecl(f, "Service", "savePipes")
	if fd == nil {
		problem("pipe.Service.savePipes not found")
		return false
	}
	selName := func(e ast.Expr) string { // a.b.c -> "a.b.c"
		var parts []string
		for {
			switch x := e.(type) {
			case *ast.SelectorExpr:
				parts = append([]string{x.Sel.Name}, parts...)
				e = x.X
				continue
			case *ast.Ident:
				parts = append([]string{x.Name}, parts...)
			}
			break
		}
		r := ""
		for i, p := range parts {
			if i > 0 {
				r += "."
			}
			r += p
		}
		return r
	}
	type ev struct {
		kind string // lock | unlock | defer-unlock | range | persist
		m    string
	}
	var evs []ev
	callOn := func(c *ast.CallExpr) (string, string) { // receiver text, method
		if se, ok := c.Fun.(*ast.SelectorExpr); ok {
			return selName(se.X), se.Sel.Name
		}
		return "", ""
	}
	for _, st := range fd.Body.List {
		switch x := st.(type) {
		case *ast.ExprStmt:
			if c, ok := x.X.(*ast.CallExpr); ok {
				recv, m := callOn(c)
				switch m {
				case "Lock":
					evs = append(evs, ev{"lock", recv})
				case "Unlock":
					evs = append(evs, ev{"unlock", recv})
				}
			}
		case *ast.DeferStmt:
			if recv, m := callOn(x.Call); m == "Unlock" {
				evs = append(evs, ev{"defer-unlock", recv})
			}
		case *ast.RangeStmt:
			if se, ok := x.X.(*ast.SelectorExpr); ok && se.Sel.Name == "ppipes" {
				evs = append(evs, ev{"range", ""})
			}
		}
		// the persister call, wherever it sits in the statement
		ast.Inspect(st, func(n ast.Node) bool {
			if c, ok := n.(*ast.CallExpr); ok {
				if recv, m := callOn(c); m == "savePipes" && recv != "" && recv != "s" {
					evs = append(evs, ev{"persist", ""})
				}
			}
			return true
		})
	}
	idx := func(kind, m string) int {
		for i, e := range evs {
			if e.kind == kind && (m == "" || e.m == m) {
				return i
			}
		}
		return -1
	}
	ir, ip := idx("range", ""), idx("persist", "")
	if ir < 0 || ip < 0 {
		problem("pipe.Service.savePipes: snapshot loop or persister call not recognised")
		return false
	}
	for i, e := range evs {
		if e.kind != "lock" || i > ir {
			continue
		}
		held := false
		if d := idx("defer-unlock", e.m); d >= 0 && d < ip {
			held = true
		}
		// an explicit unlock only after the persister call
		first := -1
		for j := i + 1; j < len(evs); j++ {
			if evs[j].kind == "unlock" && evs[j].m == e.m {
				first = j
				break
			}
		}
		if first > ip {
			held = true
		}
		if first >= 0 && first < ip {
			held = false
		}
		if held {
			return true
		}
	}
	return false
}

// c19SearchComparesNames: inside the range loop over the map, the closure given to sort.Search is
// `func(i int) bool { return <slice>[i].Name >= <key> }` (or the mirrored `<key> <= <slice>[i].Name`), where <key> is the
// identifier of the range statement's key, or `<value>.cfg.Name` / `<value>.Name` of the range statement's value. Local
// names are free. Anything else (a transformed key, another field, another operator) → false.
func c19SearchComparesNames(fd *ast.FuncDecl) bool {
	ok := false
	ast.Inspect(fd.Body, func(n ast.Node) bool {
		rs, isRange := n.(*ast.RangeStmt)
		if !isRange {
			return true
		}
		keyName, valName := "", ""
		if id, y := rs.Key.(*ast.Ident); y {
			keyName = id.Name
		}
		if id, y := rs.Value.(*ast.Ident); y {
			valName = id.Name
		}
		isKey := func(e ast.Expr) bool {
			if id, y := e.(*ast.Ident); y {
				return keyName != "" && keyName != "_" && id.Name == keyName
			}
			// <value>.cfg.Name or <value>.Name
			se, y := e.(*ast.SelectorExpr)
			if !y || se.Sel.Name != "Name" {
				return false
			}
			switch x := se.X.(type) {
			case *ast.Ident:
				return valName != "" && x.Name == valName
			case *ast.SelectorExpr:
				if id, y := x.X.(*ast.Ident); y {
					return valName != "" && id.Name == valName
				}
			}
			return false
		}
		ast.Inspect(rs.Body, func(m ast.Node) bool {
			c, y := m.(*ast.CallExpr)
			if !y {
				return true
			}
			se, y := c.Fun.(*ast.SelectorExpr)
			if !y || se.Sel.Name != "Search" || len(c.Args) != 2 {
				return true
			}
			fl, y := c.Args[1].(*ast.FuncLit)
			if !y || fl.Type.Params == nil || len(fl.Type.Params.List) != 1 || len(fl.Type.Params.List[0].Names) != 1 || len(fl.Body.List) != 1 {
				return true
			}
			par := fl.Type.Params.List[0].Names[0].Name
			ret, y := fl.Body.List[0].(*ast.ReturnStmt)
			if !y || len(ret.Results) != 1 {
				return true
			}
			be, y := ret.Results[0].(*ast.BinaryExpr)
			if !y {
				return true
			}
			isElemName := func(e ast.Expr) bool { // <slice>[par].Name
				se, y := e.(*ast.SelectorExpr)
				if !y || se.Sel.Name != "Name" {
					return false
				}
				ix, y := se.X.(*ast.IndexExpr)
				if !y {
					return false
				}
				id, y := ix.Index.(*ast.Ident)
				return y && id.Name == par
			}
			switch be.Op.String() {
			case ">=":
				ok = isElemName(be.X) && isKey(be.Y)
			case "<=":
				ok = isKey(be.X) && isElemName(be.Y)
			}
			return true
		})
		return false
	})
	return ok
}

// funcDeclPlain: a top-level function without receiver
func funcDeclPlain(f *ast.File, name string) *ast.FuncDecl {
	for _, d := range f.Decls {
		if fd, ok := d.(*ast.FuncDecl); ok && fd.Recv == nil && fd.Name.Name == name {
			return fd
		}
	}
	return nil
}

// c19RequiresUtf8: some `if` statement at the top level of the function returns from its body and its condition mentions
// utf8.ValidString(<x>.Name), utf8.ValidString(<x>.TagsCond) and utf8.ValidString(<x>.FltCond), each negated (directly, or the
// whole conjunction negated). Local names are free.
func c19RequiresUtf8(fd *ast.FuncDecl) bool {
	for _, st := range fd.Body.List {
		is, ok := st.(*ast.IfStmt)
		if !ok {
			continue
		}
		returns := false
		for _, b := range is.Body.List {
			if _, ok := b.(*ast.ReturnStmt); ok {
				returns = true
			}
		}
		if !returns {
			continue
		}
		seen := map[string]bool{}
		ast.Inspect(is.Cond, func(n ast.Node) bool {
			c, ok := n.(*ast.CallExpr)
			if !ok || len(c.Args) != 1 {
				return true
			}
			se, ok := c.Fun.(*ast.SelectorExpr)
			if !ok || se.Sel.Name != "ValidString" {
				return true
			}
			if a, ok := c.Args[0].(*ast.SelectorExpr); ok {
				seen[a.Sel.Name] = true
			}
			return true
		})
		negated := false
		ast.Inspect(is.Cond, func(n ast.Node) bool {
			if u, ok := n.(*ast.UnaryExpr); ok && u.Op.String() == "!" {
				negated = true
			}
			return true
		})
		if seen["Name"] && seen["TagsCond"] && seen["FltCond"] && negated {
			return true
		}
	}
	return false
}
