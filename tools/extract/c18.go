package main

import (
	"go/ast"
	"go/token"
	"strconv"
)

// C18: structural facts of the forwarder worker loop (pkg/forwarder/worker.go) and its persisted position.
func init() {
	generators["C18"] = func() {
		l := newLean("C18", "Facts about pkg/forwarder/worker.go (run, prepareQuery) and forwarder.go (desc.MarshalJSON, runPersistState).")
		wf := parseFile("pkg/forwarder/worker.go")
		run := funcDecl(wf, "worker", "run")
		setAfter, retryKeeps, failuresContinue := false, false, false
		sleepSec := -1
		if run == nil {
			problem("forwarder.worker.run not found")
		} else {
			var loop *ast.ForStmt
			ast.Inspect(run.Body, func(n ast.Node) bool {
				if f, ok := n.(*ast.ForStmt); ok && loop == nil {
					loop = f
					return false
				}
				return true
			})
			calls := func(n ast.Node, name string) bool {
				found := false
				ast.Inspect(n, func(m ast.Node) bool {
					if c, ok := m.(*ast.CallExpr); ok {
						if se, ok := c.Fun.(*ast.SelectorExpr); ok && se.Sel.Name == name {
							found = true
						}
					}
					return true
				})
				return found
			}
			endsWithContinue := func(b *ast.BlockStmt) bool {
				if len(b.List) == 0 {
					return false
				}
				bs, ok := b.List[len(b.List)-1].(*ast.BranchStmt)
				return ok && bs.Tok == token.CONTINUE
			}
			if loop == nil {
				problem("forwarder.worker.run: loop not found")
			} else {
				onEv, setPos, qrAssign, query := -1, -1, -1, -1
				nFail, nCont := 0, 0
				for i, st := range loop.Body.List {
					if as, ok := st.(*ast.AssignStmt); ok {
						if calls(as, "OnEvent") {
							onEv = i
						}
						if calls(as, "Query") {
							query = i
						}
						if len(as.Lhs) == 1 {
							if id, ok := as.Lhs[0].(*ast.Ident); ok && id.Name == "qr" {
								if qrAssign < 0 {
									qrAssign = i
								} else {
									qrAssign = -2 // more than one assignment to the request
								}
							}
						}
					}
					if es, ok := st.(*ast.ExprStmt); ok && calls(es, "setPosition") && setPos < 0 {
						setPos = i
					}
					if ifs, ok := st.(*ast.IfStmt); ok && query >= 0 && i > query && ifs.Else == nil {
						// the failure branches: after the query, before the position is advanced
						if setPos < 0 && (qrAssign < 0) {
							nFail++
							if endsWithContinue(ifs.Body) {
								nCont++
							}
						}
					}
				}
				if onEv < 0 || setPos < 0 || query < 0 {
					problem("forwarder.worker.run: Query/OnEvent/setPosition not found in the loop")
				}
				// every assignment to the request variable anywhere in the loop (also inside the failure branches)
				nQrAssign := 0
				ast.Inspect(loop.Body, func(n ast.Node) bool {
					if as, ok := n.(*ast.AssignStmt); ok {
						for _, lhs := range as.Lhs {
							if id, ok := lhs.(*ast.Ident); ok && id.Name == "qr" {
								nQrAssign++
							}
						}
					}
					return true
				})
				// setPosition calls anywhere in the loop
				nSetPos := 0
				ast.Inspect(loop.Body, func(n ast.Node) bool {
					if c, ok := n.(*ast.CallExpr); ok {
						if se, ok := c.Fun.(*ast.SelectorExpr); ok && se.Sel.Name == "setPosition" {
							nSetPos++
						}
					}
					return true
				})
				setAfter = onEv >= 0 && setPos > onEv && nSetPos == 1
				retryKeeps = qrAssign > onEv && onEv >= 0 && nQrAssign == 1
				failuresContinue = nFail == 3 && nCont == 3
			}
			ast.Inspect(run.Body, func(n ast.Node) bool {
				as, ok := n.(*ast.AssignStmt)
				if !ok || len(as.Lhs) != 1 || len(as.Rhs) != 1 {
					return true
				}
				if id, ok := as.Lhs[0].(*ast.Ident); ok && id.Name == "sleepDur" {
					if be, ok := as.Rhs[0].(*ast.BinaryExpr); ok && be.Op == token.MUL {
						if bl, ok := be.X.(*ast.BasicLit); ok {
							sleepSec, _ = strconv.Atoi(bl.Value)
						}
					}
				}
				return true
			})
		}
		l.p("/-- in the worker loop `w.desc.setPosition(…)` comes after `w.sink.OnEvent(…)` -/")
		l.p("def setPositionAfterAccept : Bool := %s", leanBool(setAfter))
		l.p("/-- the request `qr` is replaced only once in the loop, after `OnEvent` (so a failed iteration repeats the same request) -/")
		l.p("def requestReplacedOnlyAfterAccept : Bool := %s", leanBool(retryKeeps))
		l.p("/-- the three failure branches (query error, empty result, sink error) each end with `continue` -/")
		l.p("def failuresRetry : Bool := %s", leanBool(failuresContinue))
		if sleepSec < 0 {
			problem("forwarder.worker.run: sleepDur not found")
		}
		l.p("/-- seconds the worker sleeps before a retry -/")
		l.p("def retrySleepSec : Nat := %d", sleepSec)

		// prepareQuery: Pos comes from the descriptor's position
		pq := funcDecl(wf, "worker", "prepareQuery")
		posFromDesc, limit := false, -1
		if pq == nil {
			problem("forwarder.worker.prepareQuery not found")
		} else {
			ast.Inspect(pq.Body, func(n ast.Node) bool {
				kv, ok := n.(*ast.KeyValueExpr)
				if !ok {
					return true
				}
				id, ok := kv.Key.(*ast.Ident)
				if !ok {
					return true
				}
				if id.Name == "Pos" {
					if c, ok := kv.Value.(*ast.CallExpr); ok {
						if se, ok := c.Fun.(*ast.SelectorExpr); ok && se.Sel.Name == "getPosition" {
							posFromDesc = true
						}
					}
				}
				if id.Name == "Limit" {
					if bl, ok := kv.Value.(*ast.BasicLit); ok {
						limit, _ = strconv.Atoi(bl.Value)
					}
				}
				return true
			})
		}
		l.p("/-- a session's first request starts at the descriptor's (loaded) position -/")
		l.p("def firstRequestFromDescPosition : Bool := %s", leanBool(posFromDesc))
		l.p("def pageLimit : Nat := %d", limit)

		// desc.MarshalJSON persists getPosition(); runPersistState has a final persist
		ff := parseFile("pkg/forwarder/forwarder.go")
		persistsPos := false
		if fd := funcDecl(ff, "desc", "MarshalJSON"); fd != nil {
			ast.Inspect(fd.Body, func(n ast.Node) bool {
				if kv, ok := n.(*ast.KeyValueExpr); ok {
					if id, ok := kv.Key.(*ast.Ident); ok && id.Name == "Position" {
						if c, ok := kv.Value.(*ast.CallExpr); ok {
							if se, ok := c.Fun.(*ast.SelectorExpr); ok && se.Sel.Name == "getPosition" {
								persistsPos = true
							}
						}
					}
				}
				return true
			})
		} else {
			problem("forwarder.desc.MarshalJSON not found")
		}
		l.p("/-- what is persisted is `desc.getPosition()` -/")
		l.p("def persistCopiesPosition : Bool := %s", leanBool(persistsPos))
		finalPersist := false
		if fd := funcDecl(ff, "Forwarder", "runPersistState"); fd != nil {
			ast.Inspect(fd.Body, func(n ast.Node) bool {
				fl, ok := n.(*ast.FuncLit)
				if !ok {
					return true
				}
				seenLoop := false
				for _, st := range fl.Body.List {
					if _, ok := st.(*ast.ForStmt); ok {
						seenLoop = true
						continue
					}
					if seenLoop {
						ast.Inspect(st, func(m ast.Node) bool {
							if c, ok := m.(*ast.CallExpr); ok {
								if se, ok := c.Fun.(*ast.SelectorExpr); ok && se.Sel.Name == "persistState" {
									finalPersist = true
								}
							}
							return true
						})
					}
				}
				return false
			})
		} else {
			problem("forwarder.Forwarder.runPersistState not found")
		}
		l.p("/-- `runPersistState` persists once more after its tick loop ended -/")
		l.p("def finalPersistAfterLoop : Bool := %s", leanBool(finalPersist))
		l.write()
	}
}
