package main

import (
	"go/ast"
	"go/token"
	"strconv"
)

// C18: structural facts of the forwarder worker loop and its persisted position, read from the flattened statement
// sequence of worker.run and the same-package functions it calls (c18_flow.go): the query, the sink call, the position
// update and the request replacement are identified by what they are (the call to Query / OnEvent / setPosition, the
// assignment to the variable that is passed to Query), not by where they stand in one particular layout.
func init() {
	generators["C18"] = func() {
		l := newLean("C18", "Facts about pkg/forwarder/worker.go (run and what it calls, the first request) and forwarder.go (desc.MarshalJSON, runPersistState).")
		fp := loadFwPkg("pkg/forwarder")
		setAfter, retryKeeps, failuresRetry := false, false, false
		sleepSec := -1
		run := fp.method("worker", "run")
		if run == nil {
			problem("forwarder.worker.run not found")
		} else {
			evs := fp.flatten(run, 2)
			iQuery, iSink := fwIndex(evs, "call", "Query"), fwIndex(evs, "call", "OnEvent")
			if iQuery < 0 || iSink < 0 || len(evs[iQuery].loops) == 0 {
				problem("forwarder worker: no loop with a Query call and a sink OnEvent call found in worker.run or the functions it calls")
			} else {
				loop := evs[iQuery].loops[0]
				// position updates
				nSet, iSet := 0, -1
				for i, e := range evs {
					if e.kind == "call" && e.name == "setPosition" && fwInLoop(e, loop) {
						nSet++
						iSet = i
					}
				}
				if nSet == 0 {
					problem("forwarder worker: no setPosition call in the poll loop")
				}
				setAfter = nSet == 1 && iSet > iSink && iSink > iQuery
				// … and it is reached only when the sink's error is nil: the first guard after the OnEvent call leaves the
				// iteration on exactly `<the variable OnEvent's result was assigned to> != nil` — no further conjunct (a
				// condition like `err != nil && ctx.Err() == nil` lets a rejected batch fall through to setPosition)
				if setAfter {
					errVar := ""
					for i := iSink + 1; i < len(evs) && i < iSet; i++ {
						if e := evs[i]; e.kind == "assign" && e.assign != nil && len(e.assign.Rhs) == 1 && e.assign.Rhs[0] == ast.Expr(evs[iSink].call) {
							errVar = e.name
							break
						}
					}
					exact := false
					for i := iSink + 1; i < iSet; i++ {
						e := evs[i]
						if e.kind != "guard" {
							continue
						}
						if is, ok := e.node.(*ast.IfStmt); ok && is.Init == nil && errVar != "" {
							if b, ok := is.Cond.(*ast.BinaryExpr); ok && b.Op == token.NEQ {
								x, xok := b.X.(*ast.Ident)
								y, yok := b.Y.(*ast.Ident)
								exact = xok && yok && x.Name == errVar && y.Name == "nil"
							}
						} else if is, ok := e.node.(*ast.IfStmt); ok && is.Init != nil {
							// `if err := sink.OnEvent(…); err != nil {`
							if as, ok := is.Init.(*ast.AssignStmt); ok && len(as.Rhs) == 1 && as.Rhs[0] == ast.Expr(evs[iSink].call) && len(as.Lhs) == 1 {
								if b, ok := is.Cond.(*ast.BinaryExpr); ok && b.Op == token.NEQ {
									x, xok := b.X.(*ast.Ident)
									y, yok := b.Y.(*ast.Ident)
									l, lok := as.Lhs[0].(*ast.Ident)
									exact = xok && yok && lok && x.Name == l.Name && y.Name == "nil"
								}
							}
						}
						break // only the first guard after the sink call counts
					}
					setAfter = exact
				}

				// the request variable of the loop function: what flows into Query's request argument
				reqVar := ""
				if len(evs[iQuery].call.Args) >= 2 {
					if id, ok := evs[iQuery].call.Args[1].(*ast.Ident); ok {
						reqVar = id.Name
						fn := evs[iQuery].fn
						for hop := 0; fn != run && hop < 3 && reqVar != ""; hop++ {
							idx := -1
							k := 0
							for _, p := range fn.Type.Params.List {
								for _, n := range p.Names {
									if n.Name == reqVar {
										idx = k
									}
									k++
								}
							}
							next := ""
							var caller *ast.FuncDecl
							for _, e := range evs {
								if e.kind == "call" && e.name == fn.Name.Name && idx >= 0 && idx < len(e.call.Args) {
									if a, ok := e.call.Args[idx].(*ast.Ident); ok {
										next, caller = a.Name, e.fn
									}
									break
								}
							}
							reqVar, fn = next, caller
							if fn == nil {
								reqVar = ""
							}
						}
					}
				}
				if reqVar == "" {
					problem("forwarder worker: cannot identify the request variable that is passed to Query")
				} else {
					nAssign, iAssign := 0, -1
					for i, e := range evs {
						if e.kind == "assign" && e.name == reqVar && e.fn == run && fwInLoop(e, loop) {
							nAssign++
							iAssign = i
						}
					}
					if nAssign == 0 {
						problem("forwarder worker: the request variable %s is never replaced in the poll loop", reqVar)
					}
					retryKeeps = nAssign == 1 && iAssign > iSink
					// guards: after the query and before the sink call at least two branches leave the iteration (query failed,
					// nothing new); after the sink call and before the request is replaced at least one (sink failed), and in
					// the loop function itself the last one before the replacement ends with `continue`
					nBefore, nAfter := 0, 0
					lastOwn := ""
					for i, e := range evs {
						if e.kind != "guard" || !fwInLoop(e, loop) {
							continue
						}
						if i > iQuery && i < iSink {
							nBefore++
						}
						if i > iSink && (iAssign < 0 || i < iAssign) {
							nAfter++
						}
						if e.fn == run && i > iQuery && (iAssign < 0 || i < iAssign) {
							lastOwn = e.name
						}
					}
					failuresRetry = nBefore >= 2 && nAfter >= 1 && lastOwn == "continue"
					// the same loop with its body in a helper: `req, … = helper(…, req, …)` in the loop function, the failure
					// branches of the helper `return` instead of `continue`. "The same request again" then means: each of them
					// returns the helper's request parameter (the one that flows into Query) in the result position the loop
					// function assigns to its request variable, and the helper's last return does not.
					if lastOwn == "" && nBefore >= 2 && nAfter >= 1 && iAssign >= 0 && evs[iAssign].assign != nil {
						as, helper := evs[iAssign].assign, evs[iQuery].fn
						pos := -1
						for k, lhs := range as.Lhs {
							if id, ok := lhs.(*ast.Ident); ok && id.Name == reqVar {
								pos = k
							}
						}
						innerReq := ""
						if id, ok := evs[iQuery].call.Args[1].(*ast.Ident); ok {
							innerReq = id.Name
						}
						viaHelper := false
						if len(as.Rhs) == 1 && helper != nil && helper != run {
							if c, ok := as.Rhs[0].(*ast.CallExpr); ok && fwCallee(c) == helper.Name.Name {
								viaHelper = true
							}
						}
						returnsReq := func(r *ast.ReturnStmt) bool {
							if pos < 0 || pos >= len(r.Results) {
								return false
							}
							id, ok := r.Results[pos].(*ast.Ident)
							return ok && id.Name == innerReq
						}
						if viaHelper && pos >= 0 && innerReq != "" {
							ok := true
							for i, e := range evs {
								if e.kind != "guard" || e.fn != helper || i < iQuery {
									continue
								}
								is, isIf := e.node.(*ast.IfStmt)
								if e.name != "return" || !isIf || len(is.Body.List) == 0 {
									ok = false
									continue
								}
								r, isRet := is.Body.List[len(is.Body.List)-1].(*ast.ReturnStmt)
								if !isRet || !returnsReq(r) {
									ok = false
								}
							}
							// the helper's last statement: the return after the sink accepted
							if n := len(helper.Body.List); n > 0 {
								if r, isRet := helper.Body.List[n-1].(*ast.ReturnStmt); !isRet || returnsReq(r) {
									ok = false
								}
							} else {
								ok = false
							}
							failuresRetry = ok
						}
					}
				}
				// the retry sleep
				for _, e := range evs {
					if e.kind == "call" && e.name == "Sleep" && fwInLoop(e, loop) && len(e.call.Args) == 2 && sleepSec < 0 {
						sleepSec = secondsOf(e.call.Args[1], run)
					}
				}
			}
		}
		l.p("/-- in the poll loop the only `setPosition(…)` comes after the sink's `OnEvent(…)`, and the first branch after that call leaves the iteration on exactly `err != nil` (the error OnEvent returned, no further conjunct) -/")
		l.p("def setPositionAfterAccept : Bool := %s", leanBool(setAfter))
		l.p("/-- the variable passed to `Query` is replaced exactly once in the loop, after `OnEvent` (a failed iteration repeats the same request) -/")
		l.p("def requestReplacedOnlyAfterAccept : Bool := %s", leanBool(retryKeeps))
		l.p("/-- the failure branches (query error, empty result — before the sink call; sink error — after it) leave the iteration")
		l.p("before the request is replaced; the loop function's own last such branch ends with `continue` -/")
		l.p("def failuresRetry : Bool := %s", leanBool(failuresRetry))
		if sleepSec < 0 {
			problem("forwarder worker: the retry sleep duration was not found")
		}
		l.p("/-- seconds the worker sleeps before a retry -/")
		l.p("def retrySleepSec : Nat := %d", sleepSec)

		// the first request: a QueryRequest literal whose Pos comes from the descriptor's position
		posFromDesc, limit, foundLit := false, -1, false
		for _, f := range fp.files {
			ast.Inspect(f, func(n ast.Node) bool {
				cl, ok := n.(*ast.CompositeLit)
				if !ok || cl.Type == nil || !fwMentions(cl.Type, "QueryRequest") {
					return true
				}
				for _, el := range cl.Elts {
					kv, ok := el.(*ast.KeyValueExpr)
					if !ok {
						continue
					}
					id, ok := kv.Key.(*ast.Ident)
					if !ok {
						continue
					}
					if id.Name == "Pos" {
						foundLit = true
						if fwCallsNamed(kv.Value, "getPosition") {
							posFromDesc = true
						}
					}
					if id.Name == "Limit" {
						if bl, ok := kv.Value.(*ast.BasicLit); ok {
							limit, _ = strconv.Atoi(bl.Value)
						}
					}
				}
				return true
			})
		}
		if !foundLit {
			problem("forwarder worker: no QueryRequest literal with a Pos field found")
		}
		l.p("/-- a session's first request starts at the descriptor's (loaded) position -/")
		l.p("def firstRequestFromDescPosition : Bool := %s", leanBool(posFromDesc))
		l.p("def pageLimit : Nat := %d", limit)

		// desc.MarshalJSON persists getPosition()
		persistsPos := false
		if fd := fp.method("desc", "MarshalJSON"); fd != nil {
			ast.Inspect(fd.Body, func(n ast.Node) bool {
				if kv, ok := n.(*ast.KeyValueExpr); ok {
					if id, ok := kv.Key.(*ast.Ident); ok && id.Name == "Position" && fwCallsNamed(kv.Value, "getPosition") {
						persistsPos = true
					}
				}
				return true
			})
		} else {
			problem("forwarder.desc.MarshalJSON not found")
		}
		l.p("/-- what is persisted is `desc.getPosition()` -/")
		l.p("def persistCopiesPosition : Bool := %s", leanBool(persistsPos))

		// the persist job: a final persist after the tick loop
		finalPersist := false
		if fd := fp.method("Forwarder", "runPersistState"); fd != nil {
			lastInLoop := -1
			for i, e := range fp.flatten(fd, 2) {
				if e.kind == "call" && e.name == "persistState" {
					if len(e.loops) > 0 {
						lastInLoop = i
					} else if lastInLoop >= 0 {
						finalPersist = true
					}
				}
			}
			if lastInLoop < 0 {
				problem("forwarder.Forwarder.runPersistState: no periodic persistState call in a loop found")
			}
		} else {
			problem("forwarder.Forwarder.runPersistState not found")
		}
		l.p("/-- `runPersistState` persists once more after its tick loop ended -/")
		l.p("def finalPersistAfterLoop : Bool := %s", leanBool(finalPersist))
		// --- fix e59ee79: forwarder.json is written aside and renamed over ---------------------------------------------
		atomicState := false
		stp := loadFwPkg("pkg/storage")
		if fd := stp.method("fileStorage", "WriteData"); fd == nil {
			problem("storage.fileStorage.WriteData not found")
		} else {
			evs := stp.flatten(fd, 2)
			iWrite := -1
			for i, e := range evs {
				if e.kind == "call" && (e.name == "WriteFile" || e.name == "Write") && iWrite < 0 {
					iWrite = i
				}
			}
			if iWrite < 0 {
				problem("storage.fileStorage.WriteData: no WriteFile / Write call found")
			}
			for i, e := range evs {
				if e.kind == "call" && e.name == "Rename" && iWrite >= 0 && i > iWrite {
					atomicState = true
				}
			}
		}
		l.p("/-- `fileStorage.WriteData` writes the new content to another name and renames it over the state file (fix e59ee79) -/")
		l.p("def stateFileReplacedAtomically : Bool := %s", leanBool(atomicState))

		// --- fixes b3f8b31 / 23be637: the rpc client reports a failed EnsurePipe and a query answer it could not decode ----
		rp := loadFwPkg("api/rpc")
		// returnsResultOf: the variable that receives (the idx-th result of) a call of `callee` in fd is what a later return
		// statement returns; -1 = the call was not found
		returnsResultOf := func(fd *ast.FuncDecl, callee string, idx int) int {
			name, at := "", token.NoPos
			direct := false
			ast.Inspect(fd.Body, func(n ast.Node) bool {
				switch x := n.(type) {
				case *ast.AssignStmt:
					if len(x.Rhs) == 1 {
						if c, ok := x.Rhs[0].(*ast.CallExpr); ok && fwCallee(c) == callee && idx < len(x.Lhs) {
							if id, ok := x.Lhs[idx].(*ast.Ident); ok && id.Name != "_" {
								name, at = id.Name, x.Pos()
							}
						}
					}
				case *ast.ReturnStmt:
					for _, r := range x.Results {
						if c, ok := r.(*ast.CallExpr); ok && fwCallee(c) == callee {
							direct = true
						}
					}
				}
				return true
			})
			if direct {
				return 1
			}
			if name == "" {
				return -1
			}
			res := 0
			ast.Inspect(fd.Body, func(n ast.Node) bool {
				if r, ok := n.(*ast.ReturnStmt); ok && r.Pos() > at {
					for _, e := range r.Results {
						if id, ok := e.(*ast.Ident); ok && id.Name == name {
							res = 1
						}
					}
				}
				return true
			})
			return res
		}
		ensureReports := false
		if fd := rp.method("Client", "EnsurePipe"); fd == nil {
			problem("rpc.Client.EnsurePipe not found")
		} else {
			switch returnsResultOf(fd, "EnsurePipe", 0) {
			case -1:
				problem("rpc.Client.EnsurePipe: the call of the pipes client's EnsurePipe was not found")
			case 1:
				ensureReports = true
			}
		}
		l.p("/-- `rpc.Client.EnsurePipe` returns the error of the call it makes (fix b3f8b31) -/")
		l.p("def ensurePipeReportsFailure : Bool := %s", leanBool(ensureReports))
		decodeReported := false
		if fd := rp.method("clntQuerier", "Query"); fd == nil {
			problem("rpc.clntQuerier.Query not found")
		} else {
			switch returnsResultOf(fd, "unmarshalQueryResult", 1) {
			case -1:
				problem("rpc.clntQuerier.Query: the call of unmarshalQueryResult was not found")
			case 1:
				decodeReported = true
			}
		}
		l.p("/-- `clntQuerier.Query` returns the error of `unmarshalQueryResult` (fix 23be637) -/")
		l.p("def queryReturnsDecodeError : Bool := %s", leanBool(decodeReported))

		// --- fix 1b7795d: every early return of worker.run before the poll loop stores wsStopped first ---------------------
		marksStopped := false
		if run != nil {
			evs := fp.flatten(run, 0)
			iLoop := -1
			for i, e := range evs {
				if len(e.loops) > 0 && iLoop < 0 {
					iLoop = i
				}
			}
			nEarly, nMarked := 0, 0
			for i, e := range evs {
				if e.kind != "guard" || e.name != "return" || (iLoop >= 0 && i > iLoop) {
					continue
				}
				nEarly++
				var body ast.Node
				switch x := e.node.(type) {
				case *ast.IfStmt:
					body = x.Body
				case *ast.CaseClause:
					body = &ast.BlockStmt{List: x.Body}
				}
				if body != nil && fwCallsNamed(body, "StoreInt32") && fwMentions(body, "wsStopped") {
					nMarked++
				}
			}
			if nEarly == 0 {
				problem("forwarder worker: no early return before the poll loop found in worker.run")
			}
			marksStopped = nEarly > 0 && nMarked == nEarly
		}
		l.p("/-- every early return of `worker.run` before its poll loop stores `wsStopped` first (fix 1b7795d) -/")
		l.p("def workerMarksStoppedOnStartError : Bool := %s", leanBool(marksStopped))
		l.write()
	}
}

// secondsOf evaluates `N * time.Second` (or an identifier defined so in fd); -1 = not of that shape
func secondsOf(e ast.Expr, fd *ast.FuncDecl) int {
	switch x := e.(type) {
	case *ast.BinaryExpr:
		if x.Op == token.MUL {
			if bl, ok := x.X.(*ast.BasicLit); ok && fwMentions(x.Y, "Second") {
				v, _ := strconv.Atoi(bl.Value)
				return v
			}
			if bl, ok := x.Y.(*ast.BasicLit); ok && fwMentions(x.X, "Second") {
				v, _ := strconv.Atoi(bl.Value)
				return v
			}
		}
	case *ast.SelectorExpr:
		if x.Sel.Name == "Second" {
			return 1
		}
	case *ast.Ident:
		res := -1
		ast.Inspect(fd.Body, func(n ast.Node) bool {
			if as, ok := n.(*ast.AssignStmt); ok {
				for i, l := range as.Lhs {
					if id, ok := l.(*ast.Ident); ok && id.Name == x.Name && i < len(as.Rhs) {
						if _, self := as.Rhs[i].(*ast.Ident); !self {
							res = secondsOf(as.Rhs[i], fd)
						}
					}
				}
			}
			return true
		})
		return res
	}
	return -1
}
