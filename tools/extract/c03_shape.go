package main

// Structural matchers for the code-shape facts of C03/C16. They are written to survive behaviour-preserving
// refactorings: no names of locals, helpers extracted into the same package are followed, if/else, switch and
// early-return forms are accepted, operands of commutative operators may come in either order.

import (
	"go/ast"
	"go/parser"
	"go/token"
	"io/ioutil"
	"path/filepath"
	"strings"
)

type c03pkg struct {
	funcs map[string][]*ast.FuncDecl
}

// c03LoadPkg parses every non-test file of a package directory of the repository.
func c03LoadPkg(dir string) *c03pkg {
	p := &c03pkg{funcs: map[string][]*ast.FuncDecl{}}
	fis, err := ioutil.ReadDir(filepath.Join(repo, dir))
	if err != nil {
		problem("cannot read %s: %v", dir, err)
		return p
	}
	for _, fi := range fis {
		n := fi.Name()
		if !strings.HasSuffix(n, ".go") || strings.HasSuffix(n, "_test.go") || strings.Contains(n, "verif") {
			continue
		}
		f, err := parser.ParseFile(fset, filepath.Join(repo, dir, n), nil, 0)
		if err != nil {
			problem("cannot parse %s/%s: %v", dir, n, err)
			continue
		}
		for _, d := range f.Decls {
			if fd, ok := d.(*ast.FuncDecl); ok && fd.Body != nil {
				p.funcs[fd.Name.Name] = append(p.funcs[fd.Name.Name], fd)
			}
		}
	}
	return p
}

func (p *c03pkg) method(recv, name string) *ast.FuncDecl {
	for _, fd := range p.funcs[name] {
		r := ""
		if fd.Recv != nil && len(fd.Recv.List) == 1 {
			switch t := fd.Recv.List[0].Type.(type) {
			case *ast.StarExpr:
				if id, ok := t.X.(*ast.Ident); ok {
					r = id.Name
				}
			case *ast.Ident:
				r = t.Name
			}
		}
		if r == recv {
			return fd
		}
	}
	return nil
}

// methods of the iterator interfaces: calls to them are what the matchers look for, they are never followed
var c03NoFollow = map[string]bool{"Next": true, "Get": true, "Release": true, "SetBackward": true, "CurrentPos": true,
	"SetPos": true, "Pos": true, "Close": true, "Iterator": true}

func calleeName(ce *ast.CallExpr) string {
	switch f := ce.Fun.(type) {
	case *ast.SelectorExpr:
		return f.Sel.Name
	case *ast.Ident:
		return f.Name
	}
	return ""
}

// walk visits the nodes below n in source order; at a call of a function or method that is declared exactly once in
// the package (and is not an iterator-interface method) the body of that helper is visited as if it stood there.
func (p *c03pkg) walk(n ast.Node, f func(ast.Node) bool) { p.walkD(n, f, 4, map[string]bool{}) }

func (p *c03pkg) walkD(n ast.Node, f func(ast.Node) bool, depth int, seen map[string]bool) {
	if n == nil {
		return
	}
	ast.Inspect(n, func(m ast.Node) bool {
		if m == nil {
			return false
		}
		if !f(m) {
			return false
		}
		if ce, ok := m.(*ast.CallExpr); ok && depth > 0 {
			name := calleeName(ce)
			if !c03NoFollow[name] && !seen[name] && len(p.funcs[name]) == 1 {
				// a qualified call into another package (pkg.F) is not a helper of this one
				if se, ok := ce.Fun.(*ast.SelectorExpr); ok {
					if id, ok := se.X.(*ast.Ident); ok && id.Obj == nil {
						return true
					}
				}
				seen[name] = true
				p.walkD(p.funcs[name][0].Body, f, depth-1, seen)
				delete(seen, name)
			}
		}
		return true
	})
}

// hasCall: does the code below n (helpers followed) call a function/method of that name, optionally with the given
// single literal argument ("" = any arguments)?
func (p *c03pkg) hasCall(n ast.Node, name, arg string) bool {
	found := false
	p.walk(n, func(m ast.Node) bool {
		if ce, ok := m.(*ast.CallExpr); ok && calleeName(ce) == name {
			if arg == "" || (len(ce.Args) == 1 && c03Str(ce.Args[0]) == arg) {
				found = true
			}
		}
		return !found
	})
	return found
}

func endsWithReturn(b *ast.BlockStmt) bool {
	if b == nil || len(b.List) == 0 {
		return false
	}
	_, ok := b.List[len(b.List)-1].(*ast.ReturnStmt)
	return ok
}

// c03OffsetSettles: in crsr.Offset the branch that does NOT switch the cursor backward (the positive offsets)
// contains a Get before the step loop. Accepted shapes: if/else (either order), switch with case clauses,
// early return of the positive branch.
func c03OffsetSettles(p *c03pkg, fd *ast.FuncDecl) bool {
	back := func(n ast.Node) bool { return p.hasCall(n, "SetBackward", "true") }
	get := func(n ast.Node) bool { return p.hasCall(n, "Get", "") }
	ok := false
	var visit func(list []ast.Stmt)
	visit = func(list []ast.Stmt) {
		for i, st := range list {
			switch s := st.(type) {
			case *ast.IfStmt:
				if s.Else != nil {
					if back(s.Body) && !back(s.Else) && get(s.Else) {
						ok = true
					}
					if back(s.Else) && !back(s.Body) && get(s.Body) {
						ok = true
					}
				} else if !back(s.Body) && get(s.Body) && endsWithReturn(s.Body) {
					// early return of the positive branch: the backward switch follows
					for _, rest := range list[i+1:] {
						if back(rest) {
							ok = true
						}
					}
				}
			case *ast.SwitchStmt:
				var withBack, withGet bool
				for _, c := range s.Body.List {
					cc := c.(*ast.CaseClause)
					blk := &ast.BlockStmt{List: cc.Body}
					if back(blk) {
						withBack = true
					} else if get(blk) {
						withGet = true
					}
				}
				if withBack && withGet {
					ok = true
				}
			case *ast.BlockStmt:
				visit(s.List)
			}
		}
	}
	visit(fd.Body.List)
	return ok
}

// c03UnconditionalAssign: the function (helpers called from its top-level statements followed) assigns the literal
// `rhs` to a field named `field`, outside every if/for/switch.
func c03UnconditionalAssign(p *c03pkg, fd *ast.FuncDecl, field, rhs string) bool {
	var top func(list []ast.Stmt, depth int) bool
	top = func(list []ast.Stmt, depth int) bool {
		for _, st := range list {
			switch s := st.(type) {
			case *ast.AssignStmt:
				if len(s.Lhs) == 1 && len(s.Rhs) == 1 && c03Str(s.Rhs[0]) == rhs {
					if se, ok := s.Lhs[0].(*ast.SelectorExpr); ok && se.Sel.Name == field {
						return true
					}
				}
			case *ast.ExprStmt:
				if ce, ok := s.X.(*ast.CallExpr); ok && depth > 0 {
					name := calleeName(ce)
					if !c03NoFollow[name] && len(p.funcs[name]) == 1 && top(p.funcs[name][0].Body.List, depth-1) {
						return true
					}
				}
			case *ast.BlockStmt:
				if top(s.List, depth) {
					return true
				}
			}
		}
		return false
	}
	return top(fd.Body.List, 3)
}

// c03BackwardEofKeepsPos: in ensureChkIt, inside the block that answers io.EOF because no chunk was selected, the
// iterator's position is taken over only under a condition on the direction (nested if, or after an early return
// of the backward case).
func c03BackwardEofKeepsPos(fd *ast.FuncDecl) bool {
	res := false
	ast.Inspect(fd.Body, func(n ast.Node) bool {
		is, ok := n.(*ast.IfStmt)
		if !ok || !strings.Contains(c03Str(is.Cond), "nil") || !strings.Contains(c03Str(is.Body), "io.EOF") {
			return true
		}
		isPosAssign := func(st ast.Stmt) bool {
			as, ok := st.(*ast.AssignStmt)
			if !ok || len(as.Lhs) != 1 {
				return false
			}
			se, ok := as.Lhs[0].(*ast.SelectorExpr)
			return ok && se.Sel.Name == "pos"
		}
		guarded, unguarded := false, false
		earlyBackReturn := false
		for _, st := range is.Body.List {
			if in, ok := st.(*ast.IfStmt); ok && strings.Contains(strings.ToLower(c03Str(in.Cond)), "bkw") {
				for _, x := range in.Body.List {
					if isPosAssign(x) {
						guarded = true
					}
				}
				if in.Else != nil {
					if eb, ok := in.Else.(*ast.BlockStmt); ok {
						for _, x := range eb.List {
							if isPosAssign(x) {
								guarded = true
							}
						}
					}
				}
				if endsWithReturn(in.Body) && !strings.Contains(c03Str(in.Cond), "!") {
					earlyBackReturn = true
				}
			}
			if isPosAssign(st) {
				if earlyBackReturn {
					guarded = true
				} else {
					unguarded = true
				}
			}
		}
		if guarded && !unguarded {
			res = true
		}
		return false
	})
	return res
}

// c03SortsSources: some slice is sorted (sort.Slice / SliceStable / Strings / Sort) and a later loop over that same
// slice wraps the journal iterators.
func c03SortsSources(p *c03pkg, fd *ast.FuncDecl) bool {
	sorted := map[string]bool{}
	res := false
	ast.Inspect(fd.Body, func(n ast.Node) bool {
		switch x := n.(type) {
		case *ast.CallExpr:
			fn := c03Str(x.Fun)
			if (fn == "sort.Slice" || fn == "sort.SliceStable" || fn == "sort.Strings" || fn == "sort.Sort") && len(x.Args) >= 1 {
				arg := x.Args[0]
				if ce, ok := arg.(*ast.CallExpr); ok && len(ce.Args) == 1 { // a conversion such as sort.StringSlice(xs)
					arg = ce.Args[0]
				}
				if id, ok := arg.(*ast.Ident); ok {
					sorted[id.Name] = true
				}
			}
		case *ast.RangeStmt:
			if id, ok := x.X.(*ast.Ident); ok && sorted[id.Name] {
				if p.hasCall(x.Body, "Wrap", "") || p.hasCall(x.Body, "Itearator", "") {
					res = true
				}
			}
		}
		return true
	})
	return res
}

// c03EmptyCursorKeepsState: GetOrCreate builds the empty cursor from the request's state, Release gives that state back.
func c03EmptyCursorKeepsState(p *c03pkg, get, rel *ast.FuncDecl) bool {
	makes, gives, asserts := false, false, false
	p.walk(get.Body, func(n ast.Node) bool {
		if cl, ok := n.(*ast.CompositeLit); ok && cl.Type != nil && c03Str(cl.Type) == "emptyCursor" && len(cl.Elts) > 0 {
			s := c03Str(cl)
			if (strings.Contains(s, ".Query") && strings.Contains(s, ".Pos")) || strings.Contains(s, "st: state") {
				makes = true
			}
		}
		return true
	})
	p.walk(rel.Body, func(n ast.Node) bool {
		switch x := n.(type) {
		case *ast.TypeAssertExpr:
			if x.Type != nil && c03Str(x.Type) == "emptyCursor" {
				asserts = true
			}
		case *ast.CaseClause:
			for _, e := range x.List {
				if c03Str(e) == "emptyCursor" {
					asserts = true
				}
			}
		case *ast.ReturnStmt:
			if len(x.Results) == 1 {
				if se, ok := x.Results[0].(*ast.SelectorExpr); ok && se.Sel.Name == "st" {
					gives = true
				}
			}
		}
		return true
	})
	return makes && gives && asserts
}

// c03DropsBuffers: ApplyState (helpers followed) switches the direction to backward and straight back.
func c03DropsBuffers(p *c03pkg, fd *ast.FuncDecl) bool {
	var seq []string
	p.walk(fd.Body, func(n ast.Node) bool {
		if ce, ok := n.(*ast.CallExpr); ok && calleeName(ce) == "SetBackward" && len(ce.Args) == 1 {
			a := c03Str(ce.Args[0])
			if a == "true" || a == "false" {
				seq = append(seq, a)
			}
		}
		return true
	})
	for i := 0; i+1 < len(seq); i++ {
		if seq[i] == "true" && seq[i+1] == "false" {
			return true
		}
	}
	return false
}

func conjuncts(e ast.Expr, op token.Token) []ast.Expr {
	if pe, ok := e.(*ast.ParenExpr); ok {
		return conjuncts(pe.X, op)
	}
	if be, ok := e.(*ast.BinaryExpr); ok && be.Op == op {
		return append(conjuncts(be.X, op), conjuncts(be.Y, op)...)
	}
	return []ast.Expr{e}
}

// c03QueryLoopShape (helpers of the package followed): the function clamps against QueryMaxLimit, loops while a counter is positive and no error
// occurred, and decides the cache flag as `WaitTimeout > 0 || <clamped> != <requested Limit>` (operands in any order).
func c03QueryLoopShape(p *c03pkg, fd *ast.FuncDecl) (clamp, loop, cache, mentionsMax bool) {
	p.walk(fd.Body, func(n ast.Node) bool {
		if se, ok := n.(*ast.SelectorExpr); ok && se.Sel.Name == "QueryMaxLimit" {
			mentionsMax = true
		}
		if id, ok := n.(*ast.Ident); ok && id.Name == "QueryMaxLimit" {
			mentionsMax = true
		}
		switch s := n.(type) {
		case *ast.IfStmt:
			if be, ok := s.Cond.(*ast.BinaryExpr); ok {
				x, y := c03Str(be.X), c03Str(be.Y)
				if (be.Op == token.GTR && strings.HasSuffix(y, "QueryMaxLimit")) || (be.Op == token.LSS && strings.HasSuffix(x, "QueryMaxLimit")) {
					clamp = true
				}
			}
		case *ast.CallExpr:
			if calleeName(s) == "min" && strings.Contains(c03Str(s), "QueryMaxLimit") {
				clamp = true
			}
		case *ast.ForStmt:
			if s.Cond != nil {
				pos, noerr := false, false
				for _, c := range conjuncts(s.Cond, token.LAND) {
					cs := c03Str(c)
					if strings.HasSuffix(cs, "> 0") || strings.HasPrefix(cs, "0 <") {
						pos = true
					}
					if cs == "err == nil" || cs == "nil == err" {
						noerr = true
					}
				}
				if pos && noerr {
					loop = true
				}
			}
		case *ast.BinaryExpr:
			if s.Op == token.LOR {
				wait, differs := false, false
				for _, d := range conjuncts(s, token.LOR) {
					ds := c03Str(d)
					if strings.HasSuffix(ds, "WaitTimeout > 0") || (strings.HasPrefix(ds, "0 <") && strings.HasSuffix(ds, "WaitTimeout")) {
						wait = true
					}
					if be, ok := d.(*ast.BinaryExpr); ok && be.Op == token.NEQ {
						x, y := c03Str(be.X), c03Str(be.Y)
						if strings.HasSuffix(x, ".Limit") != strings.HasSuffix(y, ".Limit") {
							differs = true
						}
					}
				}
				if wait && differs {
					cache = true
				}
			}
		}
		return true
	})
	return
}

// c03AssignsPosOnEOF: the function has an `if` whose condition mentions io.EOF and whose body assigns the
// iterator's position (`<x>.pos = …`).
func c03AssignsPosOnEOF(fd *ast.FuncDecl) bool {
	res := false
	ast.Inspect(fd.Body, func(n ast.Node) bool {
		is, ok := n.(*ast.IfStmt)
		if !ok || !strings.Contains(c03Str(is.Cond), "io.EOF") {
			return true
		}
		for _, st := range is.Body.List {
			if as, ok := st.(*ast.AssignStmt); ok && len(as.Lhs) == 1 {
				if se, ok := as.Lhs[0].(*ast.SelectorExpr); ok && se.Sel.Name == "pos" {
					res = true
				}
			}
		}
		return true
	})
	return res
}

// c03MentionsBothBounds: the code below n (helpers of the package followed) refers to both selectors a and b
// (e.g. `MinTs`/`MaxTs` of the time range, `minPos`/`maxPos` of a chunk status) — no local names, no operand order.
func c03MentionsBoth(p *c03pkg, n ast.Node, a, b string) bool {
	fa, fb := false, false
	p.walk(n, func(m ast.Node) bool {
		if se, ok := m.(*ast.SelectorExpr); ok {
			if se.Sel.Name == a {
				fa = true
			}
			if se.Sel.Name == b {
				fb = true
			}
		}
		return true
	})
	return fa && fb
}

// c03RechecksRange: `fiterator.Get` decides on both bounds of the time range (directly or through a helper such as
// fitInRange): every event the iterator below hands over is re-checked against the range.
func c03RechecksRange(p *c03pkg, fd *ast.FuncDecl) bool { return c03MentionsBoth(p, fd.Body, "MinTs", "MaxTs") }

// c03NextLeavesWindow: `partition.JIterator.Next` has a branch whose condition looks at both ends of the chunk window
// (minPos, maxPos) and which moves on to another chunk (calls advanceChunk, helpers followed).
func c03NextLeavesWindow(p *c03pkg, fd *ast.FuncDecl) bool {
	res := false
	p.walk(fd.Body, func(n ast.Node) bool {
		is, ok := n.(*ast.IfStmt)
		if !ok {
			return true
		}
		if c03MentionsBoth(p, is.Cond, "minPos", "maxPos") && p.hasCall(is.Body, "advanceChunk", "") {
			res = true
		}
		return true
	})
	return res
}

// c03ContinuationOffsetZero: the request a query function hands back as continuation (argument of writeQueryRequest, or
// the value stored into <x>.NextQueryRequest) carries Offset 0: it is a QueryRequest literal without an Offset key (or with
// the literal 0) — directly, through a local variable initialised with such a literal, or as the result of a helper of the
// same package all of whose `return`s are such expressions —; or it is another request value (e.g. the served request
// itself) whose Offset field is unconditionally set to the literal 0 at the top level of the function. found=false: no
// continuation expression was recognised (unknown shape).
func c03ContinuationOffsetZero(p *c03pkg, fd *ast.FuncDecl) (ok, found bool) {
	var conts []ast.Expr
	ast.Inspect(fd.Body, func(n ast.Node) bool {
		switch x := n.(type) {
		case *ast.CallExpr:
			if calleeName(x) == "writeQueryRequest" && len(x.Args) == 1 {
				conts = append(conts, x.Args[0])
			}
		case *ast.AssignStmt:
			for i, l := range x.Lhs {
				if se, isSel := l.(*ast.SelectorExpr); isSel && se.Sel.Name == "NextQueryRequest" && i < len(x.Rhs) {
					conts = append(conts, x.Rhs[i])
				}
			}
		}
		return true
	})
	if len(conts) == 0 {
		return false, false
	}
	ok = true
	for _, c := range conts {
		good, known := c03ReqExprOffsetZero(p, fd, c, 3)
		if !known {
			return false, false
		}
		ok = ok && good
	}
	return ok, true
}

// c03ReqExprOffsetZero: does expression e, evaluated inside fd, denote a request with Offset 0? known=false: shape not
// recognised.
func c03ReqExprOffsetZero(p *c03pkg, fd *ast.FuncDecl, e ast.Expr, depth int) (good, known bool) {
	strip := func(e ast.Expr) ast.Expr {
		for {
			switch x := e.(type) {
			case *ast.UnaryExpr:
				e = x.X
			case *ast.StarExpr:
				e = x.X
			case *ast.ParenExpr:
				e = x.X
			default:
				return e
			}
		}
	}
	litOK := func(cl *ast.CompositeLit) (bool, bool) {
		for _, el := range cl.Elts {
			kv, isKV := el.(*ast.KeyValueExpr)
			if !isKV {
				return false, false // positional literal: cannot tell
			}
			if id, isId := kv.Key.(*ast.Ident); isId && id.Name == "Offset" {
				if bl, isLit := kv.Value.(*ast.BasicLit); !isLit || bl.Value != "0" {
					return false, true
				}
			}
		}
		return true, true
	}
	switch x := strip(e).(type) {
	case *ast.CompositeLit:
		return litOK(x)
	case *ast.CallExpr:
		name := calleeName(x)
		if depth == 0 || len(p.funcs[name]) != 1 {
			return false, false
		}
		if se, isSel := x.Fun.(*ast.SelectorExpr); isSel {
			if id, isId := se.X.(*ast.Ident); isId && id.Obj == nil {
				return false, false // pkg.F of another package
			}
		}
		h := p.funcs[name][0]
		good, known, any := true, true, false
		ast.Inspect(h.Body, func(n ast.Node) bool {
			if _, isLit := n.(*ast.FuncLit); isLit {
				return false
			}
			if rs, isRet := n.(*ast.ReturnStmt); isRet && len(rs.Results) >= 1 {
				any = true
				g, k := c03ReqExprOffsetZero(p, h, rs.Results[0], depth-1)
				good, known = good && g, known && k
			}
			return true
		})
		if !any {
			return false, false
		}
		return good, known
	case *ast.Ident:
		// a local initialised with a literal (or a helper call), or a request value zeroed at the top level of fd
		var def ast.Expr
		ast.Inspect(fd.Body, func(n ast.Node) bool {
			as, isAs := n.(*ast.AssignStmt)
			if !isAs || len(as.Lhs) != 1 || len(as.Rhs) != 1 {
				return true
			}
			if id, isId := as.Lhs[0].(*ast.Ident); isId && id.Name == x.Name {
				switch strip(as.Rhs[0]).(type) {
				case *ast.CompositeLit, *ast.CallExpr:
					def = as.Rhs[0]
				}
			}
			return true
		})
		if def != nil {
			if g, k := c03ReqExprOffsetZero(p, fd, def, depth); k {
				return g, true
			}
		}
		for _, st := range fd.Body.List {
			if as, isAs := st.(*ast.AssignStmt); isAs && len(as.Lhs) == 1 && len(as.Rhs) == 1 {
				if se, isSel := as.Lhs[0].(*ast.SelectorExpr); isSel && se.Sel.Name == "Offset" {
					if id, isId := se.X.(*ast.Ident); isId && id.Name == x.Name {
						if bl, isLit := as.Rhs[0].(*ast.BasicLit); isLit && bl.Value == "0" {
							return true, true
						}
					}
				}
			}
		}
		// a request value that is handed back without its Offset being cleared
		return false, true
	}
	return false, false
}
