package main

// C01: the fields cache of the two query loops (api/rpc ServerQuerier.query, pkg/backend Querier.Query):
//
//	if <ev>.Fields != V { K = <ev>.Fields.AsKVString(); V = <ev>.Fields.MakeCopy() }
//
// Found by structure: in every function of the two files, an `if` (anywhere in the body) whose body assigns some variable from
// a `….AsKVString()` call. Facts: (1) is its condition exactly the inequality of `<x>.Fields` and a variable (either order, or
// `!(a == b)`)? — further conjuncts make the refresh rarer (false); anything else is an EXTRACT-PROBLEM. (2) is the variable the
// condition compares with assigned, in the same body, from a CALL on the event's fields (a copy, e.g. MakeCopy) — or is it the
// bare `<x>.Fields` (an alias of the reader's buffer: false)? Local names do not matter.

import (
	"go/ast"
	"go/token"
)

func c01QueryCacheFacts() (refreshOnAnyDifference, keepsCopy bool) {
	refreshOnAnyDifference, keepsCopy = true, true
	loops := 0
	isFieldsSel := func(e ast.Expr) bool {
		se, ok := e.(*ast.SelectorExpr)
		return ok && se.Sel.Name == "Fields"
	}
	// neq: the expression is `<x>.Fields != V` / `V != <x>.Fields` / `!(… == …)`; returns V's name
	var neq func(e ast.Expr) (string, bool)
	neq = func(e ast.Expr) (string, bool) {
		switch x := e.(type) {
		case *ast.ParenExpr:
			return neq(x.X)
		case *ast.UnaryExpr:
			if x.Op == token.NOT {
				if be, ok := unparen(x.X).(*ast.BinaryExpr); ok && be.Op == token.EQL {
					return neqSides(be, isFieldsSel)
				}
			}
		case *ast.BinaryExpr:
			if x.Op == token.NEQ {
				return neqSides(x, isFieldsSel)
			}
		}
		return "", false
	}
	var hasNeq func(e ast.Expr) (string, bool)
	hasNeq = func(e ast.Expr) (string, bool) {
		if v, ok := neq(e); ok {
			return v, true
		}
		if be, ok := unparen(e).(*ast.BinaryExpr); ok && be.Op == token.LAND {
			if v, ok := hasNeq(be.X); ok {
				return v, true
			}
			return hasNeq(be.Y)
		}
		return "", false
	}
	for _, rel := range []string{"api/rpc/querier.go", "pkg/backend/querier.go"} {
		f := parseFile(rel)
		if f == nil {
			continue
		}
		for _, d := range f.Decls {
			fd, ok := d.(*ast.FuncDecl)
			if !ok || fd.Body == nil {
				continue
			}
			ast.Inspect(fd.Body, func(n ast.Node) bool {
				is, ok := n.(*ast.IfStmt)
				if !ok {
					return true
				}
				// does the body assign from ….AsKVString() ?
				assignsKV := false
				for _, st := range is.Body.List {
					if as, ok := st.(*ast.AssignStmt); ok {
						for _, r := range as.Rhs {
							if ce, ok := r.(*ast.CallExpr); ok {
								if se, ok := ce.Fun.(*ast.SelectorExpr); ok && se.Sel.Name == "AsKVString" {
									assignsKV = true
								}
							}
						}
					}
				}
				if !assignsKV {
					return true
				}
				loops++
				v, plain := neq(is.Cond)
				if !plain {
					var some bool
					v, some = hasNeq(is.Cond)
					if !some {
						problem("%s %s: the fields cache is refreshed under a condition that is not an inequality of the event's fields and the cached value", rel, fd.Name.Name)
						return true
					}
					refreshOnAnyDifference = false
				}
				// the cached value V must be re-assigned in the body
				assigned := false
				for _, st := range is.Body.List {
					as, ok := st.(*ast.AssignStmt)
					if !ok {
						continue
					}
					for i, l := range as.Lhs {
						id, ok := l.(*ast.Ident)
						if !ok || id.Name != v || i >= len(as.Rhs) {
							continue
						}
						assigned = true
						switch r := unparen(as.Rhs[i]).(type) {
						case *ast.CallExpr:
							// a call on (or of) the event's fields: MakeCopy(), a copying helper, a conversion of a fresh []byte …
							if id, ok := r.Fun.(*ast.Ident); ok && len(r.Args) == 1 && isFieldsSel(unparen(r.Args[0])) && (id.Name == "string" || id.Name == "Fields") {
								keepsCopy = false // a plain conversion of the same bytes is no copy
							}
							if se, ok := r.Fun.(*ast.SelectorExpr); ok && len(r.Args) == 1 && isFieldsSel(unparen(r.Args[0])) && se.Sel.Name == "Fields" {
								keepsCopy = false // field.Fields(lge.Fields)
							}
						case *ast.SelectorExpr:
							if r.Sel.Name == "Fields" {
								keepsCopy = false
							} else {
								problem("%s %s: the cached fields value is assigned from an expression that was not recognised", rel, fd.Name.Name)
							}
						default:
							problem("%s %s: the cached fields value is assigned from an expression that was not recognised", rel, fd.Name.Name)
						}
					}
				}
				if !assigned {
					problem("%s %s: the fields cache is refreshed without re-assigning the value it is compared with", rel, fd.Name.Name)
				}
				return true
			})
		}
	}
	if loops < 2 {
		problem("query loops: expected a fields cache (`if <ev>.Fields != V { K = ….AsKVString(); V = … }`) in api/rpc/querier.go and pkg/backend/querier.go, found %d", loops)
	}
	return
}

func unparen(e ast.Expr) ast.Expr {
	for {
		p, ok := e.(*ast.ParenExpr)
		if !ok {
			return e
		}
		e = p.X
	}
}

func neqSides(be *ast.BinaryExpr, isFieldsSel func(ast.Expr) bool) (string, bool) {
	x, y := unparen(be.X), unparen(be.Y)
	if isFieldsSel(x) {
		if id, ok := y.(*ast.Ident); ok {
			return id.Name, true
		}
	}
	if isFieldsSel(y) {
		if id, ok := x.(*ast.Ident); ok {
			return id.Name, true
		}
	}
	return "", false
}
