package main

import (
	"go/ast"
	"go/token"
	"sort"
	"strings"
)

// C13 facts about api/rpc's server side that are not about decoding bytes:
//
//	ingestLimitHasAddend   the function that yields the ingestor's record size limit returns the configured MaxRecordSize (or the
//	                       library's default constant) as it is — no arithmetic on it. The limit is what a chunk reader's buffer
//	                       holds; a limit above it acknowledges records no later read can serve.
//	ingestSizeTestRejectsAbove  the validation loop refuses an event whose record size is above the limit (`sz > limit` / `>=`)
//	rpcHandlers            for every server handler (… []byte, *rrpc.ServerConn): does it decode the body with newBuf = false (strings
//	                       that point INTO the body), and does it give the body back to the buffer pool (Collect)? Both together let a
//	                       decoded string outlive the buffer it points into (a held cursor keeps the query text).
func c13IngestFacts(l *leanFile) {
	_, all := c13PkgFuncs("api/rpc")

	// --- the limit -----------------------------------------------------------------------------------------------
	found, addend := 0, false
	for _, fd := range all {
		if fd.Type.Results == nil || len(fd.Type.Results.List) != 1 {
			continue
		}
		mentions := false
		ast.Inspect(fd.Body, func(n ast.Node) bool {
			if se, ok := n.(*ast.SelectorExpr); ok && se.Sel.Name == "MaxRecordSize" {
				mentions = true
			}
			return true
		})
		if !mentions {
			continue
		}
		found++
		// locals bound to ….MaxRecordSize
		ast.Inspect(fd.Body, func(n ast.Node) bool {
			rs, ok := n.(*ast.ReturnStmt)
			if !ok {
				return true
			}
			for _, r := range rs.Results {
				ast.Inspect(r, func(m ast.Node) bool {
					switch e := m.(type) {
					case *ast.BinaryExpr:
						addend = true
					case *ast.CallExpr:
						if id, ok := e.Fun.(*ast.Ident); !ok || (id.Name != "int" && id.Name != "int64") {
							addend = true // a function of the limit: not the limit itself
						}
					}
					return true
				})
			}
			return true
		})
		// an assignment that does arithmetic on the configured value before it is returned
		ast.Inspect(fd.Body, func(n ast.Node) bool {
			if as, ok := n.(*ast.AssignStmt); ok {
				for _, r := range as.Rhs {
					if be, ok := c13Unparen(r).(*ast.BinaryExpr); ok && strings.Contains(c13Src(be), "MaxRecordSize") {
						switch be.Op {
						case token.ADD, token.SUB, token.MUL, token.QUO, token.SHL, token.SHR:
							addend = true
						}
					}
				}
				if as.Tok == token.ADD_ASSIGN || as.Tok == token.SUB_ASSIGN || as.Tok == token.MUL_ASSIGN {
					addend = true
				}
			}
			if _, ok := n.(*ast.IncDecStmt); ok {
				addend = true
			}
			return true
		})
	}
	if found != 1 {
		problem("api/rpc: expected exactly one function that returns the ingestor's record size limit from ….MaxRecordSize, found %d — the fact ingestLimitHasAddend cannot be read", found)
		addend = true
	}
	l.p("/-- the ingestor's record size limit is the configured MaxRecordSize with arithmetic on it (false: it is the configured value —")
	l.p("what a chunk reader's buffer holds — as it is) -/")
	l.p("def ingestLimitHasAddend : Bool := %s", leanBool(addend))

	// --- the test ------------------------------------------------------------------------------------------------
	// `if sz := <x>.WritableSize(); L > 0 && sz > L { return error }` (either order of the conjuncts, > or >=, sz bound in the Init or before)
	rejects, tests := false, 0
	var sizeTest *ast.IfStmt
	var sizeTestFn *ast.FuncDecl
	for _, fd := range all {
		fd := fd
		ast.Inspect(fd.Body, func(n ast.Node) bool {
			is, ok := n.(*ast.IfStmt)
			if !ok {
				return true
			}
			be, ok := c13Unparen(is.Cond).(*ast.BinaryExpr)
			if !ok || be.Op != token.LAND {
				return true
			}
			var pos, cmp *ast.BinaryExpr
			for _, c := range []ast.Expr{be.X, be.Y} {
				if b, ok := c13Unparen(c).(*ast.BinaryExpr); ok {
					if k, isLit := c13Lit(b.Y); isLit && k == 0 && b.Op == token.GTR {
						pos = b
					} else if b.Op == token.GTR || b.Op == token.GEQ || b.Op == token.LSS || b.Op == token.LEQ {
						cmp = b
					}
				}
			}
			if pos == nil || cmp == nil {
				return true
			}
			limit := c13Src(pos.X)
			if !strings.Contains(strings.ToLower(limit), "max") && !strings.Contains(strings.ToLower(limit), "lim") {
				return true
			}
			sizeVar := ""
			if as, ok := is.Init.(*ast.AssignStmt); ok && len(as.Lhs) == 1 && len(as.Rhs) == 1 && c13CallName(as.Rhs[0]) == "WritableSize" {
				sizeVar = c13Src(as.Lhs[0])
			}
			if sizeVar == "" {
				return true
			}
			tests++
			sizeTest, sizeTestFn = is, fd
			above := (c13Src(cmp.X) == sizeVar && c13Src(cmp.Y) == limit && (cmp.Op == token.GTR || cmp.Op == token.GEQ)) ||
				(c13Src(cmp.Y) == sizeVar && c13Src(cmp.X) == limit && (cmp.Op == token.LSS || cmp.Op == token.LEQ))
			leaves := false
			for _, st := range is.Body.List {
				if c13ReturnsError(st) {
					leaves = true
				}
			}
			if above && leaves {
				rejects = true
			}
			return true
		})
	}
	if tests == 0 {
		problem("api/rpc: the record size test of the write packet validation (`if sz := ….WritableSize(); limit > 0 && sz > limit { return error }`) was not found — the fact ingestSizeTestRejectsAbove cannot be read")
	}
	l.p("/-- the validation loop of the write packet refuses an event whose record size is above the limit -/")
	l.p("def ingestSizeTestRejectsAbove : Bool := %s", leanBool(rejects && tests == 1))

	// --- the test is applied to EVERY event of the packet ----------------------------------------------------------------
	// the size test is a statement of the body of the loop over the packet's events itself (not inside a conditional), and no
	// statement before it in that body can skip it for some events: no continue / goto, no break out of the loop (an early
	// `return <error>` refuses the whole packet and is fine)
	every := false
	if tests == 1 && sizeTest != nil {
		var loopBody *ast.BlockStmt
		c13WalkPath(sizeTestFn.Body, func(path []ast.Node) {
			if path[len(path)-1] != ast.Node(sizeTest) {
				return
			}
			// the innermost enclosing loop
			for i := len(path) - 2; i >= 0; i-- {
				switch l := path[i].(type) {
				case *ast.ForStmt:
					if loopBody == nil {
						loopBody = l.Body
					}
				case *ast.RangeStmt:
					if loopBody == nil {
						loopBody = l.Body
					}
				}
			}
		})
		if loopBody == nil {
			problem("api/rpc %s: the record size test is not inside a loop over the packet's events — the fact ingestSizeTestOnEveryEvent cannot be read", sizeTestFn.Name.Name)
		} else {
			direct, skips := false, false
			for _, st := range loopBody.List {
				if st == ast.Stmt(sizeTest) {
					direct = true
					break
				}
				depth := 0 // nesting in inner loops / switches / selects, where a break is local
				var insp func(n ast.Node) bool
				insp = func(n ast.Node) bool {
					switch b := n.(type) {
					case *ast.ForStmt, *ast.RangeStmt, *ast.SwitchStmt, *ast.TypeSwitchStmt, *ast.SelectStmt:
						depth++
						ast.Inspect(childBody(n), insp)
						depth--
						return false
					case *ast.FuncLit:
						return false
					case *ast.BranchStmt:
						switch b.Tok {
						case token.CONTINUE, token.GOTO:
							if depth == 0 || b.Label != nil || b.Tok == token.GOTO {
								skips = true
							}
						case token.BREAK:
							if depth == 0 || b.Label != nil {
								skips = true
							}
						}
					}
					return true
				}
				ast.Inspect(st, insp)
			}
			every = direct && !skips
		}
	}
	l.p("/-- the record size test is a statement of the validation loop's body itself and nothing before it in that body (continue, goto,")
	l.p("break) lets an event of the packet pass without it -/")
	l.p("def ingestSizeTestOnEveryEvent : Bool := %s", leanBool(every))

	// --- handlers: decoded strings vs the life of the request buffer -----------------------------------------------
	type hnd struct {
		name           string
		weak, collects bool
	}
	var hs []hnd
	for _, fd := range all {
		ps := fd.Type.Params.List
		var flat []*ast.Field
		for _, p := range ps {
			for range p.Names {
				flat = append(flat, p)
			}
		}
		if fd.Recv == nil || len(flat) != 3 {
			continue
		}
		at, isArr := flat[1].Type.(*ast.ArrayType)
		st, isPtr := flat[2].Type.(*ast.StarExpr)
		if !isArr || at.Len != nil || c13Src(at.Elt) != "byte" || !isPtr || !strings.HasSuffix(c13Src(st.X), "ServerConn") {
			continue
		}
		body := ""
		for _, p := range ps {
			if p == flat[1] {
				// the name of the second parameter
				k := 0
				for _, q := range ps {
					for _, nm := range q.Names {
						if k == 1 {
							body = nm.Name
						}
						k++
					}
				}
			}
		}
		h := hnd{name: fd.Name.Name}
		// the body with EVERY same-named function / method of the package inlined at a call (depth 2): an over-approximation of
		// what the handler may do with the body, which is the safe direction for both flags
		var walk func(root ast.Node, depth int, visit func(n ast.Node))
		walk = func(root ast.Node, depth int, visit func(n ast.Node)) {
			ast.Inspect(root, func(n ast.Node) bool {
				if n == nil {
					return false
				}
				visit(n)
				if ce, ok := n.(*ast.CallExpr); ok && depth > 0 {
					for _, g := range all {
						if g != fd && g.Name.Name == c13CallName(ce) {
							walk(g.Body, depth-1, visit)
						}
					}
				}
				return true
			})
		}
		walk(fd.Body, 2, func(n ast.Node) {
			ce, ok := n.(*ast.CallExpr)
			if !ok {
				return
			}
			nm := c13CallName(ce)
			if strings.HasPrefix(strings.ToLower(nm), "unmarshal") && len(ce.Args) >= 2 {
				if id, ok := ce.Args[len(ce.Args)-1].(*ast.Ident); ok && id.Name == "false" {
					h.weak = true
				}
			}
		})
		// Collect(body): in the handler itself, or in a same-package function the body is handed to (matched by parameter position)
		ast.Inspect(fd.Body, func(n ast.Node) bool {
			ce, ok := n.(*ast.CallExpr)
			if !ok {
				return true
			}
			if c13CallName(ce) == "Collect" && len(ce.Args) == 1 && c13Src(ce.Args[0]) == body {
				h.collects = true
			}
			for k, a := range ce.Args {
				if c13Src(a) != body {
					continue
				}
				for _, g := range all {
					if g == fd || g.Name.Name != c13CallName(ce) {
						continue
					}
					pn, j := "", 0
					for _, p := range g.Type.Params.List {
						for _, nm := range p.Names {
							if j == k {
								pn = nm.Name
							}
							j++
						}
					}
					if pn == "" {
						continue
					}
					ast.Inspect(g.Body, func(m ast.Node) bool {
						if c2, ok := m.(*ast.CallExpr); ok && c13CallName(c2) == "Collect" && len(c2.Args) == 1 && c13Src(c2.Args[0]) == pn {
							h.collects = true
						}
						return true
					})
				}
			}
			return true
		})
		hs = append(hs, h)
	}
	sort.Slice(hs, func(i, j int) bool { return hs[i].name < hs[j].name })
	if len(hs) == 0 {
		problem("api/rpc: no server handler (…, body []byte, sc *rrpc.ServerConn) found — the fact rpcHandlers cannot be read")
	}
	var items []string
	for _, h := range hs {
		items = append(items, "("+leanStr(h.name)+", "+leanBool(h.weak)+", "+leanBool(h.collects)+")")
	}
	l.p("/-- the server handlers of api/rpc: (name, decodes the body with newBuf = false — its strings point into the body —, gives the body")
	l.p("back to the buffer pool) -/")
	l.p("def rpcHandlers : List (String × Bool × Bool) := [%s]", strings.Join(items, ", "))
}

// childBody: the body of a loop / switch / select statement
func childBody(n ast.Node) ast.Node {
	switch b := n.(type) {
	case *ast.ForStmt:
		return b.Body
	case *ast.RangeStmt:
		return b.Body
	case *ast.SwitchStmt:
		return b.Body
	case *ast.TypeSwitchStmt:
		return b.Body
	case *ast.SelectStmt:
		return b.Body
	}
	return n
}
