#!/bin/sh
# usage: run.sh <verif-dir> <repo> <ID>...   — builds the extractor from main.go + the named properties' own files
# (cNN.go, plus cNN_*.go helpers) and regenerates their lean/Logrange/Generated/<ID>.lean. One binary per property set, so a
# half-written extractor file of another property cannot break this one.
V="$1"; REPO="$2"; shift 2
cd "$V/tools/extract" || exit 2
export GOFLAGS=-mod=mod GOPROXY=off GOSUMDB=off GOTOOLCHAIN=local GOCACHE="$V/.cache/gocache"
files="main.go"; name="extract"
for id in "$@"; do
  lc=$(echo "$id" | tr 'A-Z' 'a-z')
  [ -f "$lc.go" ] && files="$files $lc.go"
  for f in ${lc}_*.go; do [ -f "$f" ] && files="$files $f"; done
  name="${name}_$lc"
done
mkdir -p "$V/.cache/bin"
go build -o "$V/.cache/bin/$name" $files || exit 3
"$V/.cache/bin/$name" "$REPO" "$V/lean/Logrange/Generated" "$@"
