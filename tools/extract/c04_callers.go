package main

import (
	"go/ast"
	"go/parser"
	"go/token"
	"os"
	"path/filepath"
	"sort"
	"strings"
)

// C04 facts about the CALLERS of the merged cursor and of GetJournals:
//   * the two Query read loops stop at the first error of cur.Get, emit an event only when there was none, and answer a page only
//     when the loop ended without an error or with io.EOF (everything else: the error and no page);
//   * the tag line travels with the event: Mixer (selectState/Get), LogEventIterator, fiterator, newCursor's Wrap(tags, iterator
//     of THAT journal), `le.Tags = string(tags)` in both loops, the RPC encoder writes ev.Tags for every event;
//   * the merge-limit error of GetJournals is a real error value and is handed on by every function between it and the client.
// Matching is by structure and role (which result of which call flows where), never by the names of locals.

func c04flatten(e ast.Expr, op token.Token) []ast.Expr {
	e = c04unparen(e)
	if be, ok := e.(*ast.BinaryExpr); ok && be.Op == op {
		return append(c04flatten(be.X, op), c04flatten(be.Y, op)...)
	}
	return []ast.Expr{e}
}

func c04isIdent(e ast.Expr, name string) bool {
	id, ok := c04unparen(e).(*ast.Ident)
	return ok && id.Name == name
}

// `V OP nil` (either order, `!(…)` normalised): returns OP ("==" / "!=") or ""
func c04nilCmp(e ast.Expr, v string) string {
	return c04cmpOp(e, func(x ast.Expr) bool { return c04isIdent(x, v) }, func(x ast.Expr) bool { return c04isIdent(x, "nil") })
}

// `V OP io.EOF`
func c04eofCmp(e ast.Expr, v string) string {
	return c04cmpOp(e, func(x ast.Expr) bool { return c04isIdent(x, v) }, func(x ast.Expr) bool {
		se, ok := x.(*ast.SelectorExpr)
		return ok && se.Sel.Name == "EOF" && c04isIdent(se.X, "io")
	})
}

func c04callSel(e ast.Expr) (*ast.CallExpr, string) {
	c, ok := c04unparen(e).(*ast.CallExpr)
	if !ok {
		return nil, ""
	}
	switch f := c.Fun.(type) {
	case *ast.SelectorExpr:
		return c, f.Sel.Name
	case *ast.Ident:
		return c, f.Name
	}
	return c, ""
}

// assignment `a, b, c = <call named sel>(…)` (or :=): the call and the names on the left ("" for non-identifiers)
func c04assignFromCall(s ast.Stmt, sel string) (*ast.CallExpr, []string) {
	as, ok := s.(*ast.AssignStmt)
	if !ok || len(as.Rhs) != 1 {
		return nil, nil
	}
	c, nm := c04callSel(as.Rhs[0])
	if c == nil || nm != sel {
		return nil, nil
	}
	var names []string
	for _, l := range as.Lhs {
		if id, ok := l.(*ast.Ident); ok {
			names = append(names, id.Name)
		} else {
			names = append(names, "")
		}
	}
	return c, names
}

// every statement list in n (function bodies, blocks, case clauses)
func c04stmtLists(n ast.Node, f func(list []ast.Stmt)) {
	ast.Inspect(n, func(x ast.Node) bool {
		switch b := x.(type) {
		case *ast.BlockStmt:
			f(b.List)
		case *ast.CaseClause:
			f(b.Body)
		case *ast.CommClause:
			f(b.Body)
		}
		return true
	})
}

type c04loopInfo struct {
	fd       *ast.FuncDecl
	loop     *ast.ForStmt
	errVar   string
	tagsVar  string
	evVar    string
	okBlock  *ast.IfStmt // `if err == nil { emit …; Next }`
	failsOK  bool
	offsetOK bool
	tagsOK   bool
	cacheOK  bool // the fields text is rebuilt whenever the event's fields differ from the cached ones — no further condition
}

// the read loop of a Query function
func c04queryLoop(fd *ast.FuncDecl, emit func(ast.Node) bool, success func(ast.Node) bool, handsOn func(post []ast.Stmt, errVar string) bool) *c04loopInfo {
	li := &c04loopInfo{fd: fd}
	if fd == nil {
		return li
	}
	// A1: a for loop with a `X.Get(…)` whose third result is E, and a conjunct `E == nil` in the loop condition
	ast.Inspect(fd.Body, func(n ast.Node) bool {
		fs, ok := n.(*ast.ForStmt)
		if !ok || li.loop != nil || fs.Cond == nil {
			return true
		}
		for _, s := range fs.Body.List {
			if c, names := c04assignFromCall(s, "Get"); c != nil && len(names) == 3 && names[2] != "" {
				for _, cj := range c04flatten(fs.Cond, token.LAND) {
					if c04nilCmp(cj, names[2]) == "==" {
						li.loop, li.errVar, li.tagsVar, li.evVar = fs, names[2], names[1], names[0]
					}
				}
			}
		}
		return true
	})
	if li.loop == nil {
		return li
	}
	E := li.errVar
	// A2: emits and Next only inside `if E == nil {…}` directly in the loop body, after the Get
	seenGet := false
	a2 := true
	for _, s := range li.loop.Body.List {
		if c, _ := c04assignFromCall(s, "Get"); c != nil {
			seenGet = true
			continue
		}
		is, isIf := s.(*ast.IfStmt)
		if isIf && seenGet && is.Init == nil && is.Else == nil && c04nilCmp(is.Cond, E) == "==" && li.okBlock == nil {
			hasEmit, hasNext := false, false
			ast.Inspect(is.Body, func(n ast.Node) bool {
				if emit(n) {
					hasEmit = true
				}
				if c, nm := c04callSel2(n); c != nil && nm == "Next" {
					hasNext = true
				}
				return true
			})
			if hasEmit && hasNext {
				li.okBlock = is
			}
			continue
		}
		// anywhere else in the loop: no emit, no Next
		ast.Inspect(s, func(n ast.Node) bool {
			if emit(n) {
				a2 = false
			}
			if c, nm := c04callSel2(n); c != nil && nm == "Next" {
				a2 = false
			}
			return true
		})
	}
	a2 = a2 && li.okBlock != nil
	// A4: `E = nil` inside the loop only in an `if` that directly follows `E = X.WaitNewData(…)`
	a4 := true
	resets := 0
	ast.Inspect(li.loop.Body, func(n ast.Node) bool {
		if as, ok := n.(*ast.AssignStmt); ok && len(as.Lhs) == 1 && len(as.Rhs) == 1 && c04isIdent(as.Lhs[0], E) && c04isIdent(as.Rhs[0], "nil") {
			resets++
		}
		return true
	})
	allowed := 0
	c04stmtLists(li.loop.Body, func(list []ast.Stmt) {
		for i, s := range list {
			is, ok := s.(*ast.IfStmt)
			if !ok || i == 0 {
				continue
			}
			if c, names := c04assignFromCall(list[i-1], "WaitNewData"); c == nil || len(names) != 1 || names[0] != E {
				continue
			}
			if c04nilCmp(is.Cond, E) != "!=" {
				continue
			}
			for _, b := range is.Body.List {
				if as, ok := b.(*ast.AssignStmt); ok && len(as.Lhs) == 1 && len(as.Rhs) == 1 && c04isIdent(as.Lhs[0], E) && c04isIdent(as.Rhs[0], "nil") {
					allowed++
				}
			}
		}
	})
	if resets != allowed {
		a4 = false
	}
	// A3: after the loop a success answer only under `if E == nil || E == io.EOF`, and E handed on otherwise
	var post []ast.Stmt
	c04stmtLists(fd.Body, func(list []ast.Stmt) {
		for i, s := range list {
			if s == ast.Stmt(li.loop) {
				post = list[i+1:]
			}
		}
	})
	a3 := len(post) > 0
	nSuccess := 0
	var walk func(n ast.Node, guarded bool)
	walk = func(n ast.Node, guarded bool) {
		ast.Inspect(n, func(x ast.Node) bool {
			if x == nil {
				return false
			}
			if is, ok := x.(*ast.IfStmt); ok && x != n {
				g := guarded
				cs := c04flatten(is.Cond, token.LOR)
				if len(cs) == 2 {
					okNil, okEOF := false, false
					for _, c := range cs {
						if c04nilCmp(c, E) == "==" {
							okNil = true
						}
						if c04eofCmp(c, E) == "==" {
							okEOF = true
						}
					}
					if okNil && okEOF {
						g = true
					}
				}
				if is.Init != nil {
					walk(is.Init, guarded)
				}
				walk(is.Body, g)
				if is.Else != nil {
					walk(is.Else, guarded)
				}
				return false
			}
			if success(x) {
				nSuccess++
				if !guarded {
					a3 = false
				}
			}
			return true
		})
	}
	for _, s := range post {
		if is, ok := s.(*ast.IfStmt); ok {
			// top-level if: handle through a wrapper block so that the guard logic applies
			walk(&ast.BlockStmt{List: []ast.Stmt{is}}, false)
		} else {
			walk(s, false)
		}
	}
	if nSuccess == 0 || !handsOn(post, E) {
		a3 = false
	}
	li.failsOK = a2 && a3 && a4
	// Offset once, before the loop, on the cursor the loop reads
	nOff, offBefore := 0, false
	ast.Inspect(fd.Body, func(n ast.Node) bool {
		if c, nm := c04callSel2(n); c != nil && nm == "Offset" {
			nOff++
			if c.Pos() < li.loop.Pos() {
				offBefore = true
			}
		}
		return true
	})
	li.offsetOK = nOff == 1 && offBefore
	// `<le>.Tags = string(T)` / `= T` in the ok block with T the second result of the loop's Get
	if li.okBlock != nil && li.tagsVar != "" {
		ast.Inspect(li.okBlock.Body, func(n ast.Node) bool {
			as, ok := n.(*ast.AssignStmt)
			if !ok || len(as.Lhs) != 1 || len(as.Rhs) != 1 {
				return true
			}
			se, ok := as.Lhs[0].(*ast.SelectorExpr)
			if !ok || se.Sel.Name != "Tags" {
				return true
			}
			r := c04unparen(as.Rhs[0])
			if c, ok := r.(*ast.CallExpr); ok && len(c.Args) == 1 {
				if id, ok := c.Fun.(*ast.Ident); ok && id.Name == "string" {
					r = c04unparen(c.Args[0])
				}
			}
			if c04isIdent(r, li.tagsVar) {
				li.tagsOK = true
			}
			return true
		})
	}
	// the one-entry cache of the fields text: `if <ev>.Fields != V { T = <ev>.Fields.AsKVString(); V = … }` — the condition is
	// exactly that inequality (either order, `!(a == b)` accepted), no further conjunct
	if li.okBlock != nil && li.evVar != "" {
		nRebuild := 0
		good := true
		ast.Inspect(li.okBlock.Body, func(n ast.Node) bool {
			is, ok := n.(*ast.IfStmt)
			if !ok {
				return true
			}
			rebuilds := false
			for _, b := range is.Body.List {
				if as, ok := b.(*ast.AssignStmt); ok && len(as.Rhs) == 1 {
					if c, nm := c04callSel(as.Rhs[0]); c != nil && nm == "AsKVString" {
						rebuilds = true
					}
				}
			}
			if !rebuilds {
				return true
			}
			nRebuild++
			isEvF := func(e ast.Expr) bool {
				pfx, f := c04selSplit(e)
				return pfx == li.evVar && f == "Fields"
			}
			cached := ""
			isVar := func(e ast.Expr) bool {
				id, ok := e.(*ast.Ident)
				if ok {
					cached = id.Name
				}
				return ok
			}
			if c04cmpOp(is.Cond, isEvF, isVar) != "!=" {
				good = false
				return true
			}
			// the cached value is renewed in the same block
			renews := false
			for _, b := range is.Body.List {
				if as, ok := b.(*ast.AssignStmt); ok && len(as.Lhs) == 1 && c04isIdent(as.Lhs[0], cached) {
					renews = true
				}
			}
			if !renews {
				good = false
			}
			return true
		})
		// a text that is rebuilt for every event without any cache is fine too
		uncond := false
		for _, b := range li.okBlock.Body.List {
			if as, ok := b.(*ast.AssignStmt); ok && len(as.Rhs) == 1 {
				if c, nm := c04callSel(as.Rhs[0]); c != nil && nm == "AsKVString" {
					uncond = true
				}
			}
		}
		li.cacheOK = uncond || (good && nRebuild == 1)
	}
	return li
}

func c04callSel2(n ast.Node) (*ast.CallExpr, string) {
	e, ok := n.(ast.Expr)
	if !ok {
		return nil, ""
	}
	if _, isCall := e.(*ast.CallExpr); !isCall {
		return nil, ""
	}
	return c04callSel(e)
}

// selector text without the last component, e.g. `mr.src1.le` -> ("mr.src1", "le")
func c04selSplit(e ast.Expr) (string, string) {
	se, ok := c04unparen(e).(*ast.SelectorExpr)
	if !ok {
		return "", ""
	}
	return c04exprStr(se.X), se.Sel.Name
}

// go files of /repo that are production code
func c04repoFiles() []string {
	var out []string
	filepath.Walk(repo, func(p string, info os.FileInfo, err error) error {
		if err != nil {
			return nil
		}
		if info.IsDir() {
			nm := info.Name()
			if nm == "vendor" || nm == ".git" || nm == "testdata" || strings.HasPrefix(nm, ".") && p != repo {
				return filepath.SkipDir
			}
			return nil
		}
		if !strings.HasSuffix(p, ".go") || strings.HasSuffix(p, "_test.go") || info.Name() == "mocks.go" {
			return nil
		}
		b, err := os.ReadFile(p)
		if err != nil {
			return nil
		}
		first := strings.SplitN(string(b), "\n", 2)[0]
		if strings.Contains(first, "go:build verif") || strings.Contains(first, "+build verif") {
			return nil
		}
		out = append(out, p)
		return nil
	})
	sort.Strings(out)
	return out
}

// functions (as "<dir>.<Recv>.<Func>" / "<dir>.<Func>") that contain a call matching pred
func c04callers(pred func(c *ast.CallExpr) bool) []string {
	set := map[string]bool{}
	for _, p := range c04repoFiles() {
		f, err := parser.ParseFile(fset, p, nil, 0)
		if err != nil {
			continue
		}
		rel, _ := filepath.Rel(repo, filepath.Dir(p))
		for _, d := range f.Decls {
			fd, ok := d.(*ast.FuncDecl)
			if !ok || fd.Body == nil {
				continue
			}
			hit := false
			ast.Inspect(fd.Body, func(n ast.Node) bool {
				if c, ok := n.(*ast.CallExpr); ok && pred(c) {
					hit = true
				}
				return true
			})
			if hit {
				nm := rel + "."
				if r := c04recv(fd); r != "" {
					nm += r + "."
				}
				set[nm+fd.Name.Name] = true
			}
		}
	}
	var out []string
	for k := range set {
		out = append(out, k)
	}
	sort.Strings(out)
	return out
}

func c04leanStrList(xs []string) string {
	q := make([]string, len(xs))
	for i, x := range xs {
		q[i] = leanStr(x)
	}
	return "[" + strings.Join(q, ", ") + "]"
}

// the statement that follows `…, E := <call named sel>(…)` in some statement list of fd, with E the last name on the left
func c04afterCall(fd *ast.FuncDecl, sel string) (next []ast.Stmt, errVar string) {
	if fd == nil {
		return nil, ""
	}
	c04stmtLists(fd.Body, func(list []ast.Stmt) {
		for i, s := range list {
			if c, names := c04assignFromCall(s, sel); c != nil && len(names) >= 1 && names[len(names)-1] != "" && next == nil {
				next, errVar = list[i+1:], names[len(names)-1]
			}
		}
	})
	return
}

// `if E != nil { …; return …, E' }` where E' is E or a call with E among its arguments (a wrap)
func c04returnsErr(s ast.Stmt, E string) bool {
	is, ok := s.(*ast.IfStmt)
	if !ok || c04nilCmp(is.Cond, E) != "!=" {
		return false
	}
	ok = false
	for _, b := range is.Body.List {
		if rs, isR := b.(*ast.ReturnStmt); isR && len(rs.Results) >= 1 {
			last := c04unparen(rs.Results[len(rs.Results)-1])
			if c04isIdent(last, E) {
				ok = true
			}
			if c, isC := last.(*ast.CallExpr); isC {
				for _, a := range c.Args {
					if c04isIdent(a, E) {
						ok = true
					}
				}
			}
		}
	}
	return ok
}

func c04callerFacts(l *leanFile) {
	cur := c04loadPkg("pkg/cursor")
	mdl := c04loadPkg("pkg/model")
	part := c04loadPkg("pkg/partition")
	bk := c04loadPkg("pkg/backend")
	rpc := c04loadPkg("api/rpc")

	// ---- A. the two read loops
	bq := bk.find("Querier", "Query")
	if bq == nil {
		problem("backend.Querier.Query not found")
	}
	sq := rpc.find("ServerQuerier", "query")
	if sq == nil {
		problem("rpc.ServerQuerier.query not found")
	}
	isAppend := func(n ast.Node) bool {
		c, nm := c04callSel2(n)
		return c != nil && nm == "append"
	}
	isWriteEv := func(n ast.Node) bool {
		c, nm := c04callSel2(n)
		return c != nil && nm == "writeLogEvent"
	}
	// backend success: an assignment to a field `.Events`, or of `new(…QueryResult)` / `&…QueryResult{}` to something
	bSuccess := func(n ast.Node) bool {
		as, ok := n.(*ast.AssignStmt)
		if !ok {
			return false
		}
		for _, lh := range as.Lhs {
			if se, ok := lh.(*ast.SelectorExpr); ok && se.Sel.Name == "Events" {
				return true
			}
		}
		for _, rh := range as.Rhs {
			if strings.Contains(c04exprStr(rh), "QueryResult") {
				return true
			}
		}
		return false
	}
	bHands := func(post []ast.Stmt, E string) bool {
		if len(post) == 0 {
			return false
		}
		rs, ok := post[len(post)-1].(*ast.ReturnStmt)
		return ok && len(rs.Results) == 2 && c04isIdent(rs.Results[1], E)
	}
	// rpc success: SendResponse(_, nil, _); hands on: `if E != nil { SendResponse(_, E, _) }`
	rSuccess := func(n ast.Node) bool {
		c, nm := c04callSel2(n)
		return c != nil && nm == "SendResponse" && len(c.Args) == 3 && c04isIdent(c.Args[1], "nil")
	}
	rHands := func(post []ast.Stmt, E string) bool {
		for _, s := range post {
			is, ok := s.(*ast.IfStmt)
			if !ok || c04nilCmp(is.Cond, E) != "!=" {
				continue
			}
			hit := false
			ast.Inspect(is.Body, func(n ast.Node) bool {
				if c, nm := c04callSel2(n); c != nil && nm == "SendResponse" && len(c.Args) == 3 && c04isIdent(c.Args[1], E) {
					hit = true
				}
				return true
			})
			if hit {
				return true
			}
		}
		return false
	}
	bl := c04queryLoop(bq, isAppend, bSuccess, bHands)
	rl := c04queryLoop(sq, isWriteEv, rSuccess, rHands)
	l.p("/-- `backend.Querier.Query`: the read loop runs while `err == nil` (err = third result of `cur.Get`), emits an event and calls")
	l.p("`Next` only under `if err == nil`, resets err only after a `WaitNewData` time-out, and builds the result only under")
	l.p("`if err == nil || err == io.EOF`; it returns err next to a nil result otherwise -/")
	l.p("def backendQueryFailsOnError : Bool := %s", leanBool(bl.failsOK))
	l.p("/-- `rpc.ServerQuerier.query`: the same loop; `SendResponse(id, nil, page)` only under `if err == nil || err == io.EOF`,")
	l.p("`SendResponse(id, err, empty)` under `if err != nil` -/")
	l.p("def rpcQueryFailsOnError : Bool := %s", leanBool(rl.failsOK))
	l.p("/-- both functions call `cur.Offset` exactly once, before the loop -/")
	l.p("def queryCallsOffsetBeforeLoop : Bool := %s", leanBool(bl.offsetOK && rl.offsetOK))

	// ---- B. tags travel with the event
	// B1 Mixer
	mixOK := false
	if ss, g := mdl.find("Mixer", "selectState"), mdl.find("Mixer", "Get"); ss != nil && g != nil {
		var prefixes []string
		good := true
		for _, fd := range mdl.reach(ss, 2) {
			ast.Inspect(fd.Body, func(n ast.Node) bool {
				as, ok := n.(*ast.AssignStmt)
				if !ok || len(as.Rhs) != 1 {
					return true
				}
				c, nm := c04callSel(as.Rhs[0])
				if c == nil || nm != "Get" || len(as.Lhs) != 3 {
					return true
				}
				p0, f0 := c04selSplit(as.Lhs[0])
				p1, f1 := c04selSplit(as.Lhs[1])
				// the iterator asked belongs to the same source: `<prefix>.it.Get`
				pit := ""
				if se, ok := c.Fun.(*ast.SelectorExpr); ok {
					pit, _ = c04selSplit(se.X)
				}
				if p0 == "" || p0 != p1 || f0 != "le" || f1 != "tags" || pit != p0 {
					good = false
				}
				prefixes = append(prefixes, p0)
				return true
			})
		}
		// a helper with a receiver (`(*srcDesc).fetch`: `s.le, s.tags, err = s.it.Get`) gives one assignment used for both sources
		distinct := map[string]bool{}
		for _, p := range prefixes {
			distinct[p] = true
		}
		if good && (len(prefixes) == 2 && len(distinct) == 2 || len(prefixes) == 1) {
			// Get: every `return X.le, Y.tags, …` has X == Y
			pair := true
			n := 0
			ast.Inspect(g.Body, func(x ast.Node) bool {
				rs, ok := x.(*ast.ReturnStmt)
				if !ok || len(rs.Results) != 3 {
					return true
				}
				p0, f0 := c04selSplit(rs.Results[0])
				p1, f1 := c04selSplit(rs.Results[1])
				if f0 == "le" || f1 == "tags" {
					n++
					if p0 == "" || p0 != p1 || f0 != "le" || f1 != "tags" {
						pair = false
					}
				}
				return true
			})
			// and state 1 answers the source fetched first, state 2 the one fetched second
			order := true
			if len(prefixes) == 2 {
				ast.Inspect(g.Body, func(x ast.Node) bool {
					cc, ok := x.(*ast.CaseClause)
					if !ok || len(cc.List) != 1 {
						return true
					}
					lit, ok := cc.List[0].(*ast.BasicLit)
					if !ok {
						return true
					}
					for _, s := range cc.Body {
						if rs, ok := s.(*ast.ReturnStmt); ok && len(rs.Results) == 3 {
							p0, _ := c04selSplit(rs.Results[0])
							if lit.Value == "1" && p0 != prefixes[0] || lit.Value == "2" && p0 != prefixes[1] {
								order = false
							}
						}
					}
					return true
				})
			}
			mixOK = pair && n == 2 && order
		}
	}
	l.p("/-- `Mixer.selectState` stores event and tag line of one `srcK.it.Get` into the same `srcK` (`srcK.le, srcK.tags, err = …`), and")
	l.p("`Mixer.Get` returns `srcK.le` together with `srcK.tags` of the same K (K = 1 for `st == 1`, the source fetched first) -/")
	l.p("def mixerKeepsTagsWithEvent : Bool := %s", leanBool(mixOK))

	// B2 LogEventIterator
	leafOK := false
	if w, g := mdl.find("LogEventIterator", "Wrap"), mdl.find("LogEventIterator", "Get"); w != nil && g != nil {
		ps := c04params(w)
		tagField := ""
		ast.Inspect(w.Body, func(n ast.Node) bool {
			if as, ok := n.(*ast.AssignStmt); ok && len(as.Lhs) == 1 && len(as.Rhs) == 1 && len(ps) == 2 && c04isIdent(as.Rhs[0], ps[0]) {
				_, tagField = c04selSplit(as.Lhs[0])
			}
			return true
		})
		all, n := true, 0
		ast.Inspect(g.Body, func(x ast.Node) bool {
			if rs, ok := x.(*ast.ReturnStmt); ok && len(rs.Results) == 3 {
				n++
				if _, f := c04selSplit(rs.Results[1]); f != tagField || tagField == "" {
					all = false
				}
			}
			return true
		})
		leafOK = all && n > 0
	}
	l.p("/-- `LogEventIterator.Get` answers, in every return, the tag line `Wrap` was given -/")
	l.p("def leafReportsOwnTags : Bool := %s", leanBool(leafOK))

	// B3 fiterator
	fitOK := false
	if g := cur.find("fiterator", "Get"); g != nil {
		var fx, fy string
		ast.Inspect(g.Body, func(n ast.Node) bool {
			as, ok := n.(*ast.AssignStmt)
			if !ok || len(as.Rhs) != 1 || len(as.Lhs) != 3 {
				return true
			}
			if c, nm := c04callSel(as.Rhs[0]); c != nil && nm == "Get" {
				fx, fy = c04exprStr(as.Lhs[0]), c04exprStr(as.Lhs[1])
			}
			return true
		})
		all, n := fx != "", 0
		ast.Inspect(g.Body, func(x ast.Node) bool {
			if rs, ok := x.(*ast.ReturnStmt); ok && len(rs.Results) == 3 {
				n++
				if c04exprStr(rs.Results[0]) != fx || c04exprStr(rs.Results[1]) != fy {
					all = false
				}
			}
			return true
		})
		fitOK = all && n > 0
	}
	l.p("/-- the filter iterator caches event and tag line of one `Get` together and returns them together -/")
	l.p("def filterKeepsTagsWithEvent : Bool := %s", leanBool(fitOK))

	// B4 newCursor: Wrap(T, J) with J = itf.Itearator(JR, …) and (T, JR) an entry of the map getSourcesByState returned
	wrapOK := false
	if nc := cur.find("", "newCursor"); nc != nil {
		n, good := 0, true
		for _, fd := range cur.reach(nc, 2) {
			// the map: second result of getSourcesByState (in newCursor), or — in a helper — any parameter of map type
			maps := map[string]bool{}
			ast.Inspect(fd.Body, func(x ast.Node) bool {
				if s, ok := x.(ast.Stmt); ok {
					if c, names := c04assignFromCall(s, "getSourcesByState"); c != nil && len(names) == 3 {
						maps[names[1]] = true
					}
				}
				return true
			})
			if fd.Type.Params != nil {
				for _, f := range fd.Type.Params.List {
					if _, ok := f.Type.(*ast.MapType); ok {
						for _, nm := range f.Names {
							maps[nm.Name] = true
						}
					}
				}
			}
			ast.Inspect(fd.Body, func(x ast.Node) bool {
				rs, ok := x.(*ast.RangeStmt)
				if !ok {
					return true
				}
				ast.Inspect(rs.Body, func(y ast.Node) bool {
					c, nm := c04callSel2(y)
					if c == nil || nm != "Wrap" || len(c.Args) != 2 {
						return true
					}
					if inner, ok := y.(*ast.CallExpr); ok {
						// only count it for the innermost enclosing range statement
						encl := false
						ast.Inspect(rs.Body, func(z ast.Node) bool {
							if r2, ok := z.(*ast.RangeStmt); ok && r2.Pos() <= inner.Pos() && inner.End() <= r2.End() {
								encl = true
							}
							return true
						})
						if encl {
							return true
						}
					}
					n++
					T, J := c04exprStr(c.Args[0]), c04exprStr(c.Args[1])
					// J := X.Itearator(JR, …) in this range body
					JR := ""
					ast.Inspect(rs.Body, func(z ast.Node) bool {
						if s, ok := z.(ast.Stmt); ok {
							if ic, names := c04assignFromCall(s, "Itearator"); ic != nil && len(names) == 1 && names[0] == J && len(ic.Args) >= 1 {
								JR = c04exprStr(ic.Args[0])
							}
						}
						return true
					})
					okPair := false
					key, val := "", ""
					if rs.Key != nil {
						key = c04exprStr(rs.Key)
					}
					if rs.Value != nil {
						val = c04exprStr(rs.Value)
					}
					if maps[c04exprStr(rs.X)] && key == T && val == JR && JR != "" {
						okPair = true // for T, JR := range srcs
					}
					if !okPair && JR != "" && (val == T || key == T && rs.Value == nil) {
						// for _, T := range <sorted keys> { JR := srcs[T] }
						ast.Inspect(rs.Body, func(z ast.Node) bool {
							as, ok := z.(*ast.AssignStmt)
							if !ok || len(as.Lhs) != 1 || len(as.Rhs) != 1 || c04exprStr(as.Lhs[0]) != JR {
								return true
							}
							if ie, ok := c04unparen(as.Rhs[0]).(*ast.IndexExpr); ok && maps[c04exprStr(ie.X)] && c04exprStr(ie.Index) == T {
								okPair = true
							}
							return true
						})
					}
					if !okPair {
						good = false
					}
					return true
				})
				return true
			})
		}
		// crsr.Get hands the iterator's answer on unchanged
		direct := false
		if cg := cur.find("crsr", "Get"); cg != nil && len(cg.Body.List) == 1 {
			if rs, ok := cg.Body.List[0].(*ast.ReturnStmt); ok && len(rs.Results) == 1 {
				if c, nm := c04callSel(rs.Results[0]); c != nil && nm == "Get" {
					direct = true
				}
			}
		}
		wrapOK = good && n >= 1 && direct
	}
	l.p("/-- every `LogEventIterator.Wrap(tags, jit)` in `newCursor` wraps the iterator made for journal `srcs[tags]` with that very map key,")
	l.p("and `crsr.Get` returns `cur.it.Get(ctx)` unchanged -/")
	l.p("def cursorWrapsJournalWithItsTagLine : Bool := %s", leanBool(wrapOK))

	// B5 result + encoder
	var order []string
	encOK := false
	if w := rpc.find("", "writeLogEvent"); w != nil {
		ps := c04params(w)
		if len(ps) == 2 {
			ev := ps[0]
			for _, s := range w.Body.List {
				// top level: `n, err := ow.WriteX(ev.F)` / `n, err = …` / `return …`
				ast.Inspect(s, func(x ast.Node) bool {
					if _, isIf := x.(*ast.IfStmt); isIf {
						return false // nothing nested counts
					}
					c, nm := c04callSel2(x)
					if c == nil || !strings.HasPrefix(nm, "Write") || len(c.Args) != 1 {
						return true
					}
					arg := c04unparen(c.Args[0])
					if conv, ok := arg.(*ast.CallExpr); ok && len(conv.Args) == 1 {
						arg = c04unparen(conv.Args[0]) // uint64(ev.Timestamp)
					}
					if p, f := c04selSplit(arg); p == ev {
						order = append(order, f)
					}
					return true
				})
			}
			for _, f := range order {
				if f == "Tags" {
					encOK = true
				}
			}
		}
	}
	l.p("/-- both read loops set `le.Tags` from the tag line the same `cur.Get` returned, for every event; the RPC encoder's")
	l.p("`writeLogEvent` writes `ev.Tags` unconditionally for every event (nothing is elided for equal consecutive tag lines) -/")
	l.p("def queryResultCarriesTags : Bool := %s", leanBool(bl.tagsOK && rl.tagsOK && encOK))
	l.p("/-- both read loops keep a one-entry cache of the fields text and rebuild it (and renew the cached fields) whenever the event's")
	l.p("fields differ from the cached ones — the condition is exactly `<ev>.Fields != <cached>`, no further conjunct (such as")
	l.p("`len(<ev>.Fields) > 0 &&`, which would send an event without fields with the text of the previous event) -/")
	l.p("def fieldsCacheRefreshedOnAnyDifference : Bool := %s", leanBool(bl.cacheOK && rl.cacheOK))
	l.p("/-- the fields of an event in the order `writeLogEvent` writes them -/")
	l.p("def wireEventFieldOrder : List String := %s", c04leanStrList(order))

	// ---- C. the limit error reaches the client
	isSel := func(name string) func(c *ast.CallExpr) bool {
		return func(c *ast.CallExpr) bool {
			se, ok := c.Fun.(*ast.SelectorExpr)
			return ok && se.Sel.Name == name
		}
	}
	gjCallers := c04callers(isSel("GetJournals"))
	ncCallers := c04callers(func(c *ast.CallExpr) bool { return c04isIdent(c.Fun, "newCursor") })
	gocCallers := c04callers(func(c *ast.CallExpr) bool {
		se, ok := c.Fun.(*ast.SelectorExpr)
		return ok && se.Sel.Name == "GetOrCreate" && strings.Contains(c04exprStr(se.X), "CurProvider")
	})
	l.p("/-- the functions of /repo (production files) that call a method `GetJournals` -/")
	l.p("def getJournalsCallers : List String := %s", c04leanStrList(gjCallers))
	l.p("/-- … that call `newCursor` -/")
	l.p("def newCursorCallers : List String := %s", c04leanStrList(ncCallers))
	l.p("/-- … that call `CurProvider.GetOrCreate` -/")
	l.p("def getOrCreateCallers : List String := %s", c04leanStrList(gocCallers))

	prop := true
	why := func(cond bool, what string) {
		if !cond {
			prop = false
			os.Stderr.WriteString("extract C04: limitErrorPropagates: " + what + "\n")
		}
	}
	// (i) itfactory.GetJournals returns the service's answer directly
	if f := cur.find("itfactory", "GetJournals"); f != nil {
		ok := false
		if len(f.Body.List) == 1 {
			if rs, isR := f.Body.List[0].(*ast.ReturnStmt); isR && len(rs.Results) == 1 {
				if c, nm := c04callSel(rs.Results[0]); c != nil && nm == "GetJournals" {
					ok = true
				}
			}
		}
		why(ok, "itfactory.GetJournals does not return Parts.GetJournals(...) directly")
	} else {
		why(false, "itfactory.GetJournals not found")
	}
	// (ii) getSourcesByState: the error of GetJournals goes to the named error result; later assignments to it are followed by return
	if f := cur.find("", "getSourcesByState"); f != nil && f.Type.Results != nil {
		resErr := ""
		rl := f.Type.Results.List
		if n := len(rl); n > 0 && len(rl[n-1].Names) > 0 {
			resErr = rl[n-1].Names[len(rl[n-1].Names)-1].Name
		}
		var at token.Pos
		ast.Inspect(f.Body, func(x ast.Node) bool {
			if s, ok := x.(ast.Stmt); ok {
				if c, names := c04assignFromCall(s, "GetJournals"); c != nil && len(names) == 2 && names[1] == resErr && resErr != "" {
					if as := s.(*ast.AssignStmt); as.Tok == token.ASSIGN {
						at = s.Pos()
					}
				}
			}
			return true
		})
		why(at != token.NoPos, "getSourcesByState does not assign GetJournals' error to its named error result")
		okLater := true
		c04stmtLists(f.Body, func(list []ast.Stmt) {
			for i, s := range list {
				as, ok := s.(*ast.AssignStmt)
				if !ok || s.Pos() <= at || as.Tok != token.ASSIGN {
					continue
				}
				for _, lh := range as.Lhs {
					if c04isIdent(lh, resErr) {
						if i+1 >= len(list) {
							okLater = false
						} else if _, isR := list[i+1].(*ast.ReturnStmt); !isR {
							okLater = false
						}
					}
				}
			}
		})
		why(okLater, "getSourcesByState overwrites the error after GetJournals without returning")
		// all returns are bare (named results) or return the named error
		ast.Inspect(f.Body, func(x ast.Node) bool {
			if rs, ok := x.(*ast.ReturnStmt); ok && len(rs.Results) > 0 {
				if !c04isIdent(rs.Results[len(rs.Results)-1], resErr) {
					why(false, "getSourcesByState has a return that does not hand on its error result")
				}
			}
			return true
		})
	} else {
		why(false, "getSourcesByState not found")
	}
	// (iii) newCursor
	noSrc := ""
	if nc := cur.find("", "newCursor"); nc != nil {
		next, E := c04afterCall(nc, "getSourcesByState")
		why(len(next) > 0 && c04returnsErr(next[0], E), "newCursor does not return getSourcesByState's error at once")
		// the error returned for an empty source set
		ast.Inspect(nc.Body, func(x ast.Node) bool {
			is, ok := x.(*ast.IfStmt)
			if !ok {
				return true
			}
			isLen := func(e ast.Expr) bool { c, nm := c04callSel(e); return c != nil && nm == "len" }
			isZero := func(e ast.Expr) bool { b, ok := e.(*ast.BasicLit); return ok && b.Value == "0" }
			if c04cmpOp(is.Cond, isLen, isZero) == "==" {
				for _, b := range is.Body.List {
					if rs, ok := b.(*ast.ReturnStmt); ok && len(rs.Results) == 2 {
						if id, ok := rs.Results[1].(*ast.Ident); ok {
							noSrc = id.Name
						}
					}
				}
			}
			return true
		})
	} else {
		why(false, "newCursor not found")
	}
	// (iv) provider.GetOrCreate
	if g := cur.find("provider", "GetOrCreate"); g != nil {
		next, E := c04afterCall(g, "newCursor")
		ok := false
		for _, s := range next {
			if c04returnsErr(s, E) {
				ok = true
				break
			}
			is, isIf := s.(*ast.IfStmt)
			if !isIf || noSrc == "" {
				break
			}
			// only `if E == errNoSources {…}` may stand between
			if c04cmpOp(is.Cond, func(x ast.Expr) bool { return c04isIdent(x, E) }, func(x ast.Expr) bool { return c04isIdent(x, noSrc) }) != "==" {
				break
			}
		}
		why(ok, "provider.GetOrCreate does not return newCursor's error (only the no-sources error may be turned into an empty cursor)")
	} else {
		why(false, "provider.GetOrCreate not found")
	}
	// (v) the two Query functions
	for _, q := range []struct {
		fd   *ast.FuncDecl
		name string
		rpc  bool
	}{{bq, "backend.Querier.Query", false}, {sq, "rpc.ServerQuerier.query", true}} {
		next, E := c04afterCall(q.fd, "GetOrCreate")
		ok := false
		if len(next) > 0 {
			if !q.rpc {
				ok = c04returnsErr(next[0], E)
			} else if is, isIf := next[0].(*ast.IfStmt); isIf && c04nilCmp(is.Cond, E) == "!=" {
				sent, ret := false, false
				for _, b := range is.Body.List {
					if es, isE := b.(*ast.ExprStmt); isE {
						if c, nm := c04callSel(es.X); c != nil && nm == "SendResponse" && len(c.Args) == 3 && c04isIdent(c.Args[1], E) {
							sent = true
						}
					}
					if _, isR := b.(*ast.ReturnStmt); isR {
						ret = true
					}
				}
				ok = sent && ret
			}
		}
		why(ok, q.name+" does not answer GetOrCreate's error")
	}
	// (vi) GetJournals: the limit branch makes a real error and the function returns it with a nil map
	ctor := ""
	if gj := part.find("Service", "GetJournals"); gj != nil {
		ps := c04params(gj)
		limVar := ""
		errV := ""
		ast.Inspect(gj.Body, func(x ast.Node) bool {
			is, ok := x.(*ast.IfStmt)
			if !ok || len(ps) != 3 {
				return true
			}
			isLen := func(e ast.Expr) bool { c, nm := c04callSel(e); return c != nil && nm == "len" }
			isLim := func(e ast.Expr) bool { return c04isIdent(e, ps[2]) }
			if c04cmpOp(is.Cond, isLen, isLim) == "" {
				return true
			}
			limVar = ps[2]
			for _, b := range is.Body.List {
				if as, ok := b.(*ast.AssignStmt); ok && len(as.Lhs) == 1 && len(as.Rhs) == 1 {
					if c, _ := c04callSel(as.Rhs[0]); c != nil {
						if id, ok := as.Lhs[0].(*ast.Ident); ok {
							errV = id.Name
							ctor = c04exprStr(c.Fun)
						}
					}
				}
			}
			return true
		})
		why(limVar != "" && errV != "", "GetJournals' limit branch does not assign an error")
		why(ctor == "errors.Errorf" || ctor == "fmt.Errorf" || ctor == "errors.New", "GetJournals' limit error is not built by errors.Errorf / fmt.Errorf / errors.New (a Wrap of nil is nil)")
		// the final return hands on R with R == errV or `R = errV` under a test of errV, and the map is set to nil under a test of errV
		handed, nilled := false, false
		if n := len(gj.Body.List); n > 0 {
			if rs, ok := gj.Body.List[n-1].(*ast.ReturnStmt); ok && len(rs.Results) == 2 {
				R := c04exprStr(rs.Results[1])
				M := c04exprStr(rs.Results[0])
				if R == errV {
					handed = true
				}
				ast.Inspect(gj.Body, func(x ast.Node) bool {
					is, ok := x.(*ast.IfStmt)
					if !ok {
						return true
					}
					tests := false
					for _, c := range c04flatten(is.Cond, token.LOR) {
						if c04nilCmp(c, errV) == "!=" {
							tests = true
						}
					}
					if !tests {
						return true
					}
					ast.Inspect(is.Body, func(y ast.Node) bool {
						if as, ok := y.(*ast.AssignStmt); ok && len(as.Lhs) == 1 && len(as.Rhs) == 1 {
							if c04exprStr(as.Lhs[0]) == R && c04isIdent(as.Rhs[0], errV) {
								handed = true
							}
							if c04exprStr(as.Lhs[0]) == M && c04isIdent(as.Rhs[0], "nil") {
								nilled = true
							}
						}
						return true
					})
					return true
				})
			}
		}
		why(handed, "GetJournals does not return the limit error")
		why(nilled, "GetJournals does not drop the partial map when it fails")
	} else {
		why(false, "partition.Service.GetJournals not found")
	}
	l.p("/-- the merge-limit error is a real error value (`limitErrorConstructor`), `GetJournals` returns it next to a nil map, and")
	l.p("`itfactory.GetJournals`, `getSourcesByState`, `newCursor`, `provider.GetOrCreate` (which turns only the no-sources error into")
	l.p("an empty cursor) and both `Query` functions hand it on: no caller catches or ignores it -/")
	l.p("def limitErrorPropagates : Bool := %s", leanBool(prop))
	l.p("def limitErrorConstructor : String := %s", leanStr(ctor))

	// ---- D. the page boundary and the re-position of a held cursor
	// D1 commit: whatever asks the iterator tree (State, Get) comes before the Release; nothing asks it afterwards
	commitOK := false
	if cm := cur.find("crsr", "commit"); cm != nil {
		var rel token.Pos
		ast.Inspect(cm.Body, func(n ast.Node) bool {
			if c, nm := c04callSel2(n); c != nil && nm == "Release" && rel == token.NoPos {
				rel = c.Pos()
			}
			return true
		})
		asksAfter, asksBefore := false, false
		ast.Inspect(cm.Body, func(n ast.Node) bool {
			if c, nm := c04callSel2(n); c != nil && (nm == "State" || nm == "Get" || nm == "Next") {
				if rel != token.NoPos && c.Pos() > rel {
					asksAfter = true
				} else {
					asksBefore = true
				}
			}
			return true
		})
		commitOK = rel != token.NoPos && asksBefore && !asksAfter
	} else {
		problem("cursor.crsr.commit not found")
	}
	l.p("/-- `crsr.commit` (the end of every request): `State` — whose `Get` may set the mixers' sticky eof flags — runs BEFORE")
	l.p("`cur.it.Release()`, and nothing asks the iterator tree after the release: the tree a held cursor keeps is a released one -/")
	l.p("def commitReleasesLast : Bool := %s", leanBool(commitOK))
	// D2 applyStatePos: no loop both moves an iterator (SetPos) and can refuse the position (return of a non-nil error)
	atomic := false
	if ap := cur.find("crsr", "applyStatePos"); ap != nil {
		nSet, mixed := 0, false
		check := func(body *ast.BlockStmt) {
			sets, refuses := false, false
			ast.Inspect(body, func(n ast.Node) bool {
				if c, nm := c04callSel2(n); c != nil && nm == "SetPos" {
					sets = true
				}
				if rs, ok := n.(*ast.ReturnStmt); ok && len(rs.Results) == 1 && !c04isIdent(rs.Results[0], "nil") {
					refuses = true
				}
				return true
			})
			if sets && refuses {
				mixed = true
			}
		}
		ast.Inspect(ap.Body, func(n ast.Node) bool {
			switch x := n.(type) {
			case *ast.RangeStmt:
				check(x.Body)
			case *ast.ForStmt:
				check(x.Body)
			}
			if c, nm := c04callSel2(n); c != nil && nm == "SetPos" {
				nSet++
			}
			return true
		})
		// and every refusal precedes the first move
		var firstSet, lastRefuse token.Pos
		ast.Inspect(ap.Body, func(n ast.Node) bool {
			if c, nm := c04callSel2(n); c != nil && nm == "SetPos" && firstSet == token.NoPos {
				firstSet = c.Pos()
			}
			if rs, ok := n.(*ast.ReturnStmt); ok && len(rs.Results) == 1 && !c04isIdent(rs.Results[0], "nil") {
				lastRefuse = rs.Pos()
			}
			return true
		})
		atomic = nSet > 0 && !mixed && lastRefuse < firstSet
	} else {
		problem("cursor.crsr.applyStatePos not found")
	}
	l.p("/-- `crsr.applyStatePos` parses the whole position string before it moves any journal iterator: no loop contains both a")
	l.p("`SetPos` and a `return <error>`, and every refusal precedes the first `SetPos` -/")
	l.p("def applyStatePosParsesBeforeMoving : Bool := %s", leanBool(atomic))
}
