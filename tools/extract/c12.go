package main

// C12: the LQL grammar (participle struct tags of pkg/lql/parser.go) and the lexer's token classes, as Lean data.
//
//   - grammar      : one engine node tree per struct, regenerated from the struct tags (mirrors participle v0.2.1
//                    grammar.go: disjunction > sequence > term with ?,* modifiers, [..] optional, {..} repetition,
//                    @ capture, @@ struct capture, "lit", Token reference)
//   - fieldType    : Go type of every field (drives the typed application of captures)
//   - fieldOrder   : field order per struct
//   - keywords     : the alternatives of the lexer's Keyword group, in order
//   - lexer facts  : the order of the token groups and whether the non-keyword groups still have the text the
//                    hand-written model lexer (Logrange/Model/LqlLexer.lean) implements
//   - isPrintRanges: strconv.IsPrint of the toolchain (strconv.Quote is what every printer uses for string values)

import (
	"bytes"
	"fmt"
	"go/ast"
	"go/token"
	"io/ioutil"
	"os"
	"path/filepath"
	"strconv"
	"strings"
	"text/scanner"
)

type c12tok struct {
	typ   rune
	val   string
	field string
}
type c12field struct{ name, typ string }

type c12gen struct {
	structs map[string][]c12field
}

func c12typeStr(e ast.Expr) string {
	switch t := e.(type) {
	case *ast.Ident:
		return t.Name
	case *ast.StarExpr:
		return "*" + c12typeStr(t.X)
	case *ast.ArrayType:
		return "[]" + c12typeStr(t.Elt)
	case *ast.SelectorExpr:
		return c12typeStr(t.X) + "." + t.Sel.Name
	}
	return "?"
}

type c12p struct {
	g    *c12gen
	toks []c12tok
	i    int
	bad  bool
}

func (p *c12p) peek() c12tok {
	if p.i < len(p.toks) {
		return p.toks[p.i]
	}
	return c12tok{typ: scanner.EOF}
}
func (p *c12p) next() c12tok { t := p.peek(); p.i++; return t }

func c12bytesLit(s string) string {
	parts := make([]string, len(s))
	for i := 0; i < len(s); i++ {
		parts[i] = fmt.Sprint(s[i])
	}
	return "[" + strings.Join(parts, ", ") + "]"
}

func (p *c12p) disj(owner string) string {
	alts := []string{p.seq(owner)}
	for p.peek().typ == '|' {
		p.next()
		alts = append(alts, p.seq(owner))
	}
	if len(alts) == 1 {
		return alts[0]
	}
	return "(.disj [" + strings.Join(alts, ", ") + "])"
}
func (p *c12p) seq(owner string) string {
	var terms []string
	for {
		t := p.term(owner)
		if t == "" {
			break
		}
		terms = append(terms, t)
	}
	if len(terms) == 0 {
		p.bad = true
		return "(.seq [])"
	}
	if len(terms) == 1 {
		return terms[0]
	}
	return "(.seq [" + strings.Join(terms, ", ") + "])"
}
func (p *c12p) baseType(owner, fld string) string {
	for _, f := range p.g.structs[owner] {
		if f.name == fld {
			return strings.TrimLeft(strings.TrimPrefix(strings.TrimLeft(f.typ, "*"), "[]"), "*")
		}
	}
	return "?"
}
func (p *c12p) termNoMod(owner string) string {
	t := p.peek()
	switch t.typ {
	case '@':
		p.next()
		fld := t.field
		if p.peek().typ == '@' {
			p.next()
			return fmt.Sprintf("(.capture %s (.strct %s))", strconv.Quote(fld), strconv.Quote(p.baseType(owner, fld)))
		}
		return fmt.Sprintf("(.capture %s %s)", strconv.Quote(fld), p.termNoMod(owner))
	case scanner.String, scanner.RawString, scanner.Char:
		p.next()
		s, err := strconv.Unquote(t.val)
		if err != nil {
			p.bad = true
		}
		if p.peek().typ == ':' { // "lit":Type is not used by this grammar; the engine model has no typed literal
			p.bad = true
		}
		return "(.lit " + c12bytesLit(s) + " /- " + strings.Replace(s, "-/", "- /", -1) + " -/)"
	case '[':
		p.next()
		d := p.disj(owner)
		if p.next().typ != ']' {
			p.bad = true
		}
		return "(.group " + d + " .zeroOrOne)"
	case '{':
		p.next()
		d := p.disj(owner)
		if p.next().typ != '}' {
			p.bad = true
		}
		return "(.group " + d + " .zeroOrMore)"
	case '(':
		p.next()
		d := p.disj(owner)
		if p.next().typ != ')' {
			p.bad = true
		}
		return "(.group " + d + " .once)"
	case scanner.Ident:
		p.next()
		switch t.val {
		case "Keyword", "Ident", "String", "Operator", "Number", "Tags":
			return "(.ref ." + strings.ToLower(t.val) + ")"
		}
		p.bad = true
		return "(.ref .ident)"
	}
	return ""
}
func (p *c12p) term(owner string) string {
	t := p.peek()
	out := p.termNoMod(owner)
	if out == "" {
		return ""
	}
	if t.typ == '[' || t.typ == '{' {
		return out
	}
	switch p.peek().typ {
	case '?':
		p.next()
		return "(.group " + out + " .zeroOrOne)"
	case '*':
		p.next()
		return "(.group " + out + " .zeroOrMore)"
	case '+', '!':
		p.bad = true // not used by this grammar; the engine model has no such mode
		p.next()
	}
	return out
}

// the token groups of the lexer pattern the hand-written model lexer implements (pkg/lql/parser.go, lqlLexer)
var c12expectGroups = []struct{ name, body string }{
	{"", `(\s+)`},
	{"Keyword", ""}, // alternatives are extracted
	{"Ident", `[a-zA-Z_][a-z\./\-A-Z0-9_:]*`},
	{"String", `"([^\\"]|\\.)*"|'[^']*'`},
	{"Operator", `<>|!=|<=|>=|[-+*/%,.=<>()]`},
	{"Number", `[-+]?\d*\.?\d+([eE][-+]?\d+|[mMkKgGtTbBpP][ib]{0,2})?`},
	{"Tags", `\{.+\}`},
}

// the quote-aware Tags pattern of proposed-fixes/F12a.diff: the token ends at the first run of `}` outside a double-quoted
// segment that is not directly followed by a byte that continues a value; the model lexer implements both
const c12TagsQuoteAware = `\{(?:[^}"\n]|"(?:[^"\\\n]|\\.)*"|\}+[^\s}"])+\}+(?: *\})*`

func init() {
	generators["C12"] = func() {
		g := &c12gen{structs: map[string][]c12field{}}
		f := parseFile("pkg/lql/parser.go")
		var sb bytes.Buffer
		sb.WriteString("import Logrange.Model.LqlGrammar\n/-! GENERATED by /verif/tools/extract (c12.go) from /repo/pkg/lql/parser.go — do not edit.\n" +
			"The LQL grammar as participle reads it from the struct tags, the field types, the lexer's keyword list and\nstrconv.IsPrint of the Go toolchain in use. -/\nnamespace Logrange.Generated.C12\nopen Logrange.Lql Logrange.Lql.Node\n\n")
		if f == nil {
			problem("C12: pkg/lql/parser.go not found")
			return
		}
		tags := map[string][]c12tok{}
		var order []string
		var lexPattern string
		lexFound := false
		for _, d := range f.Decls {
			gd, ok := d.(*ast.GenDecl)
			if !ok {
				continue
			}
			if gd.Tok == token.VAR {
				for _, s := range gd.Specs {
					vs := s.(*ast.ValueSpec)
					for i, n := range vs.Names {
						if n.Name == "lqlLexer" && i < len(vs.Values) {
							lexFound = true
							ast.Inspect(vs.Values[i], func(x ast.Node) bool {
								if bl, ok := x.(*ast.BasicLit); ok && bl.Kind == token.STRING {
									s, _ := strconv.Unquote(bl.Value)
									lexPattern += s
								}
								return true
							})
						}
					}
				}
			}
			if gd.Tok != token.TYPE {
				continue
			}
			for _, s := range gd.Specs {
				ts := s.(*ast.TypeSpec)
				st, ok := ts.Type.(*ast.StructType)
				if !ok {
					continue
				}
				hasTag := false
				for _, fl := range st.Fields.List {
					for _, n := range fl.Names {
						g.structs[ts.Name.Name] = append(g.structs[ts.Name.Name], c12field{n.Name, c12typeStr(fl.Type)})
					}
					if fl.Tag == nil || len(fl.Names) == 0 {
						continue
					}
					hasTag = true
					raw, _ := strconv.Unquote(fl.Tag.Value)
					var sc scanner.Scanner
					sc.Init(strings.NewReader(raw))
					sc.Mode = scanner.ScanIdents | scanner.ScanStrings | scanner.ScanRawStrings | scanner.ScanChars
					sc.Error = func(*scanner.Scanner, string) {}
					for t := sc.Scan(); t != scanner.EOF; t = sc.Scan() {
						tags[ts.Name.Name] = append(tags[ts.Name.Name], c12tok{t, sc.TokenText(), fl.Names[0].Name})
					}
				}
				if hasTag {
					order = append(order, ts.Name.Name)
				}
			}
		}
		if len(order) == 0 {
			problem("C12: no struct with participle tags found in pkg/lql/parser.go")
		}
		// ---- lexer facts
		var keywords []string
		groupsOk := true
		tagsQuoteAware := false
		if !lexFound {
			problem("C12: var lqlLexer not found in pkg/lql/parser.go")
			groupsOk = false
		} else {
			// split the alternation at top level: "(\s+)" then "|(?P<Name>body)" ...
			parts := strings.Split(lexPattern, "|(?P<")
			if len(parts) != len(c12expectGroups) || parts[0] != c12expectGroups[0].body {
				groupsOk = false
				problem("C12: the lexer pattern no longer has the 1+6 token groups the model lexer implements: %q", lexPattern)
			} else {
				for i := 1; i < len(parts); i++ {
					p := parts[i]
					gt := strings.Index(p, ">")
					if gt < 0 || !strings.HasSuffix(p, ")") {
						groupsOk = false
						problem("C12: cannot read token group %d of the lexer pattern", i)
						continue
					}
					name, body := p[:gt], p[gt+1:len(p)-1]
					if name != c12expectGroups[i].name {
						groupsOk = false
						problem("C12: token group %d of the lexer is %s, the model lexer expects %s (group order decides ties)", i, name, c12expectGroups[i].name)
						continue
					}
					if name == "Keyword" {
						if !strings.HasPrefix(body, "(?i)") {
							groupsOk = false
							problem("C12: the Keyword group is no longer case-insensitive")
						}
						for _, k := range strings.Split(strings.TrimPrefix(body, "(?i)"), "|") {
							k = strings.Replace(k, `\`, "", -1)
							if k == "" || strings.ContainsAny(k, "()*+?.{}^$") {
								groupsOk = false
								problem("C12: keyword alternative %q is not a plain literal", k)
							}
							keywords = append(keywords, k)
						}
					} else if name == "Tags" && body == c12TagsQuoteAware {
						tagsQuoteAware = true
					} else if body != c12expectGroups[i].body {
						groupsOk = false
						problem("C12: the lexer pattern of %s changed to %q; the hand-written model lexer implements %q", name, body, c12expectGroups[i].body)
					}
				}
			}
		}
		fmt.Fprintf(&sb, "/-- the token groups of `lqlLexer` are, in order, blanks, Keyword, Ident, String, Operator, Number, Tags and the\nnon-keyword groups have the pattern text the hand-written model lexer implements -/\ndef lexerGroupsAsModelled : Bool := %s\n\n", leanBool(groupsOk))
		fmt.Fprintf(&sb, "/-- the Tags group is the quote-aware pattern (ends at the first `}`-run outside a quoted segment that nothing continues)\ninstead of the greedy `\\{.+\\}` -/\ndef tagsQuoteAware : Bool := %s\n\n", leanBool(tagsQuoteAware))
		sb.WriteString("/-- the alternatives of the lexer's case-insensitive Keyword group, in order -/\ndef keywords : List (List UInt8) := [\n")
		for i, k := range keywords {
			sep := ","
			if i == len(keywords)-1 {
				sep = ""
			}
			fmt.Fprintf(&sb, "  %s%s  -- %s\n", c12bytesLit(k), sep, k)
		}
		sb.WriteString("]\n\n")
		// ---- grammar
		sb.WriteString("/-- regenerated from the struct tags of pkg/lql/parser.go -/\ndef grammar : String → Option Node\n")
		for _, name := range order {
			p := &c12p{g: g, toks: tags[name]}
			body := p.disj(name)
			if p.bad || p.i < len(p.toks) {
				problem("C12: struct tag of %s uses a construct the engine model does not implement (or does not parse)", name)
			}
			fmt.Fprintf(&sb, "  | %s => some %s\n", strconv.Quote(name), body)
		}
		sb.WriteString("  | _ => none\n\n/-- Go type of every field (drives value conversion when captures are applied) -/\ndef fieldType : String → String → String\n")
		for _, name := range order {
			for _, fi := range g.structs[name] {
				fmt.Fprintf(&sb, "  | %s, %s => %s\n", strconv.Quote(name), strconv.Quote(fi.name), strconv.Quote(fi.typ))
			}
		}
		sb.WriteString("  | _, _ => \"?\"\n\ndef fieldOrder : String → List String\n")
		for _, name := range order {
			fs := []string{}
			for _, fi := range g.structs[name] {
				fs = append(fs, strconv.Quote(fi.name))
			}
			fmt.Fprintf(&sb, "  | %s => [%s]\n", strconv.Quote(name), strings.Join(fs, ", "))
		}
		sb.WriteString("  | _ => []\n\ndef structNames : List String := [")
		for i, name := range order {
			if i > 0 {
				sb.WriteString(", ")
			}
			sb.WriteString(strconv.Quote(name))
		}
		sb.WriteString("]\n\n")
		// ---- printer shapes (Truncate.makeString, DateTime.String)
		unsignedSizes, unsignedDb, printsMaxDb, beforeOnce := true, true, false, true
		sizeClauses := 0
		if fd := funcDecl(f, "Truncate", "makeString"); fd == nil {
			problem("C12: Truncate.makeString not found")
		} else {
			mentions := func(n ast.Node, name string) bool {
				found := false
				ast.Inspect(n, func(x ast.Node) bool {
					if se, ok := x.(*ast.SelectorExpr); ok && se.Sel.Name == name {
						found = true
					}
					return true
				})
				return found
			}
			ast.Inspect(fd.Body, func(n ast.Node) bool {
				switch x := n.(type) {
				case *ast.CallExpr:
					if id, ok := x.Fun.(*ast.Ident); ok && id.Name == "int64" && len(x.Args) == 1 && (mentions(x.Args[0], "MinSize") || mentions(x.Args[0], "MaxSize")) {
						unsignedSizes = false
					}
					if id, ok := x.Fun.(*ast.Ident); ok && id.Name == "int64" && len(x.Args) == 1 && mentions(x.Args[0], "MaxDbSize") {
						unsignedDb = false
					}
					if id, ok := x.Fun.(*ast.Ident); ok && id.Name == "addStringIfNotEmpty" && len(x.Args) > 0 {
						if bl, ok := x.Args[0].(*ast.BasicLit); ok && strings.Contains(bl.Value, "BEFORE") {
							beforeOnce = false // addStringIfNotEmpty quotes what DateTime.String() already quoted
						}
					}
				case *ast.IfStmt:
					if mentions(x.Cond, "MaxDbSize") {
						printsMaxDb = true
					}
					if mentions(x.Cond, "MinSize") || mentions(x.Cond, "MaxSize") {
						sizeClauses++
					}
				}
				return true
			})
			if sizeClauses != 2 {
				problem("C12: Truncate.makeString no longer has one if-clause each for MinSize and MaxSize")
			}
		}
		layout, usesFormat := "", false
		if fd := funcDecl(f, "DateTime", "String"); fd == nil {
			problem("C12: DateTime.String not found")
		} else {
			calls := 0
			ast.Inspect(fd.Body, func(n ast.Node) bool {
				if ce, ok := n.(*ast.CallExpr); ok {
					if se, ok := ce.Fun.(*ast.SelectorExpr); ok {
						switch se.Sel.Name {
						case "Format":
							calls++
							usesFormat = true
							if len(ce.Args) == 1 {
								if bl, ok := ce.Args[0].(*ast.BasicLit); ok && bl.Kind == token.STRING {
									layout, _ = strconv.Unquote(bl.Value)
								} else if se2, ok := ce.Args[0].(*ast.SelectorExpr); ok {
									// a named layout of package time: the few a printer would plausibly use
									switch se2.Sel.Name {
									case "RFC3339":
										layout = "2006-01-02T15:04:05Z07:00"
									case "RFC3339Nano":
										layout = "2006-01-02T15:04:05.999999999Z07:00"
									}
								}
							}
						case "String":
							if _, isCall := se.X.(*ast.CallExpr); isCall { // time.Unix(...).String()
								calls++
							}
						}
					}
				}
				return true
			})
			if calls != 1 || (usesFormat && layout == "") {
				problem("C12: DateTime.String no longer prints through exactly one time.Time.String() / Format(<known layout>) call")
			}
		}
		// ---- ParseLql post-check: a Range without any time point is rejected
		rejectsEmptyRange := false
		if fd := funcDecl(f, "", "ParseLql"); fd == nil {
			problem("C12: func ParseLql not found")
		} else {
			ast.Inspect(fd.Body, func(n ast.Node) bool {
				is, ok := n.(*ast.IfStmt)
				if !ok {
					return true
				}
				sel := map[string]bool{}
				nilCmp := 0
				ast.Inspect(is.Cond, func(x ast.Node) bool {
					switch y := x.(type) {
					case *ast.SelectorExpr:
						sel[y.Sel.Name] = true
					case *ast.BinaryExpr:
						if id, ok := y.Y.(*ast.Ident); ok && id.Name == "nil" && y.Op == token.EQL {
							nilCmp++
						}
					}
					return true
				})
				returnsErr := false
				ast.Inspect(is.Body, func(x ast.Node) bool {
					if r, ok := x.(*ast.ReturnStmt); ok && len(r.Results) == 2 {
						if id, ok := r.Results[0].(*ast.Ident); ok && id.Name == "nil" {
							if id2, ok := r.Results[1].(*ast.Ident); !ok || id2.Name != "nil" {
								returnsErr = true
							}
						}
					}
					return true
				})
				if sel["Range"] && sel["TmPoint1"] && sel["TmPoint2"] && nilCmp >= 2 && returnsErr {
					rejectsEmptyRange = true
				}
				return true
			})
		}
		fmt.Fprintf(&sb, "/-- `ParseLql` rejects a SELECT whose Range has neither time point (post-check after the participle parse) -/\ndef parseLqlRejectsEmptyRange : Bool := %s\n", leanBool(rejectsEmptyRange))
		fmt.Fprintf(&sb, "/-- `Truncate.makeString` prints MINSIZE / MAXSIZE without converting them to `int64` -/\ndef truncateSizesUnsigned : Bool := %s\n", leanBool(unsignedSizes))
		fmt.Fprintf(&sb, "/-- … and MAXDBSIZE likewise -/\ndef truncateDbSizeUnsigned : Bool := %s\n", leanBool(unsignedDb))
		fmt.Fprintf(&sb, "/-- `Truncate.makeString` has a clause for `MaxDbSize` -/\ndef truncatePrintsMaxDbSize : Bool := %s\n", leanBool(printsMaxDb))
		fmt.Fprintf(&sb, "/-- `Truncate.makeString` writes `Before.String()` as it is (already quoted) instead of quoting it again -/\ndef beforeQuotedOnce : Bool := %s\n", leanBool(beforeOnce))
		fmt.Fprintf(&sb, "/-- `DateTime.String()` prints through `time.Time.Format(layout)` (false: through `time.Time.String()`) -/\ndef dateUsesFormat : Bool := %s\n", leanBool(usesFormat))
		fmt.Fprintf(&sb, "/-- the layout given to `Format` (empty when `String()` is used): %s -/\ndef dateLayout : List UInt8 := %s\n\n", strings.Replace(layout, "-/", "- /", -1), c12bytesLit(layout))
		// ---- the LQL date format list: the string literals handed to the `NewParser(...)` call that initialises a package-level
		// variable of pkg/lql/datetime.go (matched by shape, not by the variable's name)
		{
			df := parseFile("pkg/lql/datetime.go")
			var formats []string
			found := false
			for _, d := range df.Decls {
				gd, ok := d.(*ast.GenDecl)
				if !ok || gd.Tok != token.VAR {
					continue
				}
				for _, sp := range gd.Specs {
					vs, ok := sp.(*ast.ValueSpec)
					if !ok {
						continue
					}
					for _, v := range vs.Values {
						ce, ok := v.(*ast.CallExpr)
						if !ok || len(ce.Args) < 1 {
							continue
						}
						se, ok := ce.Fun.(*ast.SelectorExpr)
						if !ok || se.Sel.Name != "NewParser" {
							continue
						}
						cl, ok := ce.Args[0].(*ast.CompositeLit)
						if !ok {
							continue
						}
						found = true
						for _, e := range cl.Elts {
							if bl, ok := e.(*ast.BasicLit); ok && bl.Kind == token.STRING {
								if u, err := strconv.Unquote(bl.Value); err == nil {
									formats = append(formats, u)
								}
							}
						}
					}
				}
			}
			if !found {
				problem("pkg/lql/datetime.go: no package-level variable initialised by NewParser([]string{...})")
			}
			sb.WriteString("/-- the formats of the LQL date parser (pkg/lql/datetime.go), in order -/\ndef lqlDateFormats : List (List UInt8) := [\n")
			for i, f := range formats {
				sep := ","
				if i == len(formats)-1 {
					sep = ""
				}
				fmt.Fprintf(&sb, "  %s%s  -- %s\n", c12bytesLit(f), sep, strings.Replace(f, "-/", "- /", -1))
			}
			sb.WriteString("]\n\n")
		}
		// ---- package-level mutable state of pkg/lql (a memo of built filters / parsed texts makes what a text means depend on
		// what the process built before)
		{
			names := c12MutablePackageVars("pkg/lql")
			doc := "none"
			if len(names) > 0 {
				doc = strings.Join(names, ", ")
			}
			fmt.Fprintf(&sb, "/-- package-level variables of pkg/lql that the package's own code writes or whose type is a map / channel / sync.* container: %s -/\ndef lqlMutablePackageVars : Nat := %d\n\n", doc, len(names))
		}
		// ---- strconv.IsPrint
		sb.WriteString("/-- maximal ranges of runes with `strconv.IsPrint` (Go toolchain that builds the harness) -/\ndef isPrintRanges : Array (Nat × Nat) := #[")
		first := true
		start := -1
		for r := 0; r <= 0x110000; r++ {
			pr := r <= 0x10FFFF && strconv.IsPrint(rune(r))
			if pr && start < 0 {
				start = r
			}
			if !pr && start >= 0 {
				if !first {
					sb.WriteString(", ")
				}
				first = false
				fmt.Fprintf(&sb, "(%d, %d)", start, r-1)
				start = -1
			}
		}
		sb.WriteString("]\n\nend Logrange.Generated.C12\n")
		path := filepath.Join(outDir, "C12.lean")
		old, err := ioutil.ReadFile(path)
		if err == nil && bytes.Equal(old, sb.Bytes()) {
			return
		}
		if err := ioutil.WriteFile(path, sb.Bytes(), 0644); err != nil {
			fmt.Fprintln(os.Stderr, "extract:", err)
			os.Exit(2)
		}
	}
}
