package main

import (
	"go/ast"
	"go/token"
	"strconv"
	"strings"
)

// C20: both date-format lists and the `terms` table, plus the structural facts of parseLqlDateTime the model is
// parameterised by (does it lower-case / trim the literal before matching; the order of its four attempts).
//
// Everything is emitted as byte lists (`List UInt8`), not Lean strings, so that theorems can evaluate the tables in
// the kernel (`decide`) without going through String's UTF-8 representation.
func init() {
	generators["C20"] = func() {
		problemsBefore := len(problems)
		l := newLean("C20", "Facts about pkg/scanner/parser/date/date.go (KnownFormats, terms) and pkg/lql/datetime.go (dateTimeParser list,\nparseLqlDateTime).")

		strLit := func(e ast.Expr) (string, bool) {
			bl, ok := e.(*ast.BasicLit)
			if !ok || bl.Kind != token.STRING {
				return "", false
			}
			s, err := strconv.Unquote(bl.Value)
			return s, err == nil
		}
		strList := func(cl *ast.CompositeLit, what string) []string {
			var out []string
			for _, e := range cl.Elts {
				s, ok := strLit(e)
				if !ok {
					problem("%s: element is not a string literal", what)
					continue
				}
				out = append(out, s)
			}
			return out
		}
		// package-level `var name = <composite literal>`
		findVar := func(f *ast.File, name string) ast.Expr {
			if f == nil {
				return nil
			}
			for _, d := range f.Decls {
				gd, ok := d.(*ast.GenDecl)
				if !ok || gd.Tok != token.VAR {
					continue
				}
				for _, sp := range gd.Specs {
					vs := sp.(*ast.ValueSpec)
					for i, n := range vs.Names {
						if n.Name == name && i < len(vs.Values) {
							return vs.Values[i]
						}
					}
				}
			}
			return nil
		}

		df := parseFile("pkg/scanner/parser/date/date.go")
		var known []string
		if cl, ok := findVar(df, "KnownFormats").(*ast.CompositeLit); ok {
			known = strList(cl, "date.KnownFormats")
		} else {
			problem("date.KnownFormats not found")
		}
		type term struct{ f, l, e string }
		var terms []term
		if cl, ok := findVar(df, "terms").(*ast.CompositeLit); ok {
			for _, e := range cl.Elts {
				tl, ok := e.(*ast.CompositeLit)
				if !ok || len(tl.Elts) != 3 {
					problem("date.terms: entry is not a 3-field literal")
					continue
				}
				a, ok1 := strLit(tl.Elts[0])
				b, ok2 := strLit(tl.Elts[1])
				c, ok3 := strLit(tl.Elts[2])
				if !(ok1 && ok2 && ok3) {
					problem("date.terms: entry field is not a string literal")
					continue
				}
				terms = append(terms, term{a, b, c})
			}
		} else {
			problem("date.terms not found")
		}

		// the LQL list: var dateTimeParser = date.NewParser([]string{...}...)
		lf := parseFile("pkg/lql/datetime.go")
		var lqlList []string
		if ce, ok := findVar(lf, "dateTimeParser").(*ast.CallExpr); ok && len(ce.Args) == 1 {
			if cl, ok := ce.Args[0].(*ast.CompositeLit); ok {
				lqlList = strList(cl, "lql.dateTimeParser")
			} else {
				problem("lql.dateTimeParser: argument is not a composite literal")
			}
		} else {
			problem("lql.dateTimeParser not found")
		}

		// parseLqlDateTime: is the literal lower-cased / trimmed; in which order are the four attempts made
		lower, trim := false, false
		lowered := map[string]bool{} // variables assigned from strings.ToLower(..)
		fmtArg := ""                 // the variable handed to dateTimeParser.Parse
		order := []string{}
		if fd := funcDecl(lf, "", "parseLqlDateTime"); fd == nil {
			problem("lql.parseLqlDateTime not found")
		} else {
			ast.Inspect(fd.Body, func(n ast.Node) bool {
				if as, ok := n.(*ast.AssignStmt); ok && len(as.Lhs) == 1 && len(as.Rhs) == 1 {
					if c, ok := as.Rhs[0].(*ast.CallExpr); ok {
						if se, ok := c.Fun.(*ast.SelectorExpr); ok && se.Sel.Name == "ToLower" {
							if id, ok := as.Lhs[0].(*ast.Ident); ok {
								lowered[id.Name] = true
							}
						}
					}
				}
				ce, ok := n.(*ast.CallExpr)
				if !ok {
					return true
				}
				switch fn := ce.Fun.(type) {
				case *ast.SelectorExpr:
					x, _ := fn.X.(*ast.Ident)
					if x != nil && x.Name == "dateTimeParser" && fn.Sel.Name == "Parse" && len(ce.Args) == 1 {
						ast.Inspect(ce.Args[0], func(m ast.Node) bool {
							if id, ok := m.(*ast.Ident); ok && id.Name != "bytes" && id.Name != "StringToByteArray" && id.Name != "byte" {
								fmtArg = id.Name
							}
							return true
						})
					}
					if x != nil && x.Name == "strings" && fn.Sel.Name == "ToLower" {
						lower = true
					}
					if x != nil && x.Name == "strings" && fn.Sel.Name == "Trim" && len(ce.Args) == 2 {
						if s, ok := strLit(ce.Args[1]); ok && s == " " {
							trim = true
						}
					}
					if x != nil && x.Name == "dateTimeParser" && fn.Sel.Name == "Parse" {
						order = append(order, "formats")
					}
					if x != nil && x.Name == "strconv" && fn.Sel.Name == "ParseInt" {
						order = append(order, "integer")
					}
				case *ast.Ident:
					if fn.Name == "parseRalativeDateTime" {
						order = append(order, "relative")
					}
					if fn.Name == "parseConstantsDateTime" {
						order = append(order, "constants")
					}
				}
				return true
			})
		}
		// parseRalativeDateTime: is a negative (or NaN) number rejected — a comparison of the ParseFloat result with 0
		relNonNeg := false
		if fd := funcDecl(lf, "", "parseRalativeDateTime"); fd == nil {
			problem("lql.parseRalativeDateTime not found")
		} else {
			floatVar := ""
			inspectWithHelpers(lf, fd, 1, func(n ast.Node) bool {
				if as, ok := n.(*ast.AssignStmt); ok && len(as.Rhs) == 1 && len(as.Lhs) >= 1 {
					if c, ok := as.Rhs[0].(*ast.CallExpr); ok {
						if se, ok := c.Fun.(*ast.SelectorExpr); ok && se.Sel.Name == "ParseFloat" {
							if id, ok := as.Lhs[0].(*ast.Ident); ok {
								floatVar = id.Name
							}
						}
					}
				}
				if be, ok := n.(*ast.BinaryExpr); ok && floatVar != "" {
					isV := func(e ast.Expr) bool { id, ok := e.(*ast.Ident); return ok && id.Name == floatVar }
					isZ := func(e ast.Expr) bool { bl, ok := e.(*ast.BasicLit); return ok && (bl.Value == "0" || bl.Value == "0.0") }
					if (isV(be.X) && isZ(be.Y) && (be.Op == token.LSS || be.Op == token.GEQ)) || (isZ(be.X) && isV(be.Y) && (be.Op == token.GTR || be.Op == token.LEQ)) {
						relNonNeg = true
					}
				}
				return true
			})
		}
		// ast.Inspect visits `strings.ToLower(strings.Trim(..))` outer call first; the order list only holds the four attempts
		orderOK := len(order) == 4 && order[0] == "relative" && order[1] == "constants" && order[2] == "formats" && order[3] == "integer"

		// Format.Parse: which adjust functions are called
		adjYear, adjDate := false, false
		if fd := funcDecl(df, "Format", "Parse"); fd == nil {
			problem("date.Format.Parse not found")
		} else {
			inspectWithHelpers(df, fd, 2, func(n ast.Node) bool {
				if ce, ok := n.(*ast.CallExpr); ok {
					if id, ok := ce.Fun.(*ast.Ident); ok {
						if id.Name == "adjustYear" {
							adjYear = true
						}
						if id.Name == "adjustDate" {
							adjDate = true
						}
					}
				}
				return true
			})
		}

		// ---- line_parser.go: the fail/skip counters of lineParser.parse ---------------------------------------
		pf := parseFile("pkg/scanner/parser/line_parser.go")
		intLit := func(e ast.Expr) (int, bool) {
			bl, ok := e.(*ast.BasicLit)
			if !ok || bl.Kind != token.INT {
				return 0, false
			}
			v, err := strconv.Atoi(bl.Value)
			return v, err == nil
		}
		// is `lp.<field> = <rhs>` (rhs: int literal value, or identifier name) assigned somewhere below n
		assigns := func(n ast.Node, field string) (found bool, val int, ident string) {
			if n == nil {
				return
			}
			ast.Inspect(n, func(m ast.Node) bool {
				as, ok := m.(*ast.AssignStmt)
				if !ok || len(as.Lhs) != 1 || len(as.Rhs) != 1 || as.Tok != token.ASSIGN {
					return true
				}
				se, ok := as.Lhs[0].(*ast.SelectorExpr)
				if !ok || se.Sel.Name != field {
					return true
				}
				found = true
				if v, ok := intLit(as.Rhs[0]); ok {
					val = v
				}
				if id, ok := as.Rhs[0].(*ast.Ident); ok {
					ident = id.Name
				}
				return true
			})
			return
		}
		isFtNotNil := func(e ast.Expr) bool {
			be, ok := e.(*ast.BinaryExpr)
			if !ok || be.Op != token.NEQ {
				return false
			}
			x, ok1 := be.X.(*ast.Ident)
			y, ok2 := be.Y.(*ast.Ident)
			return ok1 && ok2 && x.Name == "ft" && y.Name == "nil"
		}
		maxFail, maxSkip, maxSkipDetect, skipCap := 0, 0, 0, 0
		resetFast, resetDetect, lastFast, lastDetect := false, false, false, false
		if fd := funcDecl(pf, "", "NewLineParser"); fd == nil {
			problem("parser.NewLineParser not found")
		} else {
			_, maxFail, _ = assigns(fd.Body, "maxFailCnt")
			_, maxSkip, _ = assigns(fd.Body, "maxSkipCnt")
		}
		if fd := funcDecl(pf, "lineParser", "parse"); fd == nil {
			problem("parser.lineParser.parse not found")
		} else {
			var fast, detect ast.Node
			for _, st := range fd.Body.List {
				switch x := st.(type) {
				case *ast.IfStmt:
					if fast == nil && isFtNotNil(x.Cond) {
						fast = x.Body
					}
				case *ast.SwitchStmt:
					for _, c := range x.Body.List {
						cc := c.(*ast.CaseClause)
						if len(cc.List) == 1 {
							if id, ok := cc.List[0].(*ast.Ident); ok && id.Name == "parsing" {
								for _, s2 := range cc.Body {
									if is, ok := s2.(*ast.IfStmt); ok && isFtNotNil(is.Cond) {
										detect = is.Body
									}
								}
							}
						}
					}
					ast.Inspect(x, func(m ast.Node) bool {
						if be, ok := m.(*ast.BinaryExpr); ok && be.Op == token.LSS {
							if se, ok := be.X.(*ast.SelectorExpr); ok && se.Sel.Name == "maxSkipCnt" {
								if v, ok := intLit(be.Y); ok {
									skipCap = v
								}
							}
						}
						return true
					})
				}
			}
			if fast == nil || detect == nil {
				problem("parser.lineParser.parse: fast path / detection branch not recognised")
			}
			resetFast, _, _ = assigns(fast, "failSkipCnt")
			resetDetect, _, _ = assigns(detect, "failSkipCnt")
			lastFast, _, _ = assigns(fast, "lastDate")
			lastDetect, _, _ = assigns(detect, "lastDate")
			_, maxSkipDetect, _ = assigns(detect, "maxSkipCnt")
		}
		if maxFail == 0 || maxSkip == 0 || skipCap == 0 {
			problem("parser.lineParser: maxFailCnt / maxSkipCnt / skip cap not found")
		}
		l.p("/-- lineParser: failures before `skipping`, lines skipped at first, the value `maxSkipCnt` is set back to when a format is")
		l.p("detected (0 = not set back), and the bound below which the skip length doubles -/")
		l.p("def lpMaxFailCnt : Nat := %d", maxFail)
		l.p("def lpMaxSkipCnt : Nat := %d", maxSkip)
		l.p("def lpMaxSkipCntOnDetect : Nat := %d", maxSkipDetect)
		l.p("def lpSkipCap : Nat := %d", skipCap)
		l.p("/-- `lp.failSkipCnt = 0` / `lp.lastDate = tm` on the fast path (remembered format parsed the line) and in the branch")
		l.p("where the full parser detected a format -/")
		l.p("def lpResetsCountOnFastPath : Bool := %s", leanBool(resetFast))
		l.p("def lpResetsCountOnDetect : Bool := %s", leanBool(resetDetect))
		l.p("def lpSetsLastDateOnFastPath : Bool := %s", leanBool(lastFast))
		l.p("def lpSetsLastDateOnDetect : Bool := %s", leanBool(lastDetect))
		l.p("")
		// NewParser: the pattern the per-format expression is wrapped in
		guard := false
		if fd := funcDecl(df, "", "NewParser"); fd == nil {
			problem("date.NewParser not found")
		} else {
			// by structure, not by names of locals: a Sprintf whose format literal holds the named group and one of whose
			// arguments is the call regexpMap(..); looked for in NewParser and the same-package helpers it calls (depth <= 2)
			pat := ""
			inspectWithHelpers(df, fd, 2, func(n ast.Node) bool {
				ce, ok := n.(*ast.CallExpr)
				if !ok || len(ce.Args) < 2 {
					return true
				}
				se, ok := ce.Fun.(*ast.SelectorExpr)
				if !ok || se.Sel.Name != "Sprintf" {
					return true
				}
				sv, ok := strLit(ce.Args[0])
				if !ok || !strings.Contains(sv, "(?P<") {
					return true
				}
				for _, a := range ce.Args[1:] {
					if c, ok := a.(*ast.CallExpr); ok {
						if id, ok := c.Fun.(*ast.Ident); ok && id.Name == "regexpMap" {
							pat = sv
						}
					}
				}
				return true
			})
			switch pat {
			case "(?P<%v>%v)":
				guard = false
			case "(?:^|[^0-9])(?P<%v>%v)":
				guard = true
			default:
				problem("date.NewParser: the pattern around the format's expression is not one of the modelled forms: %q", pat)
			}
		}
		l.p("/-- `NewParser` wraps the format's expression as `(?:^|[^0-9])(?P<date>…)`: a date starts at the beginning of the text or right")
		l.p("after a byte that is not a digit (false: `(?P<date>…)`, a date may start anywhere) -/")
		l.p("def regexpLeftGuard : Bool := %s", leanBool(guard))
		l.p("")
		l.p("/-- `terms` of date.go in table order: (format term, Go layout, regular expression), as bytes -/")
		l.p("def terms : List (List UInt8 × List UInt8 × List UInt8) := [")
		for i, t := range terms {
			sep := ","
			if i == len(terms)-1 {
				sep = ""
			}
			l.p("  (%s, %s, %s)%s  -- %s  %s  %s", leanBytes(t.f), leanBytes(t.l), leanBytes(t.e), sep, t.f, t.l, t.e)
		}
		l.p("]")
		emit := func(name, doc string, xs []string) {
			l.p("")
			l.p("/-- %s -/", doc)
			l.p("def %s : List (List UInt8) := [", name)
			for i, s := range xs {
				sep := ","
				if i == len(xs)-1 {
					sep = ""
				}
				l.p("  %s%s  -- %d  %s", leanBytes(s), sep, i, s)
			}
			l.p("]")
		}
		emit("collectorFormats", "`date.KnownFormats` (the collector's default list), in order", known)
		emit("lqlFormats", "the list handed to `date.NewParser` for `lql.dateTimeParser`, in order", lqlList)
		l.p("")
		l.p("/-- `parseLqlDateTime` applies `strings.ToLower` to the literal before anything else -/")
		l.p("def lqlLowerCases : Bool := %s", leanBool(lower))
		if fmtArg == "" {
			problem("lql.parseLqlDateTime: the argument of dateTimeParser.Parse is not recognised")
		}
		l.p("/-- the text handed to `dateTimeParser.Parse` is the lower-cased variable (false: the text as written, trimmed) -/")
		l.p("def lqlFormatsSeeLowerCased : Bool := %s", leanBool(lowered[fmtArg]))
		l.p("/-- `parseRalativeDateTime` rejects a number that is negative or NaN (a comparison of the ParseFloat result with 0) -/")
		l.p("def lqlRelativeRejectsNegative : Bool := %s", leanBool(relNonNeg))
		l.p("/-- `parseLqlDateTime` applies `strings.Trim(.., \" \")` -/")
		l.p("def lqlTrimsBlanks : Bool := %s", leanBool(trim))
		l.p("/-- the four attempts are made in the order relative, constants, format list, integer -/")
		l.p("def lqlOrderRelConstFmtInt : Bool := %s", leanBool(orderOK))
		l.p("/-- `Format.Parse` calls `adjustYear` / `adjustDate` -/")
		l.p("def formatParseAdjustsYear : Bool := %s", leanBool(adjYear))
		l.p("def formatParseAdjustsDate : Bool := %s", leanBool(adjDate))
		if len(problems) > problemsBefore {
			// something the facts are read from was not found: keep the last good facts instead of regenerating defaults
			// (the problems are reported and count as broken obligations)
			return
		}
		l.write()
	}
}

// inspectWithHelpers walks fd's body and, up to the given depth, the bodies of the same-file plain functions it calls
// (a construction extracted verbatim into a helper is still found). Each function is visited once.
func inspectWithHelpers(f *ast.File, fd *ast.FuncDecl, depth int, visit func(ast.Node) bool) {
	seen := map[string]bool{}
	// receiver variable and receiver type of a method ("" for a plain function)
	recvOf := func(fd *ast.FuncDecl) (string, string) {
		if fd.Recv == nil || len(fd.Recv.List) != 1 {
			return "", ""
		}
		v := ""
		if len(fd.Recv.List[0].Names) == 1 {
			v = fd.Recv.List[0].Names[0].Name
		}
		switch t := fd.Recv.List[0].Type.(type) {
		case *ast.StarExpr:
			if id, ok := t.X.(*ast.Ident); ok {
				return v, id.Name
			}
		case *ast.Ident:
			return v, t.Name
		}
		return v, ""
	}
	var walk func(fd *ast.FuncDecl, depth int)
	walk = func(fd *ast.FuncDecl, depth int) {
		if fd == nil || fd.Body == nil {
			return
		}
		rv, rt := recvOf(fd)
		if seen[rt+"."+fd.Name.Name] {
			return
		}
		seen[rt+"."+fd.Name.Name] = true
		ast.Inspect(fd.Body, func(n ast.Node) bool {
			if ce, ok := n.(*ast.CallExpr); ok && depth > 0 {
				switch fn := ce.Fun.(type) {
				case *ast.Ident:
					if h := funcDecl(f, "", fn.Name); h != nil {
						walk(h, depth-1)
					}
				case *ast.SelectorExpr:
					// a method of the same receiver called on the receiver variable: `f.fillMissing(tm)`
					if x, ok := fn.X.(*ast.Ident); ok && rv != "" && x.Name == rv && rt != "" {
						if h := funcDecl(f, rt, fn.Sel.Name); h != nil {
							walk(h, depth-1)
						}
					}
				}
			}
			return visit(n)
		})
	}
	walk(fd, depth)
}
