package main

import (
	"fmt"
	"go/ast"
	"go/token"
	"sort"
	"strconv"
	"strings"
)

// C08 (shared with C06): facts the quoting / round-trip theorems depend on, re-read from the sources:
//
//   - kvstring.KeyValueSeparator / FieldsSeparator
//   - the condition under which tagMap.line() and Fields.AsKVString() quote a value:
//     a disjunction of `len(v) == 0` and `strings.IndexByte(v, <byte>) >= 0`
//   - the 255 byte limit of NewFieldsFromKVString and whether it is tested before or after strconv.Unquote
//   - strconv.IsPrint of the Go toolchain that builds the harness (table of printable rune ranges)
func init() {
	generators["C08"] = func() {
		l := newLean("C08", "Facts about pkg/utils/kvstring/kvstring.go, pkg/model/tag/tags.go (tagMap.line), pkg/model/field/field.go\n(AsKVString, NewFieldsFromKVString) and strconv.IsPrint of the Go toolchain in use.")
		kvf := parseFile("pkg/utils/kvstring/kvstring.go")
		consts := map[string]string{}
		if kvf != nil {
			for _, d := range kvf.Decls {
				gd, ok := d.(*ast.GenDecl)
				if !ok || gd.Tok != token.CONST {
					continue
				}
				for _, s := range gd.Specs {
					vs := s.(*ast.ValueSpec)
					for i, n := range vs.Names {
						if i < len(vs.Values) {
							if bl, ok := vs.Values[i].(*ast.BasicLit); ok && bl.Kind == token.STRING {
								if v, err := strconv.Unquote(bl.Value); err == nil {
									consts[n.Name] = v
								}
							}
						}
					}
				}
			}
		}
		kv, okKV := consts["KeyValueSeparator"]
		fs, okFS := consts["FieldsSeparator"]
		if !okKV || !okFS || len(kv) != 1 || len(fs) != 1 {
			problem("kvstring.KeyValueSeparator / FieldsSeparator are not one-byte string constants any more")
			kv, fs = "=", ","
		}
		l.p("/-- `kvstring.KeyValueSeparator[0]` -/")
		l.p("def kvSep : UInt8 := %d", kv[0])
		l.p("/-- `kvstring.FieldsSeparator[0]` -/")
		l.p("def fldSep : UInt8 := %d", fs[0])

		finder := func(pkgRel string) *triggerFinder {
			return &triggerFinder{consts: consts, own: loadPkgFuncs(pkgRel), kv: loadPkgFuncs("pkg/utils/kvstring")}
		}
		// quoteTrigger: the "quote this value?" decision of an emitter, found by structure (see c08_trigger.go). When it
		// is not found or not understood the pinned trigger is kept and an EXTRACT-PROBLEM (broken obligation) is raised:
		// an empty table would make the model diverge and strip the open findings of their attribution.
		quoteTrigger := func(fd *ast.FuncDecl, pkgRel, what string, pinEmpty bool, pinBytes []byte) (bool, []byte, bool) {
			if fd == nil {
				problem("%s not found", what)
				return pinEmpty, pinBytes, false
			}
			t, st := finder(pkgRel).find(fd, 2)
			switch st {
			case "ok":
				// canonical order: the decision is a disjunction, the order of its tests does not matter
				sort.Slice(t.bytes, func(i, j int) bool { return t.bytes[i] < t.bytes[j] })
				return t.empty, t.bytes, true
			case "not-understood":
				problem("%s: the condition guarding strconv.Quote is not a disjunction of 'empty' and 'contains byte' tests any more (pinned trigger kept)", what)
			default:
				problem("%s: no decision guarding strconv.Quote found in the function or the helpers it calls (pinned trigger kept)", what)
			}
			return pinEmpty, pinBytes, false
		}
		bytesList := func(bs []byte) string {
			p := make([]string, len(bs))
			for i, b := range bs {
				p[i] = fmt.Sprint(b)
			}
			return "[" + strings.Join(p, ", ") + "]"
		}
		tf := parseFile("pkg/model/tag/tags.go")
		te, tb, _ := quoteTrigger(funcDecl(tf, "tagMap", "line"), "pkg/model/tag", "tag.tagMap.line", true, sortedBytes(kv[0], fs[0]))
		l.p("/-- `tagMap.line()` quotes a value when it is empty … -/")
		l.p("def tagQuoteEmpty : Bool := %s", leanBool(te))
		l.p("/-- … or contains one of these bytes -/")
		l.p("def tagQuoteBytes : List UInt8 := %s", bytesList(tb))
		ff := parseFile("pkg/model/field/field.go")
		fe, fb, _ := quoteTrigger(funcDecl(ff, "Fields", "AsKVString"), "pkg/model/field", "field.Fields.AsKVString", false, sortedBytes(kv[0], fs[0]))
		l.p("/-- `Fields.AsKVString()` quotes a value when it is empty … -/")
		l.p("def fieldQuoteEmpty : Bool := %s", leanBool(fe))
		l.p("/-- … or contains one of these bytes -/")
		l.p("def fieldQuoteBytes : List UInt8 := %s", bytesList(fb))

		// NewFieldsFromKVString: every `if len(v) > N { return … }` of the loop, and their positions relative to strconv.Unquote
		limit, unqPos := -1, token.NoPos
		var limPos []token.Pos
		sameLimit := true
		if fd := funcDecl(ff, "", "NewFieldsFromKVString"); fd == nil {
			problem("field.NewFieldsFromKVString not found")
		} else {
			ast.Inspect(fd.Body, func(n ast.Node) bool {
				switch x := n.(type) {
				case *ast.IfStmt:
					if be, ok := x.Cond.(*ast.BinaryExpr); ok && (be.Op == token.GTR || be.Op == token.LSS) {
						if be.Op == token.LSS { // N < len(v)
							be = &ast.BinaryExpr{X: be.Y, Op: token.GTR, Y: be.X}
						}
						if ce, ok := be.X.(*ast.CallExpr); ok {
							if f, ok := ce.Fun.(*ast.Ident); ok && f.Name == "len" {
								if bl, ok := be.Y.(*ast.BasicLit); ok && bl.Kind == token.INT {
									v, _ := strconv.Atoi(bl.Value)
									if limit < 0 {
										limit = v
									} else if v != limit {
										sameLimit = false
									}
									limPos = append(limPos, x.Pos())
								}
							}
						}
					}
				case *ast.CallExpr:
					if se, ok := x.Fun.(*ast.SelectorExpr); ok && se.Sel.Name == "Unquote" && unqPos == token.NoPos {
						unqPos = x.Pos()
					}
				}
				return true
			})
			if limit < 0 || unqPos == token.NoPos {
				problem("field.NewFieldsFromKVString: length limit or strconv.Unquote call not found")
				limit = 255
			}
			if !sameLimit {
				problem("field.NewFieldsFromKVString: the length tests use different limits")
			}
		}
		before, after := false, false
		for _, p := range limPos {
			if unqPos != token.NoPos && p < unqPos {
				before = true
			}
			if unqPos != token.NoPos && p > unqPos {
				after = true
			}
		}
		l.p("/-- the length limit of `NewFieldsFromKVString` -/")
		l.p("def fieldMaxLen : Nat := %d", limit)
		l.p("/-- the limit is tested on the raw piece, before `TrimSpaces` and `strconv.Unquote` -/")
		l.p("def fieldLimitBeforeUnquote : Bool := %s", leanBool(before))
		l.p("/-- the limit is tested again on the result of `strconv.Unquote` (fix 72eac47) -/")
		l.p("def fieldLimitAfterUnquote : Bool := %s", leanBool(after))

		// strconv.IsPrint of this toolchain
		l.p("/-- maximal ranges of runes with `strconv.IsPrint` (Go toolchain that builds the harness) -/")
		var sb strings.Builder
		sb.WriteString("def isPrintRanges : Array (Nat × Nat) := #[")
		in, start, first := false, 0, true
		for r := 0; r <= 0x10FFFF+1; r++ {
			p := r <= 0x10FFFF && strconv.IsPrint(rune(r))
			if p && !in {
				in, start = true, r
			}
			if !p && in {
				in = false
				if !first {
					sb.WriteString(", ")
				}
				first = false
				fmt.Fprintf(&sb, "(%d, %d)", start, r-1)
			}
		}
		sb.WriteString("]")
		l.p("%s", sb.String())
		l.write()
	}
}

func sortedBytes(bs ...byte) []byte {
	sort.Slice(bs, func(i, j int) bool { return bs[i] < bs[j] })
	return bs
}
