package main

import (
	"bytes"
	"go/ast"
	"go/printer"
	"go/token"
	"strings"
)

// C08Q: the RPC querier's "same fields as the previous event" cache (api/rpc/querier.go, ServerQuerier.query). Found by
// structure: an `if A != B { … }` whose body assigns `K = A.AsKVString()` and `B = E`. The fact is whether E is a copy of A
// (a call of a method of A without arguments, as `A.MakeCopy()`) or A itself (an alias of the reader's record buffer).
func init() {
	generators["C08Q"] = func() {
		l := newLean("C08Q", "Facts about api/rpc/querier.go: the cache of the previous event's Fields text in ServerQuerier.query.")
		pr := func(e ast.Expr) string {
			var b bytes.Buffer
			printer.Fprint(&b, token.NewFileSet(), e)
			return b.String()
		}
		found, copies := false, true // pinned value kept when the code is not found
		f := parseFile("api/rpc/querier.go")
		var fd *ast.FuncDecl
		if f != nil {
			fd = funcDecl(f, "ServerQuerier", "query")
		}
		if fd == nil {
			problem("rpc.ServerQuerier.query not found")
		} else {
			ast.Inspect(fd.Body, func(n ast.Node) bool {
				is, ok := n.(*ast.IfStmt)
				if !ok || found {
					return true
				}
				be, ok := is.Cond.(*ast.BinaryExpr)
				if !ok || be.Op != token.NEQ {
					return true
				}
				a, b := pr(be.X), pr(be.Y)
				rendered, cacheSet, isCopy := false, false, false
				for _, st := range is.Body.List {
					as, ok := st.(*ast.AssignStmt)
					if !ok || len(as.Lhs) != 1 || len(as.Rhs) != 1 {
						continue
					}
					if ce, ok := as.Rhs[0].(*ast.CallExpr); ok {
						if se, ok := ce.Fun.(*ast.SelectorExpr); ok && se.Sel.Name == "AsKVString" && (pr(se.X) == a || pr(se.X) == b) {
							rendered = true
							continue
						}
					}
					lhs := pr(as.Lhs[0])
					if lhs != a && lhs != b {
						continue
					}
					other := a
					if lhs == a {
						other = b
					}
					cacheSet = true
					if ce, ok := as.Rhs[0].(*ast.CallExpr); ok && len(ce.Args) == 0 {
						if se, ok := ce.Fun.(*ast.SelectorExpr); ok && pr(se.X) == other {
							isCopy = true // other.MakeCopy()
						}
					}
				}
				if rendered && cacheSet {
					found, copies = true, isCopy
				}
				return true
			})
			if !found {
				problem("rpc.ServerQuerier.query: the `if fields != previous { text = fields.AsKVString(); previous = … }` cache was not found (pinned fact kept)")
			}
		}
		l.p("/-- the previous event's fields are remembered as a COPY (`lge.Fields.MakeCopy()`), not as an alias of the record buffer -/")
		l.p("def querierCacheCopies : Bool := %s", leanBool(copies))
		// pkg/pipe/worker.go, (*worker).run: the provenance fields are computed in the run itself from the worker's own source
		// tag line: `F := field.Parse(<… srcTags …>)` and F is the first argument of the iterator's init call
		prov := true // pinned
		wf := parseFile("pkg/pipe/worker.go")
		var wrun *ast.FuncDecl
		if wf != nil {
			wrun = funcDecl(wf, "worker", "run")
		}
		if wrun == nil {
			problem("pipe.worker.run not found")
		} else {
			parsed := map[string]bool{} // identifiers assigned from field.Parse(… srcTags …)
			usedInInit := false
			ast.Inspect(wrun.Body, func(n ast.Node) bool {
				switch x := n.(type) {
				case *ast.AssignStmt:
					if len(x.Lhs) == 1 && len(x.Rhs) == 1 {
						if ce, ok := x.Rhs[0].(*ast.CallExpr); ok {
							if se, ok := ce.Fun.(*ast.SelectorExpr); ok && se.Sel.Name == "Parse" && len(ce.Args) == 1 && strings.Contains(pr(ce.Args[0]), "srcTags") {
								if id, ok := x.Lhs[0].(*ast.Ident); ok {
									parsed[id.Name] = true
								}
							}
						}
					}
				case *ast.CallExpr:
					if se, ok := x.Fun.(*ast.SelectorExpr); ok && se.Sel.Name == "init" && len(x.Args) >= 1 {
						if id, ok := x.Args[0].(*ast.Ident); ok && parsed[id.Name] {
							usedInInit = true
						}
						if ce, ok := x.Args[0].(*ast.CallExpr); ok {
							if s2, ok := ce.Fun.(*ast.SelectorExpr); ok && s2.Sel.Name == "Parse" && len(ce.Args) == 1 && strings.Contains(pr(ce.Args[0]), "srcTags") {
								usedInInit = true
							}
						}
					}
				}
				return true
			})
			prov = usedInInit
		}
		l.p("/-- pipe.worker.run computes the provenance fields itself, from its own source tag line (`field.Parse(w.srcTags…)` handed to")
		l.p("the iterator's init) — not from a value cached elsewhere (a descriptor loaded from disk would not have it) -/")
		l.p("def workerProvenanceFromSrcTags : Bool := %s", leanBool(prov))
		l.write()
	}
}
