package main

import (
	"go/ast"
	"go/token"
	"strconv"
)

// C17: constants and small structural facts of the collector (scanner worker, line reader, parsers). The structural
// facts are read from the flattened statement sequence of the anchored functions (c17_flow.go), following same-package
// calls, so that behaviour-preserving refactorings keep them; what cannot be identified is a problem(...).
func init() {
	generators["C17"] = func() {
		l := newLean("C17", "Facts about pkg/scanner/worker.go, scanner.go, config.go and pkg/scanner/parser/*.go.")
		sp := loadFlowPkg("pkg/scanner")
		pp := loadFlowPkg("pkg/scanner/parser")

		// --- worker loop: where is w.state sampled relative to NextRecord? ---------------------------------
		sampledBefore := false
		if run := sp.method("worker", "run"); run == nil {
			problem("scanner.worker.run not found")
		} else {
			evs := sp.flatten(run, 2)
			iNext := flowIndex(evs, "call", "NextRecord")
			if iNext < 0 || len(evs[iNext].loops) == 0 {
				problem("scanner worker: no loop with a NextRecord call found in worker.run or the functions it calls")
			} else {
				loop := evs[iNext].loops[len(evs[iNext].loops)-1]
				before, after := false, false
				for i, e := range evs {
					if e.kind == "call" && e.name == "LoadInt32" && flowInLoop(e, loop) {
						if i < iNext {
							before = true
						} else {
							after = true
						}
					}
				}
				if !before && !after {
					problem("scanner worker: the read loop does not load w.state at all")
				}
				sampledBefore = before && !after
			}
		}
		l.p("/-- in the worker's read loop the state (`wsRunUntilEof`) is loaded before `NextRecord` and not again after it")
		l.p("in the same iteration (fix 91d80cf) -/")
		l.p("def stateSampledBeforeNextRecord : Bool := %s", leanBool(sampledBefore))

		// --- setOffset only after the confirm rendez-vous: every setOffset call of worker.go sits in a select case whose
		//     communication is a channel send ---------------------------------------------------------------------------
		setOK, nSet := true, 0
		nEvent, ownSlice, ownKnown := 0, true, true
		for _, fd := range sp.funcs {
			if fset.Position(fd.Pos()).Filename == "" || !flowHasSuffix(fset.Position(fd.Pos()).Filename, "/worker.go") {
				continue
			}
			for _, e := range sp.flatten(fd, 0) {
				if e.kind != "call" {
					continue
				}
				switch e.name {
				case "setOffset":
					nSet++
					inSendCase := false
					for _, a := range e.anc {
						if cc, ok := a.(*ast.CommClause); ok {
							if _, isSend := cc.Comm.(*ast.SendStmt); isSend {
								inSendCase = true
							}
						}
					}
					if !inSendCase {
						setOK = false
					}
				case "NewEvent":
					if len(e.call.Args) < 2 {
						continue
					}
					nEvent++
					switch fresh := freshSlice(e.call.Args[1], fd); fresh {
					case 0:
						ownSlice = false
					case -1:
						ownKnown = false
					}
				}
			}
		}
		if nSet == 0 {
			problem("scanner worker: no setOffset call found in worker.go")
		}
		l.p("/-- every `setOffset` call of the worker is inside a `select` case whose communication is the send on the")
		l.p("confirmation channel -/")
		l.p("def setOffsetOnlyAfterConfirm : Bool := %s", leanBool(setOK && nSet > 0))
		if nEvent == 0 {
			problem("scanner worker: no model.NewEvent call found in worker.go")
		} else if !ownKnown {
			problem("scanner worker: cannot tell whether the record slice given to model.NewEvent is a fresh copy")
		}
		l.p("/-- `model.NewEvent` is handed a fresh copy of the record slice (`append(<new>, recs...)` / `make` + copy), not the")
		l.p("worker's own slice, which the loop clears and reuses (fix 0585c11) -/")
		l.p("def eventGetsOwnRecordSlice : Bool := %s", leanBool(ownSlice && nEvent > 0))

		// --- readLine: a partial line is kept in r.pend and io.EOF reported; no sleep (fix 7a8317a) ----------------------
		keepsPartial := false
		if rl := pp.method("lineReader", "readLine"); rl == nil {
			problem("parser.lineReader.readLine not found")
		} else {
			evs := pp.flatten(rl, 2)
			sleeps := flowCount(evs, "call", "Sleep") > 0
			eofKeeps, lineReturn, found := false, false, false
			// branches: an if (guard = its condition) or a case clause (guard = its expressions)
			ast.Inspect(rl.Body, func(n ast.Node) bool {
				var guard []ast.Node
				var body []ast.Stmt
				switch x := n.(type) {
				case *ast.IfStmt:
					guard, body = []ast.Node{x.Cond}, x.Body.List
				case *ast.CaseClause:
					for _, e := range x.List {
						guard = append(guard, e)
					}
					body = x.Body
				default:
					return true
				}
				has := func(name string) bool {
					for _, g := range guard {
						if flowMentions(g, name) {
							return true
						}
					}
					return false
				}
				if has("EOF") && !has("ErrBufferFull") {
					found = true
				}
				if len(body) == 0 {
					return true
				}
				ret, isRet := body[len(body)-1].(*ast.ReturnStmt)
				if !isRet || len(ret.Results) != 2 {
					return true
				}
				if has("EOF") && !has("ErrBufferFull") {
					assignsPend := false
					for _, st := range body {
						if as, ok := st.(*ast.AssignStmt); ok && len(as.Lhs) == 1 {
							if se, ok := as.Lhs[0].(*ast.SelectorExpr); ok && se.Sel.Name == "pend" {
								assignsPend = true
							}
						}
					}
					if assignsPend && flowMentions(ret.Results[0], "nil") && flowMentions(ret.Results[1], "EOF") {
						eofKeeps = true
					}
				}
				if has("ErrBufferFull") && has("nil") && !has("EOF") {
					if !flowMentions(ret.Results[0], "nil") && flowMentions(ret.Results[1], "nil") {
						lineReturn = true
					}
				}
				return true
			})
			if !found {
				problem("parser.lineReader.readLine: no branch on io.EOF found")
			}
			keepsPartial = eofKeeps && lineReturn && !sleeps
		}
		l.p("/-- `lineReader.readLine`: a complete line or a full buffer returns the line; on a source EOF the partial line is")
		l.p("kept in `r.pend` and `io.EOF` is returned; the function does not sleep (fix 7a8317a) -/")
		l.p("def readerKeepsPartialReportsEOF : Bool := %s", leanBool(keepsPartial))

		// --- parsers: pos advances by the length of the line readLine returned -----------------------------------------
		posOK := true
		for _, recv := range []string{"pureParser", "lineParser", "K8sJsonLogParser", "logfmtParser"} {
			fd := pp.method(recv, "NextRecord")
			if fd == nil {
				problem("%s.NextRecord not found", recv)
				posOK = false
				continue
			}
			// the variable that receives readLine's first result
			lineVar := ""
			ast.Inspect(fd.Body, func(n ast.Node) bool {
				if as, ok := n.(*ast.AssignStmt); ok && len(as.Rhs) == 1 && len(as.Lhs) >= 1 {
					if c, ok := as.Rhs[0].(*ast.CallExpr); ok && flowCallee(c) == "readLine" {
						if id, ok := as.Lhs[0].(*ast.Ident); ok {
							lineVar = id.Name
						}
					}
				}
				return true
			})
			if lineVar == "" {
				problem("%s.NextRecord: no `line, err := ….readLine(…)` found", recv)
				posOK = false
				continue
			}
			isLenOfLine := func(e ast.Expr) bool { // int64(len(line))
				conv, ok := e.(*ast.CallExpr)
				if !ok || len(conv.Args) != 1 || flowCallee(conv) != "int64" {
					return false
				}
				ln, ok := conv.Args[0].(*ast.CallExpr)
				if !ok || len(ln.Args) != 1 || flowCallee(ln) != "len" {
					return false
				}
				id, ok := ln.Args[0].(*ast.Ident)
				return ok && id.Name == lineVar
			}
			ok, nPos := false, 0
			ast.Inspect(fd.Body, func(n ast.Node) bool {
				as, isAs := n.(*ast.AssignStmt)
				if !isAs || len(as.Lhs) != 1 || len(as.Rhs) != 1 {
					return true
				}
				se, isSel := as.Lhs[0].(*ast.SelectorExpr)
				if !isSel || se.Sel.Name != "pos" {
					return true
				}
				nPos++
				switch as.Tok {
				case token.ADD_ASSIGN:
					ok = isLenOfLine(as.Rhs[0])
				case token.ASSIGN: // x.pos = x.pos + int64(len(line))
					if be, isBin := as.Rhs[0].(*ast.BinaryExpr); isBin && be.Op == token.ADD {
						if l2, isSel2 := be.X.(*ast.SelectorExpr); isSel2 && l2.Sel.Name == "pos" && isLenOfLine(be.Y) {
							ok = true
						}
						if r2, isSel2 := be.Y.(*ast.SelectorExpr); isSel2 && r2.Sel.Name == "pos" && isLenOfLine(be.X) {
							ok = true
						}
					}
				}
				return true
			})
			if nPos == 0 {
				problem("%s.NextRecord: no assignment to the position found", recv)
			}
			if !ok || nPos != 1 {
				posOK = false
			}
		}
		l.p("/-- each of the four parsers advances its position by exactly `int64(len(line))` per returned line -/")
		l.p("def posAdvancesByLineLength : Bool := %s", leanBool(posOK))

		// --- constants ---------------------------------------------------------------------------------------
		intConst := func(file, name string) int {
			f := parseFile(file)
			v := -1
			if f != nil {
				ast.Inspect(f, func(n ast.Node) bool {
					vs, ok := n.(*ast.ValueSpec)
					if !ok {
						return true
					}
					for i, id := range vs.Names {
						if id.Name == name && i < len(vs.Values) {
							if bl, ok := vs.Values[i].(*ast.BasicLit); ok {
								v, _ = strconv.Atoi(bl.Value)
							}
						}
					}
					return true
				})
			}
			if v < 0 {
				problem("constant %s not found in %s", name, file)
			}
			return v
		}
		l.p("/-- `sleepOnEOF` (ms) of the line reader -/")
		l.p("def sleepOnEOFms : Nat := %d", intConst("pkg/scanner/parser/line_reader.go", "sleepOnEOF"))
		// default and bounds of RecordMaxSizeBytes
		cf := parseFile("pkg/scanner/config.go")
		def, lo, hi := -1, -1, -1
		if fd := funcDecl(cf, "", "NewDefaultConfig"); fd != nil {
			ast.Inspect(fd.Body, func(n ast.Node) bool {
				if kv, ok := n.(*ast.KeyValueExpr); ok {
					if id, ok := kv.Key.(*ast.Ident); ok && id.Name == "RecordMaxSizeBytes" {
						if bl, ok := kv.Value.(*ast.BasicLit); ok {
							def, _ = strconv.Atoi(bl.Value)
						}
					}
				}
				return true
			})
		}
		if fd := funcDecl(cf, "Config", "Check"); fd != nil {
			ast.Inspect(fd.Body, func(n ast.Node) bool {
				be, ok := n.(*ast.BinaryExpr)
				if !ok {
					return true
				}
				if se, ok := be.X.(*ast.SelectorExpr); ok && se.Sel.Name == "RecordMaxSizeBytes" {
					if bl, ok := be.Y.(*ast.BasicLit); ok {
						v, _ := strconv.Atoi(bl.Value)
						if be.Op == token.LSS {
							lo = v
						}
						if be.Op == token.GTR {
							hi = v
						}
					}
				}
				return true
			})
		}
		if def < 0 || lo < 0 || hi < 0 {
			problem("scanner.Config: RecordMaxSizeBytes default/bounds not found")
		}
		l.p("/-- `RecordMaxSizeBytes`: default and the bounds `Config.Check` accepts (it is the bufio size `B`) -/")
		l.p("def recordMaxSizeDefault : Nat := %d", def)
		l.p("def recordMaxSizeMin : Nat := %d", lo)
		l.p("def recordMaxSizeMax : Nat := %d", hi)

		// --- the persist job: a final persist after the tick loop, after waitWg.Wait(); workers are in waitWg, the job is
		//     not (fix c6aad9a) ----------------------------------------------------------------------------------------
		finalPersist, waitBeforeFinal, persistJobInWaitWg, workerInWaitWg := false, false, false, false
		wgCall := func(e flowEv, wg, method string) bool {
			if e.kind != "call" || e.name != method {
				return false
			}
			se, ok := e.call.Fun.(*ast.SelectorExpr)
			if !ok {
				return false
			}
			inner, ok := se.X.(*ast.SelectorExpr)
			return ok && inner.Sel.Name == wg
		}
		if fd := sp.method("Scanner", "runPersistState"); fd == nil {
			problem("scanner.Scanner.runPersistState not found")
		} else {
			evs := sp.flatten(fd, 2)
			// the job = what runs inside the `go` statement: events whose ancestors include a GoStmt (or the whole function
			// if the goroutine is started by the caller)
			lastInLoop, finalAt, waitAt := -1, -1, -1
			for i, e := range evs {
				if wgCall(e, "waitWg", "Add") || wgCall(e, "waitWg", "Done") {
					persistJobInWaitWg = true
				}
				if e.kind == "call" && e.name == "persistState" {
					if len(e.loops) > 0 {
						lastInLoop = i
					} else if lastInLoop >= 0 {
						finalAt = i
					}
				}
			}
			if lastInLoop < 0 {
				problem("scanner.Scanner.runPersistState: no periodic persistState call in a loop found")
			}
			for i, e := range evs {
				if wgCall(e, "waitWg", "Wait") && len(e.loops) == 0 && i > lastInLoop && (finalAt < 0 || i < finalAt) {
					waitAt = i
				}
			}
			finalPersist = finalAt >= 0
			waitBeforeFinal = finalAt >= 0 && waitAt >= 0
		}
		if fd := sp.method("Scanner", "runWorker"); fd == nil {
			problem("scanner.Scanner.runWorker not found")
		} else {
			evs := sp.flatten(fd, 0)
			addAt, runAt, doneAt := -1, -1, -1
			for i, e := range evs {
				inGo := false
				for _, a := range e.anc {
					if _, ok := a.(*ast.GoStmt); ok {
						inGo = true
					}
				}
				switch {
				case wgCall(e, "waitWg", "Add") && !inGo:
					addAt = i
				case e.kind == "call" && e.name == "run" && inGo:
					runAt = i
				case wgCall(e, "waitWg", "Done") && inGo:
					doneAt = i
				}
			}
			if runAt < 0 {
				problem("scanner.Scanner.runWorker: no goroutine calling the worker's run found")
			}
			workerInWaitWg = addAt >= 0 && runAt > addAt && doneAt > runAt
		}
		l.p("/-- `runPersistState` persists once more after its tick loop ended (the final persist) -/")
		l.p("def finalPersistAfterLoop : Bool := %s", leanBool(finalPersist))
		l.p("/-- the final persist of `runPersistState` comes after `s.waitWg.Wait()`; every worker goroutine is in `waitWg`")
		l.p("(Add before `go`, Done after `w.run` returned) and the persist job itself is not (fix c6aad9a) -/")
		l.p("def finalPersistAfterWorkersWait : Bool := %s", leanBool(waitBeforeFinal && workerInWaitWg && !persistJobInWaitWg))

		// --- mergeDescs: the live offset is read once per descriptor; when it is beyond the scanned size the file is
		//     stat'ed again and LastSeenSize refreshed from that stat, before the decision (fix f247e22) ----------------
		restat := false
		if fd := sp.method("Scanner", "mergeDescs"); fd == nil {
			problem("scanner.Scanner.mergeDescs not found")
		} else {
			evs := sp.flatten(fd, 2)
			iOff := flowIndex(evs, "call", "getOffset")
			if iOff < 0 || len(evs[iOff].loops) == 0 {
				problem("scanner.Scanner.mergeDescs: no getOffset call inside the merge loop found")
			} else {
				loop := evs[iOff].loops[0]
				nOff, statAt, sizeAt := 0, -1, -1
				for i, e := range evs {
					if !flowInLoop(e, loop) {
						continue
					}
					if e.kind == "call" && e.name == "getOffset" {
						nOff++
					}
					if e.kind == "call" && e.name == "Stat" && i > iOff && statAt < 0 && len(e.inGuard) > 0 {
						statAt = i
					}
					if e.kind == "assign" && flowHasSuffix(e.name, ".LastSeenSize") && statAt >= 0 && i > statAt && flowCallsNamed(e.assign, "Size") {
						sizeAt = i
					}
				}
				restat = nOff == 1 && statAt > iOff && sizeAt > statAt
			}
		}
		l.p("/-- `mergeDescs` reads the live offset once per descriptor, stats the file again (conditionally) after that read")
		l.p("and refreshes `LastSeenSize` from that stat before it decides (fix f247e22) -/")
		l.p("def mergeRestatsAfterOffset : Bool := %s", leanBool(restat))
		// --- repair of F61 (proposed-fixes/F61.diff): mergeDescs puts a descriptor of `old` whose id the scan did not
		//     find into its result (once). Structure: a loop that ranges over the FIRST parameter of mergeDescs (the old
		//     set) and is not the loop that reads the live offset contains an assignment into an element of the variable
		//     the function returns.
		keepsMissed := false
		if fd := sp.method("Scanner", "mergeDescs"); fd != nil {
			oldName, resName := "", ""
			if fd.Type.Params != nil && len(fd.Type.Params.List) > 0 && len(fd.Type.Params.List[0].Names) > 0 {
				oldName = fd.Type.Params.List[0].Names[0].Name
			}
			ast.Inspect(fd.Body, func(n ast.Node) bool {
				if r, ok := n.(*ast.ReturnStmt); ok && len(r.Results) == 1 {
					if id, ok := r.Results[0].(*ast.Ident); ok {
						resName = id.Name
					}
				}
				return true
			})
			if oldName == "" || resName == "" {
				problem("scanner.Scanner.mergeDescs: first parameter / returned variable not identified")
			} else {
				ast.Inspect(fd.Body, func(n ast.Node) bool {
					rs, ok := n.(*ast.RangeStmt)
					if !ok {
						return true
					}
					if id, ok := rs.X.(*ast.Ident); !ok || id.Name != oldName || flowCallsNamed(rs.Body, "getOffset") {
						return true
					}
					ast.Inspect(rs.Body, func(m ast.Node) bool {
						if as, ok := m.(*ast.AssignStmt); ok {
							for _, lhs := range as.Lhs {
								if ix, ok := lhs.(*ast.IndexExpr); ok {
									if id, ok := ix.X.(*ast.Ident); ok && id.Name == resName {
										keepsMissed = true
									}
								}
							}
						}
						return true
					})
					return true
				})
			}
		}
		l.p("/-- `mergeDescs` keeps a descriptor of the old set whose id the scan did not find (for one more scan): the loop over")
		l.p("the old set stores into the result (repair of finding F61) -/")
		l.p("def mergeKeepsMissedOneScan : Bool := %s", leanBool(keepsMissed))
		// --- scanPaths' file list: a file under an included path is listed whatever its size (an emptied file must be SEEN
		//     with size 0 by mergeDescs: `same_id_shrunk_restarts`); no guard of getFilesToScan / scanPaths that skips a file
		//     looks at a size
		anySize := false
		if fd := sp.method("Scanner", "scanPaths"); fd == nil {
			problem("scanner.Scanner.scanPaths not found")
		} else {
			evs := sp.flatten(fd, 2)
			if flowIndex(evs, "call", "Stat") < 0 {
				problem("scanner.Scanner.scanPaths: no os.Stat of the scanned files found in scanPaths and its callees")
			} else {
				anySize = true
				for _, e := range evs {
					if e.kind == "guard" && len(e.loops) > 0 && flowCallsNamed(guardCond(e.node), "Size") {
						anySize = false
					}
				}
			}
		}
		l.p("/-- `scanPaths` (with `getFilesToScan`) lists a file whatever its size: none of its skip branches looks at a size -/")
		l.p("def scanListsFilesOfAnySize : Bool := %s", leanBool(anySize))
		// --- persistState: every call that could marshal the descriptors hands them to the storage (the model's `persist` /
		//     `finalPersist` steps write): between json.Marshal and WriteData the only branch that leaves is the marshal error
		alwaysWrites := false
		if fd := sp.method("Scanner", "persistState"); fd == nil {
			problem("scanner.Scanner.persistState not found")
		} else {
			evs := sp.flatten(fd, 2)
			iM, iW := flowIndex(evs, "call", "Marshal"), flowIndex(evs, "call", "WriteData")
			if iM < 0 || iW < iM {
				problem("scanner.Scanner.persistState: json.Marshal followed by storage.WriteData not found")
			} else {
				alwaysWrites = true
				for i := iM + 1; i < iW; i++ {
					if e := evs[i]; e.kind == "guard" && !isErrNotNil(guardCond(e.node)) {
						alwaysWrites = false
					}
				}
			}
		}
		l.p("/-- `persistState`: between `json.Marshal` and `storage.WriteData` only the marshal-error branch leaves: every save is written -/")
		l.p("def persistAlwaysWrites : Bool := %s", leanBool(alwaysWrites))
		// --- fix 5ccf34b: between the parser's open of the path and the start of the worker's goroutine the file is
		//     identified again (utils.GetFileId) and compared with the descriptor's id; a difference ends the start
		//     (guard whose body returns). Read from runWorker with its same-package callees inlined, so the check may
		//     live in newWorkerConfig, in runWorker itself or in a helper of either.
		checksId := false
		if fd := sp.method("Scanner", "runWorker"); fd != nil {
			evs := sp.flatten(fd, 3)
			openAt, runAt := -1, -1
			for i, e := range evs {
				if e.kind == "call" && e.name == "NewParser" && openAt < 0 {
					openAt = i
				}
				if e.kind == "call" && e.name == "run" && runAt < 0 {
					for _, a := range e.anc {
						if _, ok := a.(*ast.GoStmt); ok {
							runAt = i
						}
					}
				}
			}
			if openAt < 0 {
				problem("scanner.Scanner.runWorker: the open of the file (parser.NewParser) not found in runWorker and its callees")
			} else if runAt < openAt {
				problem("scanner.Scanner.runWorker: no goroutine calling the worker's run after the open found")
			} else {
				for i := openAt + 1; i < runAt && !checksId; i++ {
					e := evs[i]
					if e.kind != "call" || e.name != "GetFileId" {
						continue
					}
					helper := ""
					if e.fn != nil {
						helper = e.fn.Name.Name
					}
					for j := i + 1; j < runAt; j++ {
						g := evs[j]
						if g.kind != "guard" || g.name != "return" {
							continue
						}
						// the guard's condition holds the comparison itself or calls the helper that makes it
						direct := flowCallsNamed(g.node, "GetFileId")
						via := helper != "" && helper != "runWorker" && helper != "newWorkerConfig" && flowCallsNamed(g.node, helper)
						if (direct && flowSelects(g.node, "Id")) || (via && flowSelects(e.fn.Body, "Id")) {
							checksId = true
							break
						}
					}
				}
			}
		}
		l.p("/-- between the parser's open of the path and the start of the worker the file under the name is identified again")
		l.p("(`utils.GetFileId`) and compared with the descriptor's `Id`; if they differ no worker is started (fix 5ccf34b) -/")
		l.p("def workerOpenChecksFileId : Bool := %s", leanBool(checksId))
		// --- fix e59ee79: the state file is written aside and renamed over (storage.fileStorage.WriteData) ----------------
		atomicState := false
		stp := loadFlowPkg("pkg/storage")
		if fd := stp.method("fileStorage", "WriteData"); fd == nil {
			problem("storage.fileStorage.WriteData not found")
		} else {
			evs := stp.flatten(fd, 2)
			iWrite := -1
			for i, e := range evs {
				if e.kind == "call" && (e.name == "WriteFile" || e.name == "Write") && iWrite < 0 {
					iWrite = i
				}
			}
			if iWrite < 0 {
				problem("storage.fileStorage.WriteData: no WriteFile / Write call found")
			}
			for i, e := range evs {
				if e.kind == "call" && e.name == "Rename" && iWrite >= 0 && i > iWrite {
					atomicState = true
				}
			}
		}
		l.p("/-- `fileStorage.WriteData` writes the new content to another name and renames it over the state file (fix e59ee79) -/")
		l.p("def stateFileReplacedAtomically : Bool := %s", leanBool(atomicState))
		l.write()
	}
}

// guardCond: the condition of an if guard (its init statement included), or the case clause itself
func guardCond(n ast.Node) ast.Node {
	if is, ok := n.(*ast.IfStmt); ok {
		if is.Init != nil {
			return &ast.BlockStmt{List: []ast.Stmt{is.Init, &ast.ExprStmt{X: is.Cond}}}
		}
		return is.Cond
	}
	return n
}

// isErrNotNil: the condition is `<ident> != nil` (no init statement)
func isErrNotNil(n ast.Node) bool {
	b, ok := n.(*ast.BinaryExpr)
	if !ok || b.Op != token.NEQ {
		return false
	}
	_, l := b.X.(*ast.Ident)
	r, rok := b.Y.(*ast.Ident)
	return l && rok && r.Name == "nil"
}

// flowSelects: does the node contain a selector expression x.<sel>
func flowSelects(n ast.Node, sel string) bool {
	found := false
	ast.Inspect(n, func(m ast.Node) bool {
		if s, ok := m.(*ast.SelectorExpr); ok && s.Sel.Name == sel {
			found = true
		}
		return true
	})
	return found
}

func flowHasSuffix(s, suf string) bool { return len(s) >= len(suf) && s[len(s)-len(suf):] == suf }

// freshSlice: 1 = the expression is a freshly built slice (append(<non-identifier>, x...), make(...), a composite
// literal, or a local assigned from one of those), 0 = it is a parameter or a plain variable of the caller (shared),
// -1 = cannot tell.
func freshSlice(e ast.Expr, fd *ast.FuncDecl) int {
	switch x := e.(type) {
	case *ast.CompositeLit:
		return 1
	case *ast.CallExpr:
		switch flowCallee(x) {
		case "make":
			return 1
		case "append":
			if len(x.Args) >= 1 {
				if _, isId := x.Args[0].(*ast.Ident); !isId {
					return 1
				}
				if id := x.Args[0].(*ast.Ident); id.Name == "nil" {
					return 1
				}
			}
			return 0
		}
		return -1
	case *ast.Ident:
		if fd.Type.Params != nil {
			for _, p := range fd.Type.Params.List {
				for _, n := range p.Names {
					if n.Name == x.Name {
						return 0 // the caller's slice
					}
				}
			}
		}
		res := -1
		ast.Inspect(fd.Body, func(n ast.Node) bool {
			if as, ok := n.(*ast.AssignStmt); ok {
				for i, l := range as.Lhs {
					if id, ok := l.(*ast.Ident); ok && id.Name == x.Name && i < len(as.Rhs) {
						if r := freshSlice(as.Rhs[i], fd); r != -1 || res == -1 {
							if _, self := as.Rhs[i].(*ast.Ident); !self {
								res = r
							}
						}
					}
				}
			}
			return true
		})
		return res
	}
	return -1
}
