package main

import (
	"go/ast"
	"go/token"
	"strconv"
)

// C17: constants and small structural facts of the collector (scanner worker, line reader, parsers).
func init() {
	generators["C17"] = func() {
		l := newLean("C17", "Facts about pkg/scanner/worker.go, scanner.go, config.go and pkg/scanner/parser/*.go.")

		// --- worker.run: where is w.state sampled relative to NextRecord? --------------------------------
		wf := parseFile("pkg/scanner/worker.go")
		run := funcDecl(wf, "worker", "run")
		sampledBefore, stopTestReadsState := false, false
		if run == nil {
			problem("scanner.worker.run not found")
		} else {
			var loop *ast.ForStmt
			ast.Inspect(run.Body, func(n ast.Node) bool {
				if f, ok := n.(*ast.ForStmt); ok && loop == nil {
					loop = f
					return false
				}
				return true
			})
			if loop == nil {
				problem("scanner.worker.run: for loop not found")
			} else {
				loadsState := func(n ast.Node) bool {
					found := false
					ast.Inspect(n, func(m ast.Node) bool {
						if c, ok := m.(*ast.CallExpr); ok {
							if se, ok := c.Fun.(*ast.SelectorExpr); ok && se.Sel.Name == "LoadInt32" {
								found = true
							}
						}
						return true
					})
					return found
				}
				callsNext := func(n ast.Node) bool {
					found := false
					ast.Inspect(n, func(m ast.Node) bool {
						if c, ok := m.(*ast.CallExpr); ok {
							if se, ok := c.Fun.(*ast.SelectorExpr); ok && se.Sel.Name == "NextRecord" {
								found = true
							}
						}
						return true
					})
					return found
				}
				nextIdx, loadIdx := -1, -1
				for i, st := range loop.Body.List {
					if callsNext(st) && nextIdx < 0 {
						nextIdx = i
					}
					if as, ok := st.(*ast.AssignStmt); ok && loadsState(as) && loadIdx < 0 {
						loadIdx = i
					}
					if ifs, ok := st.(*ast.IfStmt); ok && i > nextIdx && nextIdx >= 0 && loadsState(ifs.Cond) {
						stopTestReadsState = true
					}
				}
				if nextIdx < 0 {
					problem("scanner.worker.run: NextRecord call not found in the loop")
				}
				sampledBefore = loadIdx >= 0 && nextIdx >= 0 && loadIdx < nextIdx && !stopTestReadsState
			}
		}
		l.p("/-- in `worker.run` the state (`wsRunUntilEof`) is sampled into a local before `NextRecord`, and the stop")
		l.p("test after `sendOrSleep` does not read `w.state` again (fix 91d80cf) -/")
		l.p("def stateSampledBeforeNextRecord : Bool := %s", leanBool(sampledBefore))

		// --- waitConfirm: setOffset only inside the confCh case -------------------------------------------
		wc := funcDecl(wf, "worker", "waitConfirm")
		setInConfCase, setElsewhere := false, false
		if wc == nil {
			problem("scanner.worker.waitConfirm not found")
		} else {
			ast.Inspect(wc.Body, func(n ast.Node) bool {
				cc, ok := n.(*ast.CommClause)
				if !ok {
					return true
				}
				_, isSend := cc.Comm.(*ast.SendStmt)
				for _, st := range cc.Body {
					ast.Inspect(st, func(m ast.Node) bool {
						if c, ok := m.(*ast.CallExpr); ok {
							if se, ok := c.Fun.(*ast.SelectorExpr); ok && se.Sel.Name == "setOffset" {
								if isSend {
									setInConfCase = true
								} else {
									setElsewhere = true
								}
							}
						}
						return true
					})
				}
				return false
			})
			// any setOffset outside a comm clause?
			cnt := 0
			ast.Inspect(wf, func(n ast.Node) bool {
				if c, ok := n.(*ast.CallExpr); ok {
					if se, ok := c.Fun.(*ast.SelectorExpr); ok && se.Sel.Name == "setOffset" {
						cnt++
					}
				}
				return true
			})
			if cnt != 1 {
				setElsewhere = true
			}
		}
		l.p("/-- the only `setOffset` call of the worker is in `waitConfirm`, inside the `case w.confCh <- struct{}{}` -/")
		l.p("def setOffsetOnlyAfterConfirm : Bool := %s", leanBool(setInConfCase && !setElsewhere))

		// --- fix 0585c11: the event handed to the consumer gets its own copy of the record slice ------------------
		ownSlice := false
		if sos := funcDecl(wf, "worker", "sendOrSleep"); sos == nil {
			problem("scanner.worker.sendOrSleep not found")
		} else {
			found := false
			ast.Inspect(sos.Body, func(n ast.Node) bool {
				c, ok := n.(*ast.CallExpr)
				if !ok {
					return true
				}
				se, ok := c.Fun.(*ast.SelectorExpr)
				if !ok || se.Sel.Name != "NewEvent" || len(c.Args) < 2 {
					return true
				}
				found = true
				// the records argument must be a fresh slice: append(<not recs>, recs...) — not the worker's own `recs`
				if ap, ok := c.Args[1].(*ast.CallExpr); ok {
					if id, ok := ap.Fun.(*ast.Ident); ok && id.Name == "append" && len(ap.Args) == 2 && ap.Ellipsis.IsValid() {
						if first, isId := ap.Args[0].(*ast.Ident); !isId || first.Name != "recs" {
							ownSlice = true
						}
					}
				}
				return true
			})
			if !found {
				problem("scanner.worker.sendOrSleep: model.NewEvent call not found")
			}
		}
		l.p("/-- `sendOrSleep` hands `model.NewEvent` a fresh copy of the record slice (`append(<new>, recs...)`), not the")
		l.p("worker's own `recs`, which `run` clears and reuses (fix 0585c11) -/")
		l.p("def eventGetsOwnRecordSlice : Bool := %s", leanBool(ownSlice))

		// --- fix 7a8317a: readLine keeps a partial line in r.pend and reports io.EOF; it does not sleep ----------------
		keepsPartial := false
		if lrf := parseFile("pkg/scanner/parser/line_reader.go"); lrf != nil {
			if rl := funcDecl(lrf, "lineReader", "readLine"); rl == nil {
				problem("parser.lineReader.readLine not found")
			} else {
				sleeps, eofKeeps, lineReturn := false, false, false
				mentions := func(n ast.Node, name string) bool {
					found := false
					ast.Inspect(n, func(m ast.Node) bool {
						if id, ok := m.(*ast.Ident); ok && id.Name == name {
							found = true
						}
						return true
					})
					return found
				}
				ast.Inspect(rl.Body, func(n ast.Node) bool {
					if c, ok := n.(*ast.CallExpr); ok {
						if se, ok := c.Fun.(*ast.SelectorExpr); ok && se.Sel.Name == "Sleep" {
							sleeps = true
						}
					}
					ifs, ok := n.(*ast.IfStmt)
					if !ok || len(ifs.Body.List) == 0 {
						return true
					}
					last, isRet := ifs.Body.List[len(ifs.Body.List)-1].(*ast.ReturnStmt)
					if !isRet || len(last.Results) != 2 {
						return true
					}
					if mentions(ifs.Cond, "EOF") && !mentions(ifs.Cond, "ErrBufferFull") {
						// `r.pend = line; return nil, io.EOF`
						assignsPend := false
						for _, st := range ifs.Body.List {
							if as, ok := st.(*ast.AssignStmt); ok && len(as.Lhs) == 1 {
								if se, ok := as.Lhs[0].(*ast.SelectorExpr); ok && se.Sel.Name == "pend" {
									assignsPend = true
								}
							}
						}
						if assignsPend && mentions(last.Results[0], "nil") && mentions(last.Results[1], "EOF") {
							eofKeeps = true
						}
					}
					if mentions(ifs.Cond, "ErrBufferFull") && mentions(ifs.Cond, "nil") && !mentions(ifs.Cond, "EOF") {
						if mentions(last.Results[0], "line") && mentions(last.Results[1], "nil") {
							lineReturn = true
						}
					}
					return true
				})
				keepsPartial = eofKeeps && lineReturn && !sleeps
			}
		}
		l.p("/-- `lineReader.readLine`: a complete line or a full buffer returns the line; on a source EOF the partial line is")
		l.p("kept in `r.pend` and `io.EOF` is returned; the function does not sleep (fix 7a8317a) -/")
		l.p("def readerKeepsPartialReportsEOF : Bool := %s", leanBool(keepsPartial))

		// --- parsers: pos += int64(len(line)) --------------------------------------------------------------
		posOK := true
		for _, pf := range [][2]string{{"pkg/scanner/parser/pure_parser.go", "pureParser"}, {"pkg/scanner/parser/line_parser.go", "lineParser"},
			{"pkg/scanner/parser/k8s_parser.go", "K8sJsonLogParser"}, {"pkg/scanner/parser/logfmt_parser.go", "logfmtParser"}} {
			f := parseFile(pf[0])
			fd := funcDecl(f, pf[1], "NextRecord")
			if fd == nil {
				problem("%s.NextRecord not found", pf[1])
				posOK = false
				continue
			}
			ok := false
			ast.Inspect(fd.Body, func(n ast.Node) bool {
				as, isAs := n.(*ast.AssignStmt)
				if !isAs || as.Tok != token.ADD_ASSIGN || len(as.Lhs) != 1 || len(as.Rhs) != 1 {
					return true
				}
				if se, isSel := as.Lhs[0].(*ast.SelectorExpr); !isSel || se.Sel.Name != "pos" {
					return true
				}
				// int64(len(line))
				if conv, isCall := as.Rhs[0].(*ast.CallExpr); isCall && len(conv.Args) == 1 {
					if id, isId := conv.Fun.(*ast.Ident); isId && id.Name == "int64" {
						if ln, isLen := conv.Args[0].(*ast.CallExpr); isLen && len(ln.Args) == 1 {
							if lid, isId2 := ln.Fun.(*ast.Ident); isId2 && lid.Name == "len" {
								if arg, isId3 := ln.Args[0].(*ast.Ident); isId3 && arg.Name == "line" {
									ok = true
								}
							}
						}
					}
				}
				return true
			})
			if !ok {
				posOK = false
			}
		}
		l.p("/-- each of the four parsers advances its position by exactly `int64(len(line))` per returned line -/")
		l.p("def posAdvancesByLineLength : Bool := %s", leanBool(posOK))

		// --- constants ---------------------------------------------------------------------------------------
		intConst := func(file, name string) int {
			f := parseFile(file)
			v := -1
			if f != nil {
				ast.Inspect(f, func(n ast.Node) bool {
					vs, ok := n.(*ast.ValueSpec)
					if !ok {
						return true
					}
					for i, id := range vs.Names {
						if id.Name == name && i < len(vs.Values) {
							if bl, ok := vs.Values[i].(*ast.BasicLit); ok {
								v, _ = strconv.Atoi(bl.Value)
							}
						}
					}
					return true
				})
			}
			if v < 0 {
				problem("constant %s not found in %s", name, file)
			}
			return v
		}
		l.p("/-- `sleepOnEOF` (ms) of the line reader -/")
		l.p("def sleepOnEOFms : Nat := %d", intConst("pkg/scanner/parser/line_reader.go", "sleepOnEOF"))
		// default and bounds of RecordMaxSizeBytes
		cf := parseFile("pkg/scanner/config.go")
		def, lo, hi := -1, -1, -1
		if fd := funcDecl(cf, "", "NewDefaultConfig"); fd != nil {
			ast.Inspect(fd.Body, func(n ast.Node) bool {
				if kv, ok := n.(*ast.KeyValueExpr); ok {
					if id, ok := kv.Key.(*ast.Ident); ok && id.Name == "RecordMaxSizeBytes" {
						if bl, ok := kv.Value.(*ast.BasicLit); ok {
							def, _ = strconv.Atoi(bl.Value)
						}
					}
				}
				return true
			})
		}
		if fd := funcDecl(cf, "Config", "Check"); fd != nil {
			ast.Inspect(fd.Body, func(n ast.Node) bool {
				be, ok := n.(*ast.BinaryExpr)
				if !ok {
					return true
				}
				if se, ok := be.X.(*ast.SelectorExpr); ok && se.Sel.Name == "RecordMaxSizeBytes" {
					if bl, ok := be.Y.(*ast.BasicLit); ok {
						v, _ := strconv.Atoi(bl.Value)
						if be.Op == token.LSS {
							lo = v
						}
						if be.Op == token.GTR {
							hi = v
						}
					}
				}
				return true
			})
		}
		if def < 0 || lo < 0 || hi < 0 {
			problem("scanner.Config: RecordMaxSizeBytes default/bounds not found")
		}
		l.p("/-- `RecordMaxSizeBytes`: default and the bounds `Config.Check` accepts (it is the bufio size `B`) -/")
		l.p("def recordMaxSizeDefault : Nat := %d", def)
		l.p("def recordMaxSizeMin : Nat := %d", lo)
		l.p("def recordMaxSizeMax : Nat := %d", hi)

		// --- runPersistState: a persist after the tick loop (the final persist) ---------------------------
		sf := parseFile("pkg/scanner/scanner.go")
		finalPersist := false
		if fd := funcDecl(sf, "Scanner", "runPersistState"); fd != nil {
			ast.Inspect(fd.Body, func(n ast.Node) bool {
				fl, ok := n.(*ast.FuncLit)
				if !ok {
					return true
				}
				seenLoop := false
				for _, st := range fl.Body.List {
					if _, ok := st.(*ast.ForStmt); ok {
						seenLoop = true
						continue
					}
					if seenLoop {
						ast.Inspect(st, func(m ast.Node) bool {
							if c, ok := m.(*ast.CallExpr); ok {
								if se, ok := c.Fun.(*ast.SelectorExpr); ok && se.Sel.Name == "persistState" {
									finalPersist = true
								}
							}
							return true
						})
					}
				}
				return false
			})
		} else {
			problem("scanner.Scanner.runPersistState not found")
		}
		l.p("/-- `runPersistState` persists once more after its tick loop ended (the final persist) -/")
		l.p("def finalPersistAfterLoop : Bool := %s", leanBool(finalPersist))

		// --- fix c6aad9a: the final persist comes after `s.waitWg.Wait()`; workers are in waitWg, the persist job is not -----
		waitBeforeFinal, persistJobInWaitWg, workerInWaitWg := false, false, false
		wgCall := func(n ast.Node, wg, method string) bool {
			found := false
			ast.Inspect(n, func(m ast.Node) bool {
				if c, ok := m.(*ast.CallExpr); ok {
					if se, ok := c.Fun.(*ast.SelectorExpr); ok && se.Sel.Name == method {
						if inner, ok := se.X.(*ast.SelectorExpr); ok && inner.Sel.Name == wg {
							found = true
						}
					}
				}
				return true
			})
			return found
		}
		if fd := funcDecl(sf, "Scanner", "runPersistState"); fd != nil {
			if wgCall(fd.Body, "waitWg", "Add") || wgCall(fd.Body, "waitWg", "Done") {
				persistJobInWaitWg = true
			}
			ast.Inspect(fd.Body, func(n ast.Node) bool {
				fl, ok := n.(*ast.FuncLit)
				if !ok {
					return true
				}
				seenLoop, seenWait := false, false
				for _, st := range fl.Body.List {
					if _, ok := st.(*ast.ForStmt); ok {
						seenLoop = true
						continue
					}
					if !seenLoop {
						continue
					}
					if wgCall(st, "waitWg", "Wait") {
						seenWait = true
						continue
					}
					isPersist := false
					ast.Inspect(st, func(m ast.Node) bool {
						if c, ok := m.(*ast.CallExpr); ok {
							if se, ok := c.Fun.(*ast.SelectorExpr); ok && se.Sel.Name == "persistState" {
								isPersist = true
							}
						}
						return true
					})
					if isPersist {
						waitBeforeFinal = seenWait
						break
					}
				}
				return false
			})
		}
		if fd := funcDecl(sf, "Scanner", "runWorker"); fd != nil {
			// `s.waitWg.Add(1)` before the goroutine, `s.waitWg.Done()` after `w.run` inside it
			addOutside := false
			for _, st := range fd.Body.List {
				if _, isGo := st.(*ast.GoStmt); !isGo && wgCall(st, "waitWg", "Add") {
					addOutside = true
				}
				if gs, isGo := st.(*ast.GoStmt); isGo {
					if fl, ok := gs.Call.Fun.(*ast.FuncLit); ok {
						ranAt, doneAt := -1, -1
						for i, b := range fl.Body.List {
							ast.Inspect(b, func(m ast.Node) bool {
								if c, ok := m.(*ast.CallExpr); ok {
									if se, ok := c.Fun.(*ast.SelectorExpr); ok && se.Sel.Name == "run" && ranAt < 0 {
										ranAt = i
									}
								}
								return true
							})
							if wgCall(b, "waitWg", "Done") {
								doneAt = i
							}
						}
						workerInWaitWg = addOutside && ranAt >= 0 && doneAt > ranAt
					}
				}
			}
		} else {
			problem("scanner.Scanner.runWorker not found")
		}
		l.p("/-- the final persist of `runPersistState` comes after `s.waitWg.Wait()`; every worker goroutine is in `waitWg`")
		l.p("(Add before `go`, Done after `w.run` returned) and the persist job itself is not (fix c6aad9a) -/")
		l.p("def finalPersistAfterWorkersWait : Bool := %s", leanBool(waitBeforeFinal && workerInWaitWg && !persistJobInWaitWg))

		// --- fix f247e22: mergeDescs reads the offset once and stats again when it is beyond the scanned size ----------------
		restat := false
		if fd := funcDecl(sf, "Scanner", "mergeDescs"); fd != nil {
			ast.Inspect(fd.Body, func(n ast.Node) bool {
				rs, ok := n.(*ast.RangeStmt)
				if !ok || restat {
					return true
				}
				offAt, statAt, condAt := -1, -1, -1
				getOffsetCalls := 0
				ast.Inspect(rs.Body, func(m ast.Node) bool {
					if c, ok := m.(*ast.CallExpr); ok {
						if se, ok := c.Fun.(*ast.SelectorExpr); ok && se.Sel.Name == "getOffset" {
							getOffsetCalls++
						}
					}
					return true
				})
				usesIdent := func(n ast.Node, name string) bool {
					found := false
					ast.Inspect(n, func(m ast.Node) bool {
						if id, ok := m.(*ast.Ident); ok && id.Name == name {
							found = true
						}
						return true
					})
					return found
				}
				for i, st := range rs.Body.List {
					if as, ok := st.(*ast.AssignStmt); ok && len(as.Lhs) == 1 && offAt < 0 {
						if id, ok := as.Lhs[0].(*ast.Ident); ok && id.Name == "off" {
							offAt = i
						}
					}
					if ifs, ok := st.(*ast.IfStmt); ok {
						callsStat := false
						ast.Inspect(ifs.Body, func(m ast.Node) bool {
							if c, ok := m.(*ast.CallExpr); ok {
								if se, ok := c.Fun.(*ast.SelectorExpr); ok && se.Sel.Name == "Stat" {
									callsStat = true
								}
							}
							return true
						})
						if callsStat && usesIdent(ifs.Cond, "off") && statAt < 0 {
							statAt = i
						}
						if !callsStat && usesIdent(ifs.Cond, "off") && usesIdent(ifs.Cond, "LastSeenSize") && statAt >= 0 && condAt < 0 {
							condAt = i
						}
					}
				}
				restat = offAt >= 0 && statAt > offAt && condAt > statAt && getOffsetCalls == 1
				return true
			})
		} else {
			problem("scanner.Scanner.mergeDescs not found")
		}
		l.p("/-- `mergeDescs` reads the live offset once into a local, stats the file again when that offset is beyond the")
		l.p("scanned size, and decides with the local (fix f247e22) -/")
		l.p("def mergeRestatsAfterOffset : Bool := %s", leanBool(restat))
		l.write()
	}
}
