package main

import (
	"fmt"
	"go/ast"
	"go/token"
	"strconv"
	"strings"
)

// C05: the constants and the operator tables of pkg/lql/whereeval.go (WHERE evaluator builder).
//
//   - CMP_* / OPND_* constants of pkg/lql/parser.go
//   - buildCond: the "fields:" prefix literal and the minimal operand length; buildFldCond: the cut fldName[N:]
//   - buildMsgLeStrFldF: function name -> strings.<mapping> table
//   - buildTsCond: operator literal -> comparison token table (le.Timestamp <tok> tm)
//   - buildMsgCond / buildFldCond: case label -> what the closure returns ("Contains(subj,val)", "subj<val", …)
//   - the LIKE pre-test assigns the builder's named result (`_, err = path.Match`, not `:=`)
func init() {
	generators["C05"] = func() {
		l := newLean("C05", "Facts about pkg/lql/whereeval.go and the CMP_*/OPND_* constants of pkg/lql/parser.go.")
		pf := parseFile("pkg/lql/parser.go")
		wf := parseFile("pkg/lql/whereeval.go")
		consts := map[string]string{}
		if pf != nil {
			for _, d := range pf.Decls {
				gd, ok := d.(*ast.GenDecl)
				if !ok || gd.Tok != token.CONST {
					continue
				}
				for _, s := range gd.Specs {
					vs := s.(*ast.ValueSpec)
					for i, n := range vs.Names {
						if i < len(vs.Values) {
							if bl, ok := vs.Values[i].(*ast.BasicLit); ok && bl.Kind == token.STRING {
								if v, err := strconv.Unquote(bl.Value); err == nil {
									consts[n.Name] = v
								}
							}
						}
					}
				}
			}
		}
		for _, c := range []struct{ goName, leanName string }{
			{"CMP_CONTAINS", "cmpContains"}, {"CMP_HAS_PREFIX", "cmpHasPrefix"}, {"CMP_HAS_SUFFIX", "cmpHasSuffix"}, {"CMP_LIKE", "cmpLike"},
			{"OPND_TIMESTAMP", "opndTimestamp"}, {"OPND_MESSAGE", "opndMessage"}} {
			v, ok := consts[c.goName]
			if !ok {
				problem("constant %s not found in pkg/lql/parser.go", c.goName)
			}
			l.p("/-- `%s = %s` -/", c.goName, strconv.Quote(v))
			l.p("def %s : List UInt8 := %s", c.leanName, leanBytes(v))
		}

		// --- buildCond: strings.HasPrefix(op, "fields:") and len(op) < 8 ; which mapping classifies the operand
		lqlConsts := c05LoadConsts("pkg/lql")
		prefix, minLen, classMap := "", -1, ""
		if fd := funcDecl(wf, "whereExpFuncBuilder", "buildCond"); fd == nil {
			problem("whereExpFuncBuilder.buildCond not found")
		} else {
			// literals, named constants and len(constant) are resolved; rejecting (`!HasPrefix || len < N`) and accepting
			// (`HasPrefix && len > N`) forms are normalised (c05_consts.go)
			prefix, minLen, classMap = c05PrefixFacts(fd, lqlConsts)
			if prefix == "" || minLen < 0 || classMap == "" {
				problem("buildCond: prefix literal / minimal length / case mapping not found")
			}
		}
		l.p("/-- `strings.HasPrefix(op, %s)` in buildCond -/", strconv.Quote(prefix))
		l.p("def fieldsPrefix : List UInt8 := %s", leanBytes(prefix))
		l.p("/-- `len(op) < N` in buildCond -/")
		l.p("def fieldsMinLen : Nat := %d", max0(minLen))
		l.p("/-- the operand is classified after `strings.%s` -/", classMap)
		l.p("def operandClassifiedBy : String := %s", leanStr(classMap))

		// --- buildFldCond: fldName = fldName[N:]
		cut := -1
		fldFd := funcDecl(wf, "whereExpFuncBuilder", "buildFldCond")
		if fldFd == nil {
			problem("whereExpFuncBuilder.buildFldCond not found")
		} else {
			cut = c05CutFact(fldFd, lqlConsts)
			if cut < 0 {
				problem("buildFldCond: fldName[N:] not found")
			}
		}
		l.p("/-- `fldName = fldName[N:]` in buildFldCond -/")
		l.p("def fieldsCut : Nat := %d", max0(cut))

		// --- buildMsgLeStrFldF: switch fn { case "UPPER": … strings.ToUpper … }
		var fnTable [][2]string
		arityCheck := false
		if fd := funcDecl(wf, "", "buildMsgLeStrFldF"); fd == nil {
			problem("buildMsgLeStrFldF not found")
		} else {
			ast.Inspect(fd.Body, func(n ast.Node) bool {
				switch s := n.(type) {
				case *ast.SwitchStmt:
					for _, c := range s.Body.List {
						cc := c.(*ast.CaseClause)
						for _, lab := range cc.List {
							mapping := ""
							ast.Inspect(cc, func(m ast.Node) bool {
								if ce, ok := m.(*ast.CallExpr); ok {
									if se, ok := ce.Fun.(*ast.SelectorExpr); ok && (se.Sel.Name == "ToUpper" || se.Sel.Name == "ToLower") && mapping == "" {
										mapping = se.Sel.Name
									}
								}
								return true
							})
							fnTable = append(fnTable, [2]string{labelValue(lab, consts), mapping})
						}
					}
				case *ast.BinaryExpr:
					// len(id.Params) != 1
					if s.Op == token.NEQ {
						if bl, ok := s.Y.(*ast.BasicLit); ok && bl.Value == "1" {
							if ce, ok := s.X.(*ast.CallExpr); ok {
								if id, ok := ce.Fun.(*ast.Ident); ok && id.Name == "len" {
									arityCheck = true
								}
							}
						}
					}
				}
				return true
			})
		}
		l.p("/-- buildMsgLeStrFldF: `switch fn` — (case label, strings.<mapping> applied to the inner result) -/")
		l.p("def fnTable : List (List UInt8 × String) := %s", leanPairTable(fnTable))
		l.p("/-- buildMsgLeStrFldF rejects `len(id.Params) != 1` -/")
		l.p("def fnArityIsOne : Bool := %s", leanBool(arityCheck))

		// --- buildTsCond: switch cn.Op { case "<": web.wef = func… return le.Timestamp < tm }
		var tsTable [][2]string
		if fd := funcDecl(wf, "whereExpFuncBuilder", "buildTsCond"); fd == nil {
			problem("whereExpFuncBuilder.buildTsCond not found")
		} else {
			tsTable = switchTable(fd, consts)
			if len(tsTable) == 0 {
				problem("buildTsCond: operator switch not found")
			}
		}
		l.p("/-- buildTsCond: `switch cn.Op` — (operator literal, what the closure returns) -/")
		l.p("def tsTable : List (List UInt8 × String) := %s", leanPairTable(tsTable))

		// --- buildMsgCond / buildFldCond
		var msgTable, fldTable [][2]string
		msgFd := funcDecl(wf, "whereExpFuncBuilder", "buildMsgCond")
		if msgFd == nil {
			problem("whereExpFuncBuilder.buildMsgCond not found")
		} else {
			msgTable = switchTable(msgFd, consts)
		}
		if fldFd != nil {
			fldTable = switchTable(fldFd, consts)
		}
		if len(msgTable) == 0 || len(fldTable) == 0 {
			problem("buildMsgCond/buildFldCond: operator switch not found")
		}
		l.p("/-- buildMsgCond: `switch op` (op = strings.ToUpper(cn.Op)) — (case label value, what the closure returns) -/")
		l.p("def msgTable : List (List UInt8 × String) := %s", leanPairTable(msgTable))
		l.p("/-- buildFldCond: `switch op` -/")
		l.p("def fldTable : List (List UInt8 × String) := %s", leanPairTable(fldTable))
		l.p("/-- the LIKE pre-test assigns the named result (`_, err = path.Match(…)`, not `_, err := …`): a malformed pattern is rejected -/")
		l.p("def likeTestAssignsErrMsg : Bool := %s", leanBool(likeAssigns(msgFd)))
		l.p("def likeTestAssignsErrFld : Bool := %s", leanBool(likeAssigns(fldFd)))
		l.p("/-- the pre-test name in `path.Match(pattern, NAME)` -/")
		l.p("def likeTestName : List UInt8 := %s", leanBytes(likeTestName(msgFd)))

		// --- pkg/lql/datetime.go: the numeric (unix-nano) fallback of parseLqlDateTime
		df := parseFile("pkg/lql/datetime.go")
		l.p("/-- parseLqlDateTime's numeric fallback, normalised: the strconv function with its literal arguments and what is handed to")
		l.p("time.Unix (a plain integer parse of base 10, 64 bits, used as it is = the literal's exact value) -/")
		l.p("def tsNumericFallback : String := %s", leanStr(numericFallbackDesc(funcDecl(df, "", "parseLqlDateTime"))))

		// --- pkg/cursor/fiterator.go: the valid/le cache
		ff := parseFile("pkg/cursor/fiterator.go")
		nextFd, sbFd, getFd := funcDecl(ff, "fiterator", "Next"), funcDecl(ff, "fiterator", "SetBackward"), funcDecl(ff, "fiterator", "Get")
		if nextFd == nil || sbFd == nil || getFd == nil {
			problem("fiterator.Next/SetBackward/Get not found")
		}
		l.p("/-- fiterator.Next sets `valid = false` (directly or in a same-file helper it calls, depth <= 2) -/")
		l.p("def fiterNextResetsValid : Bool := %s", leanBool(c05AssignsValid(ff, nextFd, "false")))
		l.p("/-- fiterator.SetBackward sets `valid = false` -/")
		l.p("def fiterSetBackwardResetsValid : Bool := %s", leanBool(c05AssignsValid(ff, sbFd, "false")))
		l.p("/-- in fiterator.Get the conjunction `fltF(…) && <range check>` (in this order) decides `valid`: assigned to it, or the")
		l.p("condition of the `if` that sets it (any loop form, hoisted locals resolved) -/")
		okConj, rangeFd := validIsFltAndRange(ff, getFd)
		l.p("def fiterValidIsFltAndRange : Bool := %s", leanBool(okConj))
		l.p("/-- the range check, normalised (conversions and hoisted locals removed, timestamp on the left, lower bound first) -/")
		l.p("def fiterRangeCheck : String := %s", leanStr(rangeCheckDesc(ff, rangeFd, getFd)))
		// --- the range newFIterator filters with when the statement has no RANGE
		if nf := funcDecl(ff, "", "newFIterator"); nf == nil || nf.Body == nil {
			problem("pkg/cursor/fiterator.go: newFIterator not found")
		} else if mn, mx, ok := c05DefaultRange(nf, c05LoadConsts("pkg/model")); !ok {
			problem("newFIterator: the default TimeRange{min, max} literal is not found or not constant")
		} else {
			l.p("/-- newFIterator without a RANGE: `tmRange = model.TimeRange{<min>, <max>}`, constants resolved -/")
			l.p("def fiterDefaultRangeMin : Int := %s", mn.String())
			l.p("def fiterDefaultRangeMax : Int := %s", mx.String())
		}
		c05CallerFacts(l)
		l.write()
	}
}

func max0(n int) int {
	if n < 0 {
		return 0
	}
	return n
}

func labelValue(e ast.Expr, consts map[string]string) string {
	switch x := e.(type) {
	case *ast.BasicLit:
		v, _ := strconv.Unquote(x.Value)
		return v
	case *ast.Ident:
		if v, ok := consts[x.Name]; ok {
			return v
		}
		return "?" + x.Name
	}
	return "?"
}

func leanPairTable(t [][2]string) string {
	parts := make([]string, len(t))
	for i, p := range t {
		parts[i] = fmt.Sprintf("(%s, %s)", leanBytes(p[0]), leanStr(p[1]))
	}
	return "[" + strings.Join(parts, ", ") + "]"
}

// classify an operand of the returned expression structurally: an expression that reads the closure's parameter (the
// event: le.Msg, le.Fields.Value(…), le.Timestamp, possibly through a conversion function) is the subject, a literal is
// itself, anything else (a captured local or field holding the condition's value / parsed time) is the value
var c05ClosureParam = "le"

func c05Mentions(e ast.Expr, name string) bool {
	found := false
	ast.Inspect(e, func(n ast.Node) bool {
		if id, ok := n.(*ast.Ident); ok && id.Name == name {
			found = true
		}
		return true
	})
	return found
}

func classifyArg(e ast.Expr) string {
	if bl, ok := e.(*ast.BasicLit); ok {
		return bl.Value
	}
	if c05Mentions(e, c05ClosureParam) {
		return "subj"
	}
	switch e.(type) {
	case *ast.Ident, *ast.SelectorExpr:
		return "val"
	}
	return "?"
}

func describeCall(ce *ast.CallExpr) string {
	name := "?"
	if se, ok := ce.Fun.(*ast.SelectorExpr); ok {
		name = se.Sel.Name
	}
	args := make([]string, len(ce.Args))
	for i, a := range ce.Args {
		args[i] = classifyArg(a)
	}
	return name + "(" + strings.Join(args, ",") + ")"
}

// describeClosure: what the first function literal under n returns
func describeClosure(n ast.Node) string {
	desc := ""
	ast.Inspect(n, func(m ast.Node) bool {
		fl, ok := m.(*ast.FuncLit)
		if !ok || desc != "" {
			return true
		}
		if fl.Type.Params != nil && len(fl.Type.Params.List) == 1 && len(fl.Type.Params.List[0].Names) == 1 {
			c05ClosureParam = fl.Type.Params.List[0].Names[0].Name
		}
		locals := map[string]ast.Expr{}
		// the closure body: either `return <expr>` or `res, _ := path.Match(a, b); return res`
		for _, st := range fl.Body.List {
			switch s := st.(type) {
			case *ast.AssignStmt:
				if len(s.Rhs) == 1 {
					isMatch := false
					if ce, ok := s.Rhs[0].(*ast.CallExpr); ok {
						if se, ok := ce.Fun.(*ast.SelectorExpr); ok && se.Sel.Name == "Match" {
							desc = describeCall(ce)
							isMatch = true
						}
					}
					if !isMatch && len(s.Lhs) == 1 {
						if id, ok := s.Lhs[0].(*ast.Ident); ok {
							locals[id.Name] = s.Rhs[0] // a hoisted operand: v := lsf(…), ts := le.Timestamp
						}
					}
				}
			case *ast.ReturnStmt:
				if desc != "" || len(s.Results) != 1 {
					continue
				}
				res := func(e ast.Expr) ast.Expr {
					if id, ok := e.(*ast.Ident); ok {
						if d, ok := locals[id.Name]; ok {
							return d
						}
					}
					return e
				}
				switch r := s.Results[0].(type) {
				case *ast.CallExpr:
					cp := *r
					cp.Args = nil
					for _, a := range r.Args {
						cp.Args = append(cp.Args, res(a))
					}
					desc = describeCall(&cp)
				case *ast.BinaryExpr:
					desc = classifyArg(res(r.X)) + r.Op.String() + classifyArg(res(r.Y))
				default:
					desc = "?"
				}
			}
		}
		return false
	})
	return desc
}

// eqLabels: the labels of a condition `X == L`, `L == X` or a disjunction of those (an if-cascade written instead of a switch)
func eqLabels(cond ast.Expr) []ast.Expr {
	switch c := cond.(type) {
	case *ast.ParenExpr:
		return eqLabels(c.X)
	case *ast.BinaryExpr:
		if c.Op == token.LOR {
			l, r := eqLabels(c.X), eqLabels(c.Y)
			if l == nil || r == nil {
				return nil
			}
			return append(l, r...)
		}
		if c.Op == token.EQL {
			isLab := func(e ast.Expr) bool {
				switch x := e.(type) {
				case *ast.BasicLit:
					return x.Kind == token.STRING
				case *ast.Ident:
					return strings.HasPrefix(x.Name, "CMP_") || strings.HasPrefix(x.Name, "OPND_")
				}
				return false
			}
			if isLab(c.Y) {
				return []ast.Expr{c.Y}
			}
			if isLab(c.X) {
				return []ast.Expr{c.X}
			}
		}
	}
	return nil
}

type c05Clause struct {
	labels []ast.Expr
	body   ast.Node
}

// c05Clauses: the case clauses of the first tagged switch of fd, or — when the function has none — of the if / else-if
// cascade(s) over equality tests with string labels
func c05Clauses(fd *ast.FuncDecl) []c05Clause {
	var cls []c05Clause
	done := false
	ast.Inspect(fd.Body, func(n ast.Node) bool {
		if _, ok := n.(*ast.FuncLit); ok {
			return false
		}
		sw, ok := n.(*ast.SwitchStmt)
		if !ok || done || sw.Tag == nil {
			return !done
		}
		done = true
		for _, c := range sw.Body.List {
			cc := c.(*ast.CaseClause)
			if cc.List == nil {
				continue
			}
			cls = append(cls, c05Clause{cc.List, cc})
		}
		return false
	})
	if done {
		return cls
	}
	var walkIf func(is *ast.IfStmt)
	walkIf = func(is *ast.IfStmt) {
		if labs := eqLabels(is.Cond); labs != nil {
			cls = append(cls, c05Clause{labs, is.Body})
		}
		if e, ok := is.Else.(*ast.IfStmt); ok {
			walkIf(e)
		}
	}
	ast.Inspect(fd.Body, func(n ast.Node) bool {
		switch x := n.(type) {
		case *ast.FuncLit:
			return false
		case *ast.IfStmt:
			if eqLabels(x.Cond) != nil {
				walkIf(x)
				return false
			}
		}
		return true
	})
	return cls
}

// switchTable: per case label (switch or equivalent if-cascade), what the closure assigned in that branch returns.
func switchTable(fd *ast.FuncDecl, consts map[string]string) [][2]string {
	var t [][2]string
	for _, c := range c05Clauses(fd) {
		desc := describeClosure(c.body)
		for _, lab := range c.labels {
			t = append(t, [2]string{labelValue(lab, consts), desc})
		}
	}
	return t
}

// likeAssigns: inside the function, the statement `_, err = path.Match(…, "abc")` uses `=` (assigning the named result)
func likeAssigns(fd *ast.FuncDecl) bool {
	if fd == nil {
		return false
	}
	found := false
	ast.Inspect(fd.Body, func(n ast.Node) bool {
		if _, ok := n.(*ast.FuncLit); ok {
			return false
		}
		as, ok := n.(*ast.AssignStmt)
		if !ok || len(as.Rhs) != 1 || len(as.Lhs) != 2 {
			return true
		}
		ce, ok := as.Rhs[0].(*ast.CallExpr)
		if !ok {
			return true
		}
		if se, ok := ce.Fun.(*ast.SelectorExpr); ok && se.Sel.Name == "Match" {
			if id, ok := as.Lhs[1].(*ast.Ident); ok && id.Name != "_" && as.Tok == token.ASSIGN {
				found = true
			}
		}
		return true
	})
	return found
}

func likeTestName(fd *ast.FuncDecl) string {
	name := ""
	if fd == nil {
		return name
	}
	ast.Inspect(fd.Body, func(n ast.Node) bool {
		if _, ok := n.(*ast.FuncLit); ok {
			return false
		}
		if ce, ok := n.(*ast.CallExpr); ok {
			if se, ok := ce.Fun.(*ast.SelectorExpr); ok && se.Sel.Name == "Match" && len(ce.Args) == 2 {
				if bl, ok := ce.Args[1].(*ast.BasicLit); ok {
					name, _ = strconv.Unquote(bl.Value)
				}
			}
		}
		return true
	})
	return name
}

func isFitValid(e ast.Expr) bool {
	se, ok := e.(*ast.SelectorExpr)
	return ok && se.Sel.Name == "valid"
}

// c05SameFileCallee resolves a call to a function or method declared in the same file (by name).
func c05SameFileCallee(f *ast.File, ce *ast.CallExpr) *ast.FuncDecl {
	name := ""
	switch fn := ce.Fun.(type) {
	case *ast.Ident:
		name = fn.Name
	case *ast.SelectorExpr:
		name = fn.Sel.Name
	}
	if name == "" || f == nil {
		return nil
	}
	for _, d := range f.Decls {
		if fd, ok := d.(*ast.FuncDecl); ok && fd.Name.Name == name && fd.Body != nil {
			return fd
		}
	}
	return nil
}

// c05InspectDeep visits the body of fd and the bodies of the same-file functions it calls (depth <= 2).
func c05InspectDeep(f *ast.File, fd *ast.FuncDecl, depth int, seen map[*ast.FuncDecl]bool, visit func(ast.Node)) {
	if fd == nil || fd.Body == nil || seen[fd] {
		return
	}
	seen[fd] = true
	ast.Inspect(fd.Body, func(n ast.Node) bool {
		if n == nil {
			return false
		}
		visit(n)
		if ce, ok := n.(*ast.CallExpr); ok && depth > 0 {
			if callee := c05SameFileCallee(f, ce); callee != nil {
				c05InspectDeep(f, callee, depth-1, seen, visit)
			}
		}
		return true
	})
}

func c05IsBoolIdent(e ast.Expr, v string) bool {
	id, ok := e.(*ast.Ident)
	return ok && id.Name == v
}

// c05AssignsValid: `<x>.valid = <v>` somewhere in fd or a same-file helper it calls
func c05AssignsValid(f *ast.File, fd *ast.FuncDecl, v string) bool {
	found := false
	c05InspectDeep(f, fd, 2, map[*ast.FuncDecl]bool{}, func(n ast.Node) {
		if as, ok := n.(*ast.AssignStmt); ok && len(as.Lhs) == 1 && len(as.Rhs) == 1 && isFitValid(as.Lhs[0]) && c05IsBoolIdent(as.Rhs[0], v) {
			found = true
		}
	})
	return found
}

// c05LocalDefs: single-assignment locals of a function (`x := e`), used to look through hoisted values
func c05LocalDefs(fd *ast.FuncDecl) map[string]ast.Expr {
	defs := map[string]ast.Expr{}
	count := map[string]int{}
	if fd == nil || fd.Body == nil {
		return defs
	}
	ast.Inspect(fd.Body, func(n ast.Node) bool {
		if as, ok := n.(*ast.AssignStmt); ok && len(as.Lhs) == len(as.Rhs) {
			for i, l := range as.Lhs {
				if id, ok := l.(*ast.Ident); ok && id.Name != "_" {
					count[id.Name]++
					defs[id.Name] = as.Rhs[i]
				}
			}
		}
		return true
	})
	for n, c := range count {
		if c != 1 {
			delete(defs, n)
		}
	}
	return defs
}

// strip removes parentheses, no-op numeric conversions (`int64(x)`) and looks through single-assignment locals
func c05Strip(e ast.Expr, defs map[string]ast.Expr) ast.Expr {
	for i := 0; i < 8; i++ {
		switch x := e.(type) {
		case *ast.ParenExpr:
			e = x.X
			continue
		case *ast.CallExpr:
			if id, ok := x.Fun.(*ast.Ident); ok && len(x.Args) == 1 {
				switch id.Name {
				case "int64", "uint64", "int":
					e = x.Args[0]
					continue
				}
			}
		case *ast.Ident:
			if d, ok := defs[x.Name]; ok {
				e = d
				continue
			}
		}
		break
	}
	return e
}

func c05CalleeName(e ast.Expr) string {
	if ce, ok := e.(*ast.CallExpr); ok {
		switch fn := ce.Fun.(type) {
		case *ast.SelectorExpr:
			return fn.Sel.Name
		case *ast.Ident:
			return fn.Name
		}
	}
	return ""
}

// validIsFltAndRange: in Get (any loop form) the conjunction `fltF(…) && R(…)`, R a same-file function, decides `valid`:
// it is assigned to valid, or it is the condition of an `if` under which valid is set to true (or, negated, the condition
// of an `if` while valid = true is set elsewhere in the function). Returns also R's declaration.
func validIsFltAndRange(f *ast.File, fd *ast.FuncDecl) (bool, *ast.FuncDecl) {
	if fd == nil {
		return false, nil
	}
	defs := c05LocalDefs(fd)
	var rangeFd *ast.FuncDecl
	isConj := func(e ast.Expr) bool {
		be, ok := c05Strip(e, defs).(*ast.BinaryExpr)
		if !ok || be.Op != token.LAND {
			return false
		}
		x, y := c05Strip(be.X, defs), c05Strip(be.Y, defs)
		if c05CalleeName(x) != "fltF" {
			return false
		}
		ce, ok := y.(*ast.CallExpr)
		if !ok {
			return false
		}
		if callee := c05SameFileCallee(f, ce); callee != nil {
			rangeFd = callee
			return true
		}
		return false
	}
	setsTrue := func(n ast.Node) bool {
		found := false
		ast.Inspect(n, func(m ast.Node) bool {
			if as, ok := m.(*ast.AssignStmt); ok && len(as.Lhs) == 1 && len(as.Rhs) == 1 && isFitValid(as.Lhs[0]) && c05IsBoolIdent(as.Rhs[0], "true") {
				found = true
			}
			return true
		})
		return found
	}
	found := false
	ast.Inspect(fd.Body, func(n ast.Node) bool {
		switch s := n.(type) {
		case *ast.AssignStmt:
			if len(s.Lhs) == 1 && len(s.Rhs) == 1 && isFitValid(s.Lhs[0]) && isConj(s.Rhs[0]) {
				found = true
			}
		case *ast.IfStmt:
			c := c05Strip(s.Cond, defs)
			if isConj(c) && setsTrue(s.Body) {
				found = true
			}
			if ue, ok := c.(*ast.UnaryExpr); ok && ue.Op == token.NOT && isConj(ue.X) {
				if (s.Else != nil && setsTrue(s.Else)) || (!setsTrue(s.Body) && setsTrue(fd.Body)) {
					found = true
				}
			}
		}
		return true
	})
	return found, rangeFd
}

// rangeCheckDesc: the two comparisons of the range check, normalised: operands by their last selector name after strip,
// the timestamp on the left, the lower bound first, e.g. "Timestamp>=MinTs&&Timestamp<=MaxTs"
func rangeCheckDesc(f *ast.File, rangeFd, getFd *ast.FuncDecl) string {
	where := rangeFd
	if where == nil {
		where = getFd
	}
	if where == nil {
		problem("fiterator: range check not found")
		return "?"
	}
	defs := c05LocalDefs(where)
	opnd := func(e ast.Expr) string {
		switch x := c05Strip(e, defs).(type) {
		case *ast.SelectorExpr:
			return x.Sel.Name
		case *ast.Ident:
			return x.Name
		}
		return "?"
	}
	flip := map[token.Token]token.Token{token.LSS: token.GTR, token.GTR: token.LSS, token.LEQ: token.GEQ, token.GEQ: token.LEQ}
	cmp := func(e ast.Expr) string {
		be, ok := c05Strip(e, defs).(*ast.BinaryExpr)
		if !ok {
			return "?"
		}
		if _, ok := flip[be.Op]; !ok {
			return "?"
		}
		l, r, op := opnd(be.X), opnd(be.Y), be.Op
		if r == "Timestamp" {
			l, r, op = r, l, flip[op]
		}
		return l + op.String() + r
	}
	desc := ""
	c05InspectDeep(f, where, 1, map[*ast.FuncDecl]bool{}, func(n ast.Node) {
		be, ok := n.(*ast.BinaryExpr)
		if !ok || be.Op != token.LAND || desc != "" {
			return
		}
		a, b := cmp(be.X), cmp(be.Y)
		if a == "?" || b == "?" {
			return
		}
		if strings.HasSuffix(a, "MaxTs") && strings.HasSuffix(b, "MinTs") {
			a, b = b, a
		}
		desc = a + "&&" + b
	})
	if desc == "" {
		problem("fiterator: range check (two comparisons joined by &&) not found")
		return "?"
	}
	return desc
}

// numericFallbackDesc: `v, err := strconv.<F>(dt, <args>)` … `time.Unix(<sec>, <nsec>)` in parseLqlDateTime, as
// "<F>(_,<args>);Unix(<sec>,<nsec>)" with the parsed variable written as `v`
func numericFallbackDesc(fd *ast.FuncDecl) string {
	if fd == nil {
		problem("parseLqlDateTime not found")
		return "?"
	}
	parse, vname, unix := "", "", ""
	render := func(e ast.Expr) string {
		var r func(e ast.Expr) string
		r = func(e ast.Expr) string {
			switch x := e.(type) {
			case *ast.BasicLit:
				return x.Value
			case *ast.Ident:
				if x.Name == vname {
					return "v"
				}
				return x.Name
			case *ast.ParenExpr:
				return r(x.X)
			case *ast.CallExpr:
				as := make([]string, len(x.Args))
				for i, a := range x.Args {
					as[i] = r(a)
				}
				return c05CalleeName(x) + "(" + strings.Join(as, ",") + ")"
			case *ast.BinaryExpr:
				return r(x.X) + x.Op.String() + r(x.Y)
			}
			return "?"
		}
		return r(e)
	}
	ast.Inspect(fd.Body, func(n ast.Node) bool {
		switch s := n.(type) {
		case *ast.AssignStmt:
			if len(s.Rhs) == 1 && len(s.Lhs) == 2 {
				if ce, ok := s.Rhs[0].(*ast.CallExpr); ok {
					if se, ok := ce.Fun.(*ast.SelectorExpr); ok {
						if pk, ok := se.X.(*ast.Ident); ok && pk.Name == "strconv" && len(ce.Args) >= 1 {
							if id, ok := s.Lhs[0].(*ast.Ident); ok {
								vname = id.Name
							}
							as := []string{"_"}
							for _, a := range ce.Args[1:] {
								as = append(as, render(a))
							}
							parse = se.Sel.Name + "(" + strings.Join(as, ",") + ")"
						}
					}
				}
			}
		case *ast.CallExpr:
			if se, ok := s.Fun.(*ast.SelectorExpr); ok && se.Sel.Name == "Unix" && vname != "" && unix == "" && len(s.Args) == 2 {
				if c05Mentions(s.Args[0], vname) || c05Mentions(s.Args[1], vname) {
					unix = "Unix(" + render(s.Args[0]) + "," + render(s.Args[1]) + ")"
				}
			}
		}
		return true
	})
	if parse == "" || unix == "" {
		problem("parseLqlDateTime: numeric fallback (strconv call + time.Unix) not found")
		return "?"
	}
	return parse + ";" + unix
}
