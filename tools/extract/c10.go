package main

import (
	"go/ast"
	"go/token"
	"path/filepath"
	"strconv"
	"strings"
)

// C10: structural facts of pkg/pipe and of the notification half of pkg/partition the pipe LTS is parameterised by.
//
//   - is the compiled filter `fltF` referenced anywhere in pkg/pipe outside newPPipe (and the field declaration)?
//   - capacity of partition.Service.weCh
//   - do CreatePipe / DeletePipe drop weCache; does workerDone call startWorker
//   - worker.run: saveState comes after Journals.Write in the loop; the wait timeout (seconds)
//   - startWorker's condition mentions wCharged and Pos.Less(LastKnwnPos); onWriteEvent sets Pos only for a new descriptor
//   - names of the persisted files
//
// c10Idents: the identifiers of an expression, each followed by a blank
func c10Idents(n ast.Node) string {
	var sb strings.Builder
	if n == nil {
		return ""
	}
	ast.Inspect(n, func(m ast.Node) bool {
		if id, ok := m.(*ast.Ident); ok {
			sb.WriteString(id.Name + " ")
		}
		return true
	})
	return sb.String()
}

// c10Reach: fd and the same-package functions/methods it calls, followed to the given depth (harmless refactorings
// move a loop or a computation into a helper)
func c10Reach(files []*ast.File, fd *ast.FuncDecl, depth int) []*ast.FuncDecl {
	if fd == nil {
		return nil
	}
	out := []*ast.FuncDecl{fd}
	seen := map[*ast.FuncDecl]bool{fd: true}
	frontier := []*ast.FuncDecl{fd}
	for d := 0; d < depth; d++ {
		var next []*ast.FuncDecl
		for _, f := range frontier {
			ast.Inspect(f.Body, func(n ast.Node) bool {
				ce, ok := n.(*ast.CallExpr)
				if !ok {
					return true
				}
				name := ""
				switch x := ce.Fun.(type) {
				case *ast.Ident:
					name = x.Name
				case *ast.SelectorExpr:
					name = x.Sel.Name
				}
				if name == "" {
					return true
				}
				for _, file := range files {
					if file == nil {
						continue
					}
					for _, dcl := range file.Decls {
						if g, ok := dcl.(*ast.FuncDecl); ok && g.Name.Name == name && g.Body != nil && !seen[g] {
							seen[g] = true
							out = append(out, g)
							next = append(next, g)
						}
					}
				}
				return true
			})
		}
		frontier = next
	}
	return out
}

// c10ConstExpr: the value expression of the package-level constant `name` in one of the files (nil if there is none)
func c10ConstExpr(files []*ast.File, name string) ast.Expr {
	for _, file := range files {
		if file == nil {
			continue
		}
		for _, dcl := range file.Decls {
			gd, ok := dcl.(*ast.GenDecl)
			if !ok || gd.Tok != token.CONST {
				continue
			}
			for _, sp := range gd.Specs {
				if vs, ok := sp.(*ast.ValueSpec); ok {
					for i, nm := range vs.Names {
						if nm.Name == name && i < len(vs.Values) {
							return vs.Values[i]
						}
					}
				}
			}
		}
	}
	return nil
}

// c10Seconds: `N * time.Second` / `time.Second * N` / a package-level constant with such a value → N (-1 if not of that shape)
func c10Seconds(files []*ast.File, e ast.Expr, depth int) int {
	switch x := e.(type) {
	case *ast.ParenExpr:
		return c10Seconds(files, x.X, depth)
	case *ast.Ident:
		if depth > 0 {
			if v := c10ConstExpr(files, x.Name); v != nil {
				return c10Seconds(files, v, depth-1)
			}
		}
	case *ast.BinaryExpr:
		if x.Op == token.MUL {
			for _, pr := range [][2]ast.Expr{{x.X, x.Y}, {x.Y, x.X}} {
				if se, ok := pr[1].(*ast.SelectorExpr); ok && se.Sel.Name == "Second" {
					switch v := pr[0].(type) {
					case *ast.BasicLit:
						n, err := strconv.Atoi(v.Value)
						if err == nil {
							return n
						}
					case *ast.Ident:
						if c := c10ConstExpr(files, v.Name); c != nil && depth > 0 {
							if bl, ok := c.(*ast.BasicLit); ok {
								if n, err := strconv.Atoi(bl.Value); err == nil {
									return n
								}
							}
						}
					}
				}
			}
		}
	}
	return -1
}

// c10UnderLock: does position pos of fd's body lie inside the critical section that starts with the first `Lock()`? An
// `Unlock()` before pos is harmless iff its path leaves the function (the next statement of its block is a `return`):
// "one unlock per path". After pos there must be an `Unlock()` (or a deferred one).
func c10UnderLock(fd *ast.FuncDecl, pos token.Pos) bool {
	if fd == nil || fd.Body == nil || pos == 0 {
		return false
	}
	var lockPos token.Pos
	deferred, after, bad := false, false, false
	isCall := func(st ast.Stmt, name string) (token.Pos, bool) {
		es, ok := st.(*ast.ExprStmt)
		if !ok {
			return 0, false
		}
		ce, ok := es.X.(*ast.CallExpr)
		if !ok {
			return 0, false
		}
		se, ok := ce.Fun.(*ast.SelectorExpr)
		return ce.Pos(), ok && se.Sel.Name == name
	}
	ast.Inspect(fd.Body, func(n ast.Node) bool {
		switch x := n.(type) {
		case *ast.DeferStmt:
			if se, ok := x.Call.Fun.(*ast.SelectorExpr); ok && se.Sel.Name == "Unlock" {
				deferred = true
			}
			return false
		case *ast.BlockStmt:
			for i, st := range x.List {
				if p, ok := isCall(st, "Lock"); ok && (lockPos == 0 || p < lockPos) {
					lockPos = p
				}
				if p, ok := isCall(st, "Unlock"); ok {
					if p > pos {
						after = true
					} else {
						// the path of this Unlock leaves the function: the rest of its block ends with a `return` and does not
						// contain pos (anything in between — a log line — runs outside the lock, but it is not pos)
						leaves := false
						if rest := x.List[i+1:]; len(rest) > 0 {
							_, leaves = rest[len(rest)-1].(*ast.ReturnStmt)
							if rest[0].Pos() <= pos && pos < rest[len(rest)-1].End() {
								leaves = false
							}
						}
						if !leaves {
							bad = true
						}
					}
				}
			}
		}
		return true
	})
	return lockPos != 0 && lockPos < pos && !bad && (after || deferred)
}

func c10CallsMethod(body ast.Node, sel string) (found bool, pos token.Pos) {
	if body == nil {
		return
	}
	ast.Inspect(body, func(n ast.Node) bool {
		if ce, ok := n.(*ast.CallExpr); ok {
			if se, ok := ce.Fun.(*ast.SelectorExpr); ok && se.Sel.Name == sel && !found {
				found, pos = true, ce.Pos()
			}
		}
		return true
	})
	return
}

func c10AssignsField(body ast.Node, field string) bool {
	res := false
	if body == nil {
		return false
	}
	ast.Inspect(body, func(n ast.Node) bool {
		if as, ok := n.(*ast.AssignStmt); ok {
			for _, l := range as.Lhs {
				if se, ok := l.(*ast.SelectorExpr); ok && se.Sel.Name == field {
					res = true
				}
			}
		}
		return true
	})
	return res
}

func init() {
	generators["C10"] = func() {
		l := newLean("C10", "Facts about pkg/pipe/{service,ppipe,worker,persister}.go and pkg/partition/partition.go (write events).")

		// --- fltF use sites
		uses := 0
		files, _ := filepath.Glob(filepath.Join(repo, "pkg/pipe/*.go"))
		sawDecl := false
		for _, fn := range files {
			if strings.HasSuffix(fn, "_test.go") || strings.HasSuffix(fn, "export_verif.go") {
				continue
			}
			rel, _ := filepath.Rel(repo, fn)
			f := parseFile(rel)
			if f == nil {
				continue
			}
			for _, d := range f.Decls {
				switch x := d.(type) {
				case *ast.FuncDecl:
					if x.Name.Name == "newPPipe" {
						ast.Inspect(x, func(n ast.Node) bool {
							if id, ok := n.(*ast.Ident); ok && id.Name == "fltF" {
								sawDecl = true
							}
							return true
						})
						continue
					}
					ast.Inspect(x, func(n ast.Node) bool {
						if se, ok := n.(*ast.SelectorExpr); ok && se.Sel.Name == "fltF" {
							uses++
						}
						return true
					})
				}
			}
		}
		if !sawDecl {
			problem("pipe.newPPipe no longer compiles a filter into fltF")
		}
		l.p("/-- number of places in pkg/pipe (outside `newPPipe`) that read the compiled filter `fltF` -/")
		l.p("def fltFUseSites : Nat := %d", uses)
		// is the filter *called* in siterator.Get inside a loop that steps the underlying iterator, and handed to the
		// iterator by worker.run?
		called, steps, handed := false, false, false
		sif := parseFile("pkg/pipe/siterator.go")
		if fd := funcDecl(sif, "siterator", "Get"); fd != nil {
			// the loop may live in a same-package helper of Get
			for _, g := range c10Reach([]*ast.File{sif}, fd, 2) {
				ast.Inspect(g.Body, func(n ast.Node) bool {
					fs, ok := n.(*ast.ForStmt)
					if !ok {
						return true
					}
					ast.Inspect(fs, func(m ast.Node) bool {
						if ce, ok := m.(*ast.CallExpr); ok {
							if se, ok := ce.Fun.(*ast.SelectorExpr); ok {
								if se.Sel.Name == "fltF" {
									called = true
								}
								if se.Sel.Name == "Next" {
									steps = true
								}
							}
						}
						return true
					})
					return true
				})
			}
		} else {
			problem("pipe.siterator.Get not found")
		}
		if fd := funcDecl(parseFile("pkg/pipe/worker.go"), "worker", "run"); fd != nil {
			ast.Inspect(fd.Body, func(n ast.Node) bool {
				if as, ok := n.(*ast.AssignStmt); ok && len(as.Lhs) == 1 && len(as.Rhs) == 1 {
					if l1, ok := as.Lhs[0].(*ast.SelectorExpr); ok && l1.Sel.Name == "fltF" {
						if r1, ok := as.Rhs[0].(*ast.SelectorExpr); ok && r1.Sel.Name == "fltF" {
							handed = true
						}
					}
				}
				return true
			})
		}
		l.p("/-- `siterator.Get` calls the filter in a loop that steps the underlying iterator over rejected events, and `worker.run` hands the pipe's `fltF` to its iterator -/")
		l.p("def filterAppliedBySourceIterator : Bool := %s", leanBool(called && steps && handed))

		// --- channel capacity
		capv := -1
		pf := parseFile("pkg/partition/partition.go")
		if fd := funcDecl(pf, "", "NewService"); fd != nil {
			ast.Inspect(fd.Body, func(n ast.Node) bool {
				if ce, ok := n.(*ast.CallExpr); ok {
					if id, ok := ce.Fun.(*ast.Ident); ok && id.Name == "make" && len(ce.Args) == 2 {
						if ct, ok := ce.Args[0].(*ast.ChanType); ok {
							if id2, ok := ct.Value.(*ast.Ident); ok && id2.Name == "WriteEvent" {
								if bl, ok := ce.Args[1].(*ast.BasicLit); ok {
									capv, _ = strconv.Atoi(bl.Value)
								}
							}
						}
					}
				}
				return true
			})
		}
		if capv < 0 {
			problem("capacity of partition.Service.weCh not found in NewService")
			capv = 0
		}
		l.p("/-- `make(chan WriteEvent, N)` in `partition.NewService` -/")
		l.p("def weChanCap : Nat := %d", capv)

		// --- Write publishes the event after the journal loop, only if !noEvent
		publishesAfterLoop := false
		if fd := funcDecl(pf, "Service", "Write"); fd == nil {
			problem("partition.Service.Write not found")
		} else {
			var loopEnd token.Pos
			for _, st := range fd.Body.List {
				if fs, ok := st.(*ast.ForStmt); ok {
					loopEnd = fs.End()
				}
			}
			if ok, p := c10CallsMethod(fd.Body, "onWriteEvent"); ok && loopEnd != 0 && p > loopEnd {
				publishesAfterLoop = true
			}
		}
		l.p("/-- `Service.Write` calls `onWriteEvent` after its journal loop (the notification is a separate, later step) -/")
		l.p("def writePublishesAfterLoop : Bool := %s", leanBool(publishesAfterLoop))

		// --- service.go
		sf := parseFile("pkg/pipe/service.go")
		cp, dp := funcDecl(sf, "Service", "CreatePipe"), funcDecl(sf, "Service", "DeletePipe")
		if cp == nil || dp == nil {
			problem("pipe.Service.CreatePipe / DeletePipe not found")
		}
		var cpb, dpb ast.Node
		if cp != nil {
			cpb = cp.Body
		}
		if dp != nil {
			dpb = dp.Body
		}
		l.p("/-- `CreatePipe` re-makes `s.weCache` -/")
		l.p("def createDropsCache : Bool := %s", leanBool(c10AssignsField(cpb, "weCache")))
		l.p("/-- `DeletePipe` re-makes `s.weCache` -/")
		l.p("def deleteDropsCache : Bool := %s", leanBool(c10AssignsField(dpb, "weCache")))
		// who saves the registry file
		saves := map[string]bool{}
		for _, fn := range []string{"CreatePipe", "DeletePipe", "Shutdown"} {
			if fd := funcDecl(sf, "Service", fn); fd != nil {
				saves[fn], _ = c10CallsMethod(fd.Body, "savePipes")
			} else {
				problem("pipe.Service.%s not found", fn)
			}
		}
		l.p("/-- `CreatePipe` / `DeletePipe` / `Shutdown` call `savePipes` (the registry file `pipes.dat` is rewritten) -/")
		l.p("def createSavesRegistry : Bool := %s", leanBool(saves["CreatePipe"]))
		l.p("def deleteSavesRegistry : Bool := %s", leanBool(saves["DeletePipe"]))
		l.p("def shutdownSavesRegistry : Bool := %s", leanBool(saves["Shutdown"]))
		delCancels := false
		ppf := parseFile("pkg/pipe/ppipe.go")
		if fd := funcDecl(ppf, "ppipe", "delete"); fd != nil {
			delCancels, _ = c10CallsMethod(fd.Body, "cancelF")
		} else {
			problem("ppipe.delete not found")
		}
		// is the clean-up (ppipe.delete) called by DeletePipe directly — before it returns — or in a goroutine?
		syncDelete, asyncDelete := false, false
		if dp != nil {
			ast.Inspect(dp.Body, func(n ast.Node) bool {
				switch x := n.(type) {
				case *ast.GoStmt:
					if se, ok := x.Call.Fun.(*ast.SelectorExpr); ok && se.Sel.Name == "delete" {
						asyncDelete = true
					}
					return false
				case *ast.CallExpr:
					if se, ok := x.Fun.(*ast.SelectorExpr); ok && se.Sel.Name == "delete" {
						if _, isIdent := se.X.(*ast.Ident); isIdent && len(x.Args) == 0 {
							syncDelete = true
						}
					}
				}
				return true
			})
		}
		guard := false
		if fd := funcDecl(ppf, "ppipe", "saveState"); fd != nil {
			ast.Inspect(fd.Body, func(n ast.Node) bool {
				if is, ok := n.(*ast.IfStmt); ok {
					ast.Inspect(is.Cond, func(m ast.Node) bool {
						if se, ok := m.(*ast.SelectorExpr); ok && se.Sel.Name == "deleted" {
							guard = true
						}
						return true
					})
				}
				return true
			})
		}
		l.p("/-- `DeletePipe` runs the pipe's clean-up (`ppipe.delete`: cancel, removal of the positions file) itself, before it returns — not in a goroutine -/")
		l.p("def deleteCleansUpBeforeAcknowledging : Bool := %s", leanBool(syncDelete && !asyncDelete))
		l.p("/-- `saveState` tests `pp.deleted` (a worker that finishes after the deletion does not bring the positions file back) -/")
		l.p("def saveStateRefusesDeletedPipe : Bool := %s", leanBool(guard))
		l.p("/-- `ppipe.delete` cancels the pipe's context (its workers stop at the next loop head) -/")
		l.p("def deleteCancelsWorkers : Bool := %s", leanBool(delCancels))

		// --- ppipe.go
		rearm := false
		if fd := funcDecl(ppf, "ppipe", "workerDone"); fd != nil {
			rearm, _ = c10CallsMethod(fd.Body, "startWorker")
		} else {
			problem("ppipe.workerDone not found")
		}
		l.p("/-- `workerDone` calls `startWorker` (re-arm when `Pos < LastKnwnPos`) -/")
		l.p("def workerDoneRearms : Bool := %s", leanBool(rearm))
		condOK, condPipe := false, false
		if fd := funcDecl(ppf, "ppipe", "startWorker"); fd != nil {
			ast.Inspect(fd.Body, func(n ast.Node) bool {
				if is, ok := n.(*ast.IfStmt); ok {
					var sb strings.Builder
					ast.Inspect(is.Cond, func(m ast.Node) bool {
						if id, ok := m.(*ast.Ident); ok {
							sb.WriteString(id.Name + " ")
						}
						return true
					})
					s := sb.String()
					if strings.Contains(s, "wCharged") && strings.Contains(s, "Less") && strings.Contains(s, "LastKnwnPos") && (strings.Contains(s, "closedCtx") || strings.Contains(s, "clsCtx")) {
						condOK = true
						if strings.Contains(s, "clsCtx") || strings.Contains(s, "deleted") {
							condPipe = true
						}
					}
				}
				return true
			})
		} else {
			problem("ppipe.startWorker not found")
		}
		// --- the order of "sign off" and "check for more data" (C11's pipe-worker clause). By structure: the field startWorker's
		// condition negates (`!pd.<charged>`) and the field its `Less` call is given (`….Less(pd.<lastKnown>)`) are read from
		// startWorker itself; workerDone must assign `false` to the first BEFORE it calls startWorker, onWriteEvent must assign the
		// second BEFORE it calls startWorker, and in both functions assignment and call lie between one Lock() and the last Unlock()
		chargedField, lastKnownField := "", ""
		if fd := funcDecl(ppf, "ppipe", "startWorker"); fd != nil {
			ast.Inspect(fd.Body, func(n ast.Node) bool {
				switch x := n.(type) {
				case *ast.AssignStmt:
					// the field startWorker sets to `true` when it starts a worker (its condition tests the same field, negated
					// or — after De Morgan — plain)
					if len(x.Lhs) == 1 && len(x.Rhs) == 1 && chargedField == "" {
						if se, ok := x.Lhs[0].(*ast.SelectorExpr); ok {
							if id, ok := x.Rhs[0].(*ast.Ident); ok && id.Name == "true" {
								chargedField = se.Sel.Name
							}
						}
					}
				case *ast.CallExpr:
					if se, ok := x.Fun.(*ast.SelectorExpr); ok && se.Sel.Name == "Less" && len(x.Args) == 1 {
						if a, ok := x.Args[0].(*ast.SelectorExpr); ok {
							lastKnownField = a.Sel.Name
						}
					}
				}
				return true
			})
		}
		// position of the first assignment `<x>.<field> = <rhs>` (rhsFalse: the right-hand side must be the literal false)
		assignPos := func(body ast.Node, field string, rhsFalse bool) token.Pos {
			var pos token.Pos
			if body == nil || field == "" {
				return pos
			}
			ast.Inspect(body, func(n ast.Node) bool {
				if as, ok := n.(*ast.AssignStmt); ok && len(as.Lhs) == 1 && len(as.Rhs) == 1 && pos == 0 {
					if se, ok := as.Lhs[0].(*ast.SelectorExpr); ok && se.Sel.Name == field {
						if id, isId := as.Rhs[0].(*ast.Ident); !rhsFalse || (isId && id.Name == "false") {
							pos = as.Pos()
						}
					}
				}
				return true
			})
			return pos
		}
		signOffFirst, recordFirst, underLock := false, false, false
		wdFd, weFd := funcDecl(ppf, "ppipe", "workerDone"), funcDecl(ppf, "ppipe", "onWriteEvent")
		if wdFd != nil && weFd != nil && chargedField != "" && lastKnownField != "" {
			_, swd := c10CallsMethod(wdFd.Body, "startWorker")
			_, swe := c10CallsMethod(weFd.Body, "startWorker")
			a1, a2 := assignPos(wdFd.Body, chargedField, true), assignPos(weFd.Body, lastKnownField, false)
			signOffFirst = a1 != 0 && swd != 0 && a1 < swd
			recordFirst = a2 != 0 && swe != 0 && a2 < swe
			underLock = signOffFirst && recordFirst && c10UnderLock(wdFd, a1) && c10UnderLock(wdFd, swd) && c10UnderLock(weFd, a2) && c10UnderLock(weFd, swe)
		} else {
			problem("ppipe.workerDone / ppipe.onWriteEvent / the fields of startWorker's condition not found")
		}
		l.p("/-- `workerDone` signs the worker off (`pd.wCharged = false`) BEFORE it checks for more data (`startWorker`) -/")
		l.p("def workerDoneSignsOffBeforeRecheck : Bool := %s", leanBool(signOffFirst))
		l.p("/-- `onWriteEvent` records the notified end position (`pd.LastKnwnPos = …`) BEFORE it calls `startWorker` -/")
		l.p("def onWriteEventRecordsBeforeStart : Bool := %s", leanBool(recordFirst))
		l.p("/-- … and in both functions the assignment and the call happen inside one critical section of the pipe's lock -/")
		l.p("def signOffAndNotificationUnderOneLock : Bool := %s", leanBool(underLock))
		// --- the repairs of F79 and F10, recognised by structure (false on a tree without them)
		// (a) Service.Init ranges over the loaded pipes and calls a ppipe method which, over the pipe's descriptors, assigns the
		//     field startWorker compares Pos with (LastKnwnPos) and calls startWorker
		catchUp := false
		if fd := funcDecl(sf, "Service", "Init"); fd != nil {
			ast.Inspect(fd.Body, func(n ast.Node) bool {
				rs, ok := n.(*ast.RangeStmt)
				if !ok || !strings.Contains(c10Idents(rs.X), "ppipes") {
					return true
				}
				ast.Inspect(rs.Body, func(m ast.Node) bool {
					ce, ok := m.(*ast.CallExpr)
					if !ok {
						return true
					}
					se, ok := ce.Fun.(*ast.SelectorExpr)
					if !ok {
						return true
					}
					if md := funcDecl(ppf, "ppipe", se.Sel.Name); md != nil {
						ast.Inspect(md.Body, func(k ast.Node) bool {
							if r2, ok := k.(*ast.RangeStmt); ok && strings.Contains(c10Idents(r2.X), "partitions") {
								calls, _ := c10CallsMethod(r2.Body, "startWorker")
								if calls && lastKnownField != "" && assignPos(r2.Body, lastKnownField, false) != 0 {
									catchUp = true
								}
							}
							return true
						})
					}
					return true
				})
				return true
			})
		}
		l.p("/-- repair of F79 (a): `Service.Init` lets every loaded pipe look at the sources it has a position for — `LastKnwnPos` is brought up to the end of the stored data and `startWorker` is called -/")
		l.p("def initCatchesUpLoadedPipes : Bool := %s", leanBool(catchUp))
		// (b) onWriteEvent: the block that registers a NEW descriptor (assigns into the partitions map) also calls savePipeInfo
		persistFirst := false
		if weFd != nil {
			ast.Inspect(weFd.Body, func(n ast.Node) bool {
				is, ok := n.(*ast.IfStmt)
				if !ok {
					return true
				}
				registers := false
				ast.Inspect(is.Body, func(m ast.Node) bool {
					if as, ok := m.(*ast.AssignStmt); ok && len(as.Lhs) == 1 {
						if ix, ok := as.Lhs[0].(*ast.IndexExpr); ok && strings.Contains(c10Idents(ix.X), "partitions") {
							registers = true
						}
					}
					return true
				})
				if saves, _ := c10CallsMethod(is.Body, "savePipeInfo"); registers && saves {
					persistFirst = true
				}
				return true
			})
		}
		l.p("/-- repair of F79 (b): `onWriteEvent` persists the descriptor of a source it sees for the first time at once -/")
		l.p("def firstNotificationPersistsDescriptor : Bool := %s", leanBool(persistFirst))
		// (c) partition.Service.Write: a mutex obtained per partition (a map lookup keyed by the journal id the function got from
		//     GetOrCreateJournal) is locked before the journal loop and released (deferred, or after the publication) after it
		writeLock := false
		if fd := funcDecl(pf, "Service", "Write"); fd != nil {
			var loop *ast.ForStmt
			var lockPos, unlockPos, pubPos token.Pos
			keyed := false
			ast.Inspect(fd.Body, func(n ast.Node) bool {
				switch x := n.(type) {
				case *ast.ForStmt:
					if loop == nil {
						loop = x
					}
				case *ast.DeferStmt:
					if se, ok := x.Call.Fun.(*ast.SelectorExpr); ok && se.Sel.Name == "Unlock" {
						unlockPos = fd.Body.End()
					}
					return false
				case *ast.CallExpr:
					if se, ok := x.Fun.(*ast.SelectorExpr); ok {
						switch se.Sel.Name {
						case "Lock":
							if lockPos == 0 {
								lockPos = x.Pos()
							}
						case "Unlock":
							if x.Pos() > unlockPos {
								unlockPos = x.Pos()
							}
						case "onWriteEvent":
							pubPos = x.Pos()
						case "LoadOrStore", "Load":
							if len(x.Args) > 0 && c10Idents(x.Args[0]) == "src " {
								keyed = true
							}
						}
					}
				case *ast.IndexExpr:
					if c10Idents(x.Index) == "src " {
						keyed = true
					}
				}
				return true
			})
			writeLock = loop != nil && keyed && lockPos != 0 && lockPos < loop.Pos() && pubPos != 0 && pubPos < unlockPos
		}
		l.p("/-- repair of F10: `partition.Service.Write` holds a per-partition mutex from before the journal loop until after the publication of the write event -/")
		l.p("def writePublishesUnderPartitionLock : Bool := %s", leanBool(writeLock))
		l.p("/-- `startWorker` tests `closedCtx.Err() == nil && !pd.wCharged && pd.Pos.Less(pd.LastKnwnPos)` -/")
		l.p("def startWorkerCondition : Bool := %s", leanBool(condOK))
		l.p("/-- … and also that the pipe itself is alive (`pp.clsCtx` / `pp.deleted`) -/")
		l.p("def startWorkerChecksPipeAlive : Bool := %s", leanBool(condPipe))
		saveStatePersists := false
		if fd := funcDecl(ppf, "ppipe", "saveState"); fd != nil {
			saveStatePersists, _ = c10CallsMethod(fd.Body, "savePipeInfo")
		} else {
			problem("ppipe.saveState not found")
		}
		l.p("/-- `saveState` writes the positions file -/")
		l.p("def saveStatePersists : Bool := %s", leanBool(saveStatePersists))
		// … inside the critical section of the pipe's lock: the whole map is written while nobody can change it, so the file
		// written last is the newest snapshot (the model's `wsave` is one atomic step)
		saveUnderLock := false
		if fd := funcDecl(ppf, "ppipe", "saveState"); fd != nil {
			_, ps := c10CallsMethod(fd.Body, "savePipeInfo")
			saveUnderLock = saveStatePersists && c10UnderLock(fd, ps)
		}
		l.p("/-- … while it holds the pipe's lock (between `Lock()` and the last `Unlock()`): snapshots reach the file in the order they are taken -/")
		l.p("def saveStateWritesFileUnderLock : Bool := %s", leanBool(saveUnderLock))

		// --- worker.go
		wf := parseFile("pkg/pipe/worker.go")
		saveAfterWrite, waitSec, provFromTags := false, -1, false
		if fd := funcDecl(wf, "worker", "run"); fd == nil {
			problem("pipe.worker.run not found")
		} else {
			okW, pW := c10CallsMethod(fd.Body, "Write")
			okS, pS := c10CallsMethod(fd.Body, "saveState")
			saveAfterWrite = okW && okS && pW < pS
			ast.Inspect(fd.Body, func(n ast.Node) bool {
				ce, ok := n.(*ast.CallExpr)
				if !ok {
					return true
				}
				if se, ok := ce.Fun.(*ast.SelectorExpr); ok && se.Sel.Name == "WithTimeout" && len(ce.Args) == 2 {
					// `N*time.Second`, or a package-level constant of pkg/pipe with such a value
					if v := c10Seconds([]*ast.File{wf, ppf, sf}, ce.Args[1], 2); v >= 0 {
						waitSec = v
					}
				}
				if se, ok := ce.Fun.(*ast.SelectorExpr); ok && se.Sel.Name == "Parse" {
					if id, ok := se.X.(*ast.Ident); ok && id.Name == "field" {
						provFromTags = true
					}
				}
				return true
			})
		}
		if waitSec < 0 {
			problem("the wait timeout of pipe.worker.run not found")
			waitSec = 0
		}
		l.p("/-- in the loop of `worker.run`, `saveState` comes after `Journals.Write` -/")
		l.p("def workerSavesAfterWrite : Bool := %s", leanBool(saveAfterWrite))
		l.p("/-- `context.WithTimeout(ctx, N*time.Second)` around `WaitNewData` in `worker.run` -/")
		l.p("def workerWaitSec : Nat := %d", waitSec)
		l.p("/-- the extra fields are `field.Parse(srcTags)` -/")
		l.p("def provenanceFromSourceTags : Bool := %s", leanBool(provFromTags))

		// --- persister.go
		psf := parseFile("pkg/pipe/persister.go")
		pipesFile, prefix := "", ""
		if psf != nil {
			ast.Inspect(psf, func(n ast.Node) bool {
				if vs, ok := n.(*ast.ValueSpec); ok && len(vs.Names) == 1 && vs.Names[0].Name == "cPipesFileName" && len(vs.Values) == 1 {
					if bl, ok := vs.Values[0].(*ast.BasicLit); ok {
						pipesFile, _ = strconv.Unquote(bl.Value)
					}
				}
				return true
			})
		}
		if fd := funcDecl(psf, "persister", "pipeFileName"); fd != nil {
			ast.Inspect(fd.Body, func(n ast.Node) bool {
				if be, ok := n.(*ast.BinaryExpr); ok {
					if bl, ok := be.X.(*ast.BasicLit); ok && prefix == "" {
						prefix, _ = strconv.Unquote(bl.Value)
					}
					if be2, ok := be.X.(*ast.BinaryExpr); ok {
						if bl, ok := be2.X.(*ast.BasicLit); ok && prefix == "" {
							prefix, _ = strconv.Unquote(bl.Value)
						}
					}
				}
				return true
			})
		}
		if pipesFile == "" || prefix == "" {
			problem("persister file names not found")
		}
		l.p("/-- registry file and the prefix of a pipe's positions file (`\"pipe\" + name + \".dat\"`): the name `s` collides (finding F33, C07) -/")
		l.p("def pipesFileName : String := %s", leanStr(pipesFile))
		l.p("def pipeFilePrefix : String := %s", leanStr(prefix))
		l.write()
	}
}
