package main

// C01: which callers of partition.Service.Write hold a per-partition write lock while they append and announce their records?
// (finding F-C01-901: the library returns the chunk's record count after releasing the chunk writer's lock, so writers of one
// partition that are not serialised get shifted positions.) Read by structure from Service.Write:
//
//	scope 2  a `<local>.Lock()` statement (a mutex obtained per call, not a field of the receiver) stands unconditionally in the
//	         function body before the write loop, or unconditionally in the loop body before the journal's Write call
//	scope 1  it stands under `if !<p>` where <p> is the function's bool parameter (noEvent): only writers that publish a write
//	         event are serialised — the pipe workers (noEvent = true) are not
//	scope 0  no such lock
//
// any other placement is an EXTRACT-PROBLEM.

import (
	"go/ast"
	"go/token"
)

func c01WriteLockScope() int {
	fp := parseFile("pkg/partition/partition.go")
	fd := funcDecl(fp, "Service", "Write")
	if fd == nil {
		problem("partition.Service.Write not found")
		return 0
	}
	recv := ""
	if fd.Recv != nil && len(fd.Recv.List) == 1 && len(fd.Recv.List[0].Names) == 1 {
		recv = fd.Recv.List[0].Names[0].Name
	}
	boolParams := map[string]bool{}
	for _, p := range fd.Type.Params.List {
		if id, ok := p.Type.(*ast.Ident); ok && id.Name == "bool" {
			for _, n := range p.Names {
				boolParams[n.Name] = true
			}
		}
	}
	isLocalLock := func(st ast.Stmt) bool {
		es, ok := st.(*ast.ExprStmt)
		if !ok {
			return false
		}
		ce, ok := es.X.(*ast.CallExpr)
		if !ok {
			return false
		}
		se, ok := ce.Fun.(*ast.SelectorExpr)
		if !ok || se.Sel.Name != "Lock" {
			return false
		}
		id, ok := se.X.(*ast.Ident) // a local variable, not <recv>.<field>
		return ok && id.Name != recv
	}
	scope := 0
	found := false
	var visit func(list []ast.Stmt, cond int) // cond: 2 = unconditional so far, 1 = under `!boolParam`, -1 = under something else
	visit = func(list []ast.Stmt, cond int) {
		for _, st := range list {
			if isLocalLock(st) {
				found = true
				switch cond {
				case 2:
					scope = 2
				case 1:
					if scope < 1 {
						scope = 1
					}
				default:
					problem("partition.Service.Write: a per-partition Lock() under a condition that is not `!<bool parameter>`")
				}
			}
			switch x := st.(type) {
			case *ast.IfStmt:
				c := -1
				if ue, ok := unparen(x.Cond).(*ast.UnaryExpr); ok && ue.Op == token.NOT {
					if id, ok := unparen(ue.X).(*ast.Ident); ok && boolParams[id.Name] {
						c = 1
					}
				}
				if cond != 2 && c == 1 {
					c = -1
				}
				visit(x.Body.List, c)
				if eb, ok := x.Else.(*ast.BlockStmt); ok {
					visit(eb.List, -1)
				}
			case *ast.ForStmt:
				visit(x.Body.List, cond)
			case *ast.BlockStmt:
				visit(x.List, cond)
			}
		}
	}
	visit(fd.Body.List, 2)
	_ = found
	return scope
}
