package main

import (
	"bytes"
	"go/ast"
	"go/printer"
	"go/token"
	"os"
	"path/filepath"
	"strconv"
	"strings"
)

// C09: structural facts of pkg/partition/partition.go (truncate, Service.Truncate, truncateGlobally, deleteJournal)
// and pkg/tmindex/cindex.go (chkInfo.update) the TRUNCATE model is parameterised by.
//
// The facts are matched by STRUCTURE, not by spelling: local variable names are free, calls to helpers of the same
// package are followed (depth <= 2, at the call site, in statement order), `idx--; … cks[idx]` and `… cks[idx-1]`
// are the same thing, an early return `if empty || DryRun { return }`, its switch form and an enclosing
// `if !empty && !DryRun { delete }` are the same thing. Field and method names of the package's API (MaxSrcSize,
// MinSrcSize, OldestTs, MaxTs, DryRun, ChunksDeleted, LatestTs, Src, Size(), DeleteChunks, LockExclusively, …) are
// what the matching holds on to.

func c09NodeString(n ast.Node) string {
	var b bytes.Buffer
	printer.Fprint(&b, fset, n)
	return b.String()
}

func c09Norm(n ast.Node) string {
	return strings.Join(strings.Fields(c09NodeString(n)), "")
}

// c09Pkg indexes the function declarations of one package directory (non-test files) by name.
type c09Pkg map[string]*ast.FuncDecl

func c09LoadPkg(relDir string) c09Pkg {
	p := c09Pkg{}
	ents, err := os.ReadDir(filepath.Join(repo, relDir))
	if err != nil {
		return p
	}
	for _, e := range ents {
		n := e.Name()
		if e.IsDir() || !strings.HasSuffix(n, ".go") || strings.HasSuffix(n, "_test.go") || strings.Contains(n, "_verif") {
			continue
		}
		f := parseFile(filepath.Join(relDir, n))
		if f == nil {
			continue
		}
		for _, d := range f.Decls {
			if fd, ok := d.(*ast.FuncDecl); ok && fd.Body != nil {
				if _, dup := p[fd.Name.Name]; !dup {
					p[fd.Name.Name] = fd
				}
			}
		}
	}
	return p
}

// walk visits the nodes of fd's body in source order; when it meets a call of a same-package function or method it
// visits that helper's body right there (depth levels deep). The callee is found by name: a plain identifier, or a
// selector on the receiver (or any identifier) whose selected name is a function of the package.
func (p c09Pkg) walk(fd *ast.FuncDecl, depth int, visit func(n ast.Node, inHelper bool)) {
	var rec func(body ast.Node, d int, helper bool, seen map[string]bool)
	rec = func(body ast.Node, d int, helper bool, seen map[string]bool) {
		ast.Inspect(body, func(n ast.Node) bool {
			if n == nil {
				return true
			}
			visit(n, helper)
			if ce, ok := n.(*ast.CallExpr); ok && d > 0 {
				name := ""
				switch f := ce.Fun.(type) {
				case *ast.Ident:
					name = f.Name
				case *ast.SelectorExpr:
					if _, ok := f.X.(*ast.Ident); ok {
						name = f.Sel.Name
					}
				}
				if h, ok := p[name]; ok && name != fd.Name.Name && !seen[name] && h != fd {
					// only plain helpers: do not wander into the package's other entry points through interfaces
					if id, isIdent := ce.Fun.(*ast.Ident); isIdent || c09IsReceiver(fd, ce.Fun) {
						_ = id
						seen2 := map[string]bool{name: true}
						for k := range seen {
							seen2[k] = true
						}
						rec(h.Body, d-1, true, seen2)
					}
				}
			}
			return true
		})
	}
	rec(fd.Body, depth, false, map[string]bool{})
}

// helperOf returns the same-package function a call names (a plain identifier, or a selector on an identifier), nil otherwise
func (p c09Pkg) helperOf(ce *ast.CallExpr) *ast.FuncDecl {
	switch f := ce.Fun.(type) {
	case *ast.Ident:
		return p[f.Name]
	case *ast.SelectorExpr:
		if _, ok := f.X.(*ast.Ident); ok {
			return p[f.Sel.Name]
		}
	}
	return nil
}

// containsDeep: does n, or the body of a same-package helper called from it (depth levels deep), hold a node satisfying pred?
func (p c09Pkg) containsDeep(n ast.Node, depth int, pred func(ast.Node) bool) bool {
	found := false
	ast.Inspect(n, func(m ast.Node) bool {
		if m == nil || found {
			return !found
		}
		if pred(m) {
			found = true
			return false
		}
		if ce, ok := m.(*ast.CallExpr); ok && depth > 0 {
			if h := p.helperOf(ce); h != nil && h.Body != nil && p.containsDeep(h.Body, depth-1, pred) {
				found = true
				return false
			}
		}
		return true
	})
	return found
}

// c09LoopIndex: the variable a chooser loop advances — incremented by the loop's post statement or by a statement of its
// body (`x++`, `x += 1`) and used as an index in the loop's condition; "" when there is none
func c09LoopIndex(fs *ast.ForStmt) string {
	var cands []string
	add := func(st ast.Stmt) {
		switch x := st.(type) {
		case *ast.IncDecStmt:
			if id, ok := x.X.(*ast.Ident); ok && x.Tok == token.INC {
				cands = append(cands, id.Name)
			}
		case *ast.AssignStmt:
			if len(x.Lhs) == 1 && len(x.Rhs) == 1 && x.Tok == token.ADD_ASSIGN {
				if id, ok := x.Lhs[0].(*ast.Ident); ok {
					if k, ok := intLit(x.Rhs[0]); ok && k == 1 {
						cands = append(cands, id.Name)
					}
				}
			}
		}
	}
	if fs.Post != nil {
		add(fs.Post)
	}
	if fs.Body != nil {
		for _, st := range fs.Body.List {
			add(st)
		}
	}
	if fs.Cond == nil {
		return ""
	}
	for _, c := range cands {
		used := false
		ast.Inspect(fs.Cond, func(m ast.Node) bool {
			if ie, ok := m.(*ast.IndexExpr); ok {
				if id, ok := ie.Index.(*ast.Ident); ok && id.Name == c {
					used = true
				}
			}
			return !used
		})
		if used {
			return c
		}
	}
	return ""
}

func c09IsChooserLoop(fs *ast.ForStmt) bool {
	return fs.Cond != nil && (hasSel(fs.Cond, "MaxSrcSize") || hasSel(fs.Cond, "MaxTs"))
}

func c09IsReceiver(fd *ast.FuncDecl, fun ast.Expr) bool {
	se, ok := fun.(*ast.SelectorExpr)
	if !ok || fd.Recv == nil || len(fd.Recv.List) != 1 || len(fd.Recv.List[0].Names) != 1 {
		return false
	}
	id, ok := se.X.(*ast.Ident)
	return ok && id.Name == fd.Recv.List[0].Names[0].Name
}

// selName returns the selected field/method name of a selector expression ("" otherwise)
func selName(e ast.Expr) string {
	if se, ok := e.(*ast.SelectorExpr); ok {
		return se.Sel.Name
	}
	return ""
}

func hasSel(n ast.Node, name string) bool {
	found := false
	ast.Inspect(n, func(m ast.Node) bool {
		if se, ok := m.(*ast.SelectorExpr); ok && se.Sel.Name == name {
			found = true
		}
		return !found
	})
	return found
}

func callsMethod(n ast.Node, name string) bool {
	found := false
	ast.Inspect(n, func(m ast.Node) bool {
		if ce, ok := m.(*ast.CallExpr); ok && selName(ce.Fun) == name {
			found = true
		}
		return !found
	})
	return found
}

func intLit(e ast.Expr) (int64, bool) {
	if p, ok := e.(*ast.ParenExpr); ok {
		return intLit(p.X)
	}
	if bl, ok := e.(*ast.BasicLit); ok && bl.Kind == token.INT {
		v, err := strconv.ParseInt(bl.Value, 0, 64)
		return v, err == nil
	}
	return 0, false
}

// idxOffset reads `v`, `v-k`, `v+k` for the identifier v: returns k' with expr = v + k'
func idxOffset(e ast.Expr, v string) (int64, bool) {
	switch x := e.(type) {
	case *ast.ParenExpr:
		return idxOffset(x.X, v)
	case *ast.Ident:
		return 0, x.Name == v
	case *ast.BinaryExpr:
		if id, ok := x.X.(*ast.Ident); ok && id.Name == v {
			if k, ok := intLit(x.Y); ok {
				if x.Op == token.SUB {
					return -k, true
				}
				if x.Op == token.ADD {
					return k, true
				}
			}
		}
	}
	return 0, false
}

// flattenOr / flattenAnd split a condition at its top-level || / &&
func flattenBin(e ast.Expr, op token.Token) []ast.Expr {
	if p, ok := e.(*ast.ParenExpr); ok {
		return flattenBin(p.X, op)
	}
	if be, ok := e.(*ast.BinaryExpr); ok && be.Op == op {
		return append(flattenBin(be.X, op), flattenBin(be.Y, op)...)
	}
	return []ast.Expr{e}
}

func returns(body *ast.BlockStmt) bool {
	for _, st := range body.List {
		if _, ok := st.(*ast.ReturnStmt); ok {
			return true
		}
	}
	return false
}

func init() {
	generators["C09"] = func() {
		l := newLean("C09", "Facts about pkg/partition/partition.go (truncate, Service.Truncate, truncateGlobally, deleteJournal), pkg/tmindex/cindex.go (chkInfo.update).")
		pp := c09LoadPkg("pkg/partition")
		f := parseFile("pkg/partition/partition.go")

		// ---------------------------------------------------------------------------------- truncate
		strict, strictFound := false, false
		sizeChecksMin, timeChecksMin, sizeGuard := false, false, false
		readsJournalSize, loopsReread, snapshotSum := false, false, false
		delMinusOne, dryGuard := false, false
		fd := funcDecl(f, "Service", "truncate")
		if fd == nil {
			problem("partition.Service.truncate not found")
		} else {
			// the journal parameter: the one whose type is journal.Journal
			jrnl := ""
			for _, fl := range fd.Type.Params.List {
				if c09Norm(fl.Type) == "journal.Journal" && len(fl.Names) == 1 {
					jrnl = fl.Names[0].Name
				}
			}
			// the index variable: the one the chooser loops increment
			// — a loop of truncate itself, or a loop of a helper whose advanced index comes back through the helper's results
			// (`idx, size = cutBySize(…)`: the result position of the helper's loop variable names the caller's variable)
			idxVar := ""
			ast.Inspect(fd.Body, func(n ast.Node) bool {
				switch x := n.(type) {
				case *ast.ForStmt:
					if c09IsChooserLoop(x) {
						if v := c09LoopIndex(x); v != "" {
							idxVar = v
						}
					}
				case *ast.AssignStmt:
					if len(x.Rhs) != 1 {
						return true
					}
					ce, ok := x.Rhs[0].(*ast.CallExpr)
					if !ok {
						return true
					}
					h := pp.helperOf(ce)
					if h == nil || h.Body == nil || h == fd {
						return true
					}
					hv := ""
					ast.Inspect(h.Body, func(m ast.Node) bool {
						if fs, ok := m.(*ast.ForStmt); ok && c09IsChooserLoop(fs) {
							if v := c09LoopIndex(fs); v != "" {
								hv = v
							}
						}
						return true
					})
					if hv == "" {
						return true
					}
					ast.Inspect(h.Body, func(m ast.Node) bool {
						if rs, ok := m.(*ast.ReturnStmt); ok {
							for k, r := range rs.Results {
								if id, ok := r.(*ast.Ident); ok && id.Name == hv && k < len(x.Lhs) {
									if l, ok := x.Lhs[k].(*ast.Ident); ok {
										idxVar = l.Name
									}
								}
							}
						}
						return true
					})
				}
				return true
			})
			if idxVar == "" {
				problem("partition.Service.truncate: the index variable the chooser loops advance was not found")
			}
			deleteFound, sizeLoopFound := false, false
			decrs := int64(0)            // decrements of the index variable met so far (statement order)
			copies := map[string]int64{} // n := idx  →  n = orig - copies[n]
			guardOK := false             // an emptiness-or-DryRun guard that leaves before the deletion was met
			var enclosing []*ast.IfStmt  // if-statements whose body we are in (for the `if !empty && !DryRun { delete }` form)
			emptyTest := func(e ast.Expr, neg bool) bool {
				// is e "no chunk was chosen" (neg=false) / "some chunk was chosen" (neg=true), for the index value at this point?
				be, ok := e.(*ast.BinaryExpr)
				if !ok {
					if p, ok := e.(*ast.ParenExpr); ok {
						be, ok = p.X.(*ast.BinaryExpr)
						if !ok {
							return false
						}
					} else {
						return false
					}
				}
				id, ok := be.X.(*ast.Ident)
				k, ok2 := intLit(be.Y)
				if !ok || !ok2 {
					return false
				}
				d := int64(-1)
				if id.Name == idxVar {
					d = decrs
				} else if c, ok := copies[id.Name]; ok {
					d = c
				}
				if d < 0 {
					return false
				}
				// the variable holds orig-d with orig >= 0:  var OP k  ⇔  orig OP k+d
				kk := k + d
				if !neg {
					return (be.Op == token.LSS && kk == 1) || (be.Op == token.LEQ && kk == 0) || (be.Op == token.EQL && kk == 0)
				}
				return (be.Op == token.GTR && kk == 0) || (be.Op == token.GEQ && kk == 1) || (be.Op == token.NEQ && kk == 0)
			}
			isDry := func(e ast.Expr) bool { return selName(e) == "DryRun" }
			isNotDry := func(e ast.Expr) bool {
				u, ok := e.(*ast.UnaryExpr)
				return ok && u.Op == token.NOT && selName(u.X) == "DryRun"
			}
			orGuard := func(conds []ast.Expr) bool {
				e, d := false, false
				for _, c := range conds {
					if emptyTest(c, false) {
						e = true
					}
					if isDry(c) {
						d = true
					}
				}
				return e && d
			}
			var stack []ast.Node
			pp.walk(fd, 2, func(n ast.Node, inHelper bool) {
				_ = stack
				// the snapshot of the sizes: a range loop or an index loop (not a chooser loop)
				var loopBody *ast.BlockStmt
				switch ls := n.(type) {
				case *ast.RangeStmt:
					loopBody = ls.Body
				case *ast.ForStmt:
					if !c09IsChooserLoop(ls) {
						loopBody = ls.Body
					}
				}
				if loopBody != nil {
					// A[i] = uint64(v.Size()); T += A[i]   (names free)
					var arr, idx string
					ast.Inspect(loopBody, func(m ast.Node) bool {
						as, ok := m.(*ast.AssignStmt)
						if !ok || len(as.Lhs) != 1 || len(as.Rhs) != 1 {
							return true
						}
						if ie, ok := as.Lhs[0].(*ast.IndexExpr); ok && as.Tok == token.ASSIGN && callsMethod(as.Rhs[0], "Size") {
							arr, idx = c09Norm(ie.X), c09Norm(ie.Index)
						}
						if ie, ok := as.Rhs[0].(*ast.IndexExpr); ok && as.Tok == token.ADD_ASSIGN && arr != "" &&
							c09Norm(ie.X) == arr && c09Norm(ie.Index) == idx {
							snapshotSum = true
						}
						return true
					})
				}
				switch s := n.(type) {
				case *ast.CallExpr:
					// jrnl.Size() anywhere in truncate or its helpers
					if se, ok := s.Fun.(*ast.SelectorExpr); ok && se.Sel.Name == "Size" {
						if id, ok := se.X.(*ast.Ident); ok && id.Name == jrnl && jrnl != "" {
							readsJournalSize = true
						}
					}
					if selName(s.Fun) == "DeleteChunks" && len(s.Args) >= 2 {
						deleteFound = true
						// the id argument: <list>[E].Id()
						if ce, ok := s.Args[1].(*ast.CallExpr); ok && selName(ce.Fun) == "Id" {
							if ie, ok := ce.Fun.(*ast.SelectorExpr).X.(*ast.IndexExpr); ok {
								if off, ok := idxOffset(ie.Index, idxVar); ok {
									delMinusOne = off-decrs == -1
								}
							}
						}
						dryGuard = guardOK
						for _, is := range enclosing {
							// if some && !DryRun { … DeleteChunks … }
							cs := flattenBin(is.Cond, token.LAND)
							e, d := false, false
							for _, c := range cs {
								if emptyTest(c, true) {
									e = true
								}
								if isNotDry(c) {
									d = true
								}
							}
							if e && d && s.Pos() >= is.Body.Pos() && s.End() <= is.Body.End() {
								dryGuard = true
							}
						}
					}
				case *ast.IncDecStmt:
					if id, ok := s.X.(*ast.Ident); ok && id.Name == idxVar && s.Tok == token.DEC && !inHelper {
						decrs++
					}
				case *ast.AssignStmt:
					if len(s.Lhs) == 1 && len(s.Rhs) == 1 {
						if id, ok := s.Lhs[0].(*ast.Ident); ok {
							if id.Name == idxVar && s.Tok == token.SUB_ASSIGN {
								if k, ok := intLit(s.Rhs[0]); ok {
									decrs += k
								}
							}
							if r, ok := s.Rhs[0].(*ast.Ident); ok && r.Name == idxVar && (s.Tok == token.DEFINE || s.Tok == token.ASSIGN) && id.Name != idxVar {
								copies[id.Name] = decrs
							}
						}
					}
				case *ast.IfStmt:
					enclosing = append(enclosing, s)
					if orGuard(flattenBin(s.Cond, token.LOR)) && returns(s.Body) {
						guardOK = true
					}
					// `Max > 0 && Max > Min` guarding the size loop
					gt0, gtMin := false, false
					for _, c := range flattenBin(s.Cond, token.LAND) {
						if be, ok := c.(*ast.BinaryExpr); ok && be.Op == token.GTR && selName(be.X) == "MaxSrcSize" {
							if k, ok := intLit(be.Y); ok && k == 0 {
								gt0 = true
							}
							if selName(be.Y) == "MinSrcSize" {
								gtMin = true
							}
						}
					}
					if gt0 && gtMin {
						// it must contain the size loop
						if pp.containsDeep(s.Body, 2, func(m ast.Node) bool {
							fs, ok := m.(*ast.ForStmt)
							return ok && fs.Cond != nil && hasSel(fs.Cond, "MaxSrcSize")
						}) {
							sizeGuard = true
						}
					}
				case *ast.SwitchStmt:
					if s.Tag == nil {
						for _, cc := range s.Body.List {
							if c, ok := cc.(*ast.CaseClause); ok && orGuard(c.List) {
								for _, st := range c.Body {
									if _, ok := st.(*ast.ReturnStmt); ok {
										guardOK = true
									}
								}
							}
						}
					}
				case *ast.ForStmt:
					if s.Cond == nil {
						return
					}
					isTime := hasSel(s.Cond, "MaxTs") && hasSel(s.Cond, "OldestTs")
					isSize := hasSel(s.Cond, "MaxSrcSize")
					if !isTime && !isSize {
						return
					}
					if callsMethod(s.Cond, "Size") || callsMethod(s.Body, "Size") {
						loopsReread = true
					}
					chkMin := false
					for _, c := range flattenBin(s.Cond, token.LAND) {
						be, ok := c.(*ast.BinaryExpr)
						if !ok {
							continue
						}
						// <total> - <one chunk's size> >= <…>.MinSrcSize
						if be.Op == token.GEQ && selName(be.Y) == "MinSrcSize" {
							if sub, ok := be.X.(*ast.BinaryExpr); ok && sub.Op == token.SUB {
								if _, isIdx := sub.Y.(*ast.IndexExpr); isIdx || callsMethod(sub.Y, "Size") {
									chkMin = true
								}
							}
						}
						if isTime && hasSel(be.X, "MaxTs") && hasSel(be.Y, "OldestTs") {
							switch be.Op {
							case token.LSS:
								strict, strictFound = true, true
							case token.LEQ:
								strict, strictFound = false, true
							}
						}
					}
					if isTime {
						timeChecksMin = chkMin
					}
					if isSize {
						sizeChecksMin = chkMin
						sizeLoopFound = true
					}
				}
			})
			if !strictFound {
				problem("partition.Service.truncate: comparison of a chunk's MaxTs with OldestTs not found in a loop condition")
			}
			if !sizeLoopFound {
				problem("partition.Service.truncate: the size loop (a loop whose condition compares with MaxSrcSize) not found")
			}
			if !deleteFound {
				problem("partition.Service.truncate: the DeleteChunks call not found")
			}
			if !snapshotSum && !readsJournalSize {
				problem("partition.Service.truncate: neither a snapshot sum of the chunk sizes nor a Size() read of the journal recognised as the total")
			}
		}

		// ---------------------------------------------------------------------------------- truncateGlobally
		gmin, gmax := int64(-1), int64(-1)
		deltaIsLen, dryDeltaSubtracts := false, false
		accountsRefused := false
		gd := funcDecl(f, "Service", "truncateGlobally")
		if gd == nil {
			problem("partition.Service.truncateGlobally not found")
		} else {
			deltaVar := ""
			pp.walk(gd, 1, func(n ast.Node, _ bool) {
				switch s := n.(type) {
				case *ast.CallExpr:
					if selName(s.Fun) != "truncate" {
						return
					}
					for _, a := range s.Args {
						ue, ok := a.(*ast.UnaryExpr)
						if !ok {
							continue
						}
						cl, ok := ue.X.(*ast.CompositeLit)
						if !ok {
							continue
						}
						for _, el := range cl.Elts {
							if kv, ok := el.(*ast.KeyValueExpr); ok {
								if v, ok := intLit(kv.Value); ok {
									switch c09Norm(kv.Key) {
									case "MinSrcSize":
										gmin = v
									case "MaxSrcSize":
										gmax = v
									}
								}
							}
						}
					}
				case *ast.AssignStmt:
					if len(s.Lhs) != 1 || len(s.Rhs) != 1 {
						return
					}
					// <x>.ChunksDeleted += V
					if s.Tok == token.ADD_ASSIGN && selName(s.Lhs[0]) == "ChunksDeleted" {
						if id, ok := s.Rhs[0].(*ast.Ident); ok {
							deltaVar = id.Name
						} else if ce, ok := s.Rhs[0].(*ast.CallExpr); ok && c09Norm(ce.Fun) == "len" {
							deltaIsLen = true // the unrepaired shape: += len(cks) unconditionally
						}
					}
				}
			})
			if deltaVar != "" {
				pp.walk(gd, 1, func(n ast.Node, _ bool) {
					switch s := n.(type) {
					case *ast.AssignStmt:
						if len(s.Lhs) == 1 && len(s.Rhs) == 1 && c09Norm(s.Lhs[0]) == deltaVar && (s.Tok == token.DEFINE || s.Tok == token.ASSIGN) {
							if ce, ok := s.Rhs[0].(*ast.CallExpr); ok && c09Norm(ce.Fun) == "len" {
								deltaIsLen = true
							}
						}
					case *ast.IfStmt:
						if selName(s.Cond) == "DryRun" {
							for _, st := range s.Body.List {
								if as, ok := st.(*ast.AssignStmt); ok && as.Tok == token.SUB_ASSIGN && len(as.Lhs) == 1 &&
									c09Norm(as.Lhs[0]) == deltaVar && selName(as.Rhs[0]) == "ChunksDeleted" {
									dryDeltaSubtracts = true
								}
							}
						}
					}
				})
			}
			// does the pass account for what the inner truncate removed also when the drop is refused? D := … deleteJournal(…) …;
			// `<total> -= <entry>.AfterSize` stands inside `if D { … }` (no) or outside of it (yes)
			dropVar := ""
			var subStmt *ast.AssignStmt
			var dropIfs []*ast.IfStmt
			pp.walk(gd, 1, func(n ast.Node, inHelper bool) {
				if inHelper {
					return
				}
				switch s := n.(type) {
				case *ast.AssignStmt:
					if len(s.Lhs) == 1 && len(s.Rhs) == 1 {
						if id, ok := s.Lhs[0].(*ast.Ident); ok && callsMethod(s.Rhs[0], "deleteJournal") {
							dropVar = id.Name
						}
						if s.Tok == token.SUB_ASSIGN && selName(s.Rhs[0]) == "AfterSize" {
							subStmt = s
						}
					}
				case *ast.IfStmt:
					if id, ok := s.Cond.(*ast.Ident); ok && dropVar != "" && id.Name == dropVar {
						dropIfs = append(dropIfs, s)
					}
				}
			})
			if dropVar == "" || subStmt == nil {
				problem("partition.Service.truncateGlobally: the drop flag (… deleteJournal(…)) or the statement `<total> -= <entry>.AfterSize` not found")
			} else {
				accountsRefused = true
				for _, is := range dropIfs {
					if subStmt.Pos() >= is.Body.Pos() && subStmt.End() <= is.Body.End() {
						accountsRefused = false
					}
				}
				// the entry's Deleted flag: `= true` inside `if D` (old shape) or `= D` (new shape); anything else is unknown
				okFlag := false
				ast.Inspect(gd.Body, func(m ast.Node) bool {
					as, ok := m.(*ast.AssignStmt)
					if !ok || len(as.Lhs) != 1 || len(as.Rhs) != 1 || selName(as.Lhs[0]) != "Deleted" {
						return true
					}
					rhs := c09Norm(as.Rhs[0])
					if accountsRefused && rhs == dropVar {
						okFlag = true
					}
					if !accountsRefused && rhs == "true" {
						okFlag = true
					}
					return true
				})
				if !okFlag {
					problem("partition.Service.truncateGlobally: the entry's Deleted flag is not set as the accounting shape expects (true under `if deleted`, or = deleted)")
				}
			}
			if gmin < 0 || gmax < 0 {
				problem("partition.Service.truncateGlobally: inner truncate call with literal MinSrcSize/MaxSrcSize not found")
				gmin, gmax = 0, 0
			}
		}

		// ---------------------------------------------------------------------------------- Service.Truncate: sorted insertion
		insertOK, insertFound := false, false
		if td := funcDecl(f, "Service", "Truncate"); td == nil {
			problem("partition.Service.Truncate not found")
		} else {
			// the sort.Search call of Truncate itself or of a same-package helper it calls (depth 2)
			pp.walk(td, 2, func(n ast.Node, _ bool) {
				ce, ok := n.(*ast.CallExpr)
				if !ok || c09Norm(ce.Fun) != "sort.Search" || len(ce.Args) != 2 || insertFound {
					return
				}
				fl, ok := ce.Args[1].(*ast.FuncLit)
				if !ok {
					return
				}
				// aliases inside the predicate: si := sortedInfos[idx]
				alias := map[string]string{}
				var ret ast.Expr
				ast.Inspect(fl.Body, func(m ast.Node) bool {
					switch s := m.(type) {
					case *ast.AssignStmt:
						if len(s.Lhs) == 1 && len(s.Rhs) == 1 && s.Tok == token.DEFINE {
							if id, ok := s.Lhs[0].(*ast.Ident); ok {
								alias[id.Name] = c09Norm(s.Rhs[0])
							}
						}
					case *ast.ReturnStmt:
						if len(s.Results) == 1 {
							ret = s.Results[0]
						}
					}
					return true
				})
				if ret == nil {
					return
				}
				insertFound = true
				// rename the two things whose fields are compared: the element at the searched index → A, the new entry → B
				txt := c09Norm(ret)
				bases := map[string]bool{}
				ast.Inspect(ret, func(m ast.Node) bool {
					if se, ok := m.(*ast.SelectorExpr); ok && (se.Sel.Name == "LatestTs" || se.Sel.Name == "Src") {
						bases[c09Norm(se.X)] = true
					}
					return true
				})
				if len(bases) == 2 {
					var a, b string
					for base := range bases {
						full := base
						if v, ok := alias[base]; ok {
							full = v
						}
						if strings.Contains(full, "[") {
							a = base
						} else {
							b = base
						}
					}
					if a != "" && b != "" {
						txt = strings.ReplaceAll(txt, a+".", "A.")
						txt = strings.ReplaceAll(txt, b+".", "B.")
						txt = strings.NewReplacer("(", "", ")", "").Replace(txt)
						insertOK = txt == "A.LatestTs<B.LatestTs||A.LatestTs==B.LatestTs&&A.Src>=B.Src"
					}
				}
			})
			if !insertFound {
				problem("partition.Service.Truncate: sort.Search predicate of the sorted insertion not found")
			}
		}

		// ---------------------------------------------------------------------------------- Service.Truncate: serialised by a mutex
		// the first statements of Truncate: `<recv>.<m>.Lock()` followed by `defer <recv>.<m>.Unlock()` on the same field
		serialized := false
		if td := funcDecl(f, "Service", "Truncate"); td != nil && td.Body != nil {
			locked := ""
			for _, st := range td.Body.List {
				if es, ok := st.(*ast.ExprStmt); ok {
					if ce, ok := es.X.(*ast.CallExpr); ok && selName(ce.Fun) == "Lock" && len(ce.Args) == 0 && locked == "" {
						locked = c09Norm(ce.Fun.(*ast.SelectorExpr).X)
						continue
					}
				}
				if ds, ok := st.(*ast.DeferStmt); ok && locked != "" {
					if selName(ds.Call.Fun) == "Unlock" && c09Norm(ds.Call.Fun.(*ast.SelectorExpr).X) == locked {
						serialized = true
					}
				}
				break
			}
		}

		// ---------------------------------------------------------------------------------- Service.Truncate: Sync before Size
		visitorSyncs := false
		if td := funcDecl(f, "Service", "Truncate"); td != nil {
			// in statement order: a <journal>.Sync() call before the first `… := <journal>.Size()` of the function
			synced, sized := false, false
			pp.walk(td, 1, func(n ast.Node, inHelper bool) {
				if inHelper || sized {
					return
				}
				switch s := n.(type) {
				case *ast.CallExpr:
					if selName(s.Fun) == "Sync" {
						synced = true
					}
				case *ast.AssignStmt:
					if len(s.Rhs) == 1 {
						if ce, ok := s.Rhs[0].(*ast.CallExpr); ok && selName(ce.Fun) == "Size" {
							sized = true
							visitorSyncs = synced
						}
					}
				}
			})
		}

		// ---------------------------------------------------------------------------------- deleteJournal
		recheck, syncsFirst := false, false
		ownFolderOnly := true
		if dd := funcDecl(f, "Service", "deleteJournal"); dd == nil {
			problem("partition.Service.deleteJournal not found")
		} else {
			locked, deleted, synced := false, false, false
			// variables holding the partition's own folder: `v := <…>.LocalFolder()`
			folderVars := map[string]bool{}
			isLocalFolder := func(e ast.Expr) bool {
				ce, ok := e.(*ast.CallExpr)
				return ok && selName(ce.Fun) == "LocalFolder" && len(ce.Args) == 0
			}
			pp.walk(dd, 2, func(n ast.Node, inHelper bool) {
				switch s := n.(type) {
				case *ast.AssignStmt:
					if !inHelper && len(s.Lhs) == 1 && len(s.Rhs) == 1 {
						if id, ok := s.Lhs[0].(*ast.Ident); ok {
							if isLocalFolder(s.Rhs[0]) {
								folderVars[id.Name] = true
							} else {
								delete(folderVars, id.Name)
							}
						}
					}
				case *ast.CallExpr:
					// every removal from the file system (os.Remove, os.RemoveAll) is given the partition's own folder: the variable
					// assigned from LocalFolder() or that call itself (inside a helper: a plain identifier, the helper's parameter)
					if se, ok := s.Fun.(*ast.SelectorExpr); ok && strings.HasPrefix(se.Sel.Name, "Remove") {
						if x, ok := se.X.(*ast.Ident); ok && x.Name == "os" {
							good := false
							if len(s.Args) == 1 {
								switch a := s.Args[0].(type) {
								case *ast.Ident:
									good = inHelper || folderVars[a.Name]
								default:
									good = isLocalFolder(a)
								}
							}
							if !good {
								ownFolderOnly = false
							}
						}
					}
					switch selName(s.Fun) {
					case "Sync":
						// <journal>.Sync() under the exclusive lock, before the size re-check
						if locked && !deleted && !recheck {
							synced = true
						}
					case "LockExclusively":
						locked = true
					case "Delete":
						if hasSel(s.Fun, "TIndex") {
							deleted = true
						}
					}
				case *ast.IfStmt:
					if !locked || deleted {
						return
					}
					// if [v := <j>.Size();] (v | <j>.Size()) > 0 { …UnlockExclusively…; return false }
					be, ok := s.Cond.(*ast.BinaryExpr)
					if !ok || be.Op != token.GTR {
						return
					}
					if k, ok := intLit(be.Y); !ok || k != 0 {
						return
					}
					sized := callsMethod(be.X, "Size")
					if id, ok := be.X.(*ast.Ident); ok && s.Init != nil {
						if as, ok := s.Init.(*ast.AssignStmt); ok && len(as.Lhs) == 1 && c09Norm(as.Lhs[0]) == id.Name && callsMethod(as.Rhs[0], "Size") {
							sized = true
						}
					}
					if !sized {
						return
					}
					unl, ret := false, false
					for _, b := range s.Body.List {
						if callsMethod(b, "UnlockExclusively") {
							unl = true
						}
						if rs, ok := b.(*ast.ReturnStmt); ok && len(rs.Results) == 1 && c09Norm(rs.Results[0]) == "false" {
							ret = true
						}
					}
					if unl && ret {
						recheck = true
						syncsFirst = synced
					}
				}
			})
		}

		// ---------------------------------------------------------------------------------- tmindex chkInfo.update
		indep, indepFound := false, false
		tp := c09LoadPkg("pkg/tmindex")
		if cf := parseFile("pkg/tmindex/cindex.go"); cf != nil {
			if ud := funcDecl(cf, "chkInfo", "update"); ud != nil {
				// which if-statements adjust MinTs / MaxTs, and is the MaxTs one hanging in an else branch of the MinTs one?
				var minIf, maxIf *ast.IfStmt
				maxInElseOfMin := false
				adjusts := func(is *ast.IfStmt, field string, op token.Token) bool {
					be, ok := is.Cond.(*ast.BinaryExpr)
					if !ok || selName(be.X) != field || selName(be.Y) != field {
						return false
					}
					// a.F > b.F  or the mirrored  b.F < a.F
					mir := map[token.Token]token.Token{token.GTR: token.LSS, token.LSS: token.GTR}
					a, b := c09Norm(be.X.(*ast.SelectorExpr).X), c09Norm(be.Y.(*ast.SelectorExpr).X)
					if be.Op == mir[op] {
						a, b = b, a
					} else if be.Op != op {
						return false
					}
					for _, st := range is.Body.List {
						if as, ok := st.(*ast.AssignStmt); ok && len(as.Lhs) == 1 && c09Norm(as.Lhs[0]) == a+"."+field && c09Norm(as.Rhs[0]) == b+"."+field {
							return true
						}
					}
					return false
				}
				tp.walk(ud, 2, func(n ast.Node, _ bool) {
					is, ok := n.(*ast.IfStmt)
					if !ok {
						return
					}
					if adjusts(is, "MinTs", token.GTR) {
						minIf = is
					}
					if adjusts(is, "MaxTs", token.LSS) {
						maxIf = is
					}
				})
				if minIf != nil && maxIf != nil {
					indepFound = true
					if minIf.Else != nil && maxIf.Pos() >= minIf.Else.Pos() && maxIf.End() <= minIf.Else.End() {
						maxInElseOfMin = true
					}
					if maxIf.Else != nil && minIf.Pos() >= maxIf.Else.Pos() && minIf.End() <= maxIf.Else.End() {
						maxInElseOfMin = true // mirrored nesting: same defect
					}
					indep = !maxInElseOfMin
				}
			}
		}
		if !indepFound {
			problem("tmindex.chkInfo.update: the two adjustments of MinTs and MaxTs not found")
		}

		l.p("/-- `chkInfo.update` adjusts MinTs and MaxTs independently (true) or the one only when the other did not fire (false) -/")
		l.p("def hullUpdateIndependentIfs : Bool := %s", leanBool(indep))
		l.p("/-- `deleteJournal` re-checks the journal's size (> 0: unlock, return false) between `LockExclusively` and `TIndex.Delete` -/")
		l.p("def deleteJournalRechecksSize : Bool := %s", leanBool(recheck))
		l.p("/-- every `os.Remove…` call of `deleteJournal` is given the partition's own folder (`<chunks>.LocalFolder()`), nothing derived from it -/")
		l.p("def deleteJournalRemovesOwnFolderOnly : Bool := %s", leanBool(ownFolderOnly))
		l.p("/-- `deleteJournal` calls `Sync()` on the journal under the exclusive lock before that re-check (acknowledged records count in `Size()` only after their flush) -/")
		l.p("def deleteJournalSyncsBeforeRecheck : Bool := %s", leanBool(syncsFirst))
		l.p("/-- the visitor of `Service.Truncate` calls `Sync()` on the journal before it reads `Size()` (dry run and real run alike) -/")
		l.p("def truncateVisitorSyncsBeforeSize : Bool := %s", leanBool(visitorSyncs))
		l.p("/-- `truncate` (or a helper it calls) reads `Size()` of the journal for the total -/")
		l.p("def truncateReadsJournalSize : Bool := %s", leanBool(readsJournalSize))
		l.p("/-- the total is accumulated as `A[i] = uint64(c.Size()); total += A[i]` over one snapshot of the chunk sizes -/")
		l.p("def totalIsSnapshotSum : Bool := %s", leanBool(snapshotSum))
		l.p("/-- a chooser loop of `truncate` calls `Size()` again instead of using the snapshot -/")
		l.p("def loopsRereadChunkSize : Bool := %s", leanBool(loopsReread))
		l.p("/-- `truncateGlobally` accounts for what the inner `truncate` removed (total, chunk count, `AfterSize = 0`, report) also when")
		l.p("the partition could not be dropped (`Deleted = deleted`); false: only under `if deleted` (finding F77) -/")
		l.p("def globalAccountsWhenDropRefused : Bool := %s", leanBool(accountsRefused))
		l.p("/-- `Service.Truncate` starts with `<mutex>.Lock(); defer <mutex>.Unlock()`: TRUNCATE statements run one after another -/")
		l.p("def truncateSerialized : Bool := %s", leanBool(serialized))
		l.p("/-- in a dry run `truncateGlobally` subtracts the entry's `ChunksDeleted` from the count it adds -/")
		l.p("def dryDeltaSubtractsPhase1 : Bool := %s", leanBool(dryDeltaSubtracts))
		l.p("/-- the count `truncateGlobally` adds to `ChunksDeleted` starts as `len(<chunk list>)` -/")
		l.p("def globalDeltaIsLenCks : Bool := %s", leanBool(deltaIsLen))
		l.p("/-- the sorted insertion of `Service.Truncate` searches with `A.LatestTs < B.LatestTs || (A.LatestTs == B.LatestTs && A.Src >= B.Src)`,")
		l.p("A the entry at the probed index, B the new entry -/")
		l.p("def insertOrdersByTsDescThenSrcAsc : Bool := %s", leanBool(insertOK))
		l.p("/-- the time loop of `truncate` compares `<chunk>.MaxTs < <params>.OldestTs` (true) or `<=` (false) -/")
		l.p("def timeLoopStrict : Bool := %s", leanBool(strict))
		l.p("/-- the size loop is entered only when `MaxSrcSize > 0 && MaxSrcSize > MinSrcSize` -/")
		l.p("def sizeLoopGuarded : Bool := %s", leanBool(sizeGuard))
		l.p("/-- the size loop's condition contains `<total> - <the chunk's size> >= MinSrcSize` -/")
		l.p("def sizeLoopChecksMin : Bool := %s", leanBool(sizeChecksMin))
		l.p("/-- the time loop's condition contains `<total> - <the chunk's size> >= MinSrcSize` -/")
		l.p("def timeLoopChecksMin : Bool := %s", leanBool(timeChecksMin))
		l.p("/-- `DeleteChunks` is given the id of the chunk just before the (exclusive) index the loops stopped at -/")
		l.p("def deletesUpToIdxMinusOne : Bool := %s", leanBool(delMinusOne))
		l.p("/-- nothing chosen or DRYRUN: `truncate` leaves before the `DeleteChunks` call -/")
		l.p("def dryRunReturnsBeforeDelete : Bool := %s", leanBool(dryGuard))
		l.p("/-- `truncateGlobally` calls `truncate` with these literal `MinSrcSize` / `MaxSrcSize` -/")
		l.p("def globalMinSrcSize : Nat := %d", gmin)
		l.p("def globalMaxSrcSize : Nat := %d", gmax)
		l.write()
	}
}
