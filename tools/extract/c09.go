package main

import (
	"bytes"
	"go/ast"
	"go/printer"
	"go/token"
	"strings"
)

func c09NodeString(n ast.Node) string {
	var b bytes.Buffer
	printer.Fprint(&b, fset, n)
	return b.String()
}

// C09: structural facts of pkg/partition/partition.go the TRUNCATE model is parameterised by:
// the comparison operator of the time loop, whether both loops re-check MinSrcSize, whether the deletion is
// guarded by DryRun and addresses cks[idx-1], and the constants of truncateGlobally's inner call.
func init() {
	generators["C09"] = func() {
		l := newLean("C09", "Facts about pkg/partition/partition.go (truncate, truncateGlobally) and pkg/backend/admin.go (cmdTruncate).")
		f := parseFile("pkg/partition/partition.go")
		fd := funcDecl(f, "Service", "truncate")
		strict, strictFound := false, false
		sizeChecksMin, timeChecksMin := false, false
		sizeGuard := false
		decr, dryGuard, delIdx := false, false, false
		readsJournalSize, loopsRereadChunkSize, totalIsSnapshotSum := false, false, false
		exprStr := func(e ast.Expr) string { return c09NodeString(e) }
		if fd == nil {
			problem("partition.Service.truncate not found")
		} else {
			sawDecr, sawDry := false, false
			ast.Inspect(fd.Body, func(n ast.Node) bool {
				if ce, ok := n.(*ast.CallExpr); ok && exprStr(ce.Fun) == "jrnl.Size" {
					readsJournalSize = true
				}
				if be, ok := n.(*ast.BinaryExpr); ok && be.Op == token.SUB && strings.Contains(exprStr(be.Y), "cks[idx].Size()") {
					loopsRereadChunkSize = true
				}
				if as, ok := n.(*ast.AssignStmt); ok && len(as.Lhs) == 1 && len(as.Rhs) == 1 {
					l, r := strings.ReplaceAll(exprStr(as.Lhs[0]), " ", ""), strings.ReplaceAll(exprStr(as.Rhs[0]), " ", "")
					if as.Tok == token.ADD_ASSIGN && l == "size" && r == "sizes[i]" {
						totalIsSnapshotSum = true
					}
					if as.Tok == token.SUB_ASSIGN && l == "size" && r != "sizes[idx]" {
						loopsRereadChunkSize = true
					}
				}
				switch s := n.(type) {
				case *ast.ForStmt:
					if s.Cond == nil {
						return true
					}
					c := exprStr(s.Cond)
					isTime := strings.Contains(c, "MaxTs")
					isSize := strings.Contains(c, "MaxSrcSize")
					chkMin := false
					ast.Inspect(s.Cond, func(m ast.Node) bool {
						be, ok := m.(*ast.BinaryExpr)
						if !ok {
							return true
						}
						l, r := exprStr(be.X), exprStr(be.Y)
						if be.Op == token.GEQ && strings.Contains(r, "MinSrcSize") && (strings.ReplaceAll(l, " ", "") == "size-sizes[idx]" || strings.Contains(strings.ReplaceAll(l, " ", ""), "size-uint64(cks[idx].Size())")) {
							chkMin = true
						}
						if isTime && strings.Contains(l, "MaxTs") && strings.Contains(r, "OldestTs") {
							switch be.Op {
							case token.LSS:
								strict, strictFound = true, true
							case token.LEQ:
								strict, strictFound = false, true
							}
						}
						return true
					})
					if isTime {
						timeChecksMin = chkMin
					}
					if isSize {
						sizeChecksMin = chkMin
					}
				case *ast.IfStmt:
					c := exprStr(s.Cond)
					if strings.Contains(c, "tp.MaxSrcSize > 0") && strings.Contains(c, "tp.MaxSrcSize > tp.MinSrcSize") {
						sizeGuard = true
					}
					if strings.Contains(c, "idx < 0") && strings.Contains(c, "tp.DryRun") && sawDecr {
						// the body must return
						for _, st := range s.Body.List {
							if _, ok := st.(*ast.ReturnStmt); ok {
								sawDry = true
							}
						}
					}
				case *ast.IncDecStmt:
					if id, ok := s.X.(*ast.Ident); ok && id.Name == "idx" && s.Tok == token.DEC {
						sawDecr = true
					}
				case *ast.CallExpr:
					if se, ok := s.Fun.(*ast.SelectorExpr); ok && se.Sel.Name == "DeleteChunks" && len(s.Args) >= 2 {
						decr = sawDecr
						dryGuard = sawDry
						delIdx = exprStr(s.Args[1]) == "cks[idx].Id()"
					}
				}
				return true
			})
			if !strictFound {
				problem("partition.Service.truncate: comparison of sc[idx].MaxTs with tp.OldestTs not found")
			}
		}
		gmin, gmax := int64(-1), int64(-1)
		gd := funcDecl(f, "Service", "truncateGlobally")
		dryDelta := ""
		dryDeltaSubtracts := false
		if gd == nil {
			problem("partition.Service.truncateGlobally not found")
		} else {
			ast.Inspect(gd.Body, func(n ast.Node) bool {
				ce, ok := n.(*ast.CallExpr)
				if !ok {
					return true
				}
				se, ok := ce.Fun.(*ast.SelectorExpr)
				if !ok || se.Sel.Name != "truncate" {
					return true
				}
				for _, a := range ce.Args {
					ue, ok := a.(*ast.UnaryExpr)
					if !ok {
						continue
					}
					cl, ok := ue.X.(*ast.CompositeLit)
					if !ok {
						continue
					}
					for _, el := range cl.Elts {
						kv, ok := el.(*ast.KeyValueExpr)
						if !ok {
							continue
						}
						k := exprStr(kv.Key)
						if bl, ok := kv.Value.(*ast.BasicLit); ok && bl.Kind == token.INT {
							v := int64(0)
							for _, ch := range bl.Value {
								v = v*10 + int64(ch-'0')
							}
							if k == "MinSrcSize" {
								gmin = v
							}
							if k == "MaxSrcSize" {
								gmax = v
							}
						}
					}
				}
				return true
			})
			ast.Inspect(gd.Body, func(n ast.Node) bool {
				as, ok := n.(*ast.AssignStmt)
				if ok && len(as.Lhs) == 1 && exprStr(as.Lhs[0]) == "ti.ChunksDeleted" && as.Tok == token.ADD_ASSIGN {
					dryDelta = exprStr(as.Rhs[0])
				}
				return true
			})
			ast.Inspect(gd.Body, func(n ast.Node) bool {
				is, ok := n.(*ast.IfStmt)
				if !ok || exprStr(is.Cond) != "tp.DryRun" {
					return true
				}
				for _, st := range is.Body.List {
					if as, ok := st.(*ast.AssignStmt); ok && as.Tok == token.SUB_ASSIGN && len(as.Lhs) == 1 &&
						exprStr(as.Lhs[0]) == dryDelta && exprStr(as.Rhs[0]) == "ti.ChunksDeleted" {
						dryDeltaSubtracts = true
					}
				}
				return true
			})
			if gmin < 0 || gmax < 0 {
				problem("partition.Service.truncateGlobally: inner truncate call with literal MinSrcSize/MaxSrcSize not found")
				gmin, gmax = 0, 0
			}
		}
		// the sorted insertion of Service.Truncate: predicate of sort.Search
		tieBreak := ""
		if td := funcDecl(f, "Service", "Truncate"); td == nil {
			problem("partition.Service.Truncate not found")
		} else {
			ast.Inspect(td.Body, func(n ast.Node) bool {
				ce, ok := n.(*ast.CallExpr)
				if !ok || exprStr(ce.Fun) != "sort.Search" || len(ce.Args) != 2 {
					return true
				}
				if fl, ok := ce.Args[1].(*ast.FuncLit); ok {
					ast.Inspect(fl.Body, func(m ast.Node) bool {
						if rs, ok := m.(*ast.ReturnStmt); ok && len(rs.Results) == 1 {
							tieBreak = strings.Join(strings.Fields(exprStr(rs.Results[0])), " ")
						}
						return true
					})
				}
				return false
			})
			if tieBreak == "" {
				problem("partition.Service.Truncate: sort.Search predicate of the sorted insertion not found")
			}
		}
		// chkInfo.update of the time index: two independent ifs?
		indep, indepFound := false, false
		if cf := parseFile("pkg/tmindex/cindex.go"); cf != nil {
			if ud := funcDecl(cf, "chkInfo", "update"); ud != nil {
				var ifs []*ast.IfStmt
				for _, st := range ud.Body.List {
					if is, ok := st.(*ast.IfStmt); ok {
						ifs = append(ifs, is)
					}
				}
				norm := func(e ast.Expr) string { return strings.ReplaceAll(exprStr(e), " ", "") }
				if len(ifs) == 2 && ifs[0].Else == nil && ifs[1].Else == nil &&
					norm(ifs[0].Cond) == "ci.MinTs>rInfo.MinTs" && norm(ifs[1].Cond) == "ci.MaxTs<rInfo.MaxTs" {
					indep, indepFound = true, true
				} else if len(ifs) == 1 && ifs[0].Else != nil && norm(ifs[0].Cond) == "ci.MinTs>rInfo.MinTs" {
					if e, ok := ifs[0].Else.(*ast.IfStmt); ok && norm(e.Cond) == "ci.MaxTs<rInfo.MaxTs" {
						indep, indepFound = false, true
					}
				}
			}
		}
		if !indepFound {
			problem("tmindex.chkInfo.update: neither two independent ifs nor if/else-if on MinTs/MaxTs")
		}
		// deleteJournal: size re-check between LockExclusively and TIndex.Delete
		recheck := false
		if dd := funcDecl(f, "Service", "deleteJournal"); dd == nil {
			problem("partition.Service.deleteJournal not found")
		} else {
			locked, deleted := false, false
			for _, st := range dd.Body.List {
				txt := strings.ReplaceAll(c09NodeString(st), " ", "")
				if strings.Contains(txt, "LockExclusively(") {
					locked = true
				}
				if strings.Contains(txt, "s.TIndex.Delete(") {
					deleted = true
				}
				if is, ok := st.(*ast.IfStmt); ok && locked && !deleted && is.Init != nil {
					if strings.ReplaceAll(c09NodeString(is.Init), " ", "") == "sz:=j.Size()" && strings.ReplaceAll(exprStr(is.Cond), " ", "") == "sz>0" {
						unl, ret := false, false
						for _, b := range is.Body.List {
							bt := strings.ReplaceAll(c09NodeString(b), " ", "")
							if strings.Contains(bt, "UnlockExclusively(") {
								unl = true
							}
							if bt == "returnfalse" {
								ret = true
							}
						}
						recheck = unl && ret
					}
				}
			}
		}
		l.p("/-- `chkInfo.update` adjusts MinTs and MaxTs in two independent `if`s (true) or in `if … else if …` (false) -/")
		l.p("def hullUpdateIndependentIfs : Bool := %s", leanBool(indep))
		l.p("/-- `deleteJournal` re-checks `j.Size() > 0` (unlock, return false) between `LockExclusively` and `TIndex.Delete` -/")
		l.p("def deleteJournalRechecksSize : Bool := %s", leanBool(recheck))
		l.p("/-- `truncate` still calls `jrnl.Size()` for the total -/")
		l.p("def truncateReadsJournalSize : Bool := %s", leanBool(readsJournalSize))
		l.p("/-- the total is accumulated as `size += sizes[i]` over the snapshot of the chunk sizes -/")
		l.p("def totalIsSnapshotSum : Bool := %s", leanBool(totalIsSnapshotSum))
		l.p("/-- a loop of `truncate` reads `cks[idx].Size()` again (instead of `sizes[idx]`) -/")
		l.p("def loopsRereadChunkSize : Bool := %s", leanBool(loopsRereadChunkSize))
		l.p("/-- `if tp.DryRun { <delta> -= ti.ChunksDeleted }` precedes the accumulation in `truncateGlobally` -/")
		l.p("def dryDeltaSubtractsPhase1 : Bool := %s", leanBool(dryDeltaSubtracts))
		l.p("/-- the predicate of the sorted insertion by latest timestamp in `Service.Truncate` -/")
		l.p("def insertPredicate : String := %s", leanStr(tieBreak))
		l.p("/-- the time loop of `truncate` compares `sc[idx].MaxTs < tp.OldestTs` (true) or `<=` (false) -/")
		l.p("def timeLoopStrict : Bool := %s", leanBool(strict))
		l.p("/-- the size loop is entered only when `tp.MaxSrcSize > 0 && tp.MaxSrcSize > tp.MinSrcSize` -/")
		l.p("def sizeLoopGuarded : Bool := %s", leanBool(sizeGuard))
		l.p("/-- the size loop's condition contains `size-uint64(cks[idx].Size()) >= tp.MinSrcSize` -/")
		l.p("def sizeLoopChecksMin : Bool := %s", leanBool(sizeChecksMin))
		l.p("/-- the time loop's condition contains `size-uint64(cks[idx].Size()) >= tp.MinSrcSize` -/")
		l.p("def timeLoopChecksMin : Bool := %s", leanBool(timeChecksMin))
		l.p("/-- `idx--` precedes the `DeleteChunks` call, whose id argument is `cks[idx].Id()` -/")
		l.p("def deletesUpToIdxMinusOne : Bool := %s", leanBool(decr && delIdx))
		l.p("/-- `if idx < 0 || tp.DryRun { return … }` stands between `idx--` and the `DeleteChunks` call -/")
		l.p("def dryRunReturnsBeforeDelete : Bool := %s", leanBool(dryGuard))
		l.p("/-- `truncateGlobally` calls `truncate` with these literal `MinSrcSize` / `MaxSrcSize` -/")
		l.p("def globalMinSrcSize : Nat := %d", gmin)
		l.p("def globalMaxSrcSize : Nat := %d", gmax)
		l.p("/-- what `truncateGlobally` adds to `ti.ChunksDeleted` for a partition it takes -/")
		l.p("def globalChunksDelta : String := %s", leanStr(dryDelta))
		l.write()
	}
}
