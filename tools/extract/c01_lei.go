package main

// C01: does model.LogEventIterator.Get keep a decoded event across calls? A held cursor is repositioned UNDERNEATH the
// LogEventIterator (cursor ApplyState -> journal iterator SetPos; LogEventIterator has no SetPos, its SetBackward only passes the
// flag on), so an event memoised by Get would be served for the new position. Read by structure:
//
//	memo field   a receiver field F that Get tests in the condition of an `if` whose body returns (the "already decoded" early return)
//	kept         Get assigns F anywhere (e.g. `lei.st = 1` after a successful decode)
//	reset        SetBackward assigns F (or calls a same-receiver method that does)
//
// fact = no memo field, or not kept, or reset on SetBackward.

import "go/ast"

func c01LeiKeepsNoEvent() bool {
	f := parseFile("pkg/model/iterator.go")
	get := funcDecl(f, "LogEventIterator", "Get")
	if get == nil {
		problem("model.LogEventIterator.Get not found")
		return true
	}
	recvName := func(fd *ast.FuncDecl) string {
		if fd.Recv != nil && len(fd.Recv.List) == 1 && len(fd.Recv.List[0].Names) == 1 {
			return fd.Recv.List[0].Names[0].Name
		}
		return ""
	}
	fieldsIn := func(n ast.Node, rn string) map[string]bool {
		out := map[string]bool{}
		ast.Inspect(n, func(m ast.Node) bool {
			if se, ok := m.(*ast.SelectorExpr); ok {
				if id, ok := se.X.(*ast.Ident); ok && id.Name == rn {
					out[se.Sel.Name] = true
				}
			}
			return true
		})
		return out
	}
	assigned := func(fd *ast.FuncDecl) map[string]bool {
		rn := recvName(fd)
		out := map[string]bool{}
		ast.Inspect(fd.Body, func(m ast.Node) bool {
			switch x := m.(type) {
			case *ast.AssignStmt:
				for _, l := range x.Lhs {
					if se, ok := l.(*ast.SelectorExpr); ok {
						if id, ok := se.X.(*ast.Ident); ok && id.Name == rn {
							out[se.Sel.Name] = true
						}
					}
				}
			case *ast.IncDecStmt:
				if se, ok := x.X.(*ast.SelectorExpr); ok {
					if id, ok := se.X.(*ast.Ident); ok && id.Name == rn {
						out[se.Sel.Name] = true
					}
				}
			case *ast.CallExpr: // a same-receiver helper, one level
				if se, ok := x.Fun.(*ast.SelectorExpr); ok {
					if id, ok := se.X.(*ast.Ident); ok && id.Name == rn {
						if h := funcDecl(f, "LogEventIterator", se.Sel.Name); h != nil && h != fd {
							hrn := recvName(h)
							ast.Inspect(h.Body, func(k ast.Node) bool {
								if as, ok := k.(*ast.AssignStmt); ok {
									for _, l := range as.Lhs {
										if se2, ok := l.(*ast.SelectorExpr); ok {
											if id2, ok := se2.X.(*ast.Ident); ok && id2.Name == hrn {
												out[se2.Sel.Name] = true
											}
										}
									}
								}
								return true
							})
						}
					}
				}
			}
			return true
		})
		return out
	}
	// memo fields: tested by an if whose body contains a return, in Get
	memo := map[string]bool{}
	grn := recvName(get)
	ast.Inspect(get.Body, func(n ast.Node) bool {
		is, ok := n.(*ast.IfStmt)
		if !ok {
			return true
		}
		returns := false
		for _, st := range is.Body.List {
			if _, ok := st.(*ast.ReturnStmt); ok {
				returns = true
			}
		}
		if returns {
			for fld := range fieldsIn(is.Cond, grn) {
				memo[fld] = true
			}
		}
		return true
	})
	if len(memo) == 0 {
		return true
	}
	getAssigns := assigned(get)
	kept := false
	for fld := range memo {
		if getAssigns[fld] {
			kept = true
		}
	}
	if !kept {
		return true
	}
	sb := funcDecl(f, "LogEventIterator", "SetBackward")
	if sb == nil {
		return false
	}
	sbAssigns := assigned(sb)
	for fld := range memo {
		if getAssigns[fld] && !sbAssigns[fld] {
			return false
		}
	}
	return true
}
