package main

import (
	"go/ast"
	"go/token"
	"strings"
)

// C05, rejection clause seen from the CALLERS of the WHERE builder: every function between the builder and the client
// (query path: newFIterator <- newCursor <- provider.GetOrCreate <- backend.Querier.Query / rpc ServerQuerier.query;
// pipe path: BuildWhereExpFunc <- newPPipe <- Service.CreatePipe / Service.Init <- Admin.cmdCreatePipe,
// Service.ensurePipe <- rpc ServerPipes.ensurePipe) hands a build error on and creates nothing from a partial result.
//
// The fact of one call site is a normalised description of what follows `x, err := callee(…)` in the same block:
//
//	"return(zero,err)"   next statement is `if err != nil { …; return <zero values…>, <expression that mentions err> }`
//	"return(err)"        the same for a function with the error as only result
//	"reply(err);return"  `if err != nil { …; <call with err among its arguments>; return }` in a function without results
//	"return()"           `if err != nil { …; return }` without results and without a reply (background worker)
//	"skip-eq(N);…"       N statements `if err == <sentinel> { return … }` stand before the guard
//	"unguarded:<why>"    anything else
//
// matched by structure: the error variable may have any name, `nil != err` is accepted, statements inside the guard
// before the return (logging, releasing resources) are ignored, `if x, err := f(); err != nil {…}` is accepted, the
// zero values may be nil, "", 0, false, T{} or &T{}… (not the callee's result variables).

type c05Site struct {
	file, recv, fn, callee, lean, doc string
}

var c05Sites = []c05Site{
	{"pkg/lql/whereeval.go", "", "BuildWhereExpFunc", "ParseExpr", "guardBuildWhereText", "lql.BuildWhereExpFunc: a text the parser rejects yields no filter"},
	{"pkg/cursor/fiterator.go", "", "newFIterator", "BuildWhereExpFuncByExpression", "guardNewFIterator", "cursor.newFIterator: a build error yields no filtering iterator"},
	{"pkg/cursor/cursor.go", "", "newCursor", "newFIterator", "guardNewCursor", "cursor.newCursor: no cursor without its filter"},
	{"pkg/cursor/provider.go", "provider", "GetOrCreate", "newCursor", "guardGetOrCreate", "provider.GetOrCreate: the error of newCursor is returned (only the no-sources sentinel is turned into an empty cursor)"},
	{"pkg/backend/querier.go", "Querier", "Query", "GetOrCreate", "guardBackendQuery", "backend.Querier.Query"},
	{"api/rpc/querier.go", "ServerQuerier", "query", "GetOrCreate", "guardRpcQuery", "rpc ServerQuerier.query: the error is sent to the client"},
	{"pkg/pipe/ppipe.go", "", "newPPipe", "BuildWhereExpFunc", "guardNewPPipe", "pipe.newPPipe: no pipe object without its filter (a nil filter would pass every event)"},
	{"pkg/pipe/service.go", "Service", "CreatePipe", "newPPipe", "guardCreatePipe", "pipe.Service.CreatePipe"},
	{"pkg/pipe/service.go", "Service", "Init", "newPPipe", "guardPipeInit", "pipe.Service.Init (pipes loaded from the registry file)"},
	{"pkg/backend/admin.go", "Admin", "cmdCreatePipe", "CreatePipe", "guardCmdCreatePipe", "backend.Admin.cmdCreatePipe (CREATE PIPE statement)"},
	{"api/rpc/pipes.go", "ServerPipes", "ensurePipe", "EnsurePipe", "guardRpcEnsurePipe", "rpc ServerPipes.ensurePipe: the error is sent to the client"},
	{"pkg/pipe/worker.go", "worker", "run", "GetOrCreate", "guardPipeWorker", "pipe worker: no copying without a cursor"},
}

func c05CalleeIs(e ast.Expr, name string) bool {
	ce, ok := e.(*ast.CallExpr)
	if !ok {
		return false
	}
	switch f := ce.Fun.(type) {
	case *ast.Ident:
		return f.Name == name
	case *ast.SelectorExpr:
		return f.Sel.Name == name
	}
	return false
}

func c05IsNil(e ast.Expr) bool {
	id, ok := e.(*ast.Ident)
	return ok && id.Name == "nil"
}

// c05ErrCond: is `cond` the test `E != nil` (op NEQ) or `E == <something not nil>` (op EQL)?
func c05ErrCond(cond ast.Expr, errName string, op token.Token) bool {
	for {
		p, ok := cond.(*ast.ParenExpr)
		if !ok {
			break
		}
		cond = p.X
	}
	be, ok := cond.(*ast.BinaryExpr)
	if !ok || be.Op != op {
		return false
	}
	isE := func(e ast.Expr) bool { id, ok := e.(*ast.Ident); return ok && id.Name == errName }
	if op == token.NEQ {
		return (isE(be.X) && c05IsNil(be.Y)) || (isE(be.Y) && c05IsNil(be.X))
	}
	return (isE(be.X) && !c05IsNil(be.Y)) || (isE(be.Y) && !c05IsNil(be.X))
}

func c05IsZero(e ast.Expr, results map[string]bool) bool {
	switch v := e.(type) {
	case *ast.Ident:
		return v.Name == "nil" || v.Name == "false" || (!results[v.Name] && v.Name == "cEmptyResponse")
	case *ast.BasicLit:
		return v.Value == `""` || v.Value == "0"
	case *ast.CompositeLit:
		return len(v.Elts) == 0
	case *ast.UnaryExpr:
		if v.Op == token.AND {
			return c05IsZero(v.X, results)
		}
	}
	return false
}

// c05GuardBody describes the body of `if err != nil { … }`
func c05GuardBody(body *ast.BlockStmt, errName string, results map[string]bool) string {
	if body == nil || len(body.List) == 0 {
		return "unguarded:empty-guard"
	}
	last := body.List[len(body.List)-1]
	rs, ok := last.(*ast.ReturnStmt)
	if !ok {
		return "unguarded:guard-does-not-return"
	}
	if len(rs.Results) == 0 {
		// no results: is the error handed to some call (the reply)?
		replied := false
		for _, st := range body.List[:len(body.List)-1] {
			es, ok := st.(*ast.ExprStmt)
			if !ok {
				continue
			}
			if ce, ok := es.X.(*ast.CallExpr); ok {
				if se, ok := ce.Fun.(*ast.SelectorExpr); ok && strings.HasPrefix(se.Sel.Name, "Send") {
					for _, a := range ce.Args {
						if c05Mentions(a, errName) {
							replied = true
						}
					}
				}
			}
		}
		if replied {
			return "reply(err);return"
		}
		return "return()"
	}
	n := len(rs.Results)
	if !c05Mentions(rs.Results[n-1], errName) {
		return "unguarded:returns-no-error"
	}
	for _, r := range rs.Results[:n-1] {
		if !c05IsZero(r, results) {
			return "unguarded:returns-partial-result"
		}
	}
	if n == 1 {
		return "return(err)"
	}
	return "return(zero,err)"
}

// c05GuardAt: the description for the first call of `callee` assigned in `fd`
func c05GuardAt(fd *ast.FuncDecl, callee string) string {
	desc := ""
	var visitBlock func(list []ast.Stmt)
	handle := func(as *ast.AssignStmt, following []ast.Stmt, own *ast.IfStmt) {
		if desc != "" || len(as.Rhs) != 1 || !c05CalleeIs(as.Rhs[0], callee) {
			return
		}
		errId, ok := as.Lhs[len(as.Lhs)-1].(*ast.Ident)
		if !ok || errId.Name == "_" {
			desc = "unguarded:error-discarded"
			return
		}
		results := map[string]bool{}
		for _, l := range as.Lhs[:len(as.Lhs)-1] {
			if id, ok := l.(*ast.Ident); ok && id.Name != "_" {
				results[id.Name] = true
			}
		}
		if own != nil { // if x, err := f(); err != nil { … }
			if c05ErrCond(own.Cond, errId.Name, token.NEQ) {
				desc = c05GuardBody(own.Body, errId.Name, results)
			} else {
				desc = "unguarded:if-init-without-test"
			}
			return
		}
		skipped := 0
		for _, st := range following {
			is, ok := st.(*ast.IfStmt)
			if !ok || is.Init != nil {
				desc = "unguarded:statement-before-test"
				return
			}
			if c05ErrCond(is.Cond, errId.Name, token.EQL) && len(is.Body.List) > 0 {
				if _, ok := is.Body.List[len(is.Body.List)-1].(*ast.ReturnStmt); ok {
					skipped++
					continue
				}
			}
			if c05ErrCond(is.Cond, errId.Name, token.NEQ) {
				desc = c05GuardBody(is.Body, errId.Name, results)
				if skipped > 0 {
					desc = "skip-eq(" + string(rune('0'+skipped)) + ");" + desc
				}
				return
			}
			desc = "unguarded:other-test-first"
			return
		}
		desc = "unguarded:no-test"
	}
	visitBlock = func(list []ast.Stmt) {
		for i, st := range list {
			switch s := st.(type) {
			case *ast.AssignStmt:
				handle(s, list[i+1:], nil)
			case *ast.IfStmt:
				if as, ok := s.Init.(*ast.AssignStmt); ok {
					handle(as, nil, s)
				}
			}
			// nested blocks
			ast.Inspect(st, func(n ast.Node) bool {
				if n == st {
					return true
				}
				if b, ok := n.(*ast.BlockStmt); ok {
					visitBlock(b.List)
					return false
				}
				if cc, ok := n.(*ast.CaseClause); ok {
					visitBlock(cc.Body)
					return false
				}
				if _, ok := n.(*ast.FuncLit); ok {
					return false
				}
				return true
			})
		}
	}
	visitBlock(fd.Body.List)
	if desc == "" {
		return "unguarded:call-not-found"
	}
	return desc
}

// c05RegistersAfterGuard: in CreatePipe the object made by newPPipe is put into the registry map only after the guard
// (source order): `<map>[…] = <result of newPPipe>` occurs, and every such assignment stands after the `if err != nil`.
func c05RegistersAfterGuard(fd *ast.FuncDecl, callee string) bool {
	var resName string
	var guardEnd token.Pos
	ast.Inspect(fd.Body, func(n ast.Node) bool {
		if b, ok := n.(*ast.BlockStmt); ok {
			for i, st := range b.List {
				if as, ok := st.(*ast.AssignStmt); ok && len(as.Rhs) == 1 && c05CalleeIs(as.Rhs[0], callee) && resName == "" {
					if id, ok := as.Lhs[0].(*ast.Ident); ok {
						resName = id.Name
					}
					if i+1 < len(b.List) {
						guardEnd = b.List[i+1].End()
					}
				}
			}
		}
		return true
	})
	if resName == "" || guardEnd == token.NoPos {
		return false
	}
	found, ok := false, true
	ast.Inspect(fd.Body, func(n ast.Node) bool {
		as, isAs := n.(*ast.AssignStmt)
		if !isAs || len(as.Lhs) != 1 || len(as.Rhs) != 1 {
			return true
		}
		if _, isIdx := as.Lhs[0].(*ast.IndexExpr); !isIdx {
			return true
		}
		if id, isId := as.Rhs[0].(*ast.Ident); isId && id.Name == resName {
			found = true
			if as.Pos() < guardEnd {
				ok = false
			}
		}
		return true
	})
	return found && ok
}

// c05SuccessOnlyFromGet: every `return X, nil` of ensurePipe returns a value obtained from GetPipe in a branch where
// GetPipe's error is nil — a failed CreatePipe can never be answered with success.
func c05SuccessOnlyFromGet(fd *ast.FuncDecl) bool {
	getVar := ""
	ast.Inspect(fd.Body, func(n ast.Node) bool {
		if as, ok := n.(*ast.AssignStmt); ok && len(as.Rhs) == 1 && c05CalleeIs(as.Rhs[0], "GetPipe") {
			if id, ok := as.Lhs[0].(*ast.Ident); ok {
				getVar = id.Name
			}
		}
		return true
	})
	if getVar == "" {
		return false
	}
	n, ok := 0, true
	ast.Inspect(fd.Body, func(nd ast.Node) bool {
		rs, isRs := nd.(*ast.ReturnStmt)
		if !isRs || len(rs.Results) != 2 || !c05IsNil(rs.Results[1]) {
			return true
		}
		n++
		if id, isId := rs.Results[0].(*ast.Ident); !isId || id.Name != getVar {
			ok = false
		}
		return true
	})
	return n >= 1 && ok
}

func c05CallerFacts(l *leanFile) {
	l.p("")
	l.p("/-! ## the callers of the WHERE builder: a build error is handed on, nothing is created from a partial result -/")
	files := map[string]*ast.File{}
	for _, s := range c05Sites {
		f, ok := files[s.file]
		if !ok {
			f = parseFile(s.file)
			files[s.file] = f
		}
		fd := funcDecl(f, s.recv, s.fn)
		desc := "unguarded:function-not-found"
		if fd == nil || fd.Body == nil {
			problem("%s: function %s.%s not found", s.file, s.recv, s.fn)
		} else {
			desc = c05GuardAt(fd, s.callee)
			if desc == "unguarded:call-not-found" {
				problem("%s: %s.%s no longer calls %s", s.file, s.recv, s.fn, s.callee)
			}
		}
		l.p("/-- %s: what follows `…, err := %s(…)` -/", s.doc, s.callee)
		l.p("def %s : String := %s", s.lean, leanStr(desc))
	}
	sf := files["pkg/pipe/service.go"]
	cp := funcDecl(sf, "Service", "CreatePipe")
	l.p("/-- Service.CreatePipe puts the object made by newPPipe into the registry map only after the error test -/")
	l.p("def createPipeRegistersAfterGuard : Bool := %s", leanBool(cp != nil && c05RegistersAfterGuard(cp, "newPPipe")))
	ep := funcDecl(sf, "Service", "ensurePipe")
	if ep == nil {
		problem("pkg/pipe/service.go: Service.ensurePipe not found")
	}
	l.p("/-- Service.ensurePipe answers with success only with what GetPipe found (never after a failed CreatePipe alone) -/")
	l.p("def ensurePipeSuccessOnlyFromGet : Bool := %s", leanBool(ep != nil && c05SuccessOnlyFromGet(ep)))
	// --- lifetime of the request text a held cursor keeps: rpc ServerQuerier.query decodes the request WITHOUT copying
	// (unmarshalQueryRequest(body, &rq, false): rq.Query / rq.Pos are weak strings into the request buffer) and stores
	// rq.Query in the cursor state, which the provider may cache; crsr.ApplyState later compares that text with the next
	// request's. So the buffer must never go back to a pool in this handler (or the request must be decoded with a copy).
	qf := files["api/rpc/querier.go"]
	life := "unknown"
	if qfd := funcDecl(qf, "ServerQuerier", "query"); qfd == nil || qfd.Body == nil {
		problem("api/rpc/querier.go: ServerQuerier.query not found")
	} else {
		bufName, copied, found := "", false, false
		ast.Inspect(qfd.Body, func(n ast.Node) bool {
			ce, ok := n.(*ast.CallExpr)
			if !ok || found || !c05CalleeIs(ce, "unmarshalQueryRequest") || len(ce.Args) != 3 {
				return true
			}
			found = true
			if id, ok := ce.Args[0].(*ast.Ident); ok {
				bufName = id.Name
			}
			if id, ok := ce.Args[2].(*ast.Ident); ok && (id.Name == "true" || id.Name == "false") {
				copied = id.Name == "true"
			} else {
				bufName = "" // not a literal: unknown shape
			}
			return true
		})
		if !found || bufName == "" {
			problem("api/rpc/querier.go: ServerQuerier.query: unmarshalQueryRequest(<buffer>, _, <true|false>) not found")
		} else {
			released := false
			ast.Inspect(qfd.Body, func(n ast.Node) bool {
				ce, ok := n.(*ast.CallExpr)
				if !ok {
					return true
				}
				name := c05CalleeName(ce)
				switch name {
				case "Collect", "Put", "Release", "Free", "Recycle":
					for _, a := range ce.Args {
						if c05Mentions(a, bufName) {
							released = true
						}
					}
				}
				return true
			})
			life = map[bool]string{true: "copied", false: "weak"}[copied] + ";" + map[bool]string{true: "released", false: "kept"}[released]
		}
	}
	l.p("/-- rpc ServerQuerier.query: how the request is decoded (`weak` = strings point into the request buffer, `copied`) and whether")
	l.p("the handler hands the request buffer to a pool (`released`: a call Collect/Put/Release/Free/Recycle with it, deferred or not) or not (`kept`) -/")
	l.p("def rpcQueryRequestLifetime : String := %s", leanStr(life))
	af := parseFile("pkg/cursor/cursor.go")
	cmp := false
	if afd := funcDecl(af, "crsr", "ApplyState"); afd == nil || afd.Body == nil {
		problem("pkg/cursor/cursor.go: crsr.ApplyState not found")
	} else {
		// some `if` whose condition contains `<x>.Query != <y>.Query` (either order) and whose body returns a non-nil error
		ast.Inspect(afd.Body, func(n ast.Node) bool {
			is, ok := n.(*ast.IfStmt)
			if !ok || cmp {
				return true
			}
			has := false
			ast.Inspect(is.Cond, func(m ast.Node) bool {
				if be, ok := m.(*ast.BinaryExpr); ok && be.Op == token.NEQ {
					sx, ok1 := be.X.(*ast.SelectorExpr)
					sy, ok2 := be.Y.(*ast.SelectorExpr)
					if ok1 && ok2 && sx.Sel.Name == "Query" && sy.Sel.Name == "Query" {
						has = true
					}
				}
				return true
			})
			if has && len(is.Body.List) > 0 {
				if rs, ok := is.Body.List[len(is.Body.List)-1].(*ast.ReturnStmt); ok && len(rs.Results) == 1 && !c05IsNil(rs.Results[0]) {
					cmp = true
				}
			}
			return true
		})
	}
	l.p("/-- crsr.ApplyState refuses a state whose Query differs from the cursor's (`if … a.Query != b.Query … { return <error> }`) -/")
	l.p("def applyStateRefusesOtherQuery : Bool := %s", leanBool(cmp))
	// the three places that use a filter treat a missing one as "every event": siterator (pipe) — so the guards above matter
	wf := parseFile("pkg/lql/whereeval.go")
	bw := funcDecl(wf, "", "BuildWhereExpFunc")
	tail := false
	if bw != nil && bw.Body != nil && len(bw.Body.List) > 0 {
		if rs, ok := bw.Body.List[len(bw.Body.List)-1].(*ast.ReturnStmt); ok && len(rs.Results) == 1 {
			tail = c05CalleeIs(rs.Results[0], "BuildWhereExpFuncByExpression")
		}
	}
	l.p("/-- lql.BuildWhereExpFunc ends with `return BuildWhereExpFuncByExpression(exp)`: filter and error are the builder's -/")
	l.p("def buildWhereTextTailCallsBuilder : Bool := %s", leanBool(tail))
}
