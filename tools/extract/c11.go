package main

import (
	"go/ast"
	"go/token"
	"strconv"
	"strings"
)

// C11: structural facts of the waiting code.
//
//   - emptyCursor.WaitNewData: is its body the single statement `return nil` (returns at once)?
//   - crsr.WaitNewData: one goroutine per partition descriptor, started with the iterator's current `Pos()`, which
//     calls `cancel()` after `WaitForNewData`; the function releases the iterator first and returns `ctx.Err()`
//   - the loops of backend.Querier.Query and rpc.ServerQuerier.query: the wait condition
//     `err == io.EOF && limit == lim && …WaitTimeout > 0`, a fresh `context.WithTimeout` inside the loop, `break` on a
//     wait error
//   - backend.QueryMaxWaitTimeout
func c11Idents(n ast.Node) string {
	var sb strings.Builder
	ast.Inspect(n, func(m ast.Node) bool {
		switch x := m.(type) {
		case *ast.Ident:
			sb.WriteString(x.Name + " ")
		case *ast.BasicLit:
			sb.WriteString(x.Value + " ")
		case *ast.BinaryExpr:
			sb.WriteString(x.Op.String() + " ")
		}
		return true
	})
	return sb.String()
}

// c11CallsAfterWait: in body, a statement that calls WaitForNewData is followed by a call of the function named fn
func c11CallsAfterWait(body *ast.BlockStmt, fn string) bool {
	if body == nil || fn == "" {
		return false
	}
	sawWait := false
	for _, st := range body.List {
		if strings.Contains(c11Idents(st), "WaitForNewData") {
			sawWait = true
			continue
		}
		if !sawWait {
			continue
		}
		found := false
		ast.Inspect(st, func(n ast.Node) bool {
			if ce, ok := n.(*ast.CallExpr); ok {
				if id, ok := ce.Fun.(*ast.Ident); ok && id.Name == fn {
					found = true
				}
			}
			return true
		})
		if found {
			return true
		}
	}
	return false
}

// c11ParamName: the name of the i-th parameter of fd ("" if there is none)
func c11ParamName(fd *ast.FuncDecl, i int) string {
	k := 0
	for _, f := range fd.Type.Params.List {
		for _, n := range f.Names {
			if k == i {
				return n.Name
			}
			k++
		}
	}
	return ""
}

// c11Conj flattens a chain of `&&`
func c11Conj(e ast.Expr) []ast.Expr {
	if pe, ok := e.(*ast.ParenExpr); ok {
		return c11Conj(pe.X)
	}
	if be, ok := e.(*ast.BinaryExpr); ok && be.Op == token.LAND {
		return append(c11Conj(be.X), c11Conj(be.Y)...)
	}
	return []ast.Expr{e}
}

func c11IsIdent(e ast.Expr, name string) bool {
	id, ok := e.(*ast.Ident)
	return ok && name != "" && id.Name == name
}

func c11IsSel(e ast.Expr, sel string) bool {
	se, ok := e.(*ast.SelectorExpr)
	return ok && se.Sel.Name == sel
}

func c11IsZero(e ast.Expr) bool {
	bl, ok := e.(*ast.BasicLit)
	return ok && bl.Value == "0"
}

// c11LoopFacts: what the extractor reads from one Query function — by structure, not by the names of its locals.
//
//	countdown variable  the identifier the read loop decrements (`limit--`) and tests (`limit > 0`)
//	clamp               before the loop: `if <countdown> > …QueryMaxLimit { <countdown> = …QueryMaxLimit }`
//	wait condition      inside the loop, an `if` over exactly three conjuncts, in any order: `… == io.EOF`,
//	                    `<countdown> == <other>` and `<…>.WaitTimeout > 0`
//	other               "clamped": a local assigned exactly once, from the countdown variable, after the clamp and before
//	                    the loop (the code's `lim := limit`); "request": the request's `.Limit` field, or a local copied from
//	                    it, or from the countdown variable BEFORE the clamp; anything else: the wait condition is not recognised
type c11LoopFacts struct {
	waitCond, freshTimeout, breaksOnTimeout bool
	clamps, condUsesClamped                 bool
	countdown, copyVar                      string
	copies                                  map[string]bool // every clamped copy of the countdown variable
}

func (f c11LoopFacts) isClampedCopy(e ast.Expr) bool {
	id, ok := e.(*ast.Ident)
	return ok && f.copies[id.Name]
}

func c11QueryLoop(fd *ast.FuncDecl, who string) (f c11LoopFacts) {
	if fd == nil {
		return
	}
	// the read loop: the first `for` whose body decrements an identifier its condition compares with 0
	var loop *ast.ForStmt
	ast.Inspect(fd.Body, func(n ast.Node) bool {
		fs, ok := n.(*ast.ForStmt)
		if !ok || loop != nil || fs.Cond == nil {
			return loop == nil
		}
		dec := map[string]bool{}
		ast.Inspect(fs.Body, func(m ast.Node) bool {
			if ids, ok := m.(*ast.IncDecStmt); ok && ids.Tok == token.DEC {
				if id, ok := ids.X.(*ast.Ident); ok {
					dec[id.Name] = true
				}
			}
			return true
		})
		for _, c := range c11Conj(fs.Cond) {
			if be, ok := c.(*ast.BinaryExpr); ok && be.Op == token.GTR && c11IsZero(be.Y) {
				if id, ok := be.X.(*ast.Ident); ok && dec[id.Name] {
					loop, f.countdown = fs, id.Name
				}
			}
		}
		return loop == nil
	})
	if loop == nil {
		problem("%s: the read loop (for <limit> > 0 && … { …; <limit>-- … }) was not found", who)
		return
	}
	// the clamp before the loop
	var clampEnd token.Pos
	ast.Inspect(fd.Body, func(n ast.Node) bool {
		is, ok := n.(*ast.IfStmt)
		if !ok || is.Pos() > loop.Pos() {
			return true
		}
		be, ok := is.Cond.(*ast.BinaryExpr)
		if !ok || be.Op != token.GTR || !c11IsIdent(be.X, f.countdown) || !strings.Contains(c11Idents(be.Y), "QueryMaxLimit") {
			return true
		}
		for _, st := range is.Body.List {
			if as, ok := st.(*ast.AssignStmt); ok && len(as.Lhs) == 1 && len(as.Rhs) == 1 && as.Tok == token.ASSIGN &&
				c11IsIdent(as.Lhs[0], f.countdown) && strings.Contains(c11Idents(as.Rhs[0]), "QueryMaxLimit") {
				f.clamps, clampEnd = true, is.End()
			}
		}
		return true
	})
	// every assignment to a local: name -> (count, the single rhs, position)
	type asg struct {
		n   int
		rhs ast.Expr
		pos token.Pos
	}
	assigns := map[string]*asg{}
	note := func(lhs ast.Expr, rhs ast.Expr, pos token.Pos) {
		if id, ok := lhs.(*ast.Ident); ok && id.Name != "_" {
			a := assigns[id.Name]
			if a == nil {
				a = &asg{}
				assigns[id.Name] = a
			}
			a.n++
			a.rhs, a.pos = rhs, pos
		}
	}
	ast.Inspect(fd.Body, func(n ast.Node) bool {
		switch x := n.(type) {
		case *ast.AssignStmt:
			for i, l := range x.Lhs {
				var r ast.Expr
				if len(x.Rhs) == len(x.Lhs) {
					r = x.Rhs[i]
				}
				note(l, r, x.Pos())
			}
		case *ast.IncDecStmt:
			note(x.X, nil, x.Pos())
		case *ast.ValueSpec:
			for i, nm := range x.Names {
				var r ast.Expr
				if i < len(x.Values) {
					r = x.Values[i]
				}
				note(nm, r, x.Pos())
			}
		}
		return true
	})
	// the clamped copy (the code's `lim := limit`): a local assigned exactly once, from the countdown variable, after the clamp and before the loop
	for name, a := range assigns {
		if a.n == 1 && a.rhs != nil && a.pos < loop.Pos() && c11IsIdent(a.rhs, f.countdown) && f.clamps && a.pos > clampEnd {
			if f.copyVar == "" || name < f.copyVar {
				f.copyVar = name
			}
			if f.copies == nil {
				f.copies = map[string]bool{}
			}
			f.copies[name] = true
		}
	}
	// classify the operand the countdown variable is compared with
	classify := func(other ast.Expr) string {
		if c11IsSel(other, "Limit") {
			return "request"
		}
		id, ok := other.(*ast.Ident)
		if !ok {
			return ""
		}
		a := assigns[id.Name]
		if a == nil || a.n != 1 || a.rhs == nil || a.pos > loop.Pos() {
			return ""
		}
		switch {
		case c11IsIdent(a.rhs, f.countdown) && f.clamps && a.pos > clampEnd:
			return "clamped"
		case c11IsIdent(a.rhs, f.countdown) && (!f.clamps || a.pos < clampEnd):
			return "request"
		case c11IsSel(a.rhs, "Limit"):
			return "request"
		}
		return ""
	}
	ast.Inspect(loop.Body, func(m ast.Node) bool {
		is, ok := m.(*ast.IfStmt)
		if !ok {
			return true
		}
		cj := c11Conj(is.Cond)
		if len(cj) != 3 {
			return true
		}
		eof, wt, cmp := false, false, ""
		for _, c := range cj {
			be, ok := c.(*ast.BinaryExpr)
			if !ok {
				return true
			}
			switch {
			case be.Op == token.EQL && (c11IsSel(be.X, "EOF") || c11IsSel(be.Y, "EOF")):
				eof = true
			case be.Op == token.GTR && c11IsSel(be.X, "WaitTimeout") && c11IsZero(be.Y):
				wt = true
			case be.Op == token.EQL && c11IsIdent(be.X, f.countdown):
				cmp = classify(be.Y)
			case be.Op == token.EQL && c11IsIdent(be.Y, f.countdown):
				cmp = classify(be.X)
			}
		}
		if !(eof && wt && cmp != "") {
			return true
		}
		f.waitCond = true
		f.condUsesClamped = cmp == "clamped"
		ast.Inspect(is.Body, func(k ast.Node) bool {
			switch x := k.(type) {
			case *ast.CallExpr:
				if se, ok := x.Fun.(*ast.SelectorExpr); ok && se.Sel.Name == "WithTimeout" {
					f.freshTimeout = true
				}
			case *ast.BranchStmt:
				if x.Tok == token.BREAK {
					f.breaksOnTimeout = true
				}
			}
			return true
		})
		return true
	})
	return
}

func init() {
	generators["C11"] = func() {
		l := newLean("C11", "Facts about pkg/cursor/{cursor,null}.go, pkg/backend/querier.go and api/rpc/querier.go (waiting for new data).")

		// --- emptyCursor.WaitNewData
		nf := parseFile("pkg/cursor/null.go")
		atOnce := false
		if fd := funcDecl(nf, "emptyCursor", "WaitNewData"); fd == nil {
			problem("cursor.emptyCursor.WaitNewData not found")
		} else if len(fd.Body.List) == 1 {
			if rs, ok := fd.Body.List[0].(*ast.ReturnStmt); ok && len(rs.Results) == 1 {
				if id, ok := rs.Results[0].(*ast.Ident); ok && id.Name == "nil" {
					atOnce = true
				}
			}
		}
		l.p("/-- the body of `emptyCursor.WaitNewData` is `return nil`: it neither blocks nor looks at the context -/")
		l.p("def emptyCursorWaitReturnsAtOnce : Bool := %s", leanBool(atOnce))
		// `<-ctx.Done(); return ctx.Err()`
		blocks := false
		if fd := funcDecl(nf, "emptyCursor", "WaitNewData"); fd != nil && len(fd.Body.List) == 2 {
			s0, s1 := c11Idents(fd.Body.List[0]), c11Idents(fd.Body.List[1])
			if es, ok := fd.Body.List[0].(*ast.ExprStmt); ok {
				if ue, ok := es.X.(*ast.UnaryExpr); ok && ue.Op == token.ARROW && strings.Contains(s0, "ctx Done") {
					if _, ok := fd.Body.List[1].(*ast.ReturnStmt); ok && strings.Contains(s1, "ctx Err") {
						blocks = true
					}
				}
			}
		}
		if !atOnce && !blocks {
			problem("cursor.emptyCursor.WaitNewData has neither of the two shapes the model knows (return nil | <-ctx.Done(); return ctx.Err())")
		}
		l.p("/-- the body is `<-ctx.Done(); return ctx.Err()`: it blocks until the wait context ends and reports that -/")
		l.p("def emptyCursorWaitBlocksUntilCtxEnds : Bool := %s", leanBool(blocks))

		// --- crsr.WaitNewData
		cf := parseFile("pkg/cursor/cursor.go")
		curPos, cancels, perDesc, releases, retCtxErr := false, false, false, false, false
		if fd := funcDecl(cf, "crsr", "WaitNewData"); fd == nil {
			problem("cursor.crsr.WaitNewData not found")
		} else {
			// the cancel function of the wait: second result of context.WithCancel
			cancelVar := ""
			ast.Inspect(fd.Body, func(n ast.Node) bool {
				if as, ok := n.(*ast.AssignStmt); ok && len(as.Lhs) == 2 && len(as.Rhs) == 1 {
					if ce, ok := as.Rhs[0].(*ast.CallExpr); ok {
						if se, ok := ce.Fun.(*ast.SelectorExpr); ok && se.Sel.Name == "WithCancel" {
							if id, ok := as.Lhs[1].(*ast.Ident); ok {
								cancelVar = id.Name
							}
						}
					}
				}
				return true
			})
			ast.Inspect(fd.Body, func(n ast.Node) bool {
				switch x := n.(type) {
				case *ast.RangeStmt:
					if strings.Contains(c11Idents(x.X), "jDescs") {
						ast.Inspect(x.Body, func(m ast.Node) bool {
							if gs, ok := m.(*ast.GoStmt); ok {
								perDesc = true
								for _, a := range gs.Call.Args {
									if ce, ok := a.(*ast.CallExpr); ok {
										if se, ok := ce.Fun.(*ast.SelectorExpr); ok && se.Sel.Name == "Pos" && len(ce.Args) == 0 {
											curPos = true
										}
									}
								}
								// the goroutine body: a function literal (the cancel function is captured) or a same-package helper
								// (the cancel function is passed as an argument) — structure, not local names
								switch fn := gs.Call.Fun.(type) {
								case *ast.FuncLit:
									cancels = c11CallsAfterWait(fn.Body, cancelVar)
								case *ast.Ident:
									if hd := funcDecl(cf, "", fn.Name); hd != nil {
										for ai, a := range gs.Call.Args {
											if id, ok := a.(*ast.Ident); ok && id.Name == cancelVar {
												if pn := c11ParamName(hd, ai); pn != "" {
													cancels = c11CallsAfterWait(hd.Body, pn)
												}
											}
										}
									}
								}
							}
							return true
						})
					}
				case *ast.ReturnStmt:
					if len(x.Results) == 1 && strings.Contains(c11Idents(x.Results[0]), "ctx Err") {
						retCtxErr = true
					}
				}
				return true
			})
			if len(fd.Body.List) > 0 && strings.Contains(c11Idents(fd.Body.List[0]), "Release") {
				releases = true
			}
		}
		l.p("/-- `crsr.WaitNewData` starts one goroutine per partition descriptor -/")
		l.p("def waitOneWaiterPerPartition : Bool := %s", leanBool(perDesc))
		l.p("/-- each is started with the iterator's current `Pos()` as its position argument -/")
		l.p("def waitStartsWithCurrentPos : Bool := %s", leanBool(curPos))
		l.p("/-- each calls `cancel()` after `WaitForNewData` returned (the first return ends the whole wait) -/")
		l.p("def waiterCancelsTheRest : Bool := %s", leanBool(cancels))
		l.p("/-- the cursor's iterators are released before waiting -/")
		l.p("def waitReleasesIterators : Bool := %s", leanBool(releases))
		l.p("/-- the result is the caller context's `Err()` (nil when woken by data) -/")
		l.p("def waitReturnsCtxErr : Bool := %s", leanBool(retCtxErr))

		// --- the two Query loops
		bf := parseFile("pkg/backend/querier.go")
		rf := parseFile("api/rpc/querier.go")
		bfd, rfd := funcDecl(bf, "Querier", "Query"), funcDecl(rf, "ServerQuerier", "query")
		if bfd == nil {
			problem("backend.Querier.Query not found")
		}
		if rfd == nil {
			problem("rpc.ServerQuerier.query not found")
		}
		bl, rl := c11QueryLoop(bfd, "backend.Querier.Query"), c11QueryLoop(rfd, "rpc.ServerQuerier.query")
		b1, b2, b3 := bl.waitCond, bl.freshTimeout, bl.breaksOnTimeout
		r1, r2, r3 := rl.waitCond, rl.freshTimeout, rl.breaksOnTimeout
		l.p("/-- per loop: (waits exactly when `err == io.EOF && <countdown> == <other> && WaitTimeout > 0` — three conjuncts, any order, any local names —, fresh `context.WithTimeout` per wait, `break` on a wait error) -/")
		l.p("def backendLoopShape : Bool × Bool × Bool := (%s, %s, %s)", leanBool(b1), leanBool(b2), leanBool(b3))
		l.p("def rpcLoopShape : Bool × Bool × Bool := (%s, %s, %s)", leanBool(r1), leanBool(r2), leanBool(r3))
		l.p("/-- per function: (the countdown variable is clamped to `QueryMaxLimit` before the loop, the `<other>` of the wait condition is a local assigned once from the countdown variable AFTER that clamp — not the request's `Limit`, not a copy taken before the clamp) -/")
		l.p("def backendLimitShape : Bool × Bool := (%s, %s)", leanBool(bl.clamps), leanBool(bl.condUsesClamped))
		l.p("def rpcLimitShape : Bool × Bool := (%s, %s)", leanBool(rl.clamps), leanBool(rl.condUsesClamped))
		// rpc only: `if <countdown or its clamped copy> == 0 && rq.WaitTimeout <= 0 { … SendResponse(empty); return }` before the cursor is created
		early := false
		if rfd != nil {
			ast.Inspect(rfd.Body, func(n ast.Node) bool {
				is, ok := n.(*ast.IfStmt)
				if !ok {
					return true
				}
				cj := c11Conj(is.Cond)
				if len(cj) != 2 {
					return true
				}
				z, w := false, false
				for _, c := range cj {
					if be, ok := c.(*ast.BinaryExpr); ok {
						if be.Op == token.EQL && c11IsZero(be.Y) && (c11IsIdent(be.X, rl.countdown) || rl.isClampedCopy(be.X)) {
							z = true
						}
						if be.Op == token.LEQ && c11IsSel(be.X, "WaitTimeout") && c11IsZero(be.Y) {
							w = true
						}
					}
				}
				if z && w {
					for _, st := range is.Body.List {
						if _, ok := st.(*ast.ReturnStmt); ok {
							early = true
						}
					}
				}
				return true
			})
		}
		l.p("/-- `rpc.ServerQuerier.query` answers empty before creating a cursor when `<clamped limit> == 0 && WaitTimeout <= 0` -/")
		l.p("def rpcEarlyEmptyForZeroLimit : Bool := %s", leanBool(early))
		l.p("/-- both loops wait exactly when `err == io.EOF && <countdown> == <other> && WaitTimeout > 0` -/")
		l.p("def queryLoopWaitCondition : Bool := %s", leanBool(b1 && r1))
		l.p("/-- … with a fresh `context.WithTimeout` per wait -/")
		l.p("def queryLoopFreshTimeout : Bool := %s", leanBool(b2 && r2))
		l.p("/-- … and leave the loop when the wait reports an error (timeout) -/")
		l.p("def queryLoopBreaksOnTimeout : Bool := %s", leanBool(b3 && r3))
		l.p("/-- … and in both the `<other>` of the wait condition is the CLAMPED limit (so that a request with `Limit > QueryMaxLimit` still waits) -/")
		l.p("def queryLoopComparesClampedLimit : Bool := %s", leanBool(bl.clamps && bl.condUsesClamped && rl.clamps && rl.condUsesClamped))

		// --- api.Select (the documented client loop for waiting): every path of its loop that goes round again has taken the
		// continuation request. By structure: the request parameter is the *QueryRequest parameter of Select; inside the `for`
		// loop it is re-assigned from `&<result>.NextQueryRequest`; that assignment must be a top-level statement of the loop
		// body (not under a condition), and no `continue` of this loop may come before it.
		clf := parseFile("api/client.go")
		takesNext := false
		if fd := funcDecl(clf, "", "Select"); fd == nil {
			problem("api.Select not found")
		} else {
			reqParam := ""
			for _, f := range fd.Type.Params.List {
				if st, ok := f.Type.(*ast.StarExpr); ok && strings.Contains(c11Idents(st.X), "QueryRequest") && len(f.Names) == 1 {
					reqParam = f.Names[0].Name
				}
			}
			var loop *ast.ForStmt
			ast.Inspect(fd.Body, func(n ast.Node) bool {
				if fs, ok := n.(*ast.ForStmt); ok && loop == nil {
					loop = fs
				}
				return loop == nil
			})
			if reqParam == "" || loop == nil {
				problem("api.Select: the request parameter or the loop was not found")
			} else {
				var assignPos token.Pos
				for _, st := range loop.Body.List {
					if as, ok := st.(*ast.AssignStmt); ok && len(as.Lhs) == 1 && len(as.Rhs) == 1 && c11IsIdent(as.Lhs[0], reqParam) {
						if ue, ok := as.Rhs[0].(*ast.UnaryExpr); ok && ue.Op == token.AND && c11IsSel(ue.X, "NextQueryRequest") && assignPos == 0 {
							assignPos = as.Pos()
						}
					}
				}
				earlyContinue := false
				var walk func(n ast.Node)
				walk = func(n ast.Node) {
					ast.Inspect(n, func(m ast.Node) bool {
						switch x := m.(type) {
						case *ast.ForStmt, *ast.RangeStmt, *ast.FuncLit:
							if m != ast.Node(loop) {
								return false // a `continue` in there belongs to another loop
							}
						case *ast.BranchStmt:
							if x.Tok == token.CONTINUE && (assignPos == 0 || x.Pos() < assignPos) {
								earlyContinue = true
							}
						}
						return true
					})
				}
				walk(loop.Body)
				if assignPos == 0 {
					// no unconditional continuation at all: either it is missing, or it sits under a condition the extractor does
					// not follow — the fact is false and the obligation that names it breaks
					takesNext = false
				} else {
					takesNext = !earlyContinue
				}
			}
		}
		l.p("/-- `api.Select`: in its loop the request is replaced by `&res.NextQueryRequest` unconditionally, and no `continue` comes before that — every further request continues where the previous answer ended -/")
		l.p("def clientSelectTakesNextRequest : Bool := %s", leanBool(takesNext))

		maxLimit := -1
		if bf != nil {
			ast.Inspect(bf, func(n ast.Node) bool {
				if vs, ok := n.(*ast.ValueSpec); ok && len(vs.Names) == 1 && vs.Names[0].Name == "QueryMaxLimit" && len(vs.Values) == 1 {
					if bl, ok := vs.Values[0].(*ast.BasicLit); ok {
						maxLimit, _ = strconv.Atoi(bl.Value)
					}
				}
				return true
			})
		}
		if maxLimit < 0 {
			problem("backend.QueryMaxLimit not found")
			maxLimit = 0
		}
		l.p("/-- `backend.QueryMaxLimit` (events per page) -/")
		l.p("def queryMaxLimit : Nat := %d", maxLimit)

		maxWait := -1
		if bf != nil {
			ast.Inspect(bf, func(n ast.Node) bool {
				if vs, ok := n.(*ast.ValueSpec); ok && len(vs.Names) == 1 && vs.Names[0].Name == "QueryMaxWaitTimeout" && len(vs.Values) == 1 {
					if bl, ok := vs.Values[0].(*ast.BasicLit); ok {
						maxWait, _ = strconv.Atoi(bl.Value)
					}
				}
				return true
			})
		}
		if maxWait < 0 {
			problem("backend.QueryMaxWaitTimeout not found")
			maxWait = 0
		}
		l.p("/-- `backend.QueryMaxWaitTimeout` (seconds) -/")
		l.p("def queryMaxWaitTimeout : Nat := %d", maxWait)
		l.write()
	}
}
