package main

import (
	"go/ast"
	"go/token"
	"strconv"
	"strings"
)

// C11: structural facts of the waiting code.
//
//   - emptyCursor.WaitNewData: is its body the single statement `return nil` (returns at once)?
//   - crsr.WaitNewData: one goroutine per partition descriptor, started with the iterator's current `Pos()`, which
//     calls `cancel()` after `WaitForNewData`; the function releases the iterator first and returns `ctx.Err()`
//   - the loops of backend.Querier.Query and rpc.ServerQuerier.query: the wait condition
//     `err == io.EOF && limit == lim && …WaitTimeout > 0`, a fresh `context.WithTimeout` inside the loop, `break` on a
//     wait error
//   - backend.QueryMaxWaitTimeout
func c11Idents(n ast.Node) string {
	var sb strings.Builder
	ast.Inspect(n, func(m ast.Node) bool {
		switch x := m.(type) {
		case *ast.Ident:
			sb.WriteString(x.Name + " ")
		case *ast.BasicLit:
			sb.WriteString(x.Value + " ")
		case *ast.BinaryExpr:
			sb.WriteString(x.Op.String() + " ")
		}
		return true
	})
	return sb.String()
}

// c11CallsAfterWait: in body, a statement that calls WaitForNewData is followed by a call of the function named fn
func c11CallsAfterWait(body *ast.BlockStmt, fn string) bool {
	if body == nil || fn == "" {
		return false
	}
	sawWait := false
	for _, st := range body.List {
		if strings.Contains(c11Idents(st), "WaitForNewData") {
			sawWait = true
			continue
		}
		if !sawWait {
			continue
		}
		found := false
		ast.Inspect(st, func(n ast.Node) bool {
			if ce, ok := n.(*ast.CallExpr); ok {
				if id, ok := ce.Fun.(*ast.Ident); ok && id.Name == fn {
					found = true
				}
			}
			return true
		})
		if found {
			return true
		}
	}
	return false
}

// c11ParamName: the name of the i-th parameter of fd ("" if there is none)
func c11ParamName(fd *ast.FuncDecl, i int) string {
	k := 0
	for _, f := range fd.Type.Params.List {
		for _, n := range f.Names {
			if k == i {
				return n.Name
			}
			k++
		}
	}
	return ""
}

func c11QueryLoop(fd *ast.FuncDecl) (waitCond, freshTimeout, breaksOnTimeout bool) {
	if fd == nil {
		return
	}
	ast.Inspect(fd.Body, func(n ast.Node) bool {
		fs, ok := n.(*ast.ForStmt)
		if !ok {
			return true
		}
		ast.Inspect(fs.Body, func(m ast.Node) bool {
			is, ok := m.(*ast.IfStmt)
			if !ok {
				return true
			}
			s := c11Idents(is.Cond)
			if strings.Contains(s, "EOF") && strings.Contains(s, "limit") && strings.Contains(s, "lim ") && strings.Contains(s, "WaitTimeout") &&
				strings.Count(s, "&&") == 2 && strings.Contains(s, "> ") {
				waitCond = true
				ast.Inspect(is.Body, func(k ast.Node) bool {
					switch x := k.(type) {
					case *ast.CallExpr:
						if se, ok := x.Fun.(*ast.SelectorExpr); ok && se.Sel.Name == "WithTimeout" {
							freshTimeout = true
						}
					case *ast.BranchStmt:
						if x.Tok == token.BREAK {
							breaksOnTimeout = true
						}
					}
					return true
				})
			}
			return true
		})
		return false
	})
	return
}

func init() {
	generators["C11"] = func() {
		l := newLean("C11", "Facts about pkg/cursor/{cursor,null}.go, pkg/backend/querier.go and api/rpc/querier.go (waiting for new data).")

		// --- emptyCursor.WaitNewData
		nf := parseFile("pkg/cursor/null.go")
		atOnce := false
		if fd := funcDecl(nf, "emptyCursor", "WaitNewData"); fd == nil {
			problem("cursor.emptyCursor.WaitNewData not found")
		} else if len(fd.Body.List) == 1 {
			if rs, ok := fd.Body.List[0].(*ast.ReturnStmt); ok && len(rs.Results) == 1 {
				if id, ok := rs.Results[0].(*ast.Ident); ok && id.Name == "nil" {
					atOnce = true
				}
			}
		}
		l.p("/-- the body of `emptyCursor.WaitNewData` is `return nil`: it neither blocks nor looks at the context -/")
		l.p("def emptyCursorWaitReturnsAtOnce : Bool := %s", leanBool(atOnce))
		// `<-ctx.Done(); return ctx.Err()`
		blocks := false
		if fd := funcDecl(nf, "emptyCursor", "WaitNewData"); fd != nil && len(fd.Body.List) == 2 {
			s0, s1 := c11Idents(fd.Body.List[0]), c11Idents(fd.Body.List[1])
			if es, ok := fd.Body.List[0].(*ast.ExprStmt); ok {
				if ue, ok := es.X.(*ast.UnaryExpr); ok && ue.Op == token.ARROW && strings.Contains(s0, "ctx Done") {
					if _, ok := fd.Body.List[1].(*ast.ReturnStmt); ok && strings.Contains(s1, "ctx Err") {
						blocks = true
					}
				}
			}
		}
		if !atOnce && !blocks {
			problem("cursor.emptyCursor.WaitNewData has neither of the two shapes the model knows (return nil | <-ctx.Done(); return ctx.Err())")
		}
		l.p("/-- the body is `<-ctx.Done(); return ctx.Err()`: it blocks until the wait context ends and reports that -/")
		l.p("def emptyCursorWaitBlocksUntilCtxEnds : Bool := %s", leanBool(blocks))

		// --- crsr.WaitNewData
		cf := parseFile("pkg/cursor/cursor.go")
		curPos, cancels, perDesc, releases, retCtxErr := false, false, false, false, false
		if fd := funcDecl(cf, "crsr", "WaitNewData"); fd == nil {
			problem("cursor.crsr.WaitNewData not found")
		} else {
			// the cancel function of the wait: second result of context.WithCancel
			cancelVar := ""
			ast.Inspect(fd.Body, func(n ast.Node) bool {
				if as, ok := n.(*ast.AssignStmt); ok && len(as.Lhs) == 2 && len(as.Rhs) == 1 {
					if ce, ok := as.Rhs[0].(*ast.CallExpr); ok {
						if se, ok := ce.Fun.(*ast.SelectorExpr); ok && se.Sel.Name == "WithCancel" {
							if id, ok := as.Lhs[1].(*ast.Ident); ok {
								cancelVar = id.Name
							}
						}
					}
				}
				return true
			})
			ast.Inspect(fd.Body, func(n ast.Node) bool {
				switch x := n.(type) {
				case *ast.RangeStmt:
					if strings.Contains(c11Idents(x.X), "jDescs") {
						ast.Inspect(x.Body, func(m ast.Node) bool {
							if gs, ok := m.(*ast.GoStmt); ok {
								perDesc = true
								for _, a := range gs.Call.Args {
									if ce, ok := a.(*ast.CallExpr); ok {
										if se, ok := ce.Fun.(*ast.SelectorExpr); ok && se.Sel.Name == "Pos" && len(ce.Args) == 0 {
											curPos = true
										}
									}
								}
								// the goroutine body: a function literal (the cancel function is captured) or a same-package helper
								// (the cancel function is passed as an argument) — structure, not local names
								switch fn := gs.Call.Fun.(type) {
								case *ast.FuncLit:
									cancels = c11CallsAfterWait(fn.Body, cancelVar)
								case *ast.Ident:
									if hd := funcDecl(cf, "", fn.Name); hd != nil {
										for ai, a := range gs.Call.Args {
											if id, ok := a.(*ast.Ident); ok && id.Name == cancelVar {
												if pn := c11ParamName(hd, ai); pn != "" {
													cancels = c11CallsAfterWait(hd.Body, pn)
												}
											}
										}
									}
								}
							}
							return true
						})
					}
				case *ast.ReturnStmt:
					if len(x.Results) == 1 && strings.Contains(c11Idents(x.Results[0]), "ctx Err") {
						retCtxErr = true
					}
				}
				return true
			})
			if len(fd.Body.List) > 0 && strings.Contains(c11Idents(fd.Body.List[0]), "Release") {
				releases = true
			}
		}
		l.p("/-- `crsr.WaitNewData` starts one goroutine per partition descriptor -/")
		l.p("def waitOneWaiterPerPartition : Bool := %s", leanBool(perDesc))
		l.p("/-- each is started with the iterator's current `Pos()` as its position argument -/")
		l.p("def waitStartsWithCurrentPos : Bool := %s", leanBool(curPos))
		l.p("/-- each calls `cancel()` after `WaitForNewData` returned (the first return ends the whole wait) -/")
		l.p("def waiterCancelsTheRest : Bool := %s", leanBool(cancels))
		l.p("/-- the cursor's iterators are released before waiting -/")
		l.p("def waitReleasesIterators : Bool := %s", leanBool(releases))
		l.p("/-- the result is the caller context's `Err()` (nil when woken by data) -/")
		l.p("def waitReturnsCtxErr : Bool := %s", leanBool(retCtxErr))

		// --- the two Query loops
		bf := parseFile("pkg/backend/querier.go")
		rf := parseFile("api/rpc/querier.go")
		bfd, rfd := funcDecl(bf, "Querier", "Query"), funcDecl(rf, "ServerQuerier", "query")
		if bfd == nil {
			problem("backend.Querier.Query not found")
		}
		if rfd == nil {
			problem("rpc.ServerQuerier.query not found")
		}
		b1, b2, b3 := c11QueryLoop(bfd)
		r1, r2, r3 := c11QueryLoop(rfd)
		l.p("/-- per loop: (waits exactly when `err == io.EOF && limit == lim && WaitTimeout > 0`, fresh `context.WithTimeout` per wait, `break` on a wait error) -/")
		l.p("def backendLoopShape : Bool × Bool × Bool := (%s, %s, %s)", leanBool(b1), leanBool(b2), leanBool(b3))
		l.p("def rpcLoopShape : Bool × Bool × Bool := (%s, %s, %s)", leanBool(r1), leanBool(r2), leanBool(r3))
		// rpc only: `if lim == 0 && rq.WaitTimeout <= 0 { … SendResponse(empty); return }` before the cursor is created
		early := false
		if rfd != nil {
			ast.Inspect(rfd.Body, func(n ast.Node) bool {
				if is, ok := n.(*ast.IfStmt); ok {
					sc := c11Idents(is.Cond)
					if strings.Contains(sc, "lim ") && strings.Contains(sc, "WaitTimeout") && strings.Contains(sc, "<= ") && strings.Contains(sc, "== ") && strings.Count(sc, "&&") == 1 {
						for _, st := range is.Body.List {
							if _, ok := st.(*ast.ReturnStmt); ok {
								early = true
							}
						}
					}
				}
				return true
			})
		}
		l.p("/-- `rpc.ServerQuerier.query` answers empty before creating a cursor when `lim == 0 && WaitTimeout <= 0` -/")
		l.p("def rpcEarlyEmptyForZeroLimit : Bool := %s", leanBool(early))
		l.p("/-- both loops wait exactly when `err == io.EOF && limit == lim && WaitTimeout > 0` -/")
		l.p("def queryLoopWaitCondition : Bool := %s", leanBool(b1 && r1))
		l.p("/-- … with a fresh `context.WithTimeout` per wait -/")
		l.p("def queryLoopFreshTimeout : Bool := %s", leanBool(b2 && r2))
		l.p("/-- … and leave the loop when the wait reports an error (timeout) -/")
		l.p("def queryLoopBreaksOnTimeout : Bool := %s", leanBool(b3 && r3))

		maxWait := -1
		if bf != nil {
			ast.Inspect(bf, func(n ast.Node) bool {
				if vs, ok := n.(*ast.ValueSpec); ok && len(vs.Names) == 1 && vs.Names[0].Name == "QueryMaxWaitTimeout" && len(vs.Values) == 1 {
					if bl, ok := vs.Values[0].(*ast.BasicLit); ok {
						maxWait, _ = strconv.Atoi(bl.Value)
					}
				}
				return true
			})
		}
		if maxWait < 0 {
			problem("backend.QueryMaxWaitTimeout not found")
			maxWait = 0
		}
		l.p("/-- `backend.QueryMaxWaitTimeout` (seconds) -/")
		l.p("def queryMaxWaitTimeout : Nat := %d", maxWait)
		l.write()
	}
}
