package main

import (
	"go/ast"
	"go/token"
	"io/ioutil"
	"path/filepath"
	"sort"
	"strings"
)

// c12MutablePackageVars: package-level variables of a package that the package's own code writes (assigned, incremented, indexed-and-assigned, receiver of Store/LoadOrStore/Delete/Put/Swap/CompareAndSwap/Add/Lock) or whose type is a map / channel / sync.* container (same analysis as C20G's, re-extracted here because each property's extractor is built from its own files). Files `*_test.go` and `*_verif.go` are not part of the product.
func c12MutablePackageVars(rel string) []string {
	dir := filepath.Join(repo, rel)
	fis, err := ioutil.ReadDir(dir)
	if err != nil {
		problem("cannot read " + rel)
		return nil
	}
	var files []*ast.File
	for _, fi := range fis {
		n := fi.Name()
		if !strings.HasSuffix(n, ".go") || strings.HasSuffix(n, "_test.go") || strings.HasSuffix(n, "_verif.go") {
			continue
		}
		if f := parseFile(filepath.Join(rel, n)); f != nil {
			files = append(files, f)
		}
	}
	pkgVars := map[string]bool{}
	specOf := map[*ast.ValueSpec]bool{}
	mutable := map[string]bool{}
	containerType := func(e ast.Expr) bool {
		switch t := e.(type) {
		case *ast.MapType, *ast.ChanType:
			return true
		case *ast.SelectorExpr:
			if x, ok := t.X.(*ast.Ident); ok && (x.Name == "sync" || x.Name == "atomic") {
				return true
			}
		}
		return false
	}
	for _, f := range files {
		for _, d := range f.Decls {
			gd, ok := d.(*ast.GenDecl)
			if !ok || gd.Tok != token.VAR {
				continue
			}
			for _, sp := range gd.Specs {
				vs := sp.(*ast.ValueSpec)
				specOf[vs] = true
				for i, n := range vs.Names {
					if n.Name == "_" {
						continue
					}
					pkgVars[n.Name] = true
					if vs.Type != nil && containerType(vs.Type) {
						mutable[n.Name] = true
					}
					if i < len(vs.Values) {
						switch v := vs.Values[i].(type) {
						case *ast.CompositeLit:
							if containerType(v.Type) {
								mutable[n.Name] = true
							}
						case *ast.CallExpr:
							if id, ok := v.Fun.(*ast.Ident); ok && id.Name == "make" && len(v.Args) > 0 && containerType(v.Args[0]) {
								mutable[n.Name] = true
							}
						}
					}
				}
			}
		}
	}
	// is this identifier a use of a package-level variable (not a local of the same name)?
	isPkgVar := func(id *ast.Ident) bool {
		if !pkgVars[id.Name] {
			return false
		}
		if id.Obj == nil {
			return true // declared in another file of the package
		}
		vs, ok := id.Obj.Decl.(*ast.ValueSpec)
		return ok && specOf[vs]
	}
	root := func(e ast.Expr) *ast.Ident { // x, x[i], x.f, *x -> x
		for {
			switch t := e.(type) {
			case *ast.Ident:
				return t
			case *ast.IndexExpr:
				e = t.X
			case *ast.SelectorExpr:
				e = t.X
			case *ast.StarExpr:
				e = t.X
			case *ast.ParenExpr:
				e = t.X
			default:
				return nil
			}
		}
	}
	mutators := map[string]bool{"Store": true, "LoadOrStore": true, "LoadAndDelete": true, "Delete": true, "Put": true, "Swap": true, "CompareAndSwap": true, "Add": true, "Lock": true, "Range": false}
	for _, f := range files {
		for _, d := range f.Decls {
			fd, ok := d.(*ast.FuncDecl)
			if !ok || fd.Body == nil {
				continue
			}
			ast.Inspect(fd.Body, func(n ast.Node) bool {
				switch s := n.(type) {
				case *ast.AssignStmt:
					if s.Tok == token.DEFINE {
						return true
					}
					for _, lhs := range s.Lhs {
						if id := root(lhs); id != nil && isPkgVar(id) {
							mutable[id.Name] = true
						}
					}
				case *ast.IncDecStmt:
					if id := root(s.X); id != nil && isPkgVar(id) {
						mutable[id.Name] = true
					}
				case *ast.CallExpr:
					if se, ok := s.Fun.(*ast.SelectorExpr); ok && mutators[se.Sel.Name] {
						if id, ok := se.X.(*ast.Ident); ok && isPkgVar(id) {
							mutable[id.Name] = true
						}
					}
				}
				return true
			})
		}
	}
	var out []string
	for n := range mutable {
		out = append(out, n)
	}
	sort.Strings(out)
	return out
}

