package main

import (
	"go/ast"
	"go/token"
	"strings"
)

// C13 census, part 2: IMPLICIT pointer dereferences of pkg/lql — a field selection `X.f` where X has the static type *T for a struct
// T of the package (a grammar node participle built, or a builder). The types are resolved locally (receiver, parameters, locals
// assigned from typed expressions, range variables, struct fields, results of package functions); an expression whose type cannot be
// resolved is not a site. The receiver of a method is not a site either: whether a method may be entered with a nil receiver is what
// the `call-on-optional` sites of part 1 establish.
//
// Guard classes (beside `nonnil` from a dominating test):
//
//	fresh                 X is a local made by &T{…} / new(T) / var x T (address taken implicitly)
//	slice-element         X is an element of a []*T (index expression or range value): participle appends allocated nodes only
//	grammar:mandatory     X is Y.g and the capture of g is mandatory in the struct's grammar (not inside ( … )? / [ … ] / { … }, not in
//	                      an alternation): participle sets it whenever the parse of the enclosing node succeeds
//	grammar:alternative   X is Y.g, g is one branch of a two-branch alternation whose other branch h was found nil by a dominating
//	                      test (`if Y.h != nil { … } else { … X … }`)
//	param:<classes>       X is a pointer parameter without a test of its own; every call site in the package passes an argument of one
//	                      of the classes above (or one that is nonnil / itself such a parameter)
//
// The three grammar / slice classes are contracts of participle; the harness checks them on every accepted text (robust section,
// `ast-shape`: no nil element in a node slice, every mandatory capture set, exactly one branch of an alternation set).

type c13Types struct {
	structs map[string]map[string]ast.Expr // struct name -> field -> type
	tags    map[string]string              // "T.f" -> participle tag
	order   map[string][]string            // struct name -> fields in order
	funcs   map[string]*ast.FuncDecl       // package functions (no receiver) by name
	methods map[string][]*ast.FuncDecl
}

func c13CollectTypes(files []*ast.File, all []*ast.FuncDecl) *c13Types {
	t := &c13Types{map[string]map[string]ast.Expr{}, map[string]string{}, map[string][]string{}, map[string]*ast.FuncDecl{}, map[string][]*ast.FuncDecl{}}
	for _, f := range files {
		ast.Inspect(f, func(n ast.Node) bool {
			ts, ok := n.(*ast.TypeSpec)
			if !ok {
				return true
			}
			st, ok := ts.Type.(*ast.StructType)
			if !ok {
				return true
			}
			m := map[string]ast.Expr{}
			for _, fl := range st.Fields.List {
				for _, nm := range fl.Names {
					m[nm.Name] = fl.Type
					t.order[ts.Name.Name] = append(t.order[ts.Name.Name], nm.Name)
					if fl.Tag != nil {
						t.tags[ts.Name.Name+"."+nm.Name] = strings.Trim(fl.Tag.Value, "`")
					}
				}
			}
			t.structs[ts.Name.Name] = m
			return true
		})
	}
	for _, fd := range all {
		if fd.Recv == nil {
			t.funcs[fd.Name.Name] = fd
		} else {
			t.methods[fd.Name.Name] = append(t.methods[fd.Name.Name], fd)
		}
	}
	return t
}

// c13Optionality: for every field of struct T with a participle tag: "mandatory", "alternative:<other field>" (two-branch top-level or
// grouped alternation with one capture per branch) or "optional"
func (t *c13Types) optionality(T string) map[string]string {
	res := map[string]string{}
	type tok struct {
		s     string
		field string
	}
	var toks []tok
	for _, f := range t.order[T] {
		tag, ok := t.tags[T+"."+f]
		if !ok {
			continue
		}
		for i := 0; i < len(tag); {
			c := tag[i]
			switch {
			case c == '"':
				j := i + 1
				for j < len(tag) && tag[j] != '"' {
					if tag[j] == '\\' {
						j++
					}
					j++
				}
				i = j + 1
			case c == '@':
				// a capture: @@, @Ident, @"lit", @( … )
				toks = append(toks, tok{"@", f})
				i++
				if i < len(tag) && tag[i] == '@' {
					i++
				} else if i < len(tag) && tag[i] == '(' {
					depth := 0
					for i < len(tag) {
						if tag[i] == '(' {
							depth++
						} else if tag[i] == ')' {
							depth--
							if depth == 0 {
								i++
								break
							}
						}
						i++
					}
				}
			case strings.ContainsRune("()[]{}|?*+", rune(c)):
				toks = append(toks, tok{string(c), f})
				i++
			default:
				i++
			}
		}
	}
	// groups: a stack of frames; each frame: opening kind, captures (fields) per alternative
	type frame struct {
		open string
		alts [][]string
		opt  bool // optional by construction ([ ] or { })
	}
	var markOptional func(fr *frame)
	markOptional = func(fr *frame) {
		for _, a := range fr.alts {
			for _, f := range a {
				res[f] = "optional"
			}
		}
	}
	stack := []*frame{{open: "", alts: [][]string{{}}}}
	closeFrame := func(fr *frame, follow string) []string {
		var fields []string
		for _, a := range fr.alts {
			fields = append(fields, a...)
		}
		optional := fr.opt || follow == "?" || follow == "*"
		if optional {
			markOptional(fr)
			return fields
		}
		if len(fr.alts) > 1 {
			if len(fr.alts) == 2 && len(fr.alts[0]) == 1 && len(fr.alts[1]) == 1 {
				a, b := fr.alts[0][0], fr.alts[1][0]
				if res[a] == "" {
					res[a] = "alternative:" + b
				}
				if res[b] == "" {
					res[b] = "alternative:" + a
				}
			} else {
				markOptional(fr)
			}
		}
		return fields
	}
	for i := 0; i < len(toks); i++ {
		tk := toks[i]
		top := stack[len(stack)-1]
		switch tk.s {
		case "@":
			top.alts[len(top.alts)-1] = append(top.alts[len(top.alts)-1], tk.field)
		case "(", "[", "{":
			stack = append(stack, &frame{open: tk.s, alts: [][]string{{}}, opt: tk.s != "("})
		case "|":
			top.alts = append(top.alts, []string{})
		case ")", "]", "}":
			if len(stack) == 1 {
				continue
			}
			follow := ""
			if i+1 < len(toks) {
				follow = toks[i+1].s
			}
			fields := closeFrame(top, follow)
			stack = stack[:len(stack)-1]
			parent := stack[len(stack)-1]
			parent.alts[len(parent.alts)-1] = append(parent.alts[len(parent.alts)-1], fields...)
		}
	}
	for len(stack) > 1 { // unbalanced: be conservative
		markOptional(stack[len(stack)-1])
		stack = stack[:len(stack)-1]
	}
	closeFrame(stack[0], "")
	for _, f := range t.order[T] {
		if _, ok := t.tags[T+"."+f]; ok && res[f] == "" {
			res[f] = "mandatory"
		}
	}
	return res
}

func c13PtrStruct(t ast.Expr, ty *c13Types) string {
	if se, ok := t.(*ast.StarExpr); ok {
		if id, ok := se.X.(*ast.Ident); ok {
			if _, ok := ty.structs[id.Name]; ok {
				return id.Name
			}
		}
	}
	return ""
}

type c13Env struct {
	vars  map[string]ast.Expr // static types
	fresh map[string]bool     // &T{}, new(T), var x T
	elem  map[string]bool     // range value / index of a slice of nodes
	recv  string
}

func (ty *c13Types) typeOf(e ast.Expr, env *c13Env) ast.Expr {
	switch x := c13Unparen(e).(type) {
	case *ast.Ident:
		return env.vars[x.Name]
	case *ast.SelectorExpr:
		t := ty.typeOf(x.X, env)
		if t == nil {
			return nil
		}
		if se, ok := t.(*ast.StarExpr); ok {
			t = se.X
		}
		if id, ok := t.(*ast.Ident); ok {
			if m, ok := ty.structs[id.Name]; ok {
				return m[x.Sel.Name]
			}
		}
	case *ast.IndexExpr:
		if at, ok := ty.typeOf(x.X, env).(*ast.ArrayType); ok {
			return at.Elt
		}
	case *ast.SliceExpr:
		return ty.typeOf(x.X, env)
	case *ast.StarExpr:
		if se, ok := ty.typeOf(x.X, env).(*ast.StarExpr); ok {
			return se.X
		}
	case *ast.UnaryExpr:
		if x.Op == token.AND {
			if cl, ok := x.X.(*ast.CompositeLit); ok && cl.Type != nil {
				return &ast.StarExpr{X: cl.Type}
			}
			if t := ty.typeOf(x.X, env); t != nil {
				return &ast.StarExpr{X: t}
			}
		}
	case *ast.CallExpr:
		if id, ok := x.Fun.(*ast.Ident); ok {
			if fd, ok := ty.funcs[id.Name]; ok && fd.Type.Results != nil && len(fd.Type.Results.List) > 0 {
				return fd.Type.Results.List[0].Type
			}
		}
	}
	return nil
}

func (ty *c13Types) envOf(fd *ast.FuncDecl) *c13Env {
	env := &c13Env{map[string]ast.Expr{}, map[string]bool{}, map[string]bool{}, ""}
	if fd.Recv != nil && len(fd.Recv.List) == 1 && len(fd.Recv.List[0].Names) == 1 {
		env.recv = fd.Recv.List[0].Names[0].Name
		env.vars[env.recv] = fd.Recv.List[0].Type
	}
	for _, p := range fd.Type.Params.List {
		for _, nm := range p.Names {
			env.vars[nm.Name] = p.Type
		}
	}
	// two passes so that a local typed from another local resolves
	for pass := 0; pass < 2; pass++ {
		ast.Inspect(fd.Body, func(n ast.Node) bool {
			switch s := n.(type) {
			case *ast.AssignStmt:
				if s.Tok != token.DEFINE && s.Tok != token.ASSIGN {
					break
				}
				for i, l := range s.Lhs {
					id, ok := l.(*ast.Ident)
					if !ok || id.Name == "_" {
						continue
					}
					var rhs ast.Expr
					if len(s.Rhs) == len(s.Lhs) {
						rhs = s.Rhs[i]
					} else if len(s.Rhs) == 1 && i == 0 {
						rhs = s.Rhs[0]
					}
					if rhs == nil {
						continue
					}
					if _, have := env.vars[id.Name]; have && s.Tok == token.ASSIGN {
						continue
					}
					if t := ty.typeOf(rhs, env); t != nil {
						env.vars[id.Name] = t
						if ue, ok := rhs.(*ast.UnaryExpr); ok && ue.Op == token.AND {
							if _, ok := ue.X.(*ast.CompositeLit); ok {
								env.fresh[id.Name] = true
							}
						}
						if _, ok := c13Unparen(rhs).(*ast.IndexExpr); ok {
							env.elem[id.Name] = true
						}
					}
				}
			case *ast.DeclStmt:
				if gd, ok := s.Decl.(*ast.GenDecl); ok && gd.Tok == token.VAR {
					for _, sp := range gd.Specs {
						if vs, ok := sp.(*ast.ValueSpec); ok && vs.Type != nil {
							for _, nm := range vs.Names {
								env.vars[nm.Name] = vs.Type
								env.fresh[nm.Name] = true // a value: its address is never nil
							}
						}
					}
				}
			case *ast.RangeStmt:
				if id, ok := s.Value.(*ast.Ident); ok {
					if at, ok := ty.typeOf(s.X, env).(*ast.ArrayType); ok {
						env.vars[id.Name] = at.Elt
						env.elem[id.Name] = true
					}
				}
			}
			return true
		})
	}
	return env
}

// c13Facts does not record "is nil" facts; this does, for the grammar:alternative class
func c13NilFacts(path []ast.Node) map[string]bool {
	nils := map[string]bool{}
	add := func(cond ast.Expr, pos bool) {
		var rec func(e ast.Expr, pos bool)
		rec = func(e ast.Expr, pos bool) {
			e = c13Unparen(e)
			switch b := e.(type) {
			case *ast.UnaryExpr:
				if b.Op == token.NOT {
					rec(b.X, !pos)
				}
			case *ast.BinaryExpr:
				switch {
				case b.Op == token.LAND && pos, b.Op == token.LOR && !pos:
					rec(b.X, pos)
					rec(b.Y, pos)
				case b.Op == token.EQL || b.Op == token.NEQ:
					isNil := func(x ast.Expr) bool { id, ok := c13Unparen(x).(*ast.Ident); return ok && id.Name == "nil" }
					eq := (b.Op == token.EQL) == pos
					if eq && isNil(b.Y) {
						nils[c13Src(b.X)] = true
					}
					if eq && isNil(b.X) {
						nils[c13Src(b.Y)] = true
					}
				}
			}
		}
		rec(cond, pos)
	}
	for i := 0; i+1 < len(path); i++ {
		child := path[i+1]
		switch p := path[i].(type) {
		case *ast.IfStmt:
			if child == ast.Node(p.Body) {
				add(p.Cond, true)
			} else if p.Else != nil && child == p.Else {
				add(p.Cond, false)
			}
		case *ast.BlockStmt:
			for _, st := range p.List {
				if st == child {
					break
				}
				if is, ok := st.(*ast.IfStmt); ok && is.Else == nil && c13Leaves(is.Body) {
					add(is.Cond, false)
				}
			}
		}
	}
	return nils
}

// classify a pointer-typed expression at a program point: "" = no guard known
func (ty *c13Types) classPtr(x ast.Expr, env *c13Env, path []ast.Node, paramClass func(name string) string) string {
	x = c13Unparen(x)
	facts := c13FactsAt(path)
	if facts["nonnil:"+c13Src(x)] == 1 {
		return "nonnil"
	}
	switch e := x.(type) {
	case *ast.Ident:
		switch {
		case env.fresh[e.Name]:
			return "fresh"
		case env.elem[e.Name]:
			return "slice-element"
		case e.Name == env.recv:
			return "receiver"
		}
		if paramClass != nil {
			return paramClass(e.Name)
		}
	case *ast.IndexExpr:
		return "slice-element"
	case *ast.UnaryExpr:
		if e.Op == token.AND {
			return "fresh"
		}
	case *ast.SelectorExpr:
		T := c13PtrStruct(ty.typeOf(e.X, env), ty)
		if T == "" {
			if id, ok := ty.typeOf(e.X, env).(*ast.Ident); ok {
				T = id.Name
			}
		}
		if T == "" {
			return ""
		}
		switch o := ty.optionality(T)[e.Sel.Name]; {
		case o == "mandatory":
			return "grammar:mandatory"
		case strings.HasPrefix(o, "alternative:"):
			other := c13Src(e.X) + "." + strings.TrimPrefix(o, "alternative:")
			if c13NilFacts(path)[other] {
				return "grammar:alternative"
			}
		}
	}
	return ""
}

func c13ImplicitDerefs(files []*ast.File, all []*ast.FuncDecl, fileOf map[*ast.FuncDecl]string) []c13Site {
	ty := c13CollectTypes(files, all)
	envs := map[*ast.FuncDecl]*c13Env{}
	for _, fd := range all {
		envs[fd] = ty.envOf(fd)
	}
	// the class of a pointer parameter: from its own tests (handled at the site) or from every call site in the package
	var paramClassOf func(fd *ast.FuncDecl, name string, depth int) string
	paramClassOf = func(fd *ast.FuncDecl, name string, depth int) string {
		if depth > 3 {
			return ""
		}
		idx, pi := -1, 0
		for _, p := range fd.Type.Params.List {
			for _, nm := range p.Names {
				if nm.Name == name {
					idx = pi
				}
				pi++
			}
		}
		if idx < 0 {
			return ""
		}
		classes := map[string]bool{}
		n := 0
		bad := false
		for _, caller := range all {
			cenv := envs[caller]
			c13WalkPath(caller.Body, func(path []ast.Node) {
				ce, ok := path[len(path)-1].(*ast.CallExpr)
				if !ok || c13CallName(ce) != fd.Name.Name || idx >= len(ce.Args) {
					return
				}
				// same arity only (method and function names can coincide)
				n++
				cl := ty.classPtr(ce.Args[idx], cenv, path, func(pn string) string { return paramClassOf(caller, pn, depth+1) })
				if cl == "" {
					bad = true
					return
				}
				classes[strings.TrimPrefix(cl, "param:")] = true
			})
		}
		if n == 0 || bad {
			return ""
		}
		var cs []string
		for c := range classes {
			cs = append(cs, c)
		}
		sortStrings(cs)
		return "param:" + strings.Join(cs, "+")
	}

	var sites []c13Site
	for _, fd := range all {
		env := envs[fd]
		fname := fd.Name.Name
		if _, _, rt := c13RecvName(fd); rt != "" {
			fname = rt + "." + fname
		}
		c13WalkPath(fd.Body, func(path []ast.Node) {
			se, ok := path[len(path)-1].(*ast.SelectorExpr)
			if !ok {
				return
			}
			T := c13PtrStruct(ty.typeOf(se.X, env), ty)
			if T == "" {
				return
			}
			if _, isField := ty.structs[T][se.Sel.Name]; !isField {
				return // a method call: part 1 (call-on-optional) or a non-optional receiver
			}
			if id, ok := c13Unparen(se.X).(*ast.Ident); ok && id.Name == env.recv {
				return
			}
			cl := ty.classPtr(se.X, env, path, func(pn string) string { return paramClassOf(fd, pn, 0) })
			if cl == "" {
				cl = "unguarded"
			}
			sites = append(sites, c13Site{fileOf[fd], fname, "field-through-pointer", c13Src(se), cl, 0})
		})
	}
	return sites
}

func sortStrings(s []string) {
	for i := 1; i < len(s); i++ {
		for j := i; j > 0 && s[j] < s[j-1]; j-- {
			s[j], s[j-1] = s[j-1], s[j]
		}
	}
}
