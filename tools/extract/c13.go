package main

import (
	"bytes"
	"go/ast"
	"go/printer"
	"go/token"
	"os"
	"path/filepath"
	"sort"
	"strconv"
	"strings"
)

func exprString(e ast.Expr) string {
	var b bytes.Buffer
	printer.Fprint(&b, fset, e)
	return b.String()
}

// C13: constants and small structural facts the decoder / escaper / position models are parameterised by.
func init() {
	generators["C13"] = func() {
		l := newLean("C13", "Facts about pkg/model/logevent.go (recVersion), pkg/cursor/cursor.go (position separators),\npkg/model/field/field.go (length limit of NewFieldsFromKVString and where it is tested) and pkg/utils/json.go (EscapeJsonStr's rune test).")

		// --- recVersion ---------------------------------------------------------------------------------------
		recVersion := int64(-1)
		if f := parseFile("pkg/model/logevent.go"); f != nil {
			if v, ok := constValue(f, "recVersion"); ok {
				if n, err := strconv.ParseInt(v, 0, 64); err == nil {
					recVersion = n
				}
			}
		}
		if recVersion < 0 {
			problem("const recVersion not found in pkg/model/logevent.go")
			recVersion = 0
		}
		l.p("/-- `recVersion` of pkg/model/logevent.go: header byte of a stored record without fields (bit 0 = fields present) -/")
		l.p("def recVersion : Nat := %d", recVersion)

		// --- position separators ------------------------------------------------------------------------------
		split, val := "", ""
		if f := parseFile("pkg/cursor/cursor.go"); f != nil {
			if v, ok := constValue(f, "cPosJrnlSplit"); ok {
				split, _ = strconv.Unquote(v)
			}
			if v, ok := constValue(f, "cPosJrnlVal"); ok {
				val, _ = strconv.Unquote(v)
			}
		}
		if len(split) != 1 || len(val) != 1 {
			problem("cPosJrnlSplit / cPosJrnlVal are no longer one-byte string constants in pkg/cursor/cursor.go")
			split, val = ":", "="
		}
		l.p("/-- `cPosJrnlSplit`: separates the per-partition parts of a position string -/")
		l.p("def posJrnlSplit : UInt8 := %d", split[0])
		l.p("/-- `cPosJrnlVal`: separates the partition id from its position -/")
		l.p("def posJrnlVal : UInt8 := %d", val[0])

		// --- field length limit -------------------------------------------------------------------------------
		// NewFieldsFromKVString: `if len(v) > N { error }` inside the range loop; is there a second length test
		// after the strconv.Unquote call?
		limit := int64(-1)
		limitAfter := int64(0)
		testsAfterUnquote := false
		{
			pkg, _ := c13PkgFuncs("pkg/model/field")
			fd := pkg["NewFieldsFromKVString"]
			if fd == nil {
				problem("field.NewFieldsFromKVString not found")
			} else {
				// events in source order, same-package helpers inlined: length tests (any spelling) and the strconv.Unquote call
				unquoteSeen := false
				c13Walk(fd.Body, pkg, 2, map[*ast.FuncDecl]bool{fd: true}, func(n ast.Node) {
					if c13CallName(n) == "Unquote" {
						unquoteSeen = true
					}
					if e, ok := n.(ast.Expr); ok {
						if lim, ok := c13LenLimit(e); ok {
							if !unquoteSeen && limit < 0 {
								limit = lim
							}
							if unquoteSeen && !testsAfterUnquote {
								testsAfterUnquote, limitAfter = true, lim
							}
						}
					}
				})
				if !unquoteSeen {
					problem("field.NewFieldsFromKVString: the strconv.Unquote call was not found (the facts about the length tests around it cannot be read)")
				}
			}
		}
		if limit < 0 {
			problem("the `len(v) > N` test of field.NewFieldsFromKVString was not found")
			limit = 255
		}
		l.p("/-- the `len(v) > N` limit of `field.NewFieldsFromKVString` (one length byte per item) -/")
		l.p("def fieldMaxLen : Nat := %d", limit)
		l.p("/-- is the length tested again after `strconv.Unquote` (which can make a value longer)? -/")
		l.p("def fieldLenTestedAfterUnquote : Bool := %s", leanBool(testsAfterUnquote))
		l.p("/-- the limit of that second test (0 when there is none) -/")
		l.p("def fieldMaxLenAfterUnquote : Nat := %d", limitAfter)

		// --- api/rpc: the length guard in front of xbinary.UnmarshalString (commit dbbc1a7) ------------------------
		// fact: api/rpc has a function unmarshalString whose first statement is `if idx, uln, err := xbinary.UnmarshalUint(buf);
		// err == nil && uln > uint(len(buf)-idx) { return … error }`, and no decoder of api/rpc calls xbinary.UnmarshalString /
		// UnmarshalBytes directly (only that wrapper does).
		// Structural reading (tolerant to renaming / moving the wrapper): every api/rpc function that calls xbinary.UnmarshalString or
		// UnmarshalBytes in its own body ("raw caller") must, before that call (helpers inlined), decode the length with
		// UnmarshalUint and compare something with an expression over len(…) in an `if` that returns a non-nil error.
		guard, outside := false, 0
		{
			pkg, all := c13PkgFuncs("api/rpc")
			raw, guardedRaw := 0, 0
			isRawCall := func(n ast.Node) bool {
				ce, ok := n.(*ast.CallExpr)
				if !ok {
					return false
				}
				se, ok := ce.Fun.(*ast.SelectorExpr)
				if !ok || (se.Sel.Name != "UnmarshalString" && se.Sel.Name != "UnmarshalBytes") {
					return false
				}
				id, ok := se.X.(*ast.Ident)
				return ok && id.Name == "xbinary"
			}
			for _, fd := range all {
				own := false
				ast.Inspect(fd.Body, func(n ast.Node) bool {
					if n != nil && isRawCall(n) {
						own = true
					}
					return true
				})
				if !own {
					continue
				}
				// precise structural reading on the function itself (c13_rpcguard.go): early-return / un-nested / hoisted forms, either
				// comparison direction; an unknown shape of the length comparison is a problem(), never a silently different value
				if gok, own2, unsure := c13RpcGuard(fd, isRawCall); own2 {
					raw++
					switch {
					case gok:
						guardedRaw++
					case unsure != "":
						problem("api/rpc %s: %s — the fact rpcStringLengthGuard cannot be read", fd.Name.Name, unsure)
						outside++
					default:
						outside++
					}
					continue
				}
				// the function does not decode the length itself: the guard may live in a same-package helper (inlined reading)
				sawUint, sawGuard, rawGuarded := false, false, true
				c13Walk(fd.Body, pkg, 2, map[*ast.FuncDecl]bool{fd: true}, func(n ast.Node) {
					if c13CallName(n) == "UnmarshalUint" {
						sawUint = true
					}
					if isRawCall(n) && !(sawUint && sawGuard) {
						rawGuarded = false
					}
					if is, ok := n.(*ast.IfStmt); ok {
						cmp := false
						ast.Inspect(is.Cond, func(m ast.Node) bool {
							if be, ok := m.(*ast.BinaryExpr); ok {
								switch be.Op {
								case token.GTR, token.LSS, token.GEQ, token.LEQ:
									both := strings.Replace(exprString(be.X)+" "+exprString(be.Y), "uint", "", -1)
									if strings.Contains(both, "len(") && !strings.Contains(both, "cap(") && !strings.Contains(both, "int(") && !strings.Contains(both, "int64(") {
										cmp = true
									}
								}
							}
							return true
						})
						if cmp {
							for _, st := range is.Body.List {
								if c13ReturnsError(st) {
									sawGuard = true
								}
							}
						}
					}
				})
				raw++
				if rawGuarded {
					guardedRaw++
				} else {
					outside++
				}
			}
			if raw == 0 {
				problem("no function of api/rpc calls xbinary.UnmarshalString / UnmarshalBytes any more: the length-guard fact cannot be read")
			}
			guard = raw > 0 && guardedRaw == raw
		}
		l.p("/-- api/rpc decodes every length-prefixed string through `unmarshalString`, which rejects a length prefix that exceeds the")
		l.p("bytes left in the buffer before calling `xbinary.UnmarshalString` (unguarded direct library calls in api/rpc: %d) -/", outside)
		l.p("def rpcStringLengthGuard : Bool := %s", leanBool(guard && outside == 0))

		// --- EscapeJsonStr ------------------------------------------------------------------------------------
		// `if c != utf8.RuneError || size != 1 { i += size; continue }` — the test that lets a well-formed U+FFFD advance
		// Structural reading (helpers inlined): after the utf8.DecodeRuneInString call, the test that decides whether a rune is skipped
		// by its size. New form (d161ff4): `a != RuneError || b != 1` in either order, `!(a == RuneError && b == 1)`, or
		// `a == RuneError && b == 1 {…} else {skip}`, with an `x += y` in the skipping branch; old form: the bare `a != RuneError`
		// with `x += y` in its body. Anything else: the fact cannot be read.
		fix := false
		{
			pkg, _ := c13PkgFuncs("pkg/utils")
			fd := pkg["EscapeJsonStr"]
			if fd == nil {
				problem("utils.EscapeJsonStr not found")
			} else {
				isRuneErr := func(e ast.Expr, op token.Token) bool {
					be, ok := c13Unparen(e).(*ast.BinaryExpr)
					if !ok || be.Op != op {
						return false
					}
					return strings.HasSuffix(exprString(be.X), "RuneError") || strings.HasSuffix(exprString(be.Y), "RuneError")
				}
				isOne := func(e ast.Expr, op token.Token) bool {
					be, ok := c13Unparen(e).(*ast.BinaryExpr)
					if !ok || be.Op != op {
						return false
					}
					if n, ok := c13Lit(be.Y); ok && n == 1 {
						return true
					}
					n, ok := c13Lit(be.X)
					return ok && n == 1
				}
				advances := func(b *ast.BlockStmt) bool {
					r := false
					ast.Inspect(b, func(m ast.Node) bool {
						if as, ok := m.(*ast.AssignStmt); ok && as.Tok == token.ADD_ASSIGN {
							r = true
						}
						return true
					})
					return r
				}
				pair := func(x, y ast.Expr, op token.Token) bool {
					return (isRuneErr(x, op) && isOne(y, op)) || (isRuneErr(y, op) && isOne(x, op))
				}
				decoded, newForm, oldForm := false, false, false
				c13Walk(fd.Body, pkg, 2, map[*ast.FuncDecl]bool{fd: true}, func(n ast.Node) {
					if c13CallName(n) == "DecodeRuneInString" {
						decoded = true
					}
					is, ok := n.(*ast.IfStmt)
					if !ok || !decoded {
						return
					}
					cond := c13Unparen(is.Cond)
					if be, ok := cond.(*ast.BinaryExpr); ok && be.Op == token.LOR && pair(be.X, be.Y, token.NEQ) && advances(is.Body) {
						newForm = true
					}
					if ue, ok := cond.(*ast.UnaryExpr); ok && ue.Op == token.NOT {
						if be, ok := c13Unparen(ue.X).(*ast.BinaryExpr); ok && be.Op == token.LAND && pair(be.X, be.Y, token.EQL) && advances(is.Body) {
							newForm = true
						}
					}
					if be, ok := cond.(*ast.BinaryExpr); ok && be.Op == token.LAND && pair(be.X, be.Y, token.EQL) {
						if eb, ok := is.Else.(*ast.BlockStmt); ok && advances(eb) {
							newForm = true
						}
					}
					if isRuneErr(cond, token.NEQ) && advances(is.Body) {
						oldForm = true
					}
				})
				switch {
				case newForm:
					fix = true
				case oldForm:
					fix = false
				default:
					problem("utils.EscapeJsonStr: the test after utf8.DecodeRuneInString that decides whether a rune is skipped by its size has a shape the extractor does not know")
				}
			}
		}

		// --- api/rpc: does wpIterator.init validate the whole packet? (commit c6bbc14) -----------------------------------
		// fact: init contains a `for i := 0; i < wpi.recs; i++` loop that calls unmarshalLogEvent and NewFieldsFromKVString and
		// returns an error from inside
		// Structural reading: somewhere in init — or in a same-package function / method it calls (depth <= 2) — there is a loop whose
		// body (helpers inlined) calls unmarshalLogEvent and NewFieldsFromKVString and returns a non-nil error at least twice.
		validates := false
		{
			pkg, all := c13PkgFuncs("api/rpc")
			var initFd *ast.FuncDecl
			for _, fd := range all {
				if fd.Name.Name == "init" && fd.Recv != nil && len(fd.Recv.List) == 1 && strings.Contains(exprString(fd.Recv.List[0].Type), "wpIterator") {
					initFd = fd
				}
			}
			if initFd == nil {
				problem("wpIterator.init not found in api/rpc")
			} else {
				partial := false
				c13Walk(initFd.Body, pkg, 2, map[*ast.FuncDecl]bool{initFd: true}, func(n ast.Node) {
					var body *ast.BlockStmt
					switch x := n.(type) {
					case *ast.ForStmt:
						body = x.Body
					case *ast.RangeStmt:
						body = x.Body
					}
					if body == nil {
						return
					}
					dec, kv, rets := false, false, 0
					c13Walk(body, pkg, 2, map[*ast.FuncDecl]bool{initFd: true}, func(m ast.Node) {
						switch c13CallName(m) {
						case "unmarshalLogEvent":
							dec = true
						case "NewFieldsFromKVString":
							kv = true
						}
						if c13ReturnsError(m) {
							rets++
						}
					})
					if dec && kv && rets >= 2 {
						validates = true
					} else if dec || kv {
						partial = true
					}
				})
				if !validates && partial {
					problem("wpIterator.init has a loop that decodes events or parses field texts but is not the validation loop the model knows (both calls, an error return for each): the fact wpInitValidates cannot be read")
				}
			}
		}
		l.p("/-- `wpIterator.init` decodes every announced event and parses its field text before it accepts the packet -/")
		l.p("def wpInitValidates : Bool := %s", leanBool(validates))

		// --- SHOW PARTITIONS: is a negative OFFSET / LIMIT refused before the paging arithmetic? (finding F55) -----------------
		// structural: in cmdShowPartitions (pkg/backend) or Service.Partitions (pkg/partition), helpers inlined, there are `if`s with a `< 0` test (or `0 >`) that return a non-nil error — at least two tested operands
		// (offset and limit), in one condition or two.
		showGuard := false
		{
			negTests := 0
			sawMake := false
			scan := func(dir, name string) {
				pkg, all := c13PkgFuncs(dir)
				for _, fd := range all {
					if fd.Name.Name != name {
						continue
					}
					c13Walk(fd.Body, pkg, 2, map[*ast.FuncDecl]bool{fd: true}, func(n ast.Node) {
						if c13CallName(n) == "make" {
							sawMake = true
						}
						is, ok := n.(*ast.IfStmt)
						if !ok {
							return
						}
						returns := false
						for _, st := range is.Body.List {
							if c13ReturnsError(st) {
								returns = true
							}
						}
						if !returns {
							return
						}
						ast.Inspect(is.Cond, func(m ast.Node) bool {
							if be, ok := m.(*ast.BinaryExpr); ok {
								if n0, ok := c13Lit(be.Y); ok && n0 == 0 && be.Op == token.LSS {
									negTests++
								}
								if n0, ok := c13Lit(be.X); ok && n0 == 0 && be.Op == token.GTR {
									negTests++
								}
							}
							return true
						})
					})
				}
			}
			scan("pkg/backend", "cmdShowPartitions")
			found := sawMake
			sawMake = false
			scan("pkg/partition", "Partitions")
			if !found && !sawMake {
				problem("neither backend.cmdShowPartitions nor partition.Service.Partitions (with the make of the result page) was found: the fact showPartitionsRejectsNegative cannot be read")
			}
			showGuard = negTests >= 2
		}
		l.p("/-- `SHOW PARTITIONS` refuses a negative OFFSET or LIMIT with an error before the paging arithmetic of `Service.Partitions` -/")
		l.p("def showPartitionsRejectsNegative : Bool := %s", leanBool(showGuard))

		// --- pkg/lql: a nesting guard in front of the recursive-descent parser (finding F25) --------------------------
		// fact: some function of pkg/lql compares a depth counter with the constant cMaxNestingDepth and returns an error, and every
		// function that hands a text to participle (`….ParseString(text, …)`) calls it on that text first.
		nestGuard, nestMax := false, int64(0)
		guardKind := 0
		{
			files, _ := filepath.Glob(filepath.Join(repo, "pkg/lql/*.go"))
			sort.Strings(files)
			guardFn := ""
			var parsed []*ast.File
			for _, fn := range files {
				if strings.HasSuffix(fn, "_test.go") || strings.HasSuffix(fn, "_verif.go") {
					continue
				}
				rel, _ := filepath.Rel(repo, fn)
				f := parseFile(rel)
				if f == nil {
					continue
				}
				parsed = append(parsed, f)
				if v, ok := constValue(f, "cMaxNestingDepth"); ok {
					nestMax, _ = strconv.ParseInt(v, 0, 64)
				}
				for _, d := range f.Decls {
					fd, ok := d.(*ast.FuncDecl)
					if !ok || fd.Body == nil || fd.Recv != nil {
						continue
					}
					cmp, ret := false, false
					ast.Inspect(fd.Body, func(n ast.Node) bool {
						switch x := n.(type) {
						case *ast.BinaryExpr:
							if id, ok := x.Y.(*ast.Ident); ok && x.Op == token.GTR && id.Name == "cMaxNestingDepth" {
								cmp = true
							}
						case *ast.ReturnStmt:
							if len(x.Results) == 1 {
								if id, ok := x.Results[0].(*ast.Ident); !ok || id.Name != "nil" {
									ret = true
								}
							}
						}
						return true
					})
					if cmp && ret {
						guardFn = fd.Name.Name
						guardKind = 1
						ast.Inspect(fd.Body, func(n ast.Node) bool {
							if ce, ok := n.(*ast.CallExpr); ok {
								if se, ok := ce.Fun.(*ast.SelectorExpr); ok && se.Sel.Name == "Lex" {
									guardKind = 2 // counts on the tokens of the parser's own lexer
								}
							}
							return true
						})
					}
				}
			}
			parsers, guarded := 0, 0
			for _, f := range parsed {
				for _, d := range f.Decls {
					fd, ok := d.(*ast.FuncDecl)
					if !ok || fd.Body == nil {
						continue
					}
					var parsePos, guardPos token.Pos
					ast.Inspect(fd.Body, func(n ast.Node) bool {
						if ce, ok := n.(*ast.CallExpr); ok {
							if se, ok := ce.Fun.(*ast.SelectorExpr); ok && se.Sel.Name == "ParseString" && parsePos == token.NoPos {
								parsePos = ce.Pos()
							}
							if id, ok := ce.Fun.(*ast.Ident); ok && guardFn != "" && id.Name == guardFn && guardPos == token.NoPos {
								guardPos = ce.Pos()
							}
						}
						return true
					})
					if parsePos != token.NoPos {
						parsers++
						if guardPos != token.NoPos && guardPos < parsePos {
							guarded++
						}
					}
				}
			}
			if parsers == 0 {
				problem("no function of pkg/lql calls ParseString any more: the nesting-guard fact cannot be read")
			}
			nestGuard = guardFn != "" && nestMax > 0 && parsers > 0 && guarded == parsers
		}
		l.p("/-- every function of pkg/lql that hands a text to the recursive-descent parser first rejects texts whose parentheses are")
		l.p("nested deeper than `cMaxNestingDepth` -/")
		l.p("def lqlNestingGuard : Bool := %s", leanBool(nestGuard))
		if !nestGuard {
			guardKind = 0
		}
		l.p("/-- how the guard counts: 0 = no guard, 1 = its own scan over the bytes of the text (skipping what it takes for string")
		l.p("literals; commit 8131efe), 2 = on the tokens of the parser's own lexer -/")
		l.p("def lqlGuardKind : Nat := %d", guardKind)
		l.p("/-- `cMaxNestingDepth` (0 when there is no such constant) -/")
		l.p("def lqlMaxNesting : Nat := %d", nestMax)

		// --- who calls model.LogEvent.Unmarshal? ------------------------------------------------------------------------
		// the stored-record decoder keeps the unguarded library call; it must only see records the server marshalled itself.
		// fact: the non-test, non-verif files of /repo with a call `x.Unmarshal(buf, <bool>)` (the signature of LogEvent.Unmarshal;
		// json/yaml Unmarshal take a pointer as second argument)
		var callers []string
		filepath.Walk(repo, func(path string, info os.FileInfo, err error) error {
			if err != nil {
				return nil
			}
			if info.IsDir() {
				if n := info.Name(); n == "vendor" || n == ".git" || n == "testdata" {
					return filepath.SkipDir
				}
				return nil
			}
			if !strings.HasSuffix(path, ".go") || strings.HasSuffix(path, "_test.go") || strings.HasSuffix(path, "_verif.go") {
				return nil
			}
			rel, _ := filepath.Rel(repo, path)
			if strings.Contains(rel, "verifhook") {
				return nil
			}
			f := parseFile(rel)
			if f == nil {
				return nil
			}
			verifOnly := false
			for _, cg := range f.Comments {
				if cg.Pos() < f.Package && strings.Contains(cg.Text(), "go:build verif") {
					verifOnly = true
				}
			}
			if verifOnly {
				return nil
			}
			hit := false
			ast.Inspect(f, func(n ast.Node) bool {
				ce, ok := n.(*ast.CallExpr)
				if !ok || len(ce.Args) != 2 {
					return true
				}
				se, ok := ce.Fun.(*ast.SelectorExpr)
				if !ok || se.Sel.Name != "Unmarshal" {
					return true
				}
				if id, ok := ce.Args[1].(*ast.Ident); ok && (id.Name == "true" || id.Name == "false" || id.Name == "newBuf") {
					hit = true
				}
				return true
			})
			if hit && rel != "pkg/model/logevent.go" {
				callers = append(callers, rel)
			}
			return nil
		})
		sort.Strings(callers)
		qs := make([]string, len(callers))
		for i, c := range callers {
			qs[i] = leanStr(c)
		}
		l.p("/-- the files of /repo (tests and verif-tagged exports excluded) that call `LogEvent.Unmarshal(buf, bool)` -/")
		l.p("def logEventUnmarshalCallers : List String := [%s]", strings.Join(qs, ", "))

		l.p("/-- `EscapeJsonStr` skips every rune that is not (RuneError, size 1) by its size — in particular a well-formed U+FFFD -/")
		l.p("def escapeJsonSkipsValidRunes : Bool := %s", leanBool(fix))
		c13IngestFacts(l)
		l.write()
		// census of the panic sites of pkg/lql -> Generated/C13Sites.lean (c13_sites.go)
		c13Sites(l)
	}
}

// constValue returns the source text of the value of a package-level constant.
func constValue(f *ast.File, name string) (string, bool) {
	for _, d := range f.Decls {
		gd, ok := d.(*ast.GenDecl)
		if !ok || gd.Tok != token.CONST {
			continue
		}
		for _, s := range gd.Specs {
			vs, ok := s.(*ast.ValueSpec)
			if !ok {
				continue
			}
			for i, n := range vs.Names {
				if n.Name == name && i < len(vs.Values) {
					if bl, ok := vs.Values[i].(*ast.BasicLit); ok {
						return bl.Value, true
					}
				}
			}
		}
	}
	return "", false
}
