package main

import (
	"bytes"
	"go/ast"
	"go/printer"
	"go/token"
	"os"
	"path/filepath"
	"sort"
	"strconv"
	"strings"
)

func exprString(e ast.Expr) string {
	var b bytes.Buffer
	printer.Fprint(&b, fset, e)
	return b.String()
}

// C13: constants and small structural facts the decoder / escaper / position models are parameterised by.
func init() {
	generators["C13"] = func() {
		l := newLean("C13", "Facts about pkg/model/logevent.go (recVersion), pkg/cursor/cursor.go (position separators),\npkg/model/field/field.go (length limit of NewFieldsFromKVString and where it is tested) and pkg/utils/json.go (EscapeJsonStr's rune test).")

		// --- recVersion ---------------------------------------------------------------------------------------
		recVersion := int64(-1)
		if f := parseFile("pkg/model/logevent.go"); f != nil {
			if v, ok := constValue(f, "recVersion"); ok {
				if n, err := strconv.ParseInt(v, 0, 64); err == nil {
					recVersion = n
				}
			}
		}
		if recVersion < 0 {
			problem("const recVersion not found in pkg/model/logevent.go")
			recVersion = 0
		}
		l.p("/-- `recVersion` of pkg/model/logevent.go: header byte of a stored record without fields (bit 0 = fields present) -/")
		l.p("def recVersion : Nat := %d", recVersion)

		// --- position separators ------------------------------------------------------------------------------
		split, val := "", ""
		if f := parseFile("pkg/cursor/cursor.go"); f != nil {
			if v, ok := constValue(f, "cPosJrnlSplit"); ok {
				split, _ = strconv.Unquote(v)
			}
			if v, ok := constValue(f, "cPosJrnlVal"); ok {
				val, _ = strconv.Unquote(v)
			}
		}
		if len(split) != 1 || len(val) != 1 {
			problem("cPosJrnlSplit / cPosJrnlVal are no longer one-byte string constants in pkg/cursor/cursor.go")
			split, val = ":", "="
		}
		l.p("/-- `cPosJrnlSplit`: separates the per-partition parts of a position string -/")
		l.p("def posJrnlSplit : UInt8 := %d", split[0])
		l.p("/-- `cPosJrnlVal`: separates the partition id from its position -/")
		l.p("def posJrnlVal : UInt8 := %d", val[0])

		// --- field length limit -------------------------------------------------------------------------------
		// NewFieldsFromKVString: `if len(v) > N { error }` inside the range loop; is there a second length test
		// after the strconv.Unquote call?
		limit := int64(-1)
		limitAfter := int64(0)
		testsAfterUnquote := false
		if f := parseFile("pkg/model/field/field.go"); f != nil {
			fd := funcDecl(f, "", "NewFieldsFromKVString")
			if fd == nil {
				problem("field.NewFieldsFromKVString not found")
			} else {
				var unquotePos token.Pos
				ast.Inspect(fd.Body, func(n ast.Node) bool {
					if ce, ok := n.(*ast.CallExpr); ok {
						if se, ok := ce.Fun.(*ast.SelectorExpr); ok && se.Sel.Name == "Unquote" {
							unquotePos = ce.Pos()
						}
					}
					return true
				})
				ast.Inspect(fd.Body, func(n ast.Node) bool {
					is, ok := n.(*ast.IfStmt)
					if !ok {
						return true
					}
					be, ok := is.Cond.(*ast.BinaryExpr)
					if !ok || be.Op != token.GTR {
						return true
					}
					ce, ok := be.X.(*ast.CallExpr)
					if !ok {
						return true
					}
					if id, ok := ce.Fun.(*ast.Ident); !ok || id.Name != "len" {
						return true
					}
					lit, ok := be.Y.(*ast.BasicLit)
					if !ok {
						return true
					}
					n64, err := strconv.ParseInt(lit.Value, 0, 64)
					if err != nil {
						return true
					}
					if limit < 0 {
						limit = n64
					}
					if unquotePos != token.NoPos && is.Pos() > unquotePos && !testsAfterUnquote {
						testsAfterUnquote = true
						limitAfter = n64
					}
					return true
				})
			}
		}
		if limit < 0 {
			problem("the `len(v) > N` test of field.NewFieldsFromKVString was not found")
			limit = 255
		}
		l.p("/-- the `len(v) > N` limit of `field.NewFieldsFromKVString` (one length byte per item) -/")
		l.p("def fieldMaxLen : Nat := %d", limit)
		l.p("/-- is the length tested again after `strconv.Unquote` (which can make a value longer)? -/")
		l.p("def fieldLenTestedAfterUnquote : Bool := %s", leanBool(testsAfterUnquote))
		l.p("/-- the limit of that second test (0 when there is none) -/")
		l.p("def fieldMaxLenAfterUnquote : Nat := %d", limitAfter)

		// --- api/rpc: the length guard in front of xbinary.UnmarshalString (commit dbbc1a7) ------------------------
		// fact: api/rpc has a function unmarshalString whose first statement is `if idx, uln, err := xbinary.UnmarshalUint(buf);
		// err == nil && uln > uint(len(buf)-idx) { return … error }`, and no decoder of api/rpc calls xbinary.UnmarshalString /
		// UnmarshalBytes directly (only that wrapper does).
		guard, outside := false, 0
		for _, rel := range []string{"api/rpc/encoder.go", "api/rpc/ingestor.go", "api/rpc/querier.go", "api/rpc/admin.go", "api/rpc/pipes.go", "api/rpc/client.go", "api/rpc/server.go"} {
			f := parseFile(rel)
			if f == nil {
				continue
			}
			for _, d := range f.Decls {
				fd, ok := d.(*ast.FuncDecl)
				if !ok || fd.Body == nil {
					continue
				}
				isWrapper := fd.Recv == nil && fd.Name.Name == "unmarshalString"
				if isWrapper && len(fd.Body.List) > 0 {
					if is, ok := fd.Body.List[0].(*ast.IfStmt); ok && is.Init != nil {
						initOK := false
						if as, ok := is.Init.(*ast.AssignStmt); ok && len(as.Rhs) == 1 {
							if ce, ok := as.Rhs[0].(*ast.CallExpr); ok {
								if se, ok := ce.Fun.(*ast.SelectorExpr); ok && se.Sel.Name == "UnmarshalUint" {
									initOK = true
								}
							}
						}
						condOK := false
						ast.Inspect(is.Cond, func(n ast.Node) bool {
							if be, ok := n.(*ast.BinaryExpr); ok && be.Op == token.GTR {
								x, okx := be.X.(*ast.Ident)
								if okx && x.Name == "uln" && strings.Replace(exprString(be.Y), " ", "", -1) == "uint(len(buf)-idx)" {
									condOK = true
								}
							}
							return true
						})
						retOK := false
						for _, st := range is.Body.List {
							if rs, ok := st.(*ast.ReturnStmt); ok && len(rs.Results) == 3 {
								if id, ok := rs.Results[2].(*ast.Ident); !ok || id.Name != "nil" {
									retOK = true
								}
							}
						}
						guard = initOK && condOK && retOK
					}
				}
				if !isWrapper {
					ast.Inspect(fd.Body, func(n ast.Node) bool {
						if ce, ok := n.(*ast.CallExpr); ok {
							if se, ok := ce.Fun.(*ast.SelectorExpr); ok && (se.Sel.Name == "UnmarshalString" || se.Sel.Name == "UnmarshalBytes") {
								if id, ok := se.X.(*ast.Ident); ok && id.Name == "xbinary" {
									outside++
								}
							}
						}
						return true
					})
				}
			}
		}
		l.p("/-- api/rpc decodes every length-prefixed string through `unmarshalString`, which rejects a length prefix that exceeds the")
		l.p("bytes left in the buffer before calling `xbinary.UnmarshalString` (direct library calls elsewhere in api/rpc: %d) -/", outside)
		l.p("def rpcStringLengthGuard : Bool := %s", leanBool(guard && outside == 0))

		// --- EscapeJsonStr ------------------------------------------------------------------------------------
		// `if c != utf8.RuneError || size != 1 { i += size; continue }` — the test that lets a well-formed U+FFFD advance
		fix := false
		if f := parseFile("pkg/utils/json.go"); f != nil {
			fd := funcDecl(f, "", "EscapeJsonStr")
			if fd == nil {
				problem("utils.EscapeJsonStr not found")
			} else {
				ast.Inspect(fd.Body, func(n ast.Node) bool {
					is, ok := n.(*ast.IfStmt)
					if !ok {
						return true
					}
					be, ok := is.Cond.(*ast.BinaryExpr)
					if !ok || be.Op != token.LOR {
						return true
					}
					x, ok1 := be.X.(*ast.BinaryExpr)
					y, ok2 := be.Y.(*ast.BinaryExpr)
					if !ok1 || !ok2 || x.Op != token.NEQ || y.Op != token.NEQ {
						return true
					}
					xs, ok1 := x.Y.(*ast.SelectorExpr)
					yi, ok2 := y.X.(*ast.Ident)
					yl, ok3 := y.Y.(*ast.BasicLit)
					if !ok1 || !ok2 || !ok3 || xs.Sel.Name != "RuneError" || yi.Name != "size" || yl.Value != "1" {
						return true
					}
					// the body advances by size
					ast.Inspect(is.Body, func(m ast.Node) bool {
						if as, ok := m.(*ast.AssignStmt); ok && as.Tok == token.ADD_ASSIGN && len(as.Lhs) == 1 && len(as.Rhs) == 1 {
							if li, ok := as.Lhs[0].(*ast.Ident); ok && li.Name == "i" {
								if ri, ok := as.Rhs[0].(*ast.Ident); ok && ri.Name == "size" {
									fix = true
								}
							}
						}
						return true
					})
					return true
				})
			}
		}
		// --- api/rpc: does wpIterator.init validate the whole packet? (commit c6bbc14) -----------------------------------
		// fact: init contains a `for i := 0; i < wpi.recs; i++` loop that calls unmarshalLogEvent and NewFieldsFromKVString and
		// returns an error from inside
		validates := false
		if f := parseFile("api/rpc/ingestor.go"); f != nil {
			if fd := funcDecl(f, "wpIterator", "init"); fd == nil {
				problem("wpIterator.init not found in api/rpc/ingestor.go")
			} else {
				ast.Inspect(fd.Body, func(n ast.Node) bool {
					fs, ok := n.(*ast.ForStmt)
					if !ok || fs.Cond == nil || strings.Replace(exprString(fs.Cond), " ", "", -1) != "i<wpi.recs" {
						return true
					}
					dec, kv, ret := false, false, 0
					ast.Inspect(fs.Body, func(m ast.Node) bool {
						switch x := m.(type) {
						case *ast.CallExpr:
							if id, ok := x.Fun.(*ast.Ident); ok && id.Name == "unmarshalLogEvent" {
								dec = true
							}
							if se, ok := x.Fun.(*ast.SelectorExpr); ok && se.Sel.Name == "NewFieldsFromKVString" {
								kv = true
							}
						case *ast.ReturnStmt:
							ret++
						}
						return true
					})
					if dec && kv && ret >= 2 {
						validates = true
					}
					return true
				})
			}
		}
		l.p("/-- `wpIterator.init` decodes every announced event and parses its field text before it accepts the packet -/")
		l.p("def wpInitValidates : Bool := %s", leanBool(validates))

		// --- pkg/lql: a nesting guard in front of the recursive-descent parser (finding F25) --------------------------
		// fact: some function of pkg/lql compares a depth counter with the constant cMaxNestingDepth and returns an error, and every
		// function that hands a text to participle (`….ParseString(text, …)`) calls it on that text first.
		nestGuard, nestMax := false, int64(0)
		guardKind := 0
		{
			files, _ := filepath.Glob(filepath.Join(repo, "pkg/lql/*.go"))
			sort.Strings(files)
			guardFn := ""
			var parsed []*ast.File
			for _, fn := range files {
				if strings.HasSuffix(fn, "_test.go") || strings.HasSuffix(fn, "_verif.go") {
					continue
				}
				rel, _ := filepath.Rel(repo, fn)
				f := parseFile(rel)
				if f == nil {
					continue
				}
				parsed = append(parsed, f)
				if v, ok := constValue(f, "cMaxNestingDepth"); ok {
					nestMax, _ = strconv.ParseInt(v, 0, 64)
				}
				for _, d := range f.Decls {
					fd, ok := d.(*ast.FuncDecl)
					if !ok || fd.Body == nil || fd.Recv != nil {
						continue
					}
					cmp, ret := false, false
					ast.Inspect(fd.Body, func(n ast.Node) bool {
						switch x := n.(type) {
						case *ast.BinaryExpr:
							if id, ok := x.Y.(*ast.Ident); ok && x.Op == token.GTR && id.Name == "cMaxNestingDepth" {
								cmp = true
							}
						case *ast.ReturnStmt:
							if len(x.Results) == 1 {
								if id, ok := x.Results[0].(*ast.Ident); !ok || id.Name != "nil" {
									ret = true
								}
							}
						}
						return true
					})
					if cmp && ret {
						guardFn = fd.Name.Name
						guardKind = 1
						ast.Inspect(fd.Body, func(n ast.Node) bool {
							if ce, ok := n.(*ast.CallExpr); ok {
								if se, ok := ce.Fun.(*ast.SelectorExpr); ok && se.Sel.Name == "Lex" {
									guardKind = 2 // counts on the tokens of the parser's own lexer
								}
							}
							return true
						})
					}
				}
			}
			parsers, guarded := 0, 0
			for _, f := range parsed {
				for _, d := range f.Decls {
					fd, ok := d.(*ast.FuncDecl)
					if !ok || fd.Body == nil {
						continue
					}
					var parsePos, guardPos token.Pos
					ast.Inspect(fd.Body, func(n ast.Node) bool {
						if ce, ok := n.(*ast.CallExpr); ok {
							if se, ok := ce.Fun.(*ast.SelectorExpr); ok && se.Sel.Name == "ParseString" && parsePos == token.NoPos {
								parsePos = ce.Pos()
							}
							if id, ok := ce.Fun.(*ast.Ident); ok && guardFn != "" && id.Name == guardFn && guardPos == token.NoPos {
								guardPos = ce.Pos()
							}
						}
						return true
					})
					if parsePos != token.NoPos {
						parsers++
						if guardPos != token.NoPos && guardPos < parsePos {
							guarded++
						}
					}
				}
			}
			if parsers == 0 {
				problem("no function of pkg/lql calls ParseString any more: the nesting-guard fact cannot be read")
			}
			nestGuard = guardFn != "" && nestMax > 0 && parsers > 0 && guarded == parsers
		}
		l.p("/-- every function of pkg/lql that hands a text to the recursive-descent parser first rejects texts whose parentheses are")
		l.p("nested deeper than `cMaxNestingDepth` -/")
		l.p("def lqlNestingGuard : Bool := %s", leanBool(nestGuard))
		if !nestGuard {
			guardKind = 0
		}
		l.p("/-- how the guard counts: 0 = no guard, 1 = its own scan over the bytes of the text (skipping what it takes for string")
		l.p("literals; commit 8131efe), 2 = on the tokens of the parser's own lexer -/")
		l.p("def lqlGuardKind : Nat := %d", guardKind)
		l.p("/-- `cMaxNestingDepth` (0 when there is no such constant) -/")
		l.p("def lqlMaxNesting : Nat := %d", nestMax)

		// --- who calls model.LogEvent.Unmarshal? ------------------------------------------------------------------------
		// the stored-record decoder keeps the unguarded library call; it must only see records the server marshalled itself.
		// fact: the non-test, non-verif files of /repo with a call `x.Unmarshal(buf, <bool>)` (the signature of LogEvent.Unmarshal;
		// json/yaml Unmarshal take a pointer as second argument)
		var callers []string
		filepath.Walk(repo, func(path string, info os.FileInfo, err error) error {
			if err != nil {
				return nil
			}
			if info.IsDir() {
				if n := info.Name(); n == "vendor" || n == ".git" || n == "testdata" {
					return filepath.SkipDir
				}
				return nil
			}
			if !strings.HasSuffix(path, ".go") || strings.HasSuffix(path, "_test.go") || strings.HasSuffix(path, "_verif.go") {
				return nil
			}
			rel, _ := filepath.Rel(repo, path)
			if strings.Contains(rel, "verifhook") {
				return nil
			}
			f := parseFile(rel)
			if f == nil {
				return nil
			}
			verifOnly := false
			for _, cg := range f.Comments {
				if cg.Pos() < f.Package && strings.Contains(cg.Text(), "go:build verif") {
					verifOnly = true
				}
			}
			if verifOnly {
				return nil
			}
			hit := false
			ast.Inspect(f, func(n ast.Node) bool {
				ce, ok := n.(*ast.CallExpr)
				if !ok || len(ce.Args) != 2 {
					return true
				}
				se, ok := ce.Fun.(*ast.SelectorExpr)
				if !ok || se.Sel.Name != "Unmarshal" {
					return true
				}
				if id, ok := ce.Args[1].(*ast.Ident); ok && (id.Name == "true" || id.Name == "false" || id.Name == "newBuf") {
					hit = true
				}
				return true
			})
			if hit && rel != "pkg/model/logevent.go" {
				callers = append(callers, rel)
			}
			return nil
		})
		sort.Strings(callers)
		qs := make([]string, len(callers))
		for i, c := range callers {
			qs[i] = leanStr(c)
		}
		l.p("/-- the files of /repo (tests and verif-tagged exports excluded) that call `LogEvent.Unmarshal(buf, bool)` -/")
		l.p("def logEventUnmarshalCallers : List String := [%s]", strings.Join(qs, ", "))

		l.p("/-- `EscapeJsonStr` skips every rune that is not (RuneError, size 1) by its size — in particular a well-formed U+FFFD -/")
		l.p("def escapeJsonSkipsValidRunes : Bool := %s", leanBool(fix))
		l.write()
	}
}

// constValue returns the source text of the value of a package-level constant.
func constValue(f *ast.File, name string) (string, bool) {
	for _, d := range f.Decls {
		gd, ok := d.(*ast.GenDecl)
		if !ok || gd.Tok != token.CONST {
			continue
		}
		for _, s := range gd.Specs {
			vs, ok := s.(*ast.ValueSpec)
			if !ok {
				continue
			}
			for i, n := range vs.Names {
				if n.Name == name && i < len(vs.Values) {
					if bl, ok := vs.Values[i].(*ast.BasicLit); ok {
						return bl.Value, true
					}
				}
			}
		}
	}
	return "", false
}
