package main

import (
	"go/ast"
	"go/parser"
	"go/token"
	"math/big"
	"path/filepath"
	"strconv"
)

// A small resolver for package-level constants of one package directory (no go/types: the extractor must not need the
// package to type-check): string and integer constants given by a literal, another constant, `a + b`, `len(<string const>)`.

type c05Consts struct {
	decl map[string]ast.Expr // package-level const name -> its value expression
}

func c05LoadConsts(relDir string) *c05Consts {
	cs := &c05Consts{decl: map[string]ast.Expr{}}
	pkgs, err := parser.ParseDir(token.NewFileSet(), filepath.Join(repo, relDir), nil, 0)
	if err != nil {
		problem("cannot parse directory %s: %v", relDir, err)
		return cs
	}
	for name, pkg := range pkgs {
		if len(name) > 5 && name[len(name)-5:] == "_test" {
			continue
		}
		for fname, f := range pkg.Files {
			if len(fname) > 8 && fname[len(fname)-8:] == "_test.go" {
				continue
			}
			for _, d := range f.Decls {
				gd, ok := d.(*ast.GenDecl)
				if !ok || gd.Tok != token.CONST {
					continue
				}
				for _, s := range gd.Specs {
					vs := s.(*ast.ValueSpec)
					for i, n := range vs.Names {
						if i < len(vs.Values) {
							cs.decl[n.Name] = vs.Values[i]
						}
					}
				}
			}
		}
	}
	return cs
}

// local: single-assignment local definitions of the function being read (x := <expr>), looked through as well
func (cs *c05Consts) str(e ast.Expr, local map[string]ast.Expr, depth int) (string, bool) {
	if depth > 8 || e == nil {
		return "", false
	}
	switch v := e.(type) {
	case *ast.BasicLit:
		if v.Kind == token.STRING {
			s, err := strconv.Unquote(v.Value)
			return s, err == nil
		}
	case *ast.ParenExpr:
		return cs.str(v.X, local, depth+1)
	case *ast.Ident:
		if d, ok := local[v.Name]; ok {
			return cs.str(d, local, depth+1)
		}
		if d, ok := cs.decl[v.Name]; ok {
			return cs.str(d, nil, depth+1)
		}
	case *ast.BinaryExpr:
		if v.Op == token.ADD {
			a, ok1 := cs.str(v.X, local, depth+1)
			b, ok2 := cs.str(v.Y, local, depth+1)
			return a + b, ok1 && ok2
		}
	case *ast.CallExpr: // string("…") conversion
		if id, ok := v.Fun.(*ast.Ident); ok && id.Name == "string" && len(v.Args) == 1 {
			return cs.str(v.Args[0], local, depth+1)
		}
	}
	return "", false
}

func (cs *c05Consts) num(e ast.Expr, local map[string]ast.Expr, depth int) (int, bool) {
	if depth > 8 || e == nil {
		return 0, false
	}
	switch v := e.(type) {
	case *ast.BasicLit:
		if v.Kind == token.INT {
			n, err := strconv.ParseInt(v.Value, 0, 64)
			return int(n), err == nil
		}
	case *ast.ParenExpr:
		return cs.num(v.X, local, depth+1)
	case *ast.Ident:
		if d, ok := local[v.Name]; ok {
			return cs.num(d, local, depth+1)
		}
		if d, ok := cs.decl[v.Name]; ok {
			return cs.num(d, nil, depth+1)
		}
	case *ast.BinaryExpr:
		a, ok1 := cs.num(v.X, local, depth+1)
		b, ok2 := cs.num(v.Y, local, depth+1)
		if ok1 && ok2 {
			switch v.Op {
			case token.ADD:
				return a + b, true
			case token.SUB:
				return a - b, true
			}
		}
	case *ast.CallExpr:
		if id, ok := v.Fun.(*ast.Ident); ok && len(v.Args) == 1 {
			switch id.Name {
			case "len":
				if s, ok := cs.str(v.Args[0], local, depth+1); ok {
					return len(s), true
				}
			case "int", "int64", "uint", "int32":
				return cs.num(v.Args[0], local, depth+1)
			}
		}
	}
	return 0, false
}

// c05IsLenOfVar: `len(x)` of something that is NOT a constant string (the operand variable)
func (cs *c05Consts) isLenOfVar(e ast.Expr, local map[string]ast.Expr) bool {
	ce, ok := e.(*ast.CallExpr)
	if !ok || len(ce.Args) != 1 {
		return false
	}
	if id, ok := ce.Fun.(*ast.Ident); !ok || id.Name != "len" {
		return false
	}
	_, isConst := cs.str(ce.Args[0], local, 0)
	return !isConst
}

// c05PrefixFacts reads from buildCond: the prefix of strings.HasPrefix(op, P) (literal or constant), the minimal length of
// an accepted operand — from `len(op) < N` / `<= N` standing beside a NEGATED HasPrefix (the rejecting form
// `!HasPrefix(op,P) || len(op) < N`) or `len(op) > N` / `>= N` beside a plain HasPrefix (the accepting form
// `HasPrefix(op,P) && len(op) > N`), N a literal, a constant or len(constant), operands in either order — and the mapping
// the operand is classified after. minLen is normalised to "an operand shorter than minLen is rejected".
func c05PrefixFacts(fd *ast.FuncDecl, cs *c05Consts) (prefix string, minLen int, classMap string) {
	minLen = -1
	local := c05LocalDefs(fd)
	negated := false
	var walk func(n ast.Node, neg bool)
	walk = func(n ast.Node, neg bool) {
		ast.Inspect(n, func(m ast.Node) bool {
			if m == n {
				return true
			}
			switch e := m.(type) {
			case *ast.UnaryExpr:
				if e.Op == token.NOT {
					walk(e.X, !neg)
					// also visit e.X itself when it is the call
					if ce, ok := e.X.(*ast.CallExpr); ok {
						if se, ok := ce.Fun.(*ast.SelectorExpr); ok && se.Sel.Name == "HasPrefix" && len(ce.Args) == 2 {
							if p, ok := cs.str(ce.Args[1], local, 0); ok {
								prefix, negated = p, !neg
							}
						}
					}
					return false
				}
			case *ast.CallExpr:
				if se, ok := e.Fun.(*ast.SelectorExpr); ok {
					if se.Sel.Name == "HasPrefix" && len(e.Args) == 2 {
						if p, ok := cs.str(e.Args[1], local, 0); ok {
							prefix, negated = p, neg
						}
					}
					if (se.Sel.Name == "ToLower" || se.Sel.Name == "ToUpper") && classMap == "" {
						classMap = se.Sel.Name
					}
				}
			}
			return true
		})
	}
	walk(fd.Body, false)
	// the length comparison
	ast.Inspect(fd.Body, func(m ast.Node) bool {
		be, ok := m.(*ast.BinaryExpr)
		if !ok || minLen >= 0 {
			return true
		}
		op, x, y := be.Op, be.X, be.Y
		if cs.isLenOfVar(y, local) { // N op len(x)  ->  len(x) op' N
			x, y = y, x
			switch op {
			case token.LSS:
				op = token.GTR
			case token.GTR:
				op = token.LSS
			case token.LEQ:
				op = token.GEQ
			case token.GEQ:
				op = token.LEQ
			}
		}
		if !cs.isLenOfVar(x, local) {
			return true
		}
		n, ok := cs.num(y, local, 0)
		if !ok {
			return true
		}
		switch {
		case negated && op == token.LSS: // rejected when len < n
			minLen = n
		case negated && op == token.LEQ:
			minLen = n + 1
		case !negated && op == token.GTR: // accepted when len > n
			minLen = n + 1
		case !negated && op == token.GEQ:
			minLen = n
		}
		return true
	})
	return
}

// c05CutFact: `<string parameter>[N:]` in buildFldCond, N a literal, a constant or len(constant)
func c05CutFact(fd *ast.FuncDecl, cs *c05Consts) int {
	params := map[string]bool{}
	for _, f := range fd.Type.Params.List {
		if id, ok := f.Type.(*ast.Ident); ok && id.Name == "string" {
			for _, n := range f.Names {
				params[n.Name] = true
			}
		}
	}
	local := c05LocalDefs(fd)
	cut := -1
	ast.Inspect(fd.Body, func(n ast.Node) bool {
		if se, ok := n.(*ast.SliceExpr); ok && cut < 0 && se.High == nil {
			if id, ok := se.X.(*ast.Ident); ok && params[id.Name] {
				if v, ok := cs.num(se.Low, local, 0); ok {
					cut = v
				}
			}
		}
		return true
	})
	return cut
}

// c05BigConst: an integer constant expression as a big integer (int64 extremes included): literals, unary minus,
// conversions, package-level constants of the given package, math.MinInt64 / math.MaxInt64, + and -
func c05BigConst(e ast.Expr, cs *c05Consts, depth int) (*big.Int, bool) {
	if depth > 8 || e == nil {
		return nil, false
	}
	switch v := e.(type) {
	case *ast.BasicLit:
		if v.Kind == token.INT {
			n, ok := new(big.Int).SetString(v.Value, 0)
			return n, ok
		}
	case *ast.ParenExpr:
		return c05BigConst(v.X, cs, depth+1)
	case *ast.UnaryExpr:
		if v.Op == token.SUB {
			if n, ok := c05BigConst(v.X, cs, depth+1); ok {
				return new(big.Int).Neg(n), true
			}
		}
	case *ast.CallExpr:
		if id, ok := v.Fun.(*ast.Ident); ok && len(v.Args) == 1 && (id.Name == "int64" || id.Name == "int") {
			return c05BigConst(v.Args[0], cs, depth+1)
		}
	case *ast.Ident:
		if d, ok := cs.decl[v.Name]; ok {
			return c05BigConst(d, cs, depth+1)
		}
	case *ast.SelectorExpr:
		if x, ok := v.X.(*ast.Ident); ok && x.Name == "math" {
			switch v.Sel.Name {
			case "MaxInt64":
				n, _ := new(big.Int).SetString("9223372036854775807", 10)
				return n, true
			case "MinInt64":
				n, _ := new(big.Int).SetString("-9223372036854775808", 10)
				return n, true
			}
		}
		// pkg.Const of the package the resolver was loaded for
		if d, ok := cs.decl[v.Sel.Name]; ok {
			return c05BigConst(d, cs, depth+1)
		}
	case *ast.BinaryExpr:
		a, ok1 := c05BigConst(v.X, cs, depth+1)
		b, ok2 := c05BigConst(v.Y, cs, depth+1)
		if ok1 && ok2 {
			switch v.Op {
			case token.ADD:
				return new(big.Int).Add(a, b), true
			case token.SUB:
				return new(big.Int).Sub(a, b), true
			}
		}
	}
	return nil, false
}

// c05DefaultRange: the time range newFIterator uses when the statement has no RANGE: the two elements of the TimeRange
// composite literal assigned to the filter's range on the branch without a given range (keyed or positional), resolved
func c05DefaultRange(fd *ast.FuncDecl, cs *c05Consts) (mn, mx *big.Int, ok bool) {
	ast.Inspect(fd.Body, func(n ast.Node) bool {
		cl, isCl := n.(*ast.CompositeLit)
		if !isCl || ok || len(cl.Elts) != 2 {
			return true
		}
		name := ""
		switch t := cl.Type.(type) {
		case *ast.SelectorExpr:
			name = t.Sel.Name
		case *ast.Ident:
			name = t.Name
		}
		if name != "TimeRange" {
			return true
		}
		var es [2]ast.Expr
		for i, el := range cl.Elts {
			if kv, isKv := el.(*ast.KeyValueExpr); isKv {
				if k, isId := kv.Key.(*ast.Ident); isId && k.Name == "MinTs" {
					es[0] = kv.Value
				} else if isId && k.Name == "MaxTs" {
					es[1] = kv.Value
				}
			} else {
				es[i] = el
			}
		}
		a, ok1 := c05BigConst(es[0], cs, 0)
		b, ok2 := c05BigConst(es[1], cs, 0)
		if ok1 && ok2 {
			mn, mx, ok = a, b, true
		}
		return true
	})
	return
}
