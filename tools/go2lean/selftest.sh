#!/bin/sh
# usage: selftest.sh <verif-dir> <repo-dir> [seed] [cases]
# Differential self-test of the translator's prelude and translation scheme against real Go: the exported whitelisted
# functions (kvstring.TrimSpaces / RemoveCurlyBraces / SplitString, field.Check, Fields.Value) are run on seeded random
# inputs by the real code (panics caught) and, as *translated Lean definitions*, by `lake env lean --run`; the answers are
# diffed. Needs lean/Logrange/Translated/{Kvstring,Field}.lean (run.sh) — it regenerates and builds them itself.
# exit 0: all answers equal; 1: a difference (printed as SELFTEST-MISMATCH lines); 2/3: infrastructure.
V="$1"; REPO="$2"; SEED="${3:-1}"; CASES="${4:-4000}"
[ -d "$V" ] && [ -d "$REPO" ] || { echo "usage: selftest.sh <verif-dir> <repo-dir> [seed] [cases]" >&2; exit 2; }
export GOFLAGS=-mod=mod GOPROXY=off GOSUMDB=off GOTOOLCHAIN=local GOCACHE="$V/.cache/gocache"
T="$V/.cache/run/go2lean-selftest"; mkdir -p "$T" "$V/.cache/bin"
"$V/tools/go2lean/run.sh" "$V" "$REPO" >/dev/null || exit 3
cd "$V/tools/go2lean/selftest" || exit 2
cp "$REPO/go.sum" go.sum 2>/dev/null
MOD=""
if [ "$(cd "$REPO" && pwd -P)" != "/repo" ]; then
  sed "s#=> /repo#=> $(cd "$REPO" && pwd -P)#" go.mod > "$T/alt.mod"; cp go.sum "$T/alt.sum" 2>/dev/null; MOD="-modfile=$T/alt.mod"
fi
go build $MOD -o "$V/.cache/bin/go2lean-selftest" . || exit 3
"$V/.cache/bin/go2lean-selftest" "$SEED" "$CASES" "$T/requests.txt" "$T/expected.txt" || exit 2
cd "$V/lean" || exit 2
lake build Logrange.Translated.Kvstring Logrange.Translated.Field >/dev/null 2>&1 || { echo "selftest: translated modules do not build" >&2; exit 3; }
lake env lean --run "$V/tools/go2lean/selftest/Selftest.lean" "$T/requests.txt" "$T/answers.txt" || exit 2
n=$(wc -l < "$T/expected.txt")
if cmp -s "$T/expected.txt" "$T/answers.txt"; then
  echo "go2lean selftest: $n cases, translated definitions agree with the real Go functions (seed $SEED)"
  exit 0
fi
paste -d'|' "$T/requests.txt" "$T/expected.txt" "$T/answers.txt" | awk -F'|' '$2 != $3 {print "SELFTEST-MISMATCH: " $1 " go=" $2 " lean=" $3}' | head -20
exit 1
