// selftest: differential test of the translator's PRELUDE (lean/Logrange/Go/Sem.lean) and of the translation scheme
// against real Go. It calls the real, exported functions of /repo that are on the whitelist on seeded random inputs and
// writes one request line and one expected answer line per case; Selftest.lean evaluates the *translated* definitions on
// the same request lines; selftest.sh diffs the two answer files.
//
// usage: selftest <seed> <cases> <requests-file> <expected-file>
package main

import (
	"bufio"
	"encoding/hex"
	"fmt"
	"os"
	"strconv"
	"strings"

	"github.com/logrange/logrange/pkg/model/field"
	"github.com/logrange/logrange/pkg/utils/kvstring"
)

type rng struct{ s uint64 }

func (r *rng) next() uint64 {
	r.s += 0x9e3779b97f4a7c15
	z := r.s
	z = (z ^ (z >> 30)) * 0xbf58476d1ce4e5b9
	z = (z ^ (z >> 27)) * 0x94d049bb133111eb
	return z ^ (z >> 31)
}
func (r *rng) n(k int) int { return int(r.next() % uint64(k)) }

var kvAlphabet = []byte(" {}\"\\=,ab\t`")

func (r *rng) kvText() []byte {
	n := r.n(14)
	b := make([]byte, n)
	for i := range b {
		if r.n(12) == 0 {
			b[i] = byte(r.n(256))
		} else {
			b[i] = kvAlphabet[r.n(len(kvAlphabet))]
		}
	}
	return b
}

// mostly well-formed length-prefixed items, sometimes cut or with a corrupted length byte
func (r *rng) fields() []byte {
	var b []byte
	for k := r.n(5); k > 0; k-- {
		n := r.n(4)
		b = append(b, byte(n))
		for j := 0; j < n; j++ {
			b = append(b, "abc"[r.n(3)])
		}
	}
	switch r.n(6) {
	case 0:
		if len(b) > 0 {
			b = b[:r.n(len(b))]
		}
	case 1:
		if len(b) > 0 {
			b[r.n(len(b))] = byte(r.n(7))
		}
	case 2:
		b = append(b, byte(r.n(256)))
	}
	return b
}

func hx(b []byte) string {
	if len(b) == 0 {
		return "-"
	}
	return hex.EncodeToString(b)
}

func errFlag(err error) string {
	if err != nil {
		return "1"
	}
	return "0"
}

func guarded(f func() string) (res string) {
	defer func() {
		if recover() != nil {
			res = "panic"
		}
	}()
	return f()
}

func main() {
	seed, _ := strconv.ParseUint(os.Args[1], 10, 64)
	cases, _ := strconv.Atoi(os.Args[2])
	rq, _ := os.Create(os.Args[3])
	ex, _ := os.Create(os.Args[4])
	wq, we := bufio.NewWriter(rq), bufio.NewWriter(ex)
	defer func() { wq.Flush(); we.Flush(); rq.Close(); ex.Close() }()
	r := &rng{s: seed}
	for i := 0; i < cases; i++ {
		switch i % 5 {
		case 0:
			in := r.kvText()
			fmt.Fprintf(wq, "TrimSpaces %s\n", hx(in))
			fmt.Fprintln(we, guarded(func() string { return "ok " + hx([]byte(kvstring.TrimSpaces(string(in)))) }))
		case 1:
			in := r.kvText()
			fmt.Fprintf(wq, "RemoveCurlyBraces %s\n", hx(in))
			fmt.Fprintln(we, guarded(func() string {
				s, err := kvstring.RemoveCurlyBraces(string(in))
				return "ok " + hx([]byte(s)) + " " + errFlag(err)
			}))
		case 2:
			in := r.kvText()
			seps := [][2]byte{{'=', ','}, {'=', ','}, {',', '='}, {'a', 'b'}, {'=', '='}}[r.n(5)]
			fmt.Fprintf(wq, "SplitString %s %d %d\n", hx(in), seps[0], seps[1])
			fmt.Fprintln(we, guarded(func() string {
				parts, err := kvstring.SplitString(string(in), seps[0], seps[1], nil)
				hs := make([]string, len(parts))
				for j, p := range parts {
					hs[j] = hx([]byte(p))
				}
				return "ok [" + strings.Join(hs, ",") + "] " + errFlag(err)
			}))
		case 3:
			in := r.fields()
			fmt.Fprintf(wq, "Check %s\n", hx(in))
			fmt.Fprintln(we, guarded(func() string {
				f, err := field.Check(string(in))
				return "ok " + hx([]byte(f)) + " " + errFlag(err)
			}))
		case 4:
			in := r.fields()
			name := []byte{"abc"[r.n(3)]}
			if r.n(4) == 0 {
				name = []byte("ab")[:r.n(3)]
			}
			fmt.Fprintf(wq, "Value %s %s\n", hx(in), hx(name))
			fmt.Fprintln(we, guarded(func() string { return "ok " + hx([]byte(field.Fields(in).Value(string(name)))) }))
		}
	}
}
