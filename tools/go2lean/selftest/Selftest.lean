import Logrange.Translated.Kvstring
import Logrange.Translated.Field
/-!
Evaluates the *translated* definitions on the request lines written by the Go side of the prelude self-test and prints one
answer line per request in the same canonical form (`tools/go2lean/selftest.sh`). Run with `lake env lean --run`.
-/
open Go Go.Sem Logrange.Translated

def flag (b : Bool) : String := if b then "1" else "0"

def showRes {α : Type} (r : Res α) (f : α → String) : String :=
  match r with
  | .ok a => "ok " ++ f a
  | .panic => "panic"
  | .outOfFuel => "outOfFuel"

def answer (line : String) : String :=
  match line.splitOn " " with
  | ["TrimSpaces", a] => showRes (Kvstring.TrimSpaces (unhex a)) hex
  | ["RemoveCurlyBraces", a] => showRes (Kvstring.RemoveCurlyBraces (unhex a)) fun r => hex r.1 ++ " " ++ flag r.2
  | ["SplitString", a, k, f] =>
    showRes (Kvstring.SplitString (unhex a) (UInt8.ofNat k.toNat!) (UInt8.ofNat f.toNat!) []) fun r =>
      "[" ++ ",".intercalate (r.1.map hex) ++ "] " ++ flag r.2
  | ["Check", a] => showRes (Field.Check (unhex a)) fun r => hex r.1 ++ " " ++ flag r.2
  | ["Value", a, n] => showRes (Field.Fields_Value (unhex a) (unhex n)) hex
  | _ => "bad-request " ++ line

def main (args : List String) : IO UInt32 := do
  match args with
  | [inp, out] =>
    let lines ← IO.FS.lines inp
    let h ← IO.FS.Handle.mk out .write
    for l in lines do
      if l.trimAscii.toString != "" then h.putStrLn (answer l)
    h.flush
    return 0
  | _ => IO.eprintln "usage: Selftest <requests> <answers>"; return 2
