module go2leanselftest

go 1.12

require github.com/logrange/logrange v0.0.0

replace github.com/logrange/logrange => /repo
