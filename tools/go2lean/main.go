// go2lean: translates a whitelist of pure, first-order Go functions of /repo into Lean 4 definitions over the prelude
// lean/Logrange/Go/Sem.lean. See design-notes/translator.md for the supported subset and the trusted base.
//
// usage: go2lean <repo-dir> <out-dir (lean/Logrange/Translated)> <whitelist.json>
//
// For every function that cannot be translated it prints `TRANSLATE-PROBLEM: <fn>: <why>` and emits no definition for
// it (the equivalence theorem that refers to it then fails to build and names itself). It never guesses: any construct
// outside the supported subset is a problem.
package main

import (
	"encoding/json"
	"fmt"
	"go/ast"
	"go/build"
	"go/constant"
	"go/parser"
	"go/printer"
	"go/token"
	"go/types"
	"os"
	"path/filepath"
	"regexp"
	"sort"
	"strings"
)

// ---------------------------------------------------------------------------------------------------------------------
// whitelist

type fnSpec struct {
	Go         string   `json:"go"`         // pkgpath.Func | pkgpath.(Type).Method | pkgpath.(*Type).Method
	File       string   `json:"file"`       // Lean module name under Logrange/Translated
	Properties []string `json:"properties"` // property ids whose models mirror this function
	Model      []string `json:"model"`      // hand-written model function(s) the theorem relates it to
	Theorems   []string `json:"theorems"`   // equivalence theorem(s)
	PropsFile  string   `json:"props_file"` // Lean module holding the theorems
	Opaque     []string `json:"opaque"`     // callees that become function parameters of the translated definition
}

type whitelist struct {
	Module    string   `json:"module"`
	Functions []fnSpec `json:"functions"`
}

// ---------------------------------------------------------------------------------------------------------------------
// loading: packages of the /repo module are parsed and type-checked from source; every other import is an empty fake
// package (hermetic and fast; an expression whose type depends on such a package has an invalid type and is refused)

type pkgInfo struct {
	pkg   *types.Package
	info  *types.Info
	files []*ast.File
}

type loader struct {
	fset    *token.FileSet
	repo    string
	modpath string
	pkgs    map[string]*pkgInfo
	fakes   map[string]*types.Package
	loading map[string]bool
}

func (l *loader) Import(path string) (*types.Package, error) {
	if strings.HasPrefix(path, l.modpath+"/") || path == l.modpath {
		pi, err := l.load(path)
		if err != nil {
			return nil, err
		}
		return pi.pkg, nil
	}
	if p, ok := l.fakes[path]; ok {
		return p, nil
	}
	name := path[strings.LastIndex(path, "/")+1:]
	p := types.NewPackage(path, name)
	p.MarkComplete()
	l.fakes[path] = p
	return p, nil
}

func (l *loader) load(path string) (*pkgInfo, error) {
	if pi, ok := l.pkgs[path]; ok {
		return pi, nil
	}
	if l.loading[path] {
		return nil, fmt.Errorf("import cycle through %s", path)
	}
	l.loading[path] = true
	defer delete(l.loading, path)
	dir := filepath.Join(l.repo, strings.TrimPrefix(strings.TrimPrefix(path, l.modpath), "/"))
	ents, err := os.ReadDir(dir)
	if err != nil {
		return nil, err
	}
	ctx := build.Default
	var files []*ast.File
	for _, e := range ents {
		n := e.Name()
		if e.IsDir() || !strings.HasSuffix(n, ".go") || strings.HasSuffix(n, "_test.go") {
			continue
		}
		if ok, _ := ctx.MatchFile(dir, n); !ok {
			continue
		}
		f, err := parser.ParseFile(l.fset, filepath.Join(dir, n), nil, parser.ParseComments)
		if err != nil {
			return nil, err
		}
		files = append(files, f)
	}
	if len(files) == 0 {
		return nil, fmt.Errorf("no Go files in %s", dir)
	}
	info := &types.Info{
		Types: map[ast.Expr]types.TypeAndValue{}, Defs: map[*ast.Ident]types.Object{}, Uses: map[*ast.Ident]types.Object{},
		Selections: map[*ast.SelectorExpr]*types.Selection{},
	}
	conf := types.Config{Importer: l, Error: func(error) {}, FakeImportC: true}
	pkg, _ := conf.Check(path, l.fset, files, info)
	pi := &pkgInfo{pkg: pkg, info: info, files: files}
	l.pkgs[path] = pi
	return pi, nil
}

// ---------------------------------------------------------------------------------------------------------------------
// translator state for one function

type trErr struct{ msg string }

type varInfo struct {
	obj   types.Object
	name  string // Lean name
	ty    string // Lean type
	strct *structProj
	full  bool // a struct value whose type is translated completely (every field has a supported type)
	ptr   bool // parameter of pointer type
}

// fileCtx: what one output file accumulates (struct declarations and function texts, each once, in dependency order)
type fileCtx struct {
	structs    []string
	structSeen map[string]bool
	funcs      []string
	funcSeen   map[string]bool
	sigs       map[string]*sig
	inProgress map[string]bool
}

func newFileCtx() *fileCtx {
	return &fileCtx{structSeen: map[string]bool{}, funcSeen: map[string]bool{}, sigs: map[string]*sig{}, inProgress: map[string]bool{}}
}

// sig: how a translated function is called from another translated function
type sig struct {
	params  scope
	resTy   string
	mutRecv bool
	opaque  bool
}

type structProj struct {
	leanName string
	paths    []string          // field paths used, in order of first use ("le.Timestamp")
	types    map[string]string // path -> Lean type
	mutated  bool
	pointer  bool
}

type scope []*varInfo

func (s scope) with(v *varInfo) scope {
	n := make(scope, len(s), len(s)+1)
	copy(n, s)
	return append(n, v)
}

func (s scope) find(obj types.Object) *varInfo {
	for i := len(s) - 1; i >= 0; i-- {
		if s[i].obj == obj {
			return s[i]
		}
	}
	return nil
}

type ctl struct {
	brk, cont func(sc scope) string
}

type tr struct {
	l        *loader
	p        *pkgInfo
	fn       *ast.FuncDecl
	name     string // Lean base name
	vars     map[types.Object]*varInfo
	used     map[string]bool
	defs     []string
	resTy    string
	results  []*varInfo // named results (or nil)
	mutRecv  []*varInfo // pointer-to-struct parameters whose fields are assigned: appended to the result
	nloop    int
	ntmp     int
	monadic  int
	notes    []string
	intArith bool
	subst    *idxSubst
	fc       *fileCtx
	opaque   map[string]bool     // names of callees that are parameters of the translated definition
	opaqueV  map[string]*varInfo // callee name -> the function parameter
}

func (t *tr) fail(n ast.Node, format string, a ...interface{}) {
	pos := ""
	if n != nil {
		p := t.l.fset.Position(n.Pos())
		pos = fmt.Sprintf("%s:%d: ", filepath.Base(p.Filename), p.Line)
	}
	panic(trErr{pos + fmt.Sprintf(format, a...)})
}

var leanReserved = map[string]bool{"fuel": true, "rem": true, "at": true, "from": true, "fun": true, "have": true, "show": true, "end": true,
	"then": true, "else": true, "if": true, "let": true, "match": true, "with": true, "do": true, "in": true, "open": true, "def": true,
	"theorem": true, "namespace": true, "section": true, "instance": true, "structure": true, "where": true, "by": true, "Type": true,
	"Prop": true, "Sort": true, "set_option": true, "import": true, "mutual": true, "local": true, "variable": true, "universe": true,
	"this": true, "nomatch": true, "return": true, "for": true, "unless": true, "try": true, "catch": true, "finally": true, "mut": true,
	"deriving": true, "extends": true, "class": true, "inductive": true, "abbrev": true, "example": true, "axiom": true, "macro": true,
	"syntax": true, "notation": true, "infix": true, "prefix": true, "postfix": true, "attribute": true, "private": true, "protected": true,
	"noncomputable": true, "partial": true, "unsafe": true, "using": true, "calc": true, "suffices": true, "obtain": true, "exact": true,
	"len": true, "index": true, "slice": true, "bind": true, "dist": true, "ok": true, "panic": true, "outOfFuel": true}

func (t *tr) freshName(base string) string {
	if base == "_" || base == "" {
		base = "x"
	}
	n := base
	if leanReserved[n] {
		n = base + "_v"
	}
	for i := 2; t.used[n]; i++ {
		n = fmt.Sprintf("%s_%d", base, i)
	}
	t.used[n] = true
	return n
}

func (t *tr) tmp() string {
	t.ntmp++
	return t.freshName(fmt.Sprintf("t%d", t.ntmp))
}

// ---------------------------------------------------------------------------------------------------------------------
// types

var errorType = types.Universe.Lookup("error").Type()

func (t *tr) leanType(n ast.Node, ty types.Type) string {
	if ty == nil {
		t.fail(n, "expression has no type (it depends on a package outside the module)")
	}
	if types.Identical(ty, errorType) {
		return "Error"
	}
	switch u := ty.Underlying().(type) {
	case *types.Basic:
		switch u.Kind() {
		case types.Int:
			return "Int"
		case types.Int64:
			return "Int64"
		case types.Int32:
			return "Int32"
		case types.Int16:
			return "Int16"
		case types.Int8:
			return "Int8"
		case types.Uint8:
			return "UInt8"
		case types.Uint16:
			return "UInt16"
		case types.Uint32:
			return "UInt32"
		case types.Uint64, types.Uint:
			return "UInt64"
		case types.Bool, types.UntypedBool:
			return "Bool"
		case types.String:
			return "Bytes"
		}
		if u.Kind() == types.Invalid {
			t.fail(n, "the type of this expression is declared outside the module (or does not type-check): not translated")
		}
		t.fail(n, "unsupported basic type %s", ty)
	case *types.Struct:
		if name := t.fullStruct(ty); name != "" {
			return name
		}
		t.fail(n, "struct type %s has fields outside the supported types (only its fields can be used, through a parameter)", ty)
	case *types.Slice:
		e := t.leanType(n, u.Elem())
		if e == "UInt8" {
			return "Bytes"
		}
		if strings.Contains(e, " ") {
			e = "(" + e + ")"
		}
		return "List " + e
	}
	t.fail(n, "unsupported type %s", ty)
	return ""
}

func fieldName(n string) string {
	if leanReserved[n] {
		return n + "_f"
	}
	return n
}

// fullStruct: the Lean structure for a named struct type of the module all of whose fields have supported types ("" if not)
func (t *tr) fullStruct(ty types.Type) string {
	named, ok := ty.(*types.Named)
	if !ok {
		return ""
	}
	st, ok := named.Underlying().(*types.Struct)
	if !ok || st.NumFields() == 0 {
		return ""
	}
	name := named.Obj().Name()
	if t.fc.structSeen[name] {
		return name
	}
	var b strings.Builder
	fmt.Fprintf(&b, "/-- `%s` (all fields) -/\nstructure %s where\n", named.String(), name)
	for i := 0; i < st.NumFields(); i++ {
		f := st.Field(i)
		if f.Embedded() {
			return ""
		}
		lt := t.leanTypeOK(f.Type())
		if lt == "" {
			return ""
		}
		fmt.Fprintf(&b, "  %s : %s\n", fieldName(f.Name()), lt)
	}
	b.WriteString("deriving DecidableEq, Repr\n")
	if !t.fc.structSeen[name] {
		t.fc.structSeen[name] = true
		t.fc.structs = append(t.fc.structs, b.String())
	}
	return name
}

func structOf(ty types.Type) (*types.Named, *types.Struct) {
	if p, ok := ty.Underlying().(*types.Pointer); ok {
		ty = p.Elem()
	}
	named, _ := ty.(*types.Named)
	st, _ := ty.Underlying().(*types.Struct)
	return named, st
}

// zeroOf: Go's zero value of a supported type
func (t *tr) zeroOf(n ast.Node, ty types.Type) string {
	if _, st := structOf(ty); st != nil {
		if _, isPtr := ty.Underlying().(*types.Pointer); isPtr {
			t.fail(n, "zero value of a pointer")
		}
		name := t.leanType(n, ty)
		var fs []string
		for i := 0; i < st.NumFields(); i++ {
			fs = append(fs, fieldName(st.Field(i).Name())+" := "+t.zeroOf(n, st.Field(i).Type()))
		}
		return "({ " + strings.Join(fs, ", ") + " } : " + name + ")"
	}
	return t.zero(n, t.leanType(n, ty))
}

func isIntTy(lt string) bool {
	switch lt {
	case "Int", "Int64", "Int32", "Int16", "Int8", "UInt8", "UInt16", "UInt32", "UInt64":
		return true
	}
	return false
}

func (t *tr) zero(n ast.Node, lt string) string {
	switch {
	case isIntTy(lt):
		return "(0 : " + lt + ")"
	case lt == "Bool" || lt == "Error":
		return "false"
	case lt == "Bytes" || strings.HasPrefix(lt, "List "):
		return "([] : " + lt + ")"
	}
	t.fail(n, "no zero value for %s", lt)
	return ""
}

func (t *tr) constLit(n ast.Node, v constant.Value, ty types.Type) string {
	lt := t.leanType(n, ty)
	switch v.Kind() {
	case constant.Bool:
		if constant.BoolVal(v) {
			return "true"
		}
		return "false"
	case constant.Int:
		if !isIntTy(lt) {
			t.fail(n, "integer constant of type %s", lt)
		}
		return "(" + v.ExactString() + " : " + lt + ")"
	case constant.String:
		s := constant.StringVal(v)
		parts := make([]string, len(s))
		for i := 0; i < len(s); i++ {
			parts[i] = fmt.Sprintf("%d", s[i])
		}
		return "([" + strings.Join(parts, ", ") + "] : Bytes)"
	}
	t.fail(n, "unsupported constant %s", v)
	return ""
}

// ---------------------------------------------------------------------------------------------------------------------
// text helpers

func indent(s string) string {
	ls := strings.Split(s, "\n")
	for i := range ls {
		ls[i] = "  " + ls[i]
	}
	return strings.Join(ls, "\n")
}

func paren(s string) string {
	if strings.Contains(s, "\n") {
		return "(\n" + indent(s) + "\n)"
	}
	if isAtom(s) {
		return s
	}
	return "(" + s + ")"
}

var atomRe = regexp.MustCompile(`^[A-Za-z_][A-Za-z0-9_.']*$`)
var litRe = regexp.MustCompile(`^(\(-?[0-9]+ : [A-Za-z0-9]+\)|true|false|\(\[[0-9, ]*\] : Bytes\))$`)

func isAtom(s string) bool {
	if atomRe.MatchString(s) {
		return true
	}
	if len(s) >= 2 && (s[0] == '(' || s[0] == '[') {
		// a single balanced group?
		depth := 0
		for i, c := range s {
			switch c {
			case '(', '[':
				depth++
			case ')', ']':
				depth--
				if depth == 0 && i != len(s)-1 {
					return false
				}
			}
		}
		return depth == 0
	}
	return false
}

func usedVars(text string, sc scope) scope {
	toks := map[string]bool{}
	for _, m := range regexp.MustCompile(`[A-Za-z_][A-Za-z0-9_']*`).FindAllString(text, -1) {
		toks[m] = true
	}
	var out scope
	seen := map[string]bool{}
	for _, v := range sc {
		if toks[v.name] && !seen[v.name] {
			seen[v.name] = true
			out = append(out, v)
		}
	}
	return out
}

func binders(vs scope) string {
	var b strings.Builder
	for _, v := range vs {
		fmt.Fprintf(&b, " (%s : %s)", v.name, v.ty)
	}
	return b.String()
}

func args(vs scope) string {
	var b strings.Builder
	for _, v := range vs {
		b.WriteString(" " + v.name)
	}
	return b.String()
}

func tuple(names []string) string {
	if len(names) == 0 {
		return "()"
	}
	if len(names) == 1 {
		return names[0]
	}
	return "(" + strings.Join(names, ", ") + ")"
}

// ---------------------------------------------------------------------------------------------------------------------
// expressions: tr(e, k) gives the Lean term `k(<pure term for e>)`, wrapped in the binds e's evaluation needs

func (t *tr) tv(e ast.Expr) types.TypeAndValue {
	tv, ok := t.p.info.Types[e]
	if !ok || tv.Type == nil || tv.Type == types.Typ[types.Invalid] {
		t.fail(e, "cannot type %s (it depends on a package outside the module or on an unsupported declaration)", t.src(e))
	}
	return tv
}

func (t *tr) src(n ast.Node) string {
	var b strings.Builder
	printer.Fprint(&b, t.l.fset, n)
	return b.String()
}

// structPath: if e is a selector chain rooted at a projected struct variable, its root and path
func (t *tr) structPath(e ast.Expr, sc scope) (*varInfo, string, bool) {
	var names []string
	cur := e
	for {
		switch x := cur.(type) {
		case *ast.SelectorExpr:
			names = append([]string{x.Sel.Name}, names...)
			cur = x.X
			continue
		case *ast.ParenExpr:
			cur = x.X
			continue
		case *ast.Ident:
			obj := t.p.info.Uses[x]
			if obj == nil {
				return nil, "", false
			}
			v := sc.find(obj)
			if v == nil || v.strct == nil || len(names) == 0 {
				return nil, "", false
			}
			return v, strings.Join(names, "."), true
		}
		return nil, "", false
	}
}

// fullPath: a field path rooted at a variable whose struct type is translated completely
func (t *tr) fullPath(e ast.Expr, sc scope) (*varInfo, []string, bool) {
	var names []string
	cur := e
	for {
		switch x := cur.(type) {
		case *ast.SelectorExpr:
			if se := t.p.info.Selections[x]; se == nil || se.Kind() != types.FieldVal {
				return nil, nil, false
			}
			names = append([]string{fieldName(x.Sel.Name)}, names...)
			cur = x.X
			continue
		case *ast.ParenExpr:
			cur = x.X
			continue
		case *ast.Ident:
			obj := t.p.info.Uses[x]
			if obj == nil {
				return nil, nil, false
			}
			v := sc.find(obj)
			if v == nil || !v.full || len(names) == 0 {
				return nil, nil, false
			}
			return v, names, true
		}
		return nil, nil, false
	}
}

// composite: T{…} of a completely translated struct type
func (t *tr) composite(x *ast.CompositeLit, sc scope, k func(string) string) string {
	ty := t.tv(x).Type
	_, st := structOf(ty)
	if st == nil {
		t.fail(x, "composite literal of %s (only structs)", ty)
	}
	if _, isPtr := ty.Underlying().(*types.Pointer); isPtr {
		t.fail(x, "composite literal of a pointer type")
	}
	name := t.leanType(x, ty)
	vals := make([]string, st.NumFields())
	exprs := make([]ast.Expr, st.NumFields())
	for i, el := range x.Elts {
		if kv, ok := el.(*ast.KeyValueExpr); ok {
			id, _ := kv.Key.(*ast.Ident)
			found := false
			for j := 0; id != nil && j < st.NumFields(); j++ {
				if st.Field(j).Name() == id.Name {
					exprs[j] = kv.Value
					found = true
				}
			}
			if !found {
				t.fail(el, "unknown field in composite literal")
			}
		} else {
			if i >= st.NumFields() {
				t.fail(el, "too many values in composite literal")
			}
			exprs[i] = el
		}
	}
	var rec func(i int) string
	rec = func(i int) string {
		if i == st.NumFields() {
			var fs []string
			for j := 0; j < st.NumFields(); j++ {
				fs = append(fs, fieldName(st.Field(j).Name())+" := "+vals[j])
			}
			return k("({ " + strings.Join(fs, ", ") + " } : " + name + ")")
		}
		if exprs[i] == nil {
			vals[i] = t.zeroOf(x, st.Field(i).Type())
			return rec(i + 1)
		}
		return t.expr(exprs[i], sc, func(v string) string { vals[i] = v; return rec(i + 1) })
	}
	return rec(0)
}

func (t *tr) isErrCtor(c *ast.CallExpr) bool {
	sel, ok := c.Fun.(*ast.SelectorExpr)
	if !ok {
		return false
	}
	id, ok := sel.X.(*ast.Ident)
	if !ok {
		return false
	}
	pn, ok := t.p.info.Uses[id].(*types.PkgName)
	if !ok {
		return false
	}
	path := pn.Imported().Path()
	if path == "fmt" && sel.Sel.Name == "Errorf" {
		return true
	}
	if (path == "errors" || path == "github.com/pkg/errors") && (sel.Sel.Name == "New" || sel.Sel.Name == "Errorf") {
		return true
	}
	return false
}

func (t *tr) expr(e ast.Expr, sc scope, k func(term string) string) string {
	// constants first (go/types has evaluated them, including package-level and imported-module constants)
	if tv, ok := t.p.info.Types[e]; ok && tv.Value != nil && tv.Type != nil && tv.Type != types.Typ[types.Invalid] {
		ty := tv.Type
		if b, ok := ty.(*types.Basic); ok && b.Info()&types.IsUntyped != 0 {
			ty = types.Default(ty)
		}
		return k(t.constLit(e, tv.Value, ty))
	}
	switch x := e.(type) {
	case *ast.ParenExpr:
		return t.expr(x.X, sc, k)
	case *ast.Ident:
		if x.Name == "nil" {
			tv := t.tv(e)
			_ = tv
			return k("false") // only reachable with type error: checked by the caller's leanType
		}
		obj := t.p.info.Uses[x]
		if obj == nil {
			t.fail(e, "unresolved identifier %s", x.Name)
		}
		if v := sc.find(obj); v != nil {
			if v.strct != nil {
				t.fail(e, "struct variable %s used as a whole value (only its fields are supported)", x.Name)
			}
			return k(v.name)
		}
		t.fail(e, "identifier %s is not a local variable, parameter or constant (package-level state is not supported)", x.Name)
	case *ast.SelectorExpr:
		if v, path, ok := t.structPath(e, sc); ok {
			lt, ok := v.strct.types[path]
			if !ok {
				t.fail(e, "internal: path %s not collected", path)
			}
			_ = lt
			return k(v.name + "." + strings.ReplaceAll(path, ".", "_"))
		}
		if v, names, ok := t.fullPath(e, sc); ok {
			t.leanType(e, t.tv(e).Type)
			return k(v.name + "." + strings.Join(names, "."))
		}
		t.fail(e, "unsupported selector %s", t.src(e))
	case *ast.CompositeLit:
		return t.composite(x, sc, k)
	case *ast.UnaryExpr:
		lt := t.leanType(e, t.tv(e).Type)
		switch x.Op {
		case token.NOT:
			return t.expr(x.X, sc, func(a string) string { return k("(!" + paren(a) + ")") })
		case token.SUB:
			if lt == "Int" {
				t.intArith = true
			}
			return t.expr(x.X, sc, func(a string) string { return k("(-" + paren(a) + ")") })
		}
		t.fail(e, "unsupported unary operator %s", x.Op)
	case *ast.BinaryExpr:
		return t.binary(x, sc, k)
	case *ast.CallExpr:
		return t.call(x, sc, k)
	case *ast.IndexExpr:
		if t.isHeadIndex(x) {
			return k(t.subst.head)
		}
		xt := t.tv(x.X).Type
		switch u := xt.Underlying().(type) {
		case *types.Basic:
			if u.Kind() != types.String {
				t.fail(e, "index of %s", xt)
			}
		case *types.Slice:
			t.leanType(e, u.Elem())
		default:
			t.fail(e, "index of %s (only strings and slices)", xt)
		}
		return t.expr(x.X, sc, func(s string) string {
			return t.expr(x.Index, sc, func(i string) string {
				it := t.leanType(x.Index, t.tv(x.Index).Type)
				if it != "Int" {
					i = t.convert(x.Index, i, it, "Int")
				}
				v := t.tmp()
				t.monadic++
				return "bind (index " + paren(s) + " " + paren(i) + ") fun " + v + " =>\n" + k(v)
			})
		})
	case *ast.SliceExpr:
		xt := t.tv(x.X).Type
		if b, ok := xt.Underlying().(*types.Basic); !ok || b.Kind() != types.String {
			t.fail(e, "slice expression on %s (only strings: re-slicing a slice depends on its capacity)", xt)
		}
		if x.Slice3 {
			t.fail(e, "3-index slice")
		}
		return t.expr(x.X, sc, func(s string) string {
			lo := func(k2 func(string) string) string {
				if x.Low == nil {
					return k2("(0 : Int)")
				}
				return t.expr(x.Low, sc, k2)
			}
			hi := func(k2 func(string) string) string {
				if x.High == nil {
					return k2("(len " + paren(s) + ")")
				}
				return t.expr(x.High, sc, k2)
			}
			return lo(func(l string) string {
				return hi(func(h string) string {
					v := t.tmp()
					t.monadic++
					return "bind (slice " + paren(s) + " " + paren(l) + " " + paren(h) + ") fun " + v + " =>\n" + k(v)
				})
			})
		})
	}
	t.fail(e, "unsupported expression %s (%T)", t.src(e), e)
	return ""
}

// isHeadIndex: `s[i]` of the enclosing normalised index scan
func (t *tr) isHeadIndex(x *ast.IndexExpr) bool {
	if t.subst == nil {
		return false
	}
	xs, ok1 := x.X.(*ast.Ident)
	xi, ok2 := x.Index.(*ast.Ident)
	return ok1 && ok2 && t.p.info.Uses[xs] == t.subst.s && t.p.info.Uses[xi] == t.subst.i
}

// isPure: does evaluating e need no bind (no indexing, slicing, division)?
func (t *tr) isPure(e ast.Expr) bool {
	pure := true
	ast.Inspect(e, func(n ast.Node) bool {
		switch x := n.(type) {
		case *ast.IndexExpr, *ast.SliceExpr:
			if ie, isIdx := x.(*ast.IndexExpr); isIdx && t.isHeadIndex(ie) {
				return false
			}
			if tv, ok := t.p.info.Types[n.(ast.Expr)]; !ok || tv.Value == nil {
				pure = false
			}
		case *ast.BinaryExpr:
			if x.Op == token.QUO || x.Op == token.REM {
				if tv, ok := t.p.info.Types[x]; !ok || tv.Value == nil {
					pure = false
				}
			}
		case *ast.CallExpr:
			if id, ok := x.Fun.(*ast.Ident); ok {
				if _, isB := t.p.info.Uses[id].(*types.Builtin); isB {
					return true
				}
			}
			if tv, ok := t.p.info.Types[x.Fun]; ok && tv.IsType() {
				return true
			}
			if t.isErrCtor(x) {
				return true
			}
			if t.isOpaqueCall(x) {
				return true
			}
			pure = false
		}
		return true
	})
	return pure
}

func (t *tr) binary(x *ast.BinaryExpr, sc scope, k func(string) string) string {
	lt := t.leanType(x.X, t.tv(x.X).Type)
	switch x.Op {
	case token.LAND, token.LOR:
		if t.isPure(x.Y) {
			op := " && "
			if x.Op == token.LOR {
				op = " || "
			}
			return t.expr(x.X, sc, func(a string) string {
				return t.expr(x.Y, sc, func(b string) string { return k("(" + paren(a) + op + paren(b) + ")") })
			})
		}
		// the right operand can panic: it is evaluated only when the left one does not decide
		return t.expr(x.X, sc, func(a string) string {
			rhs := t.expr(x.Y, sc, func(b string) string { return ".ok " + paren(b) })
			v := t.tmp()
			t.monadic++
			var cond string
			if x.Op == token.LAND {
				cond = "if " + a + " then\n" + indent(rhs) + "\nelse .ok false"
			} else {
				cond = "if " + a + " then .ok true\nelse\n" + indent(rhs)
			}
			return "bind (\n" + indent(cond) + ") fun " + v + " =>\n" + k(v)
		})
	}
	return t.expr(x.X, sc, func(a string) string {
		return t.expr(x.Y, sc, func(b string) string {
			a, b := paren(a), paren(b)
			switch x.Op {
			case token.EQL:
				return k("(" + a + " == " + b + ")")
			case token.NEQ:
				return k("(" + a + " != " + b + ")")
			case token.LSS, token.LEQ, token.GTR, token.GEQ:
				if lt == "Bytes" {
					switch x.Op {
					case token.LSS:
						return k("(Go.bytesLt " + a + " " + b + ")")
					case token.GTR:
						return k("(Go.bytesLt " + b + " " + a + ")")
					case token.LEQ:
						return k("(Go.bytesLe " + a + " " + b + ")")
					default:
						return k("(Go.bytesLe " + b + " " + a + ")")
					}
				}
				if !isIntTy(lt) {
					t.fail(x, "ordering on %s", lt)
				}
				op := map[token.Token]string{token.LSS: "<", token.LEQ: "≤", token.GTR: ">", token.GEQ: "≥"}[x.Op]
				return k("(decide (" + a + " " + op + " " + b + "))")
			case token.ADD, token.SUB, token.MUL:
				if lt == "Bytes" && x.Op == token.ADD {
					return k("(" + a + " ++ " + b + ")")
				}
				if !isIntTy(lt) {
					t.fail(x, "arithmetic on %s", lt)
				}
				if lt == "Int" {
					t.intArith = true
				}
				return k("(" + a + " " + x.Op.String() + " " + b + ")")
			case token.SHR, token.SHL:
				if !isIntTy(lt) || lt == "Int" || lt[0] != 'U' {
					t.fail(x, "shift of %s (only unsigned fixed-width integers)", lt)
				}
				tvy, has := t.p.info.Types[x.Y]
				if !has || tvy.Value == nil || tvy.Value.Kind() != constant.Int {
					t.fail(x, "shift by a non-constant count")
				}
				cnt, _ := constant.Int64Val(tvy.Value)
				width := map[string]int64{"UInt8": 8, "UInt16": 16, "UInt32": 32, "UInt64": 64}[lt]
				if cnt < 0 || cnt >= width {
					t.fail(x, "shift count %d is not below the width of %s", cnt, lt)
				}
				op := ">>>"
				if x.Op == token.SHL {
					op = "<<<"
				}
				return k(fmt.Sprintf("(%s %s (%d : %s))", a, op, cnt, lt))
			case token.AND, token.OR, token.XOR:
				if !isIntTy(lt) || lt == "Int" {
					t.fail(x, "bit operation on %s (only fixed-width integers)", lt)
				}
				op := map[token.Token]string{token.AND: "&&&", token.OR: "|||", token.XOR: "^^^"}[x.Op]
				return k("(" + a + " " + op + " " + b + ")")
			}
			t.fail(x, "unsupported binary operator %s", x.Op)
			return ""
		})
	})
}

func (t *tr) convert(n ast.Node, a, from, to string) string {
	if from == to {
		return a
	}
	a = paren(a)
	switch to {
	case "Int":
		switch from {
		case "UInt8", "UInt16", "UInt32":
			return "(" + a + ".toNat : Int)" // always representable in int64
		case "Int64", "Int32", "Int16", "Int8":
			return a + ".toInt"
		case "UInt64":
			return a + ".toInt64.toInt" // two's complement reinterpretation, as in Go (uint is 64 bits wide)
		}
	case "Int64":
		switch from {
		case "UInt64":
			return a + ".toInt64" // reinterpretation of the bits, as in Go
		case "Int":
			return "(Int64.ofInt " + a + ")"
		case "UInt32":
			return a + ".toUInt64.toInt64"
		}
	case "UInt64":
		switch from {
		case "Int64":
			return a + ".toUInt64"
		case "UInt32":
			return a + ".toUInt64"
		case "UInt8":
			return a + ".toUInt64"
		case "Int":
			return "(UInt64.ofInt " + a + ")" // modulo 2^64, as in Go
		}
	case "UInt8":
		switch from {
		case "Int":
			return "(UInt8.ofInt " + a + ")" // truncation to the low 8 bits, as in Go
		}
	case "UInt32":
		switch from {
		case "Int":
			return "(UInt32.ofInt " + a + ")"
		case "UInt64":
			return a + ".toUInt32"
		}
	}
	t.fail(n, "unsupported conversion %s -> %s", from, to)
	return ""
}

func (t *tr) call(c *ast.CallExpr, sc scope, k func(string) string) string {
	// conversion T(x)
	if tv, ok := t.p.info.Types[c.Fun]; ok && tv.IsType() {
		if len(c.Args) != 1 {
			t.fail(c, "conversion with %d arguments", len(c.Args))
		}
		to := t.leanType(c, tv.Type)
		from := t.leanType(c.Args[0], t.tv(c.Args[0]).Type)
		return t.expr(c.Args[0], sc, func(a string) string { return k(t.convert(c, a, from, to)) })
	}
	if t.isErrCtor(c) {
		// error texts are not modelled; the arguments must be free of effects (identifiers, constants, field reads, len)
		for _, a := range c.Args {
			if !t.isPure(a) {
				t.fail(a, "argument of an error constructor could panic")
			}
			ast.Inspect(a, func(n ast.Node) bool {
				if cc, ok := n.(*ast.CallExpr); ok {
					if id, ok := cc.Fun.(*ast.Ident); !ok || id.Name != "len" {
						if tv, ok := t.p.info.Types[cc.Fun]; !ok || !tv.IsType() {
							t.fail(cc, "call inside an error constructor")
						}
					}
				}
				return true
			})
		}
		return k("true")
	}
	if id, ok := c.Fun.(*ast.Ident); ok {
		if _, isB := t.p.info.Uses[id].(*types.Builtin); isB {
			switch id.Name {
			case "len":
				at := t.tv(c.Args[0]).Type
				switch u := at.Underlying().(type) {
				case *types.Slice:
				case *types.Basic:
					if u.Kind() != types.String {
						t.fail(c, "len of %s", at)
					}
				default:
					t.fail(c, "len of %s (only strings and slices)", at)
				}
				return t.expr(c.Args[0], sc, func(a string) string { return k("(len " + paren(a) + ")") })
			case "append":
				if c.Ellipsis != token.NoPos {
					t.fail(c, "append with ...")
				}
				t.leanType(c, t.tv(c).Type)
				return t.expr(c.Args[0], sc, func(a string) string {
					var rec func(i int, acc []string) string
					rec = func(i int, acc []string) string {
						if i == len(c.Args) {
							return k("(" + paren(a) + " ++ [" + strings.Join(acc, ", ") + "])")
						}
						return t.expr(c.Args[i], sc, func(b string) string { return rec(i+1, append(acc, b)) })
					}
					return rec(1, nil)
				})
			}
			t.fail(c, "unsupported builtin %s", id.Name)
		}
	}
	return t.userCall(c, sc, k)
}

// calleeOf: the module function or method a call refers to, and its receiver expression (nil for plain functions)
func (t *tr) calleeOf(c *ast.CallExpr) (*types.Func, ast.Expr) {
	switch f := c.Fun.(type) {
	case *ast.Ident:
		if fn, ok := t.p.info.Uses[f].(*types.Func); ok {
			return fn, nil
		}
	case *ast.SelectorExpr:
		if se := t.p.info.Selections[f]; se != nil {
			if se.Kind() == types.MethodVal {
				if fn, ok := se.Obj().(*types.Func); ok {
					if _, isIface := se.Recv().Underlying().(*types.Interface); !isIface {
						return fn, f.X
					}
				}
			}
			return nil, nil
		}
		if fn, ok := t.p.info.Uses[f.Sel].(*types.Func); ok {
			return fn, nil
		}
	}
	return nil, nil
}

func (t *tr) isOpaqueCall(c *ast.CallExpr) bool {
	fn, _ := t.calleeOf(c)
	return fn != nil && t.opaque[fn.Name()]
}

// userCall: a call of another function of the module. Either the callee is declared opaque in the whitelist entry (then
// it is a function parameter of the translated definition: a pure, total function of its explicit arguments), or it is
// translated itself, into the same file, and called through `bind`.
func (t *tr) userCall(c *ast.CallExpr, sc scope, k func(string) string) string {
	fn, recv := t.calleeOf(c)
	if fn == nil || fn.Pkg() == nil || !(strings.HasPrefix(fn.Pkg().Path(), t.l.modpath+"/") || fn.Pkg().Path() == t.l.modpath) {
		t.fail(c, "unsupported call %s (only len, append, conversions, error constructors and functions of the module)", t.src(c.Fun))
	}
	if c.Ellipsis != token.NoPos {
		t.fail(c, "call with ...")
	}
	if t.opaque[fn.Name()] {
		ov := t.opaqueV[fn.Name()]
		var rec func(i int, acc []string) string
		rec = func(i int, acc []string) string {
			if i == len(c.Args) {
				return k("(" + ov.name + " " + strings.Join(acc, " ") + ")")
			}
			return t.expr(c.Args[i], sc, func(a string) string { return rec(i+1, append(acc, paren(a))) })
		}
		if len(c.Args) == 0 {
			return k(ov.name)
		}
		return rec(0, nil)
	}
	// translate the callee (once per file)
	pi, err := t.l.load(fn.Pkg().Path())
	if err != nil {
		t.fail(c, "callee package does not load: %v", err)
	}
	var fd *ast.FuncDecl
	for _, f := range pi.files {
		for _, d := range f.Decls {
			if x, ok := d.(*ast.FuncDecl); ok && x.Name.Pos() == fn.Pos() {
				fd = x
			}
		}
	}
	if fd == nil {
		t.fail(c, "declaration of callee %s not found", fn.Name())
	}
	cname := fn.Name()
	if fd.Recv != nil && len(fd.Recv.List) == 1 {
		ty := fd.Recv.List[0].Type
		if st, ok := ty.(*ast.StarExpr); ok {
			ty = st.X
		}
		if id, ok := ty.(*ast.Ident); ok {
			cname = id.Name + "_" + fn.Name()
		}
	}
	sg := t.fc.sigs[cname]
	if sg == nil {
		if t.fc.inProgress[cname] || cname == t.name {
			t.fail(c, "recursive call of %s", cname)
		}
		if _, err := translate(t.l, pi, fd, cname, t.fc, nil); err != nil {
			t.fail(c, "callee %s is outside the subset: %v", cname, err)
		}
		sg = t.fc.sigs[cname]
	}
	if sg.mutRecv {
		t.fail(c, "callee %s writes through a pointer parameter", cname)
	}
	if sg.opaque {
		t.fail(c, "callee %s has opaque callees of its own", cname)
	}
	// argument expressions in the callee's parameter order: receiver first
	var argExprs []ast.Expr
	if recv != nil {
		argExprs = append(argExprs, recv)
	}
	argExprs = append(argExprs, c.Args...)
	// the callee's Go parameters (receiver first), to line up with sg.params (which omits unused struct parameters)
	var goParams []types.Object
	if fd.Recv != nil {
		for _, f := range fd.Recv.List {
			for _, id := range f.Names {
				goParams = append(goParams, pi.info.Defs[id])
			}
			if len(f.Names) == 0 {
				goParams = append(goParams, nil)
			}
		}
	}
	for _, f := range fd.Type.Params.List {
		for _, id := range f.Names {
			goParams = append(goParams, pi.info.Defs[id])
		}
		if len(f.Names) == 0 {
			goParams = append(goParams, nil)
		}
	}
	if len(goParams) != len(argExprs) {
		t.fail(c, "call of %s: %d arguments for %d parameters", cname, len(argExprs), len(goParams))
	}
	var rec func(i int, acc []string) string
	rec = func(i int, acc []string) string {
		if i == len(argExprs) {
			v := t.tmp()
			t.monadic++
			return "bind (" + cname + strings.Join(acc, "") + ") fun " + v + " =>\n" + k(v)
		}
		var pv *varInfo
		for _, q := range sg.params {
			if goParams[i] != nil && q.obj == goParams[i] {
				pv = q
			}
		}
		if pv == nil {
			// the callee does not use this parameter: the argument is still evaluated (it could panic)
			if id, ok := argExprs[i].(*ast.Ident); ok {
				if av := sc.find(t.p.info.Uses[id]); av != nil && (av.strct != nil || av.full) {
					return rec(i+1, acc)
				}
			}
			return t.expr(argExprs[i], sc, func(string) string { return rec(i+1, acc) })
		}
		if pv.strct != nil {
			// projected struct parameter: the caller's variable must provide the same field paths
			id, ok := argExprs[i].(*ast.Ident)
			var av *varInfo
			if ok {
				av = sc.find(t.p.info.Uses[id])
			}
			if av == nil || av.strct == nil {
				t.fail(argExprs[i], "argument for the struct parameter of %s must be a struct parameter of the caller", cname)
			}
			var fs []string
			for _, pth := range pv.strct.paths {
				if _, has := av.strct.types[pth]; !has {
					av.strct.paths = append(av.strct.paths, pth)
					av.strct.types[pth] = pv.strct.types[pth]
				}
				f := strings.ReplaceAll(pth, ".", "_")
				fs = append(fs, f+" := "+av.name+"."+f)
			}
			return rec(i+1, append(acc, " ({ "+strings.Join(fs, ", ")+" } : "+pv.strct.leanName+")"))
		}
		return t.expr(argExprs[i], sc, func(a string) string { return rec(i+1, append(acc, " "+paren(a))) })
	}
	return rec(0, nil)
}

// ---------------------------------------------------------------------------------------------------------------------
// statements

func (t *tr) fallsThrough(stmts []ast.Stmt) bool {
	if len(stmts) == 0 {
		return true
	}
	switch s := stmts[len(stmts)-1].(type) {
	case *ast.ReturnStmt, *ast.BranchStmt:
		return false
	case *ast.ExprStmt:
		return !isPanicCall(t, s)
	case *ast.BlockStmt:
		return t.fallsThrough(s.List)
	case *ast.IfStmt:
		if s.Else == nil {
			return true
		}
		var els []ast.Stmt
		switch e := s.Else.(type) {
		case *ast.BlockStmt:
			els = e.List
		default:
			els = []ast.Stmt{e}
		}
		return t.fallsThrough(s.Body.List) || t.fallsThrough(els)
	}
	return true
}

func isPanicCall(t *tr, s *ast.ExprStmt) bool {
	c, ok := s.X.(*ast.CallExpr)
	if !ok {
		return false
	}
	id, ok := c.Fun.(*ast.Ident)
	if !ok || id.Name != "panic" {
		return false
	}
	_, isB := t.p.info.Uses[id].(*types.Builtin)
	return isB
}

// hasCtl: does the statement list contain return/break/continue or a loop?
func hasCtl(n ast.Node) bool {
	found := false
	ast.Inspect(n, func(m ast.Node) bool {
		switch m.(type) {
		case *ast.ReturnStmt, *ast.BranchStmt, *ast.ForStmt, *ast.RangeStmt:
			found = true
		}
		return !found
	})
	return found
}

// assigned: variables of sc that the nodes assign to (root of a field path counts)
func (t *tr) assigned(sc scope, nodes ...ast.Node) scope {
	set := map[types.Object]bool{}
	mark := func(e ast.Expr) {
		for {
			switch x := e.(type) {
			case *ast.SelectorExpr:
				e = x.X
				continue
			case *ast.ParenExpr:
				e = x.X
				continue
			case *ast.Ident:
				if obj := t.p.info.Uses[x]; obj != nil {
					set[obj] = true
				}
			}
			return
		}
	}
	for _, n := range nodes {
		if n == nil {
			continue
		}
		ast.Inspect(n, func(m ast.Node) bool {
			switch s := m.(type) {
			case *ast.AssignStmt:
				for _, l := range s.Lhs {
					mark(l)
				}
			case *ast.IncDecStmt:
				mark(s.X)
			}
			return true
		})
	}
	var out scope
	for _, v := range sc {
		if set[v.obj] {
			out = append(out, v)
		}
	}
	return out
}

func (t *tr) declare(id *ast.Ident, ty types.Type, sc scope) (*varInfo, scope) {
	obj := t.p.info.Defs[id]
	if obj == nil {
		t.fail(id, "internal: %s is not a definition", id.Name)
	}
	v := &varInfo{obj: obj, name: t.freshName(id.Name), ty: t.leanType(id, ty)}
	if _, st := structOf(ty); st != nil {
		v.full = true
	}
	t.vars[obj] = v
	return v, sc.with(v)
}

func (t *tr) assignTo(lhs ast.Expr, val string, sc scope, define bool, k func(sc scope) string) string {
	switch x := lhs.(type) {
	case *ast.Ident:
		if x.Name == "_" {
			return k(sc)
		}
		if define {
			if obj := t.p.info.Defs[x]; obj != nil {
				v, sc2 := t.declare(x, obj.Type(), sc)
				body := k(sc2)
				if body == v.name {
					return val
				}
				return "let " + v.name + " := " + val + "\n" + body
			}
		}
		obj := t.p.info.Uses[x]
		v := sc.find(obj)
		if v == nil {
			t.fail(lhs, "assignment to %s, which is not a local variable or parameter", x.Name)
		}
		if v.strct != nil {
			t.fail(lhs, "assignment to the whole struct %s", x.Name)
		}
		body := k(sc)
		if body == v.name {
			return val
		}
		return "let " + v.name + " := " + val + "\n" + body
	case *ast.SelectorExpr:
		if v, path, ok := t.structPath(lhs, sc); ok {
			v.strct.mutated = true
			upd := "{ " + v.name + " with " + strings.ReplaceAll(path, ".", "_") + " := " + val + " }"
			body := k(sc)
			if body == v.name {
				return upd
			}
			return "let " + v.name + " := " + upd + "\n" + body
		}
	}
	if v, names, ok := t.fullPath(lhs, sc); ok {
		// nested update: { v with a := { v.a with b := val } }
		upd := val
		for i := len(names) - 1; i >= 0; i-- {
			prefix := v.name
			if i > 0 {
				prefix += "." + strings.Join(names[:i], ".")
			}
			upd = "{ " + prefix + " with " + names[i] + " := " + upd + " }"
		}
		body := k(sc)
		if body == v.name {
			return upd
		}
		return "let " + v.name + " := " + upd + "\n" + body
	}
	t.fail(lhs, "unsupported assignment target %s (element and pointer assignment are not supported)", t.src(lhs))
	return ""
}

func (t *tr) stmts(list []ast.Stmt, sc scope, c ctl, k func(sc scope) string) string {
	if len(list) == 0 {
		return k(sc)
	}
	return t.stmt(list[0], sc, c, func(sc2 scope) string { return t.stmts(list[1:], sc2, c, k) })
}

func (t *tr) block(b *ast.BlockStmt, sc scope, c ctl, k func(sc scope) string) string {
	return t.stmts(b.List, sc, c, func(scope) string { return k(sc) })
}

func (t *tr) stmt(s ast.Stmt, sc scope, c ctl, k func(sc scope) string) string {
	switch x := s.(type) {
	case nil:
		return k(sc)
	case *ast.EmptyStmt:
		return k(sc)
	case *ast.BlockStmt:
		return t.block(x, sc, c, k)
	case *ast.DeclStmt:
		gd, ok := x.Decl.(*ast.GenDecl)
		if !ok || gd.Tok != token.VAR {
			t.fail(s, "unsupported declaration")
		}
		var rec func(specs []ast.Spec, sc scope) string
		rec = func(specs []ast.Spec, sc scope) string {
			if len(specs) == 0 {
				return k(sc)
			}
			vs := specs[0].(*ast.ValueSpec)
			if len(vs.Values) != 0 && len(vs.Values) != len(vs.Names) {
				t.fail(s, "multi-value var declaration")
			}
			var rec2 func(i int, sc scope) string
			rec2 = func(i int, sc scope) string {
				if i == len(vs.Names) {
					return rec(specs[1:], sc)
				}
				obj := t.p.info.Defs[vs.Names[i]]
				if len(vs.Values) == 0 {
					return t.assignTo(vs.Names[i], t.zeroOf(vs.Names[i], obj.Type()), sc, true, func(sc scope) string { return rec2(i+1, sc) })
				}
				return t.expr(vs.Values[i], sc, func(v string) string {
					return t.assignTo(vs.Names[i], v, sc, true, func(sc scope) string { return rec2(i+1, sc) })
				})
			}
			return rec2(0, sc)
		}
		return rec(gd.Specs, sc)
	case *ast.IncDecStmt:
		lt := t.leanType(x.X, t.tv(x.X).Type)
		if !isIntTy(lt) {
			t.fail(s, "++/-- on %s", lt)
		}
		if lt == "Int" {
			t.intArith = true
		}
		op := " + "
		if x.Tok == token.DEC {
			op = " - "
		}
		return t.expr(x.X, sc, func(a string) string { return t.assignTo(x.X, "("+a+op+"1)", sc, false, k) })
	case *ast.AssignStmt:
		if len(x.Lhs) != len(x.Rhs) {
			t.fail(s, "assignment from a multi-value expression")
		}
		if x.Tok != token.ASSIGN && x.Tok != token.DEFINE {
			// op-assignment
			var op token.Token
			switch x.Tok {
			case token.ADD_ASSIGN:
				op = token.ADD
			case token.SUB_ASSIGN:
				op = token.SUB
			case token.MUL_ASSIGN:
				op = token.MUL
			case token.OR_ASSIGN:
				op = token.OR
			case token.AND_ASSIGN:
				op = token.AND
			default:
				t.fail(s, "unsupported assignment operator %s", x.Tok)
			}
			be := &ast.BinaryExpr{X: x.Lhs[0], Op: op, Y: x.Rhs[0], OpPos: x.TokPos}
			// type information for the synthetic node: same as the left operand
			t.p.info.Types[be] = t.p.info.Types[x.Lhs[0]]
			return t.expr(be, sc, func(v string) string { return t.assignTo(x.Lhs[0], v, sc, false, k) })
		}
		define := x.Tok == token.DEFINE
		if len(x.Lhs) == 1 {
			return t.expr(x.Rhs[0], sc, func(v string) string { return t.assignTo(x.Lhs[0], v, sc, define, k) })
		}
		// parallel assignment: all right-hand sides first
		var rec func(i int, vals []string) string
		rec = func(i int, vals []string) string {
			if i == len(x.Rhs) {
				var asg func(j int, sc scope) string
				asg = func(j int, sc scope) string {
					if j == len(x.Lhs) {
						return k(sc)
					}
					return t.assignTo(x.Lhs[j], vals[j], sc, define, func(sc scope) string { return asg(j+1, sc) })
				}
				return asg(0, sc)
			}
			return t.expr(x.Rhs[i], sc, func(v string) string {
				if litRe.MatchString(v) {
					return rec(i+1, append(vals, v))
				}
				// a temporary keeps the value taken before any left-hand side changes
				tn := t.tmp()
				return "let " + tn + " := " + v + "\n" + rec(i+1, append(vals, tn))
			})
		}
		return rec(0, nil)
	case *ast.ExprStmt:
		if isPanicCall(t, x) {
			return ".panic"
		}
		t.fail(s, "expression statement (a call for its effect)")
	case *ast.ReturnStmt:
		return t.ret(x, sc)
	case *ast.BranchStmt:
		if x.Label != nil {
			t.fail(s, "labelled %s", x.Tok)
		}
		switch x.Tok {
		case token.BREAK:
			if c.brk == nil {
				t.fail(s, "break outside a loop")
			}
			return c.brk(sc)
		case token.CONTINUE:
			if c.cont == nil {
				t.fail(s, "continue outside a loop")
			}
			return c.cont(sc)
		}
		t.fail(s, "unsupported %s", x.Tok)
	case *ast.IfStmt:
		return t.ifStmt(x, sc, c, k)
	case *ast.ForStmt:
		return t.forStmt(x, sc, c, k)
	case *ast.RangeStmt:
		return t.rangeStmt(x, sc, c, k)
	}
	t.fail(s, "unsupported statement %T", s)
	return ""
}

func (t *tr) ret(x *ast.ReturnStmt, sc scope) string {
	finish := func(vals []string) string {
		for _, m := range t.mutRecv {
			vals = append(vals, m.name)
		}
		return ".ok " + tuple(vals)
	}
	if len(x.Results) == 0 {
		var vals []string
		for _, r := range t.results {
			vals = append(vals, r.name)
		}
		return finish(vals)
	}
	nres := 0
	if t.fn.Type.Results != nil {
		for _, f := range t.fn.Type.Results.List {
			if len(f.Names) == 0 {
				nres++
			} else {
				nres += len(f.Names)
			}
		}
	}
	if len(x.Results) != nres {
		t.fail(x, "return of a multi-value call")
	}
	var rec func(i int, vals []string) string
	rec = func(i int, vals []string) string {
		if i == len(x.Results) {
			return finish(vals)
		}
		// `nil` as an error / slice / string result
		if id, ok := x.Results[i].(*ast.Ident); ok && id.Name == "nil" {
			rt := t.resultType(i)
			return rec(i+1, append(vals, t.zero(x, rt)))
		}
		return t.expr(x.Results[i], sc, func(v string) string { return rec(i+1, append(vals, v)) })
	}
	return rec(0, nil)
}

func (t *tr) resultType(i int) string {
	j := 0
	for _, f := range t.fn.Type.Results.List {
		n := len(f.Names)
		if n == 0 {
			n = 1
		}
		for q := 0; q < n; q++ {
			if j == i {
				return t.leanType(f.Type, t.p.info.Types[f.Type].Type)
			}
			j++
		}
	}
	return ""
}

func elseList(s *ast.IfStmt) []ast.Stmt {
	switch e := s.Else.(type) {
	case nil:
		return nil
	case *ast.BlockStmt:
		return e.List
	default:
		return []ast.Stmt{e}
	}
}

func (t *tr) ifStmt(x *ast.IfStmt, sc scope, c ctl, k func(sc scope) string) string {
	if x.Init != nil {
		return t.stmt(x.Init, sc, c, func(sc2 scope) string {
			y := *x
			y.Init = nil
			return t.ifStmt(&y, sc2, c, func(scope) string { return k(sc) })
		})
	}
	els := elseList(x)
	thenFalls := t.fallsThrough(x.Body.List)
	elseFalls := t.fallsThrough(els)
	if thenFalls && elseFalls {
		// both ways reach the rest of the function: a join over the variables either branch assigns. Only for
		// branches without control flow (otherwise the rest would have to be duplicated: refused).
		if hasCtl(x.Body) || (x.Else != nil && hasCtl(x.Else)) {
			// no join is possible (a branch can also leave through return/break/continue): the rest of the function is
			// emitted in both branches. Refused when that rest is large (nested duplication would blow up).
			rest := k(sc)
			if len(rest) > 1500 {
				t.fail(x, "if statement whose branches both fall through and contain return/break/continue/loops, followed by a long continuation")
			}
			return t.expr(x.Cond, sc, func(cv string) string {
				th := t.stmts(x.Body.List, sc, c, func(scope) string { return k(sc) })
				el := t.stmts(els, sc, c, func(scope) string { return k(sc) })
				return "if " + cv + " then\n" + indent(th) + "\nelse\n" + indent(el)
			})
		}
		var nodes []ast.Node
		nodes = append(nodes, x.Body)
		if x.Else != nil {
			nodes = append(nodes, x.Else)
		}
		join := t.assigned(sc, nodes...)
		if len(join) == 0 {
			t.fail(x, "if statement without effect on local variables")
		}
		var names []string
		for _, v := range join {
			names = append(names, v.name)
		}
		gen := func(mon bool) (string, bool) {
			before := t.monadic
			kk := func(scope) string {
				if mon {
					return ".ok " + tuple(names)
				}
				return tuple(names)
			}
			txt := t.expr(x.Cond, sc, func(cv string) string {
				if t.monadic != before && !mon {
					return ""
				}
				th := t.stmts(x.Body.List, sc, ctl{}, kk)
				el := t.stmts(els, sc, ctl{}, kk)
				return "if " + cv + " then\n" + indent(th) + "\nelse\n" + indent(el)
			})
			return txt, t.monadic != before
		}
		txt, wasMon := gen(false)
		pat := tuple(names)
		if !wasMon {
			if !strings.Contains(txt, "\n  let ") && strings.Count(txt, "\n") == 3 {
				// `if c then\n  a\nelse\n  b` on one line
				ls := strings.Split(txt, "\n")
				txt = ls[0] + " " + strings.TrimSpace(ls[1]) + " else " + strings.TrimSpace(ls[3])
			}
			if len(names) == 1 {
				return "let " + pat + " := " + paren(txt) + "\n" + k(sc)
			}
			return "match " + paren(txt) + " with\n| " + pat + " =>\n" + indent(k(sc))
		}
		txt, _ = gen(true)
		t.monadic++
		if len(names) == 1 {
			return "bind (\n" + indent(txt) + ") fun " + pat + " =>\n" + k(sc)
		}
		return "bind (\n" + indent(txt) + ") fun " + pat + " =>\n" + k(sc)
	}
	// at most one way falls through: the rest of the function continues there, once
	return t.expr(x.Cond, sc, func(cv string) string {
		th := t.stmts(x.Body.List, sc, c, func(scope) string { return k(sc) })
		el := t.stmts(els, sc, c, func(scope) string { return k(sc) })
		return "if " + cv + " then\n" + indent(th) + "\nelse\n" + indent(el)
	})
}

const loopMark = "«LOOPCALL»"

// fuel: a bound on the number of iterations, read off the guard (first comparison of the conjunction)
func (t *tr) fuelExpr(cond ast.Expr, sc scope) string {
	for {
		switch x := cond.(type) {
		case *ast.ParenExpr:
			cond = x.X
			continue
		case *ast.BinaryExpr:
			if x.Op == token.LAND {
				cond = x.X
				continue
			}
			if !t.isPure(x.X) || !t.isPure(x.Y) {
				t.fail(cond, "loop guard with a bounds-checked operand: no fuel bound")
			}
			if t.leanType(x.X, t.tv(x.X).Type) != "Int" {
				t.fail(cond, "loop guard on %s: fuel bounds are only derived for int comparisons", t.tv(x.X).Type)
			}
			a := t.expr(x.X, sc, func(s string) string { return s })
			b := t.expr(x.Y, sc, func(s string) string { return s })
			switch x.Op {
			case token.LSS:
				return "(dist " + paren(a) + " " + paren(b) + ")"
			case token.GTR:
				return "(dist " + paren(b) + " " + paren(a) + ")"
			case token.LEQ:
				return "(dist " + paren(a) + " " + paren(b) + " + 1)"
			case token.GEQ:
				return "(dist " + paren(b) + " " + paren(a) + " + 1)"
			}
		}
		t.fail(cond, "loop guard %s: no fuel bound can be derived", t.src(cond))
	}
}

func (t *tr) forStmt(x *ast.ForStmt, sc scope, c ctl, k func(sc scope) string) string {
	if x.Cond == nil {
		t.fail(x, "for loop without a guard (no fuel bound)")
	}
	if iId, sId, elem, ok := t.indexScan(x, sc); ok {
		sub := &idxSubst{s: t.p.info.Uses[sId], i: t.p.info.Defs[iId]}
		t.notes = append(t.notes, fmt.Sprintf("index scan `for %s := 0; %s < len(%s); %s++` normalised to the range form", iId.Name, iId.Name, sId.Name, iId.Name))
		return t.listLoop(x, sId, elem, iId, nil, x.Body, sub, sc, c, k)
	}
	return t.stmt(x.Init, sc, c, func(sc1 scope) string {
		t.nloop++
		n := t.nloop
		afterName := fmt.Sprintf("%s_after%d", t.name, n)
		loopName := fmt.Sprintf("%s_loop%d", t.name, n)
		// what follows the loop (variables of the init statement are out of scope there)
		afterText := k(sc)
		afterVars := usedVars(afterText, sc)
		t.defs = append(t.defs, fmt.Sprintf("def %s%s : Res %s :=\n%s", afterName, binders(afterVars), t.resTy, indent(afterText)))
		callAfter := func(scope) string { return afterName + args(afterVars) }
		carried := t.assigned(sc1, x.Body, x.Post)
		for _, v := range carried {
			if v.strct != nil {
				t.fail(x, "loop assigns to a field of struct %s", v.name)
			}
		}
		next := func(scope) string {
			return t.stmt(x.Post, sc1, ctl{}, func(scope) string { return loopMark + args(carried) })
		}
		body := t.block(x.Body, sc1, ctl{brk: callAfter, cont: next}, next)
		full := t.expr(x.Cond, sc1, func(cv string) string {
			return "if " + cv + " then\n" + indent(body) + "\nelse\n" + indent(callAfter(sc1))
		})
		isCarried := map[string]bool{}
		for _, v := range carried {
			isCarried[v.name] = true
		}
		var ro scope
		for _, v := range usedVars(full, sc1) {
			if !isCarried[v.name] {
				ro = append(ro, v)
			}
		}
		full = strings.ReplaceAll(full, loopMark, loopName+args(ro)+" fuel")
		t.defs = append(t.defs, fmt.Sprintf("def %s%s (fuel : Nat)%s : Res %s :=\n  match fuel with\n  | 0 => .outOfFuel\n  | fuel + 1 =>\n%s",
			loopName, binders(ro), binders(carried), t.resTy, indent(indent(full))))
		fuel := t.fuelExpr(x.Cond, sc1)
		t.notes = append(t.notes, fmt.Sprintf("%s: fuel %s at entry (guard `%s`)", loopName, fuel, t.src(x.Cond)))
		return loopName + args(ro) + " " + fuel + args(carried)
	})
}

func (t *tr) rangeStmt(x *ast.RangeStmt, sc scope, c ctl, k func(sc scope) string) string {
	if x.Tok != token.DEFINE && (x.Key != nil || x.Value != nil) {
		t.fail(x, "range loop that assigns to existing variables")
	}
	xt := t.tv(x.X).Type
	sl, ok := xt.Underlying().(*types.Slice)
	if !ok {
		t.fail(x, "range over %s (only slices; a string ranges over runes)", xt)
	}
	var keyId, valId *ast.Ident
	if id, ok := x.Key.(*ast.Ident); ok && id.Name != "_" {
		keyId = id
	}
	if id, ok := x.Value.(*ast.Ident); ok && id.Name != "_" {
		valId = id
	}
	return t.listLoop(x, x.X, sl.Elem(), keyId, valId, x.Body, nil, sc, c, k)
}

// idxSubst: inside the body of a normalised index loop `for i := 0; i < len(s); i++`, `s[i]` is the head of the remaining list
type idxSubst struct {
	s, i types.Object
	head string
}

// indexScan recognises `for i := 0; i < len(s); i++ { body }` where s is a variable the body does not assign, i is declared by
// the loop and not assigned in the body: the same scan as `for i, v := range s` (with v = s[i]), so both spellings get the
// same Lean definition (structural recursion over s, no fuel, no bounds check on s[i]).
func (t *tr) indexScan(x *ast.ForStmt, sc scope) (iId *ast.Ident, sId *ast.Ident, elem types.Type, ok bool) {
	as, isAs := x.Init.(*ast.AssignStmt)
	if !isAs || as.Tok != token.DEFINE || len(as.Lhs) != 1 || len(as.Rhs) != 1 {
		return
	}
	iId, _ = as.Lhs[0].(*ast.Ident)
	if iId == nil || iId.Name == "_" {
		return
	}
	iObj := t.p.info.Defs[iId]
	if iObj == nil || t.leanTypeOK(iObj.Type()) != "Int" {
		return
	}
	if tv, has := t.p.info.Types[as.Rhs[0]]; !has || tv.Value == nil || tv.Value.Kind() != constant.Int || tv.Value.ExactString() != "0" {
		return
	}
	cond, isB := x.Cond.(*ast.BinaryExpr)
	if !isB || cond.Op != token.LSS {
		return
	}
	ci, _ := cond.X.(*ast.Ident)
	call, _ := cond.Y.(*ast.CallExpr)
	if ci == nil || call == nil || t.p.info.Uses[ci] != iObj || len(call.Args) != 1 {
		return
	}
	if fn, isId := call.Fun.(*ast.Ident); !isId || fn.Name != "len" {
		return
	} else if _, isBuiltin := t.p.info.Uses[fn].(*types.Builtin); !isBuiltin {
		return
	}
	sId, _ = call.Args[0].(*ast.Ident)
	if sId == nil {
		return
	}
	sObj := t.p.info.Uses[sId]
	sv := sc.find(sObj)
	if sv == nil || sv.strct != nil {
		return
	}
	switch u := sObj.Type().Underlying().(type) {
	case *types.Slice:
		elem = u.Elem()
	case *types.Basic:
		if u.Kind() != types.String {
			return
		}
		elem = types.Typ[types.Uint8]
	default:
		return
	}
	inc, isInc := x.Post.(*ast.IncDecStmt)
	if !isInc || inc.Tok != token.INC {
		return
	}
	if pi, _ := inc.X.(*ast.Ident); pi == nil || t.p.info.Uses[pi] != iObj {
		return
	}
	// the body assigns neither i nor s
	bad := false
	mark := func(e ast.Expr) {
		for {
			switch y := e.(type) {
			case *ast.ParenExpr:
				e = y.X
				continue
			case *ast.SelectorExpr:
				e = y.X
				continue
			case *ast.IndexExpr:
				e = y.X
				continue
			case *ast.Ident:
				if o := t.p.info.Uses[y]; o == iObj || o == sObj {
					bad = true
				}
			}
			return
		}
	}
	ast.Inspect(x.Body, func(n ast.Node) bool {
		switch y := n.(type) {
		case *ast.AssignStmt:
			for _, l := range y.Lhs {
				mark(l)
			}
		case *ast.IncDecStmt:
			mark(y.X)
		}
		return true
	})
	if bad {
		return
	}
	return iId, sId, elem, true
}

func (t *tr) leanTypeOK(ty types.Type) (lt string) {
	defer func() {
		if r := recover(); r != nil {
			if _, isTr := r.(trErr); isTr {
				lt = ""
				return
			}
			panic(r)
		}
	}()
	return t.leanType(nil, ty)
}

// listLoop: structural recursion over a list. keyId/valId are the loop's own variables (may be nil); with subst != nil the
// loop came from an index scan and `s[i]` in the body denotes the head.
func (t *tr) listLoop(x ast.Node, listExpr ast.Expr, elem types.Type, keyId, valId *ast.Ident, bodyB *ast.BlockStmt, subst *idxSubst,
	sc scope, c ctl, k func(sc scope) string) string {
	elemTy := t.leanType(listExpr, elem)
	t.nloop++
	n := t.nloop
	afterName := fmt.Sprintf("%s_after%d", t.name, n)
	loopName := fmt.Sprintf("%s_loop%d", t.name, n)
	afterText := k(sc)
	afterVars := usedVars(afterText, sc)
	t.defs = append(t.defs, fmt.Sprintf("def %s%s : Res %s :=\n%s", afterName, binders(afterVars), t.resTy, indent(afterText)))
	callAfter := func(scope) string { return afterName + args(afterVars) }
	// key and value are fresh per iteration
	sc1 := sc
	var keyV, valV *varInfo
	if keyId != nil {
		keyV, sc1 = t.declare(keyId, types.Typ[types.Int], sc1)
	}
	if valId != nil {
		valV, sc1 = t.declare(valId, elem, sc1)
	}
	carried := t.assigned(sc, bodyB)
	for _, v := range t.assigned(sc1, bodyB) {
		if v == keyV || v == valV {
			t.fail(x, "range loop body assigns to its key or value variable")
		}
		if v.strct != nil {
			t.fail(x, "loop assigns to a field of struct %s", v.name)
		}
	}
	idx := ""
	if keyV != nil {
		idx = keyV.name
	} else {
		idx = t.freshName("i")
	}
	head := ""
	if valV != nil {
		head = valV.name
	} else {
		head = t.freshName("v")
	}
	next := func(scope) string { return loopMark + " rem (" + idx + " + 1)" + args(carried) }
	saved := t.subst
	if subst != nil {
		subst.head = head
		t.subst = subst
	}
	body := t.block(bodyB, sc1, ctl{brk: callAfter, cont: next}, next)
	t.subst = saved
	isCarried := map[string]bool{idx: true, head: true}
	for _, v := range carried {
		isCarried[v.name] = true
	}
	var ro scope
	for _, v := range usedVars(body+"\n"+callAfter(sc), sc) {
		if !isCarried[v.name] {
			ro = append(ro, v)
		}
	}
	body = strings.ReplaceAll(body, loopMark, loopName+args(ro))
	t.defs = append(t.defs, fmt.Sprintf("def %s%s (rem : List %s) (%s : Int)%s : Res %s :=\n  match rem with\n  | [] => %s\n  | %s :: rem =>\n%s",
		loopName, binders(ro), paren(elemTy), idx, binders(carried), t.resTy, callAfter(sc), head, indent(indent(body))))
	t.notes = append(t.notes, fmt.Sprintf("%s: structural recursion over `%s`", loopName, t.src(listExpr)))
	return t.expr(listExpr, sc, func(xs string) string {
		return loopName + args(ro) + " " + paren(xs) + " (0 : Int)" + args(carried)
	})
}

// ---------------------------------------------------------------------------------------------------------------------
// one function

func (t *tr) collectPaths(v *varInfo, obj types.Object) {
	// every selector chain rooted at obj: the maximal chain must end in a field of a supported type
	seen := map[*ast.SelectorExpr]bool{}
	var visit func(n ast.Node) bool
	visit = func(n ast.Node) bool {
		sel, ok := n.(*ast.SelectorExpr)
		if !ok {
			return true
		}
		if seen[sel] {
			return false
		}
		// walk down to the root
		var names []string
		cur := ast.Expr(sel)
		for {
			switch y := cur.(type) {
			case *ast.SelectorExpr:
				seen[y] = true
				names = append([]string{y.Sel.Name}, names...)
				cur = y.X
				continue
			case *ast.ParenExpr:
				cur = y.X
				continue
			}
			break
		}
		id, ok := cur.(*ast.Ident)
		if !ok || t.p.info.Uses[id] != obj {
			// not ours: look inside
			for k := range seen {
				_ = k
			}
			return true
		}
		// `b.method(...)` on the struct parameter itself: a call (userCall), not a field path
		if se := t.p.info.Selections[sel]; se != nil && se.Kind() == types.MethodVal && len(names) == 1 {
			return false
		}
		// all selections must be field selections
		for e := ast.Expr(sel); ; {
			s, ok := e.(*ast.SelectorExpr)
			if !ok {
				break
			}
			if se := t.p.info.Selections[s]; se == nil || se.Kind() != types.FieldVal {
				t.fail(s, "method value or call on struct parameter: %s", t.src(s))
			}
			e = s.X
			for {
				if pe, ok := e.(*ast.ParenExpr); ok {
					e = pe.X
					continue
				}
				break
			}
		}
		path := strings.Join(names, ".")
		lt := t.leanType(sel, t.tv(sel).Type)
		if _, ok := v.strct.types[path]; !ok {
			v.strct.paths = append(v.strct.paths, path)
			v.strct.types[path] = lt
		}
		return false
	}
	ast.Inspect(t.fn.Body, visit)
}

func (t *tr) param(id *ast.Ident, ty types.Type, sc scope) scope {
	if id == nil || id.Name == "_" {
		return sc
	}
	obj := t.p.info.Defs[id]
	base := ty
	ptr := false
	if p, ok := ty.Underlying().(*types.Pointer); ok {
		base = p.Elem()
		ptr = true
	}
	if _, ok := base.Underlying().(*types.Struct); ok {
		if name := t.fullStruct(base); name != "" {
			v := &varInfo{obj: obj, name: t.freshName(id.Name), ty: name, full: true, ptr: ptr}
			t.vars[obj] = v
			return sc.with(v)
		}
		v := &varInfo{obj: obj, name: t.freshName(id.Name), ptr: ptr}
		v.strct = &structProj{leanName: t.name + "_" + id.Name, types: map[string]string{}, pointer: ptr}
		v.ty = v.strct.leanName
		t.collectPaths(v, obj)
		t.vars[obj] = v
		return sc.with(v)
	}
	if ptr {
		t.fail(id, "pointer parameter %s to a non-struct", id.Name)
	}
	v := &varInfo{obj: obj, name: t.freshName(id.Name), ty: t.leanType(id, ty)}
	t.vars[obj] = v
	return sc.with(v)
}

func translate(l *loader, p *pkgInfo, fn *ast.FuncDecl, leanName string, fc *fileCtx, opaque []string) (out string, err error) {
	t := &tr{l: l, p: p, fn: fn, name: leanName, vars: map[types.Object]*varInfo{}, used: map[string]bool{}, fc: fc,
		opaque: map[string]bool{}, opaqueV: map[string]*varInfo{}}
	for _, o := range opaque {
		t.opaque[o] = true
	}
	if fc.funcSeen[leanName] {
		return "", nil
	}
	fc.inProgress[leanName] = true
	defer delete(fc.inProgress, leanName)
	defer func() {
		if r := recover(); r != nil {
			if te, ok := r.(trErr); ok {
				err = fmt.Errorf("%s", te.msg)
				return
			}
			panic(r)
		}
	}()
	if fn.Body == nil {
		t.fail(fn, "no body")
	}
	if fn.Type.TypeParams != nil {
		t.fail(fn, "generic function")
	}
	// goroutines, defers, channels, closures, maps, switch/select/goto: refused up front with a clear message
	ast.Inspect(fn.Body, func(n ast.Node) bool {
		switch n.(type) {
		case *ast.GoStmt, *ast.DeferStmt, *ast.SendStmt, *ast.SelectStmt, *ast.FuncLit, *ast.LabeledStmt, *ast.TypeSwitchStmt, *ast.SwitchStmt,
			*ast.TypeAssertExpr, *ast.StarExpr, *ast.ChanType, *ast.MapType:
			t.fail(n, "unsupported construct %T", n)
		}
		return true
	})
	var sc scope
	if fn.Recv != nil {
		for _, f := range fn.Recv.List {
			for _, id := range f.Names {
				sc = t.param(id, t.p.info.Defs[id].Type(), sc)
			}
		}
	}
	for _, f := range fn.Type.Params.List {
		if _, ok := f.Type.(*ast.Ellipsis); ok {
			t.fail(f, "variadic parameter")
		}
		for _, id := range f.Names {
			sc = t.param(id, t.p.info.Defs[id].Type(), sc)
		}
	}
	// opaque callees become function parameters (pure, total functions of their explicit arguments)
	var opaqueVars scope
	ast.Inspect(fn.Body, func(n ast.Node) bool {
		c, ok := n.(*ast.CallExpr)
		if !ok {
			return true
		}
		callee, _ := t.calleeOf(c)
		if callee == nil || !t.opaque[callee.Name()] || t.opaqueV[callee.Name()] != nil {
			return true
		}
		sgn := callee.Type().(*types.Signature)
		if sgn.Results().Len() != 1 || sgn.Variadic() {
			t.fail(c, "opaque callee %s must have exactly one result", callee.Name())
		}
		var parts []string
		for i := 0; i < sgn.Params().Len(); i++ {
			parts = append(parts, paren(t.leanType(c, sgn.Params().At(i).Type())))
		}
		parts = append(parts, paren(t.leanType(c, sgn.Results().At(0).Type())))
		ov := &varInfo{obj: callee, name: t.freshName(callee.Name()), ty: strings.Join(parts, " → ")}
		t.opaqueV[callee.Name()] = ov
		opaqueVars = append(opaqueVars, ov)
		return true
	})
	for _, ov := range opaqueVars {
		sc = sc.with(ov)
	}
	params := sc
	// which struct parameters does the body assign to?
	for _, v := range t.assigned(sc, fn.Body) {
		if v.strct != nil {
			if !v.strct.pointer {
				t.fail(fn, "assignment to a field of the by-value struct parameter %s", v.name)
			}
			t.mutRecv = append(t.mutRecv, v)
		} else if v.full && v.ptr {
			t.mutRecv = append(t.mutRecv, v)
		}
	}
	// result type
	var rts []string
	prelude := ""
	if fn.Type.Results != nil {
		for _, f := range fn.Type.Results.List {
			lt := t.leanType(f.Type, t.p.info.Types[f.Type].Type)
			if len(f.Names) == 0 {
				rts = append(rts, lt)
			}
			for _, id := range f.Names {
				rts = append(rts, lt)
				if id.Name == "_" {
					t.fail(id, "blank named result")
				}
				v, sc2 := t.declare(id, t.p.info.Defs[id].Type(), sc)
				sc = sc2
				t.results = append(t.results, v)
				prelude += "let " + v.name + " := " + t.zeroOf(id, t.p.info.Defs[id].Type()) + "\n"
			}
		}
	}
	for _, m := range t.mutRecv {
		rts = append(rts, m.ty)
	}
	switch len(rts) {
	case 0:
		t.resTy = "Unit"
	case 1:
		t.resTy = rts[0]
	default:
		t.resTy = "(" + strings.Join(rts, " × ") + ")"
	}
	endOfBody := func(scope) string {
		if fn.Type.Results != nil && len(fn.Type.Results.List) > 0 && t.results == nil {
			t.fail(fn, "internal: control reaches the end of a function with results")
		}
		return t.ret(&ast.ReturnStmt{}, sc)
	}
	body := prelude + t.stmts(fn.Body.List, sc, ctl{}, endOfBody)

	var b strings.Builder
	// structures
	for _, v := range params {
		if v.strct == nil {
			continue
		}
		if len(v.strct.paths) == 0 {
			continue
		}
		fmt.Fprintf(&b, "/-- the fields of `%s` (%s) that `%s` touches; every other field is neither read nor written -/\n", v.obj.Name(), v.obj.Type(), fn.Name.Name)
		fmt.Fprintf(&b, "structure %s where\n", v.strct.leanName)
		sort.Strings(v.strct.paths) // independent of the order in which the body uses the fields
		for _, pth := range v.strct.paths {
			fmt.Fprintf(&b, "  %s : %s\n", strings.ReplaceAll(pth, ".", "_"), v.strct.types[pth])
		}
		b.WriteString("deriving DecidableEq, Repr\n\n")
	}
	for _, d := range t.defs {
		b.WriteString(d + "\n\n")
	}
	var ps scope
	for _, v := range params {
		if v.strct != nil && len(v.strct.paths) == 0 {
			continue
		}
		ps = append(ps, v)
	}
	pos := l.fset.Position(fn.Pos())
	rel, _ := filepath.Rel(l.repo, pos.Filename)
	fmt.Fprintf(&b, "/-- translated from `%s` (%s) -/\n", fn.Name.Name, rel)
	fmt.Fprintf(&b, "def %s%s : Res %s :=\n%s\n", t.name, binders(ps), t.resTy, indent(body))
	hdr := "-- " + strings.ReplaceAll(t.src(fn), "\n", "\n-- ") + "\n"
	for _, nt := range t.notes {
		hdr += "-- note: " + nt + "\n"
	}
	if t.intArith {
		hdr += "-- note: `int` arithmetic is translated to unbounded `Int` (side condition: no int64 overflow)\n"
	}
	for _, m := range t.mutRecv {
		hdr += "-- note: `" + m.name + "` is written through a pointer: its final value is the last component of the result\n"
	}
	for name := range t.opaqueV {
		hdr += "-- note: `" + name + "` is an opaque callee: a parameter of the definition (assumed to be a pure, total function of its explicit arguments)\n"
	}
	fc.funcSeen[leanName] = true
	fc.funcs = append(fc.funcs, hdr+b.String())
	fc.sigs[leanName] = &sig{params: ps, resTy: t.resTy, mutRecv: len(t.mutRecv) > 0, opaque: len(opaqueVars) > 0}
	return hdr + b.String(), nil
}

// ---------------------------------------------------------------------------------------------------------------------

func parseSpec(s, mod string) (pkg, recv, fn string, err error) {
	if i := strings.Index(s, ".("); i >= 0 {
		pkg = s[:i]
		rest := s[i+2:]
		j := strings.Index(rest, ").")
		if j < 0 {
			return "", "", "", fmt.Errorf("bad method spec %q", s)
		}
		recv = strings.TrimPrefix(rest[:j], "*")
		fn = rest[j+2:]
	} else {
		i := strings.LastIndex(s, ".")
		if i < 0 {
			return "", "", "", fmt.Errorf("bad function spec %q", s)
		}
		pkg, fn = s[:i], s[i+1:]
	}
	if !strings.HasPrefix(pkg, mod) {
		pkg = mod + "/" + pkg
	}
	return
}

func findFunc(pi *pkgInfo, recv, name string) *ast.FuncDecl {
	for _, f := range pi.files {
		for _, d := range f.Decls {
			fd, ok := d.(*ast.FuncDecl)
			if !ok || fd.Name.Name != name {
				continue
			}
			if recv == "" && fd.Recv == nil {
				return fd
			}
			if recv != "" && fd.Recv != nil && len(fd.Recv.List) == 1 {
				ty := fd.Recv.List[0].Type
				if st, ok := ty.(*ast.StarExpr); ok {
					ty = st.X
				}
				if id, ok := ty.(*ast.Ident); ok && id.Name == recv {
					return fd
				}
			}
		}
	}
	return nil
}

// survey: try every function of every package under the module and report which ones are inside the subset
func survey(repo, mod string) {
	l := &loader{fset: token.NewFileSet(), repo: repo, modpath: mod, pkgs: map[string]*pkgInfo{}, fakes: map[string]*types.Package{}, loading: map[string]bool{}}
	var dirs []string
	filepath.Walk(repo, func(p string, fi os.FileInfo, err error) error {
		if err != nil || !fi.IsDir() {
			return nil
		}
		if strings.HasPrefix(fi.Name(), ".") || fi.Name() == "vendor" || fi.Name() == "testdata" {
			return filepath.SkipDir
		}
		dirs = append(dirs, p)
		return nil
	})
	for _, d := range dirs {
		rel, _ := filepath.Rel(repo, d)
		path := mod
		if rel != "." {
			path = mod + "/" + filepath.ToSlash(rel)
		}
		pi, err := l.load(path)
		if err != nil {
			continue
		}
		for _, f := range pi.files {
			for _, dd := range f.Decls {
				fd, ok := dd.(*ast.FuncDecl)
				if !ok || fd.Body == nil {
					continue
				}
				name := fd.Name.Name
				spec := rel + "." + name
				if fd.Recv != nil && len(fd.Recv.List) == 1 {
					ty := fd.Recv.List[0].Type
					star := ""
					if st, ok := ty.(*ast.StarExpr); ok {
						ty = st.X
						star = "*"
					}
					if id, ok := ty.(*ast.Ident); ok {
						spec = rel + ".(" + star + id.Name + ")." + name
						name = id.Name + "_" + name
					}
				}
				_, err := translate(l, pi, fd, name, newFileCtx(), nil)
				if err != nil {
					fmt.Printf("NO  %s: %s\n", spec, err)
				} else {
					fmt.Printf("OK  %s\n", spec)
				}
			}
		}
	}
}

func main() {
	if len(os.Args) == 4 && os.Args[1] == "-survey" {
		survey(os.Args[2], os.Args[3])
		return
	}
	if len(os.Args) != 4 {
		fmt.Fprintln(os.Stderr, "usage: go2lean <repo-dir> <out-dir> <whitelist.json>")
		os.Exit(2)
	}
	repo, outDir := os.Args[1], os.Args[2]
	raw, err := os.ReadFile(os.Args[3])
	if err != nil {
		fmt.Fprintln(os.Stderr, err)
		os.Exit(2)
	}
	var wl whitelist
	if err := json.Unmarshal(raw, &wl); err != nil {
		fmt.Fprintln(os.Stderr, "whitelist:", err)
		os.Exit(2)
	}
	l := &loader{fset: token.NewFileSet(), repo: repo, modpath: wl.Module, pkgs: map[string]*pkgInfo{}, fakes: map[string]*types.Package{}, loading: map[string]bool{}}
	files := map[string]*fileCtx{}
	var order []string
	for _, spec := range wl.Functions {
		if _, ok := files[spec.File]; !ok {
			files[spec.File] = newFileCtx()
			order = append(order, spec.File)
		}
		pkg, recv, fn, err := parseSpec(spec.Go, wl.Module)
		problem := func(why string) {
			fmt.Printf("TRANSLATE-PROBLEM: %s: %s\n", spec.Go, why)
			files[spec.File].funcs = append(files[spec.File].funcs, fmt.Sprintf("-- NOT TRANSLATED: %s: %s\n", spec.Go, strings.ReplaceAll(why, "\n", " ")))
		}
		if err != nil {
			problem(err.Error())
			continue
		}
		pi, err := l.load(pkg)
		if err != nil {
			problem("package does not load: " + err.Error())
			continue
		}
		fd := findFunc(pi, recv, fn)
		if fd == nil {
			problem("function not found")
			continue
		}
		name := fn
		if recv != "" {
			name = recv + "_" + fn
		}
		if _, err := translate(l, pi, fd, name, files[spec.File], spec.Opaque); err != nil {
			problem(err.Error())
			continue
		}
	}
	sort.Strings(order)
	os.MkdirAll(outDir, 0o755)
	for _, f := range order {
		var b strings.Builder
		b.WriteString("import Logrange.Go.Sem\n")
		b.WriteString("/-! GENERATED by tools/go2lean from the Go source of /repo on every run — do not edit, not committed. -/\n")
		b.WriteString("set_option linter.unusedVariables false\n")
		fmt.Fprintf(&b, "namespace Logrange.Translated.%s\nopen Go Go.Sem\n\n", f)
		for _, st := range files[f].structs {
			b.WriteString(st + "\n")
		}
		b.WriteString(strings.Join(files[f].funcs, "\n"))
		fmt.Fprintf(&b, "\nend Logrange.Translated.%s\n", f)
		path := filepath.Join(outDir, f+".lean")
		old, err := os.ReadFile(path)
		if err == nil && string(old) == b.String() {
			continue
		}
		tmpf := path + ".tmp"
		if err := os.WriteFile(tmpf, []byte(b.String()), 0o644); err != nil {
			fmt.Fprintln(os.Stderr, err)
			os.Exit(2)
		}
		os.Rename(tmpf, path)
		fmt.Printf("go2lean: wrote %s\n", path)
	}
}
