module go2lean

go 1.21
