#!/bin/sh
# usage: run.sh <verif-dir> <repo-dir>
# Rebuilds the translator and regenerates <verif-dir>/lean/Logrange/Translated/*.lean from the Go source of <repo-dir>
# (a file is rewritten only when its content changes, so lake stays incremental). Prints
#   TRANSLATE-PROBLEM: <fn>: <why>
# for every whitelisted function that is missing or outside the supported subset (no definition is emitted for it).
# exit: 0 translated (possibly with TRANSLATE-PROBLEM lines), 2 usage / IO, 3 the translator does not build
V="$1"; REPO="$2"
[ -d "$V" ] && [ -d "$REPO" ] || { echo "usage: run.sh <verif-dir> <repo-dir>" >&2; exit 2; }
cd "$V/tools/go2lean" || exit 2
export GOFLAGS=-mod=mod GOPROXY=off GOSUMDB=off GOTOOLCHAIN=local GOCACHE="$V/.cache/gocache"
mkdir -p "$V/.cache/bin"
go build -o "$V/.cache/bin/go2lean" . || exit 3
exec "$V/.cache/bin/go2lean" "$REPO" "$V/lean/Logrange/Translated" "$V/tools/go2lean/whitelist.json"
