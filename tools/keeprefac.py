#!/usr/bin/env python3
"""keeprefac.py <src-dir> [<src-dir> ...] — stores behaviour-preserving refactorings (written by independent sub-agents that were
given only the property texts and a scratch worktree) as refactors/<ID>-<n>/ (patch.diff, README.md, meta.json) and records the
verdict of the property's check on each (tools/mutest.sh). The EXPECTED verdict is OK: the property still holds. An alarm here is
either a refactoring that is not behaviour-preserving after all (then the alarm is right) or a broken proof obligation /
correspondence caused by a harmless rewrite (reported as `no-failing-input-found`; see DESIGN 11.5).
A source dir is .../<ID>-<n>/ with patch.diff and README.md."""
import json, os, shutil, subprocess, sys
V = os.path.dirname(os.path.dirname(os.path.abspath(__file__)))
for src in sys.argv[1:]:
    src = os.path.abspath(src).rstrip("/")
    name = os.path.basename(src); pid = name.split("-")[0]
    dst = os.path.join(V, "refactors", name)
    os.makedirs(dst, exist_ok=True)
    if src != dst:
        for f in ("patch.diff", "README.md"):
            if os.path.exists(os.path.join(src, f)): shutil.copy(os.path.join(src, f), dst)
    env = dict(os.environ, MUTEST_TAIL="12")
    out = subprocess.run([os.path.join(V, "tools/mutest.sh"), pid, os.path.join(dst, "patch.diff")], stdout=subprocess.PIPE, stderr=subprocess.STDOUT, text=True, env=env).stdout
    lines = out.splitlines()
    verdict = [l for l in lines if l.startswith(("VIOLATION", "OK ", "CHECK-ERROR", "MUTEST"))]
    detail = [l.strip()[:300] for l in lines if l.strip().startswith(("BROKEN", "MISMATCH", "FAILURE", "EXTRACT"))][:4]
    v = verdict[-1] if verdict else "no verdict"
    what = ""
    rd = os.path.join(dst, "README.md")
    if os.path.exists(rd):
        what = open(rd).readline().strip().lstrip("# ").strip()
    meta = {"id": name, "property": pid, "source": "independent sub-agent given only the property texts and a scratch worktree; asked for behaviour-preserving refactorings",
            "what": what, "expected": "OK", "check_result": v.split(" replay=")[0] + (" no-failing-input-found" if v.endswith("no-failing-input-found") else ""),
            "alarm": not v.startswith("OK "), "detail": detail}
    json.dump(meta, open(os.path.join(dst, "meta.json"), "w"), indent=1)
    print("%s: %s %s" % (name, meta["check_result"], "; ".join(detail)[:200]))
