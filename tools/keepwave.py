#!/usr/bin/env python3
"""keepwave.py <ID> <seed-dir> [<seed-dir> ...] — stores the outputs of an isolated seeding agent (<dir>/patch.diff, README.md,
demo/ or *_test.go) as the next free seeded/<ID>-<n>/ via tools/keepseed.py (which confirms the change independently and runs the
property's check against it). `what` is the README's first heading, `needs` the text under its "needs…manifest" heading."""
import os, re, subprocess, sys, glob
V = os.path.dirname(os.path.dirname(os.path.abspath(__file__)))
pid = sys.argv[1]


def nextn():
    ns = [int(os.path.basename(d).split("-")[1]) for d in glob.glob(os.path.join(V, "seeded", pid + "-*")) if os.path.basename(d).split("-")[1].isdigit()]
    return max(ns + [0]) + 1


for src in sys.argv[2:]:
    src = os.path.abspath(src)
    rd = os.path.join(src, "README.md")
    txt = open(rd).read() if os.path.exists(rd) else ""
    lines = [l for l in txt.splitlines() if l.strip()]
    what = re.sub(r"^#+\s*", "", lines[0]).strip() if lines else os.path.basename(src)
    what = re.sub(r"^(Change|Seed(ed change)?)\s*\d+\s*[—:.-]+\s*", "", what).strip()
    m = re.search(r"^#+[^\n]*needs[^\n]*\n+(.*?)(?=^#+\s|\Z)", txt, re.S | re.M | re.I)
    needs = " ".join(m.group(1).split())[:700] if m else ""
    if not needs:
        m = re.search(r"(needs|manifest)[^\n]*:\s*(.+)", txt, re.I)
        needs = m.group(2)[:700] if m else ""
    n = nextn()
    os.makedirs(os.path.join(V, "seeded", "%s-%d" % (pid, n)), exist_ok=True)   # reserve the number
    subprocess.run([os.path.join(V, "tools/keepseed.py"), pid, str(n), src, what, needs])
