#!/usr/bin/env python3
"""Pins the normalised hashes of every source file named in a property's anchors (props/pinned_hashes.json). Run by hand
after /repo's HEAD changed on purpose (hook or fix commits). The check compares the current hashes with these only to direct
effort: a changed file makes the quick tier run at the thorough budget."""
import json, os, subprocess
V = os.path.dirname(os.path.dirname(os.path.abspath(__file__)))
files = set()
for l in open(os.path.join(V, "properties.jsonl")):
    files.update(json.loads(l)["anchors"]["files"])
for f in os.listdir(os.path.join(V, "props")):
    if f.startswith("C") and f.endswith(".json"):
        files.update(json.load(open(os.path.join(V, "props", f))).get("watch_files", []))
files = sorted(f for f in files if os.path.exists(os.path.join("/repo", f)))
out = subprocess.run([os.path.join(V, "tools/extract/hash.sh"), V, "/repo"] + files, stdout=subprocess.PIPE, text=True).stdout
pins = {}
for l in out.splitlines():
    p = l.split()
    if len(p) == 3 and p[0] == "HASH": pins[p[1]] = p[2]
head = subprocess.run(["git", "-C", "/repo", "rev-parse", "HEAD"], stdout=subprocess.PIPE, text=True).stdout.strip()
json.dump({"repo_head": head, "files": pins}, open(os.path.join(V, "props", "pinned_hashes.json"), "w"), indent=1, sort_keys=True)
print("pinned", len(pins), "files at", head[:8])
