#!/usr/bin/env python3
"""confirmseed.py <seed-dir> — confirms a seeded change independently of its author, in a scratch worktree of /repo's HEAD:
the patch applies, `go build ./...` works, the repository's test suite passes with it, and the demonstration fails with the
change and passes without it. The demonstration is either a standalone program (<seed-dir>/demo/main.go or e2e/main.go with a
go.mod whose replace is rewritten to the scratch worktree) or Go test files (copied into the package directory named by the
`go test … -run <name> ./<pkg>/` command in the README). Prints one JSON line; removes the scratch data."""
import json, os, re, shutil, subprocess, sys, tempfile, glob

ENV = dict(os.environ, GOFLAGS="-mod=mod", GOPROXY="off", GOSUMDB="off", GOTOOLCHAIN="local")


def sh(cmd, cwd, timeout=900):
    try:
        p = subprocess.run(cmd, cwd=cwd, env=ENV, shell=True, stdout=subprocess.PIPE, stderr=subprocess.STDOUT, text=True, timeout=timeout)
        return p.returncode, p.stdout
    except subprocess.TimeoutExpired:
        return 124, "timeout"


def main():
    src = os.path.abspath(sys.argv[1])
    w = tempfile.mkdtemp(prefix="confirm-")
    repo = os.path.join(w, "repo")
    res = {"seed": src}
    subprocess.run(["git", "-C", "/repo", "worktree", "add", "-q", repo, "HEAD"], check=True)
    try:
        readme = open(os.path.join(src, "README.md")).read() if os.path.exists(os.path.join(src, "README.md")) else ""
        tests = sorted(glob.glob(os.path.join(src, "*_test.go")))
        progs = [d for d in ("demo", "e2e") if os.path.exists(os.path.join(src, d, "main.go"))]
        tags = "-tags verif " if "-tags verif" in readme else ""

        def run_demo():
            """returns (ok: demo passes, detail)"""
            if tests:
                m = re.search(r"go test[^\n`]*?-run[ =]+['\"]?([A-Za-z0-9_|^$().]+)['\"]?[^\n`]*?\s(\./[A-Za-z0-9_/.-]+)", readme)
                pkg = m.group(2) if m else None
                if not pkg:
                    m2 = re.search(r"(?:cop(?:y|ied)[^\n]*?|into |goes in )`?((?:pkg|api|server|client)[A-Za-z0-9_/.-]*/)`?", readme)
                    pkg = "./" + m2.group(1) if m2 else None
                if not pkg:
                    return None, "cannot find the package directory in README"
                pkgdir = os.path.join(repo, pkg.lstrip("./"))
                names = []
                for t in tests:
                    shutil.copy(t, pkgdir)
                    names += re.findall(r"func (Test[A-Za-z0-9_]+)\(", open(t).read())
                rc, out = sh("go test -mod=mod -vet=off -count=1 %s-run '^(%s)$' %s" % (tags, "|".join(names), pkg), repo)
                for t in tests:
                    os.remove(os.path.join(pkgdir, os.path.basename(t)))
                return rc == 0, out[-600:]
            if progs:
                d = os.path.join(w, "demo")
                if os.path.exists(d): shutil.rmtree(d)
                shutil.copytree(os.path.join(src, progs[0]), d)
                gm = os.path.join(d, "go.mod")
                if os.path.exists(gm):
                    s = open(gm).read()
                    s = re.sub(r"(github.com/logrange/logrange\s*=>\s*)\S+", r"\1" + repo, s)
                    open(gm, "w").write(s)
                shutil.copy(os.path.join(repo, "go.sum"), os.path.join(d, "go.sum"))
                rc, out = sh("go run %s." % tags, d)
                return rc == 0, out[-600:]
            return None, "no demonstration found"

        ok0, d0 = run_demo()
        res["demo_passes_without"] = ok0
        rc, out = sh("git apply " + os.path.join(src, "patch.diff"), repo)
        res["applies"] = rc == 0
        if rc != 0:
            res["detail"] = out[-300:]
        else:
            rc, out = sh("go build ./... && go build -tags verif ./...", repo)
            res["builds"] = rc == 0
            rc, out = sh("go test -mod=mod -vet=off -count=1 ./... 2>&1 | grep -v 'no test files'", repo)
            res["tests_pass"] = ("FAIL" not in out) and ("ok" in out)
            if not res["tests_pass"]:
                # the suite has a few timing-dependent tests (pkg/scanner uses the fixed directory /tmp/scannertest, pkg/cursor and
                # pkg/container compare wall-clock times): failing packages are re-run alone, up to three times each
                failed = sorted(set(re.findall(r"^(?:FAIL|---\s*FAIL)?\s*FAIL\s+(github.com/logrange/logrange/\S+)", out, re.M)))
                still = []
                for pk in failed:
                    rel = "./" + pk.split("github.com/logrange/logrange/")[1]
                    for _ in range(3):
                        rc2, out2 = sh("go test -mod=mod -vet=off -count=1 %s" % rel, repo)
                        if rc2 == 0: break
                    else:
                        still.append(pk)
                res["tests_pass"] = bool(failed) and not still
                if failed: res["flaky_reruns"] = failed
                if not res["tests_pass"]: res["test_output"] = out[-500:]
            ok1, d1 = run_demo()
            res["demo_fails_with"] = (ok1 is False)
            if ok1 is not False: res["detail"] = d1
        if ok0 is not True: res["detail0"] = d0
        res["confirmed"] = bool(res.get("applies") and res.get("builds") and res.get("tests_pass") and res.get("demo_fails_with") and res.get("demo_passes_without"))
    finally:
        subprocess.run(["git", "-C", "/repo", "worktree", "remove", "--force", repo])
        shutil.rmtree(w, ignore_errors=True)
    print(json.dumps(res))


if __name__ == "__main__":
    main()
