#!/bin/sh
# usage: runall.sh [tier] [ids...] — runs the claimed checks one after the other on /repo as it is and prints one summary line each
# (used to regenerate evidence/*.json from plain runs before committing, and as an unchanged-tree sweep: VERIF_SEED=n tools/runall.sh)
cd "$(dirname "$0")/.."
TIER="${1:-quick}"; shift 2>/dev/null
IDS="$@"; [ -z "$IDS" ] && IDS=$(python3 -c "import json;print(' '.join(json.load(open('tools/claimed.json'))))")
for id in $IDS; do
  s=$(date +%s)
  out=$(./check $id $TIER 2>&1); rc=$?
  e=$(date +%s)
  echo "$id rc=$rc $((e-s))s $(echo "$out" | grep -c '^KNOWN-FINDING') known | $(echo "$out" | grep -E '^(OK|VIOLATION|CHECK-ERROR)' | tail -1 | cut -c1-150)"
  [ $rc -ne 0 ] && echo "$out" | grep -E "^  (BROKEN|FAILURE|MISMATCH|    input)" | cut -c1-400
done
