#!/bin/sh
# usage: mutest.sh <ID> <patch.diff> [tier]   — runs ./check <ID> against a scratch worktree of /repo's HEAD with the patch applied,
# using a private copy of /verif (so that /repo, /verif/lean/Logrange/Generated and evidence/ are not disturbed). Prints the tail of
# the check's output. Scratch data is removed afterwards. MUTEST_HEAD=1: use /verif's committed HEAD instead of its working tree.
ID="$1"; PATCH="$(readlink -f "$2")"; TIER="${3:-quick}"
W="/tmp/mt-$ID-$$"
mkdir -p "$W/verif"
if [ -n "$MUTEST_HEAD" ]; then
  # committed state of /verif only (builder agents may be mid-edit in the working tree) + the build caches
  git -C /verif archive HEAD | tar -x -C "$W/verif" && rsync -a /verif/lean/.lake "$W/verif/lean/" && rsync -a /verif/lean/Logrange/Generated "$W/verif/lean/Logrange/" && { [ -d /verif/lean/Logrange/Translated ] && rsync -a /verif/lean/Logrange/Translated "$W/verif/lean/Logrange/"; true; } && mkdir -p "$W/verif/.cache" && ln -s /verif/.cache/gocache "$W/verif/.cache/gocache"
else
  rsync -a --exclude .cache --exclude .git --exclude replays /verif/ "$W/verif/"
fi
[ -x "$W/verif/check" ] || exit 2
git -C /repo worktree add -q "$W/repo" HEAD || exit 2
# (a patch written against an older HEAD is applied with --3way)
# uncommitted verif-tagged export files of /repo's working tree are part of the harness' interface: copy them
(cd /repo && git ls-files --others --exclude-standard | grep -E '(export[a-z0-9_]*_verif|_verif)\.go$' | while read f; do mkdir -p "$W/repo/$(dirname "$f")"; cp "$f" "$W/repo/$f"; done)
if ! git -C "$W/repo" apply "$PATCH" 2>/dev/null && ! git -C "$W/repo" apply --3way "$PATCH"; then echo "MUTEST: patch does not apply"; git -C /repo worktree remove --force "$W/repo"; rm -rf "$W"; exit 3; fi
(cd "$W/verif" && VERIF_REPO="$W/repo" ./check "$ID" "$TIER" 2>&1 | tail -${MUTEST_TAIL:-6})
if [ -n "$MUTEST_REPLAY_OUT" ]; then r=$(ls "$W/verif/replays/"*.json 2>/dev/null | head -1); [ -n "$r" ] && cp "$r" "$MUTEST_REPLAY_OUT"; fi
if [ -n "$MUTEST_KEEP" ]; then echo "kept $W"; else git -C /repo worktree remove --force "$W/repo"; rm -rf "$W"; fi
