#!/usr/bin/env python3
"""prints the prompt for an isolated mutation-seeding agent: only the property's text and a scratch worktree"""
import json, sys
pid = sys.argv[1]; n = sys.argv[2] if len(sys.argv) > 2 else "3"; base = sys.argv[3] if len(sys.argv) > 3 else "/tmp/seed"
for l in open('/verif/properties.jsonl'):
    p = json.loads(l)
    if p['id'] == pid: break
lc = pid.lower()
print(f"""You are testing how well a Go code base's behaviour is pinned down. You have your own scratch git worktree of the repository logrange/logrange (a streaming log database server in Go) at {base}/{lc} — work ONLY inside {base}/{lc} and {base}/{lc}-out (create it). Do not read or touch /verif or /repo (off limits for this task) and do not use the network (there is none). Go environment for every shell call: `export GOFLAGS=-mod=mod GOPROXY=off GOSUMDB=off GOTOOLCHAIN=local`. The repository's tests run with `cd {base}/{lc} && go test -mod=mod -vet=off -count=1 ./...` (all pass now). Dependencies' sources are in /root/go/pkg/mod (read-only).

This semantic property of the system should hold:

"{p['title']}. {p['statement']}"
It is quantified over: {p['quantifier']['text']}. Relevant code: {', '.join(p['anchors']['files'])}.

YOUR TASK: produce {n} different, realistic changes to the code (like bugs a developer could plausibly introduce in a refactoring or "optimisation"), each of which BREAKS this property while the repository STILL COMPILES and the EXISTING TEST SUITE STILL PASSES. Prefer changes that need something specific to manifest — a particular multi-step sequence of operations, an unusual or boundary input, a particular interleaving or timing, a crash or restart at a particular point, or two cooperating sites that each look fine alone — NOT ones that any ordinary single use would expose at once. Make the changes different in kind and in the clause of the property they break, and each small (a few lines).

For each change i create {base}/{lc}-out/<i>/ with:
- patch.diff — `git diff` of the change against the worktree's HEAD (apply with `git apply`), touching only non-test source files of the repository;
- a demonstration that FAILS with the change and PASSES without it: either a Go test file (say which package directory it must be copied into and the `go test -run` command) or a small standalone program (a directory with main.go and a go.mod `module demo; go 1.12; require github.com/logrange/logrange v0.0.0; replace github.com/logrange/logrange => {base}/{lc}` plus `cp {base}/{lc}/go.sum .`; say how to run it). It may start the real server in-process: `cfg := server.GetDefaultConfig(); cfg.BaseDir = <temp dir>; cfg.PublicApiRpc.ListenAddr = "127.0.0.1:<free port>"; cfg.JrnlCtrlConfig.WriteFlushMs = 5; go server.Start(ctx, cfg)` (cancel ctx = graceful shutdown; Start again on the same BaseDir = restart), client `rpc.NewClient(transport.Config{{ListenAddr: addr}})` (packages api/rpc and github.com/logrange/range/pkg/transport) giving Write / Query / Execute (admin LQL statements; operation errors come back in the result's Err field) / EnsurePipe; readers only see flushed records (sleep a few flush periods after a Write); quiet logs with `log4g.SetLogLevel("", log4g.FATAL)` (github.com/jrivets/log4g). Or call the packages directly;
- README.md — what the change is, which clause of the property it breaks, what it needs in order to manifest, and the exact commands you ran with their observed results (demo fails with the patch, passes without; `go build ./...` and the full `go test` pass with the patch).
Verify all of that yourself before reporting: apply patch → build → full test suite passes → demo fails; `git checkout -- .` → demo passes. Leave the worktree clean (no patch applied) at the end. Final message: a short table of the changes (files touched, clause broken, what they need to manifest).""")
