#!/usr/bin/env python3
"""Rewrites the generated part of DESIGN.md (between the STATUS markers): per-property status from props/*.json, the
known-findings table from known_findings.json + known_findings.d/*.json, and the seeded-change table from seeded/*/meta.json."""
import json, os, glob, re
V = os.path.dirname(os.path.dirname(os.path.abspath(__file__)))
claimed = json.load(open(os.path.join(V, "tools", "claimed.json")))
out = []
out.append("### 12.1 Per-property status (generated from props/*.json by tools/mkdesign.py)\n")
for f in sorted(glob.glob(os.path.join(V, "props", "C*.json"))):
    c = json.load(open(f)); pid = c["id"]
    out.append("**%s** — %s. Level claimed: `%s`. Build notes: `design-notes/%s.md`.\n" % (pid, "claimed in MANIFEST.json" if pid in claimed else "NOT yet claimed", c["level"], pid))
    out.append("*Technique:* %s\n" % c.get("technique", ""))
    ps = c.get("proved_status", {})
    if isinstance(ps, dict):
        for k, v in ps.items(): out.append("* `%s`: %s" % (k, v))
    else:
        out.append("* %s" % ps)
    out.append("* obligations audited on every run: %d theorems (%s …)" % (len(c.get("theorems", [])), ", ".join(c.get("theorems", [])[:6])))
    out.append("")
out.append("### 12.2 Findings (generated from known_findings.json and known_findings.d/*.json)\n")
out.append("| id | property | status | site | what fails |\n|---|---|---|---|---|")
fs = json.load(open(os.path.join(V, "known_findings.json")))["findings"]
for g in sorted(glob.glob(os.path.join(V, "known_findings.d", "*.json"))):
    fs += json.load(open(g))["findings"]
def esc(s): return str(s).replace("|", "\\|").replace("\n", " ")
n19 = 0
for x in fs:
    if x["id"].startswith("F19-"):
        n19 += 1; continue
    st = x["status"] + (" (" + x.get("commit", "") + ")" if x["status"] == "fixed" else "")
    out.append("| %s | %s | %s | %s | %s |" % (x["id"], x["property"], st, esc(x.get("site", ""))[:110], esc(x.get("what_fails", ""))[:260]))
if n19:
    out.append("| F19-* | C20 | open | pkg/scanner/parser/date/date.go, pkg/lql/datetime.go | %d classes, one per (format list, format index, what claims the text): cross-format shadowing by earlier unanchored formats, the damaged MST literal, DDDD not matching Wednesday — listed individually in known_findings.d/C20.json |" % n19)
out.append("")
out.append("### 12.3 Seeded changes and which check catches them (generated from seeded/*/meta.json)\n")
out.append("| id | property | what the change is | needs to manifest | caught by |\n|---|---|---|---|---|")
for g in sorted(glob.glob(os.path.join(V, "seeded", "*", "meta.json"))):
    m = json.load(open(g))
    out.append("| %s | %s | %s | %s | %s |" % (m["id"], m["property"], esc(m["what"])[:230], esc(m.get("needs_to_manifest", m.get("expected", "")))[:160], esc(m.get("caught_by", ""))[:260] + (" — SUPERSEDED: " + esc(m["superseded"])[:300] if m.get("superseded") else "")))
out.append("")
rf = sorted(glob.glob(os.path.join(V, "refactors", "*", "meta.json")))
if rf:
    out.append("### 12.3b Behaviour-preserving refactorings and the checks' verdicts (generated from refactors/*/meta.json; expected verdict: OK)\n")
    out.append("| id | property | what the refactoring is | verdict of the check | detail when it alarms |\n|---|---|---|---|---|")
    for g in rf:
        m = json.load(open(g))
        out.append("| %s | %s | %s | %s | %s |" % (m["id"], m["property"], esc(m["what"])[:200], esc(m["check_result"])[:90], esc("; ".join(m.get("detail", [])))[:220] + (" — " + esc(m["comment"]) if m.get("comment") else "")))
    out.append("")
out.append("### 12.4 Per-property build notes (as built; copied from design-notes/Cxx.md by tools/mkdesign.py)\n")
for g in sorted(glob.glob(os.path.join(V, "design-notes", "C*.md"))) + [os.path.join(V, "design-notes", "translator.md")]:
    if not os.path.exists(g): continue
    pid = os.path.basename(g)[:-3]
    out.append("#### %s — as built\n" % pid)
    for line in open(g).read().split("\n"):
        if line.startswith("#"):
            line = "#####" + " " + line.lstrip("#").strip()
        out.append(line)
    out.append("")
p = os.path.join(V, "DESIGN.md")
s = open(p).read()
B, E = "<!-- BEGIN GENERATED STATUS -->", "<!-- END GENERATED STATUS -->"
block = B + "\n" + "\n".join(out) + "\n" + E
if B in s:
    s = s[:s.index(B)] + block + s[s.index(E) + len(E):]
else:
    s += "\n\n## 12. Status, findings and seeded changes\n\n" + block + "\n"
open(p, "w").write(s)
print("DESIGN.md status section rewritten:", len(out), "lines")
