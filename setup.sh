#!/bin/sh
# Build the framework from files on disk only (offline): extractor, generated facts, Lean library + proofs + model
# drivers, Go harness binaries. Run once after a fresh restore; every check rebuilds incrementally what it needs.
set -e
cd "$(dirname "$0")"
export GOFLAGS=-mod=mod GOPROXY=off GOSUMDB=off GOTOOLCHAIN=local GOCACHE="$PWD/.cache/gocache"
mkdir -p .cache/bin .cache/run evidence replays harness/bin
(cd tools/extract && go build -o ../../.cache/bin/extract .)
./.cache/bin/extract /repo lean/Logrange/Generated
(cd lean && lake build)
cp /repo/go.sum harness/go.sum
(cd harness && for d in cmd/*/; do n=$(basename "$d"); go build -tags verif -o "bin/$n" "./cmd/$n"; done)
echo setup done
