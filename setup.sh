#!/bin/sh
# Build the framework from files on disk only (offline): extractor, generated facts, and — for every property claimed in
# MANIFEST.json — its Lean proof modules + model driver and its Go harness binary. Run once after a fresh restore; every
# check rebuilds incrementally what it needs. A property whose build fails here does not stop the others: its own check
# reports the failure.
cd "$(dirname "$0")"
export GOFLAGS=-mod=mod GOPROXY=off GOSUMDB=off GOTOOLCHAIN=local GOCACHE="$PWD/.cache/gocache"
mkdir -p .cache/bin .cache/run evidence replays harness/bin
cp /repo/go.sum harness/go.sum
ids=$(python3 -c "import json;print(' '.join(c['property_id'] for c in json.load(open('MANIFEST.json'))['checks']))")
rc=0
for id in $ids; do
  e=$(python3 -c "import json;print(' '.join(json.load(open('props/$id.json')).get('extract',[])))")
  [ -n "$e" ] && { ./tools/extract/run.sh "$PWD" /repo $e || { echo "setup: extractor of $id failed"; rc=1; }; }
done
# translated functions (tools/go2lean): regenerated from /repo's Go source, like the facts
./tools/go2lean/run.sh "$PWD" /repo || { echo "setup: go2lean failed"; rc=1; }
targets="Logrange.AuditCmd"
for id in $ids; do
  targets="$targets $(python3 -c "import json;print(' '.join(json.load(open('props/$id.json'))['lean_targets']))")"
done
(cd lean && lake build $targets) || { echo "setup: lake build of all targets failed; building per property"; 
  for id in $ids; do t=$(python3 -c "import json;print(' '.join(json.load(open('props/$id.json'))['lean_targets']))"); (cd lean && lake build Logrange.AuditCmd $t) || { echo "setup: Lean targets of $id do not build"; rc=1; }; done; }
for id in $ids; do
  h=$(python3 -c "import json;print(json.load(open('props/$id.json'))['harness'])")
  (cd harness && go build -tags verif -o "bin/$h" "./cmd/$h") || { echo "setup: harness of $id does not build"; rc=1; }
done
# a part that failed to build here is reported by the check that needs it (as a broken obligation / check error of that property);
# setup itself never fails because of it, so that the other properties' checks still run
echo "setup done (problems above: $rc)"
exit 0
