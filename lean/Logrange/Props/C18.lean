import Logrange.Proofs.Forwarder
import Logrange.Generated.C18
import Logrange.Model.StateFile
/-!
# C18 — Forwarder: in-order at-least-once delivery; saved position never ahead

Property theorems only. Model: `Model/Forwarder.lean` (worker loop, persist, stop/crash/restart as a labelled
transition system over every sequence of query faults, sink rejections, persist ticks, growth and restarts);
lemmas: `Proofs/Forwarder.lean`. The order of `OnEvent` / `setPosition` / request replacement in the loop is
regenerated from `/repo` (`Generated.C18`).
-/
namespace Logrange.Props.C18
open Logrange.Forwarder

/-- the loop configuration as the extractor reads it from `/repo` now -/
def genCfg : Cfg :=
  { setAfterAccept := Generated.C18.setPositionAfterAccept,
    retryRejected := Generated.C18.requestReplacedOnlyAfterAccept && Generated.C18.failuresRetry }

theorem genCfg_eq : genCfg = codeCfg := by decide

/-- the remaining code facts the model rests on -/
theorem code_facts :
    Generated.C18.firstRequestFromDescPosition = true ∧ Generated.C18.persistCopiesPosition = true ∧
    Generated.C18.finalPersistAfterLoop = true ∧ 0 < Generated.C18.pageLimit := by decide

/-- **`delivered_prefix`** For every sequence of query transport errors, server errors, empty results, pages of
any size, sink accept/reject decisions, persist ticks, growth of the partition, graceful stops and crashes:
what the sink accepted in the current session is exactly the run of consecutive events
`sessionStart, sessionStart+1, …, pos-1` in stored order — no gap, no duplicate, nothing delivered after a
rejected batch or failed query before that batch itself — and it lies inside the partition. -/
theorem delivered_prefix (n start : Nat) (hs : start ≤ n) (tr : List L) :
    let s := run genCfg (init n start) tr
    s.sess = List.range' s.sessionStart (s.pos - s.sessionStart) ∧ s.sessionStart ≤ s.pos ∧ s.pos ≤ s.n := by
  intro s
  have h : FInv s := by
    show FInv (run genCfg (init n start) tr)
    rw [genCfg_eq]; exact finv_run tr _ (finv_init n start hs)
  exact ⟨h.sessEq, h.startLe, h.posLe⟩

/-- **`position_never_ahead`** The persisted position is never beyond the position after the last batch the sink
accepted in this session (`desc = pos = sessionStart + number of accepted events`), and every event before it —
from the very first start on — has been accepted by the sink at least once. -/
theorem position_never_ahead (n start : Nat) (hs : start ≤ n) (tr : List L) :
    let s := run genCfg (init n start) tr
    s.persisted ≤ s.desc ∧ s.desc = s.pos ∧ s.pos = s.sessionStart + s.sess.length ∧
    (∀ i, start ≤ i → i < s.persisted → i ∈ s.all) := by
  intro s
  have h : FInv s := by
    show FInv (run genCfg (init n start) tr)
    rw [genCfg_eq]; exact finv_run tr _ (finv_init n start hs)
  have hst : s.start0 = start := run_start0 genCfg tr (init n start)
  refine ⟨by rw [h.descPos]; exact h.perLe, h.descPos, ?_, ?_⟩
  · rw [h.sessEq]; simp; have := h.startLe; omega
  · intro i h1 h2
    apply h.cover i (by rw [hst]; exact h1)
    have := h.perLe; have := h.posHigh; omega

/-- **`restart_redelivers_tail`** A restart (after a graceful stop or a crash at any moment) begins at the persisted
position: it is not behind the very first start, not beyond anything accepted (`≤ high`), so re-delivery is
confined to events at or after the persisted position, and nothing is skipped: every event below the
high-water mark has been accepted at least once, at all times. After a *graceful* stop the new session starts
exactly where the old one ended (no re-delivery at all). -/
theorem restart_redelivers_tail (n start : Nat) (hs : start ≤ n) (tr : List L) :
    let s := run genCfg (init n start) tr
    (∀ i ∈ s.sess, s.sessionStart ≤ i) ∧ start ≤ s.sessionStart ∧ s.sessionStart ≤ s.high ∧
    (∀ i, start ≤ i → i < s.high → i ∈ s.all) ∧ (∀ i ∈ s.all, start ≤ i ∧ i < s.high) ∧ s.high ≤ s.n ∧
    (step genCfg s .crash).sessionStart = s.persisted ∧ (step genCfg s .graceful).sessionStart = s.pos ∧
    (step genCfg s .stop).sessionStart = s.pos := by
  intro s
  have h : FInv s := by
    show FInv (run genCfg (init n start) tr)
    rw [genCfg_eq]; exact finv_run tr _ (finv_init n start hs)
  have hst : s.start0 = start := run_start0 genCfg tr (init n start)
  refine ⟨?_, by rw [← hst]; exact h.s0Sess, by have := h.startLe; have := h.posHigh; omega, ?_, ?_, h.highLe, rfl, ?_, ?_⟩
  · intro i hi; rw [h.sessEq] at hi; simp only [List.mem_range'_1] at hi; exact hi.1
  · intro i h1 h2; exact h.cover i (by rw [hst]; exact h1) h2
  · intro i hi; have := h.allLt i hi; rw [hst] at this; exact this
  · simp only [step, restart]; exact h.descPos
  · simp only [step, restart]; exact h.descPos

/-- **`restart_redelivery_bounded`** (explicit bound for `restart_redelivers_tail`). At every moment the worker's
position is the persisted position plus the number of events accepted since the last persist (or restart). So a
crash re-delivers exactly the events of the batches accepted since the last persist — `[persisted, pos)`,
`accSince` of them; and a crash between the sink's accept and `setPosition` (one batch in flight) re-delivers
those plus that one batch: `[persisted, pos + k')`, `k' = min k (n - pos)`. Nothing else is ever delivered twice:
the new session starts exactly at `persisted`. -/
theorem restart_redelivery_bounded (n start : Nat) (hs : start ≤ n) (tr : List L) (k : Nat) :
    let s := run genCfg (init n start) tr
    s.pos = s.persisted + s.accSince ∧
    (step genCfg s .crash).sessionStart = s.persisted ∧ (step genCfg s .crash).all = s.all ∧
    (step genCfg s (.crashAfterAccept k)).sessionStart = s.persisted ∧
    (step genCfg s (.crashAfterAccept k)).all = s.all ++ List.range' s.pos (min k (s.n - s.pos)) := by
  intro s
  have h : FInv s := by
    show FInv (run genCfg (init n start) tr)
    rw [genCfg_eq]; exact finv_run tr _ (finv_init n start hs)
  exact ⟨h.accEq, rfl, rfl, rfl, rfl⟩

/-- **`drains_when_quiet`** (eventual completeness, bounded form). From any reachable state, if from now on every
query answers a page of up to `k ≥ 1` events (the page limit) and the sink accepts — no faults, no growth, no stop —
then after `m` iterations with `m · k ≥ n - pos` (e.g. `m = ⌈(n - pos)/k⌉`) the worker's position is the end of
the partition, every event of the partition from the first start on has been accepted by the sink at least once,
and the next persist stores the end position. -/
theorem drains_when_quiet (n start : Nat) (hs : start ≤ n) (tr : List L) (k m : Nat) :
    let s := run genCfg (init n start) tr
    s.n - s.pos ≤ m * k →
    let s' := run genCfg s (List.replicate m (.page k true))
    s'.pos = s.n ∧ s'.n = s.n ∧ (∀ i, start ≤ i → i < s.n → i ∈ s'.all) ∧
    (step genCfg s' .persist).persisted = s.n := by
  intro s hm s'
  have h : FInv s := by
    show FInv (run genCfg (init n start) tr)
    rw [genCfg_eq]; exact finv_run tr _ (finv_init n start hs)
  have hp := run_pages genCfg k m s h.posLe
  have hpos : s'.pos = s.n := by
    show (run genCfg s (List.replicate m (.page k true))).pos = s.n
    rw [hp.1]; have := h.posLe; rw [Nat.min_def]; split <;> omega
  have h' : FInv s' := by
    show FInv (run genCfg s (List.replicate m (.page k true)))
    rw [genCfg_eq]; exact finv_run _ _ h
  have hn : s'.n = s.n := hp.2
  have hst : s'.start0 = start := by
    show (run genCfg (run genCfg (init n start) tr) _).start0 = start
    rw [run_start0, run_start0]; rfl
  refine ⟨hpos, hn, ?_, ?_⟩
  · intro i h1 h2
    apply h'.cover i (by rw [hst]; exact h1)
    have := h'.posHigh; omega
  · show s'.desc = s.n
    rw [h'.descPos, hpos]

/-! ### worker start and the state file (the code after fixes b3f8b31, 1b7795d, 23be637, e59ee79) -/

/-- the start configuration as the extractor reads it from `/repo` now -/
def genStartCfg : StartCfg :=
  { reportsFailure := Generated.C18.ensurePipeReportsFailure,
    marksStopped := Generated.C18.workerMarksStoppedOnStartError }

/-- a failed query of any kind — also an answer that could not be decoded — reaches the worker as a failed query -/
theorem start_facts : genStartCfg = ⟨true, true⟩ ∧ Generated.C18.queryReturnsDecodeError = true := by decide

/-- **`failed_ensure_is_retried`** For every sequence of `EnsurePipe` successes and transport failures and sync ticks:
the worker is never lost (`dead`: ended without saying so) and never blind (polling an empty destination); whatever
happened before, one sync tick and one successful `EnsurePipe` later it runs its poll loop — from where
`drains_when_quiet` forwards every event of the pipe's partition. -/
theorem failed_ensure_is_retried (tr : List StartL) :
    let s := startRun genStartCfg .ensuring tr
    s ≠ .dead ∧ s ≠ .blind ∧ startRun genStartCfg s [.syncTick, .ensureOk] = .running := by
  have hc : genStartCfg = ⟨true, true⟩ := start_facts.1
  rw [hc]
  suffices h : ∀ (tr : List StartL) (s0 : Start), s0 ≠ .dead → s0 ≠ .blind →
      startRun ⟨true, true⟩ s0 tr ≠ .dead ∧ startRun ⟨true, true⟩ s0 tr ≠ .blind ∧
      startRun ⟨true, true⟩ (startRun ⟨true, true⟩ s0 tr) [.syncTick, .ensureOk] = .running from
    h tr .ensuring (by decide) (by decide)
  intro tr
  induction tr with
  | nil => intro s0 h1 h2; cases s0 <;> simp_all [startRun, startStep]
  | cons l ls ih =>
    intro s0 h1 h2
    simp only [startRun]
    apply ih
    · cases s0 <;> cases l <;> simp_all [startStep]
    · cases s0 <;> cases l <;> simp_all [startStep]

/-- the two start orders the code no longer uses: a swallowed failure leaves the worker blind for ever (F80), a
reported failure without the stopped mark leaves it dead for ever (F81) — no sync tick or later success helps -/
theorem cex_ensure_failure_old (tr : List StartL) :
    startRun ⟨false, true⟩ .ensuring (.ensureFail :: tr) = .blind ∧
    startRun ⟨true, false⟩ .ensuring (.ensureFail :: tr) = .dead := by
  constructor
  · show startRun ⟨false, true⟩ .blind tr = .blind
    induction tr with
    | nil => rfl
    | cons l ls ih => cases l <;> simpa [startRun, startStep] using ih
  · show startRun ⟨true, false⟩ .dead tr = .dead
    induction tr with
    | nil => rfl
    | cons l ls ih => cases l <;> simpa [startRun, startStep] using ih

/-- **`state_file_old_or_new`** (fix e59ee79) At every crash cut of a save, `forwarder.json` holds the old or the new
complete content — so the position a restart loads is one that was persisted (`position_never_ahead`,
`restart_redelivery_bounded` apply to it). -/
theorem state_file_old_or_new (old new c : Bytes)
    (h : c ∈ StateFile.crashCuts Generated.C18.stateFileReplacedAtomically old new) : c = old ∨ c = new := by
  have hf : Generated.C18.stateFileReplacedAtomically = true := by decide
  simpa [StateFile.crashCuts, hf] using h

/-- the in-place write passes through the empty file (F83 / F60) -/
theorem cex_state_file_in_place : ([] : Bytes) ∈ StateFile.crashCuts false [1, 2] [3, 4] := by decide

/-! ### what the theorems exclude (the two orders the code does not use) -/

/-- position set before the sink accepted: a rejected batch followed by a stop leaves a position ahead of what was
delivered — the next session skips the batch -/
theorem cex_set_before_accept :
    let s := run { setAfterAccept := false, retryRejected := true } (init 5 0) [.page 2 false, .graceful]
    s.sessionStart = 2 ∧ s.all = [] := by decide

/-- a rejected batch that is not retried is lost -/
theorem cex_no_retry :
    let s := run { setAfterAccept := true, retryRejected := false } (init 5 0) [.page 2 false, .page 2 true]
    s.all = [2, 3] := by decide

/-! ### non-vacuity -/

/-- faults, a rejected page, a persist, a crash and a re-delivery: events 0,1 accepted, persisted at 2, 2,3
accepted, crash ⇒ the new session starts at 2 and delivers 2,3 again; nothing is skipped -/
example :
    let s := run genCfg (init 6 0) [.qTransport, .page 2 false, .page 2 true, .persist, .qServer, .page 2 true,
      .crash, .qEmpty, .page 3 true]
    s.all = [0, 1, 2, 3, 2, 3, 4] ∧ s.sess = [2, 3, 4] ∧ s.persisted = 2 ∧ s.pos = 5 := by decide

example : (run genCfg (init 3 0) [.page 1000 true, .grow 2, .page 1000 true, .graceful]).sessionStart = 5 := by decide

/-- 2 500 events, page limit 1 000: after a fault and a rejection, three quiet iterations reach the end -/
example :
    let s := run genCfg (init 2500 0) [.qTransport, .page 1000 false]
    (run genCfg s (List.replicate 3 (.page 1000 true))).pos = 2500 := by decide

/-- a crash with one batch in flight after a persist at 2: events 2,3 (accepted since the persist) and 4,5 (in
flight) are at risk of re-delivery; the new session starts at 2 -/
example :
    let s := run genCfg (init 9 0) [.page 2 true, .persist, .page 2 true]
    s.accSince = 2 ∧ (step genCfg s (.crashAfterAccept 2)).sessionStart = 2 ∧
    (step genCfg s (.crashAfterAccept 2)).all = [0, 1, 2, 3, 4, 5] := by decide

end Logrange.Props.C18
