import Logrange.Translated.Tmindex
import Logrange.Model.Truncate
import Logrange.Model.CIndexFile
import Logrange.Model.CIndex
/-!
# TR — `pkg/tmindex`: the *translated* `(*chkInfo).update` and `(*RecordsInfo).ApplyTs` equal the hand-written models

`Logrange.Translated.Tmindex` is regenerated from the Go source by `tools/go2lean` on every run. The hand models keep
timestamps as `Int`; `Int64.toInt` reads the translated values. No side condition (comparisons only, no arithmetic).

* C09: `Truncate.hullUpdate true` (the shape "two independent ifs"; the fact `indep` of the extractor says which shape the
  source has — here the translated source itself is compared);
* C07: `Persist.ChkInfo.update`;
* C02: `CIndex.onWrite` folds a notification in with `min`/`max` (`tr_chkInfo_update_minmax`).
-/
namespace Logrange.Props.TRTmindex
open Go.Sem Logrange Logrange.Translated.Tmindex

def absCi (c : chkInfo_update_ci) : Truncate.Hull := ⟨c.MinTs.toInt, c.MaxTs.toInt⟩
def absRi (r : chkInfo_update_rInfo) : Truncate.Hull := ⟨r.MinTs.toInt, r.MaxTs.toInt⟩

/-- `(*chkInfo).update` = C09's `Truncate.hullUpdate` in the shape with two independent `if`s; it always returns `true` -/
theorem tr_chkInfo_update_eq (ci : chkInfo_update_ci) (ri : chkInfo_update_rInfo) :
    ∃ ci', chkInfo_update ci ri = .ok (true, ci') ∧ absCi ci' = Truncate.hullUpdate true (absCi ci) (absRi ri) := by
  simp only [chkInfo_update, Truncate.hullUpdate, absCi, absRi, Int64.lt_iff_toInt_lt, gt_iff_lt]
  refine ⟨_, rfl, ?_⟩
  by_cases h1 : ri.MinTs.toInt < ci.MinTs.toInt <;> by_cases h2 : ci.MaxTs.toInt < ri.MaxTs.toInt <;> simp [h1, h2]

example : chkInfo_update { MinTs := 5, MaxTs := 9 } { MinTs := 3, MaxTs := 12 } = .ok (true, { MinTs := 3, MaxTs := 12 }) := by
  decide +kernel

/-- the same against C07's `Persist.ChkInfo.update` (which carries the other fields of the entry along unchanged) -/
theorem tr_chkInfo_update_persist (ci : chkInfo_update_ci) (ri : chkInfo_update_rInfo) (c0 : Persist.ChkInfo)
    (hmin : c0.minTs = ci.MinTs.toInt) (hmax : c0.maxTs = ci.MaxTs.toInt) :
    ∃ ci', chkInfo_update ci ri = .ok (true, ci') ∧
      (Persist.ChkInfo.update c0 ri.MinTs.toInt ri.MaxTs.toInt).minTs = ci'.MinTs.toInt ∧
      (Persist.ChkInfo.update c0 ri.MinTs.toInt ri.MaxTs.toInt).maxTs = ci'.MaxTs.toInt := by
  simp only [chkInfo_update, Persist.ChkInfo.update, hmin, hmax, Int64.lt_iff_toInt_lt, gt_iff_lt]
  refine ⟨_, rfl, ?_⟩
  by_cases h1 : ri.MinTs.toInt < ci.MinTs.toInt <;> by_cases h2 : ci.MaxTs.toInt < ri.MaxTs.toInt <;> simp [h1, h2]

/-- … and as the `min`/`max` C02's `CIndex.onWrite` uses for the same call -/
theorem tr_chkInfo_update_minmax (ci : chkInfo_update_ci) (ri : chkInfo_update_rInfo) :
    ∃ ci', chkInfo_update ci ri = .ok (true, ci') ∧
      ci'.MinTs.toInt = min ci.MinTs.toInt ri.MinTs.toInt ∧ ci'.MaxTs.toInt = max ci.MaxTs.toInt ri.MaxTs.toInt := by
  simp only [chkInfo_update, Int64.lt_iff_toInt_lt, gt_iff_lt]
  refine ⟨_, rfl, ?_⟩
  by_cases h1 : ri.MinTs.toInt < ci.MinTs.toInt <;> by_cases h2 : ci.MaxTs.toInt < ri.MaxTs.toInt <;>
    simp [h1, h2] <;> omega

/-- `(*RecordsInfo).ApplyTs(ts)`: the hull is widened to contain `ts` (reference meaning; the hand models inline it as
`min`/`max`) -/
theorem tr_RecordsInfo_ApplyTs_eq (ri : RecordsInfo_ApplyTs_ri) (ts : Int64) :
    ∃ ri', RecordsInfo_ApplyTs ri ts = .ok ri' ∧
      ri'.MinTs.toInt = min ri.MinTs.toInt ts.toInt ∧ ri'.MaxTs.toInt = max ri.MaxTs.toInt ts.toInt := by
  simp only [RecordsInfo_ApplyTs, Int64.lt_iff_toInt_lt, gt_iff_lt]
  refine ⟨_, rfl, ?_⟩
  by_cases h1 : ri.MaxTs.toInt < ts.toInt <;> by_cases h2 : ts.toInt < ri.MinTs.toInt <;>
    simp [h1, h2] <;> omega

example : RecordsInfo_ApplyTs { MinTs := 5, MaxTs := 9 } 2 = .ok { MinTs := 2, MaxTs := 9 } := by decide +kernel

/-- `(*chkInfo).makeCorrupted()`: the flag is set and the tree root is forgotten (the zero `Item`) — what C02's
`CIndex.onWrite` writes as `{ c with corrupted := true, root := none }` -/
theorem tr_chkInfo_makeCorrupted_eq (ci : chkInfo_makeCorrupted_ci) :
    ∃ ci', chkInfo_makeCorrupted ci = .ok ci' ∧ ci'.idxCorrupted = true ∧ ci'.IdxRoot = { IndexId := 0, Pos := 0 } :=
  ⟨_, rfl, rfl, rfl⟩

end Logrange.Props.TRTmindex
