import Logrange.Translated.Partition
import Logrange.Model.Selector
import Logrange.Model.RdSelector
import Logrange.Proofs.TrSized
/-!
# TR — `pkg/partition`: the *translated* `checkPosOrAdvance` / `checkPosOrReduce` equal the hand-written models

`Logrange.Translated.Partition` is regenerated from the Go source by `tools/go2lean` on every run. The hand models
(`Selector.checkAdvance/checkReduce`, C02; `Rd.checkAdvance/checkReduce`, C03/C16) use `Nat` for `uint32`;
`absAdv`/`absRed`/`absRes` read the translated `UInt32` values as naturals. No side condition: `uint32` arithmetic wraps in
both (`count - 1` on an empty chunk).
-/
set_option linter.unusedSimpArgs false
namespace Logrange.Props.TRPartition
open Go.Sem Logrange Logrange.Translated.Partition Logrange.Proofs.TrSized

def absAdv (s : chkStatus) : Selector.ChkSt :=
  { minPos := s.minPos.toNat, maxPos := s.maxPos.toNat, count := s.count.toNat }
def absRed (s : chkStatus) : Selector.ChkSt :=
  { minPos := s.minPos.toNat, maxPos := s.maxPos.toNat, count := s.count.toNat }
def absRes (r : UInt32 × Bool) : Nat × Bool := (r.1.toNat, r.2)
def toRd (s : Selector.ChkSt) : Rd.ChkSt := { minPos := s.minPos, maxPos := s.maxPos, count := s.count }

/-- `(*chkStatus).checkPosOrAdvance` = C02's `Selector.checkAdvance` -/
theorem tr_checkPosOrAdvance_eq (st : chkStatus) (pos : UInt32) :
    ∃ r, chkStatus_checkPosOrAdvance st pos = .ok r ∧ absRes r = Selector.checkAdvance (absAdv st) pos.toNat := by
  simp only [chkStatus_checkPosOrAdvance, Selector.checkAdvance, absAdv, absRes,
    UInt32.lt_iff_toNat_lt, UInt32.le_iff_toNat_le, ge_iff_le, gt_iff_lt]
  by_cases h1 : pos.toNat < st.minPos.toNat <;>
    simp only [h1, decide_true, decide_false, if_true, if_false, Bool.false_eq_true]
  · by_cases h2 : st.count.toNat ≤ st.minPos.toNat ∨ st.maxPos.toNat < st.minPos.toNat <;> simp [h2]
  · by_cases h2 : st.count.toNat ≤ pos.toNat ∨ st.maxPos.toNat < pos.toNat <;> simp [h2]

example : chkStatus_checkPosOrAdvance { minPos := 3, maxPos := 7, count := 10 } 1 = .ok (3, true) := by decide +kernel

/-- `(*chkStatus).checkPosOrReduce` = C02's `Selector.checkReduce` (including the wrap of `count - 1` at `count = 0`) -/
theorem tr_checkPosOrReduce_eq (st : chkStatus) (pos : UInt32) :
    ∃ r, chkStatus_checkPosOrReduce st pos = .ok r ∧ absRes r = Selector.checkReduce (absRed st) pos.toNat := by
  unfold chkStatus_checkPosOrReduce Selector.checkReduce absRed absRes
  refine ⟨_, rfl, ?_⟩
  have hsub := u32_sub_one st.count
  -- keep `simp` away from the literal 2^32 (its arithmetic simprocs build terms the kernel cannot check in time)
  generalize (st.count.toNat + 4294967296 - 1) % 4294967296 = M at hsub ⊢
  simp only [UInt32.lt_iff_toNat_lt, UInt32.le_iff_toNat_le, ge_iff_le, gt_iff_lt]
  by_cases h1 : st.maxPos.toNat < pos.toNat <;>
    simp only [h1, decide_true, decide_false, if_true, if_false, Bool.false_eq_true]
  · by_cases h2 : st.count.toNat ≤ st.maxPos.toNat <;>
      simp [h2, hsub, UInt32.lt_iff_toNat_lt, UInt32.le_iff_toNat_le]
  · by_cases h2 : st.count.toNat ≤ pos.toNat <;>
      simp [h2, hsub, UInt32.lt_iff_toNat_lt, UInt32.le_iff_toNat_le]

example : chkStatus_checkPosOrReduce { minPos := 0, maxPos := 7, count := 0 } 5 = .ok (4294967295, false) := by decide +kernel

/-- the reader-side copies of the two models (C03/C16, `RdSelector`) are the same functions -/
theorem tr_checkPos_rd_eq (st : Selector.ChkSt) (pos : Nat) :
    Rd.checkAdvance (toRd st) pos = Selector.checkAdvance st pos ∧
    Rd.checkReduce (toRd st) pos = Selector.checkReduce st pos := by
  constructor
  · simp only [Rd.checkAdvance, Selector.checkAdvance, toRd]
    by_cases h1 : pos < st.minPos <;> simp [h1]
  · unfold Rd.checkReduce Selector.checkReduce toRd
    rfl

end Logrange.Props.TRPartition
