import Logrange.Proofs.LqlSites
import Logrange.Generated.C13Sites
import Logrange.Props.C13
import Logrange.Model.IngestLimit
/-!
# C13 — the Go-level panic sites of pkg/lql are guarded (property theorems)

The participle engine is a total interpreter (C12's model); what remains of "lql.Parse* and the evaluators built from the AST never
panic" is the ordinary Go code of pkg/lql. `tools/extract/c13_sites.go` enumerates every index expression, slice expression,
single-value type assertion, explicit dereference, explicit `panic` call and every method call on an optional grammar node of the
package's non-test files, and reads for each the guard that makes it safe (dominating `len` / `nil` / loop-bound tests, nil-safe
methods, or a named library contract). `lql_sites_guarded` is broken by the first site without a recognised guard; the other
theorems give the guard classes their meaning on the checked operations of `Model/Outcome.lean` and prove the two functions whose
guard is an argument rather than a test.

Trusted here: the extractor's reading of the source (structural, go/ast), and the two library contracts it names
(`contract:participle-capture`: `Capture(values)` is called with at least one captured token and an allocated receiver;
`contract:regexp-submatch`: `FindSubmatchIndex` is nil or has `2·(1+NumSubexp)` entries with `0 ≤ m[0] ≤ m[1] ≤ len`, and
`SubexpNames` has `1+NumSubexp` entries; `contract:bytes-count-lastindex`: `bytes.LastIndex(b, sep) ≥ 0` when
`bytes.Count(b, sep) ≠ 0`). `caller:` sites are parameters whose bound every call site in the package establishes.

Part 2 of the census (`c13_sites2.go`) are the IMPLICIT dereferences: a field selection `X.f` through a pointer to a grammar node (types
resolved locally). Their classes: `nonnil` (dominating test), `fresh` (`&T{}` / a local value), `slice-element`, `grammar:mandatory`,
`grammar:alternative` (the other branch of a two-branch alternation was found nil by a dominating test), `param:<classes>` (a pointer
parameter: every call site in the package passes an argument of those classes). `slice-element` / `grammar:*` are contracts of
participle (a node slice has no nil element; a mandatory capture is set after a successful parse; exactly one branch of an
alternation is set) — read from the struct tags by the extractor and CHECKED by the harness on the AST of every accepted text
(robust section, `ast-shape`, same reading of the tags by reflection).
-/
namespace Logrange.Props.C13Sites
open Go Logrange Logrange.LqlSites Logrange.Generated

/-- every panic site of pkg/lql the census found has a recognised guard, and there are sites at all (the walker still understands
the package) -/
theorem lql_sites_guarded :
    C13Sites.unguarded = 0 ∧ C13Sites.sites.all (fun s => s.code != 0) = true ∧ 20 ≤ C13Sites.sites.length := by
  decide

/-- no single-value type assertion and no explicit `panic(…)` in pkg/lql -/
theorem lql_no_assertion_no_panic_call :
    C13Sites.sites.all (fun s => s.kind != "type-assertion" && s.kind != "panic-call") = true := by
  decide

/-- what the guard classes mean: a dominating `len(X) ≥ need` makes `X[i]` (i < need), `X[k:]` (k ≤ need) and `X[a:len(X)-c]`
(a + c ≤ need) pass Go's bounds check; `i < len(X)` makes `X[i]` pass; `p != nil` makes `*p` pass -/
theorem lql_guard_classes_sound :
    (∀ (α : Type) (l : List α) (need i : Nat), need ≤ l.length → i + 1 ≤ need → (Go.index l i).isPanic = false) ∧
    (∀ (b : Bytes) (need k : Nat), need ≤ b.length → k ≤ need → (Go.sliceFrom b k).isPanic = false) ∧
    (∀ (α : Type) (l : List α) (need k : Nat), need ≤ l.length → k ≤ need → (sliceFromL l k).isPanic = false) ∧
    (∀ (b : Bytes) (need a c : Nat), need ≤ b.length → a + c ≤ need → (Go.slice b a ((b.length : Int) - c)).isPanic = false) ∧
    (∀ (α : Type) (l : List α) (i : Nat), i < l.length → (Go.index l i).isPanic = false) ∧
    (∀ (α : Type) (p : Option α), p ≠ none → (deref p).isPanic = false) :=
  ⟨fun _ l need i h hi => index_noPanic_of_len l need i h hi,
   fun b need k h hk => sliceFrom_noPanic_of_len b need k h hk,
   fun _ l need k h hk => sliceFromL_noPanic_of_len l need k h hk,
   fun b need a c h hk => slice_noPanic_of_len b need a c h hk,
   fun _ l i h => by rw [index_ok l i h]; rfl,
   fun _ p h => deref_noPanic p h⟩

example : (Go.index [10, 20, 30] 2).isPanic = false ∧ (Go.index [10, 20, 30] 3).isPanic = true := by decide

/-- every `len`-guarded site has a constant need (the length its operand must have), which the dominating test establishes -/
theorem lql_len_sites_have_need :
    C13Sites.sites.all (fun s => s.code != 1 || decide (1 ≤ s.need)) = true := by
  decide

/-- the shape `parseRalativeDateTime` relies on is in place: the byte the text must start with is not among the bytes the switch
over the last byte accepts -/
theorem rel_datetime_shape_in_place :
    C13Sites.relDateShape = true ∧ (C13Sites.relDateDims.map UInt8.ofNat).contains (UInt8.ofNat C13Sites.relDateFirst) = false := by
  decide

/-- `parseRalativeDateTime` passes every bounds check for ALL texts: `dt[0]`, `dt[len(dt)-1]`, `dt[1:len(dt)-1]` -/
theorem rel_datetime_total (dt : Bytes) :
    (relDateTime (UInt8.ofNat C13Sites.relDateFirst) (C13Sites.relDateDims.map UInt8.ofNat) dt).isPanic = false :=
  relDateTime_noPanic _ _ rel_datetime_shape_in_place.2 dt

example : relDateTime 45 [109, 104, 100] [45, 49, 46, 53, 104] = .ok [49, 46, 53] := by decide   -- "-1.5h" → "1.5"
example : relDateTime 45 [109, 104, 100] [45] = .err := by decide                                  -- "-"
example : relDateTime 45 [109, 104, 100] [45, 104] = .ok [] := by decide                           -- "-h" → "" (ParseFloat refuses it)

/-- why the shape matters: were the first byte among the accepted last bytes, the one-byte text would slice `[1:0]` -/
theorem cex_rel_datetime_first_among_dims : (relDateTime 45 [109, 104, 100, 45] [45]).isPanic = true := by decide

/-- `buildCond` + `buildFldCond`: `fldName[7:]` after the caller's `len(strings.ToLower(fldName)) ≥ 8` passes the bounds check for
every identifier on which lower-casing keeps the length (identifiers are ASCII: the lexer's Ident / Keyword classes) -/
theorem fld_cut_total (lower : Bytes → Bytes) (hl : ∀ s, (lower s).length = s.length) (fldName : Bytes) :
    (fldCut lower fldName).isPanic = false :=
  fldCut_noPanic lower hl fldName

example : fldCut id [102, 105, 101, 108, 100, 115, 58, 120] = .ok [120] := by decide              -- "fields:x" → "x"
example : fldCut id [102, 105, 101, 108, 100, 115, 58] = .err := by decide                        -- "fields:" is refused

/-- the test is made on the lower-cased copy and the cut on the original: a `lower` that lengthens its argument breaks it -/
theorem cex_fld_cut_lengthening_lower :
    (fldCut (fun _ => [102, 105, 101, 108, 100, 115, 58, 120]) [102]).isPanic = true := by decide

/-- the walk of `buildOrConds` / `buildXConds` / `getFirstParamName` (`l[0]`, `l[1:]` behind `len(l) == 0` / `len(l) == 1` tests)
never fails a bounds check and ends within `len(l) + 1` calls, for every list -/
theorem cond_walk_total (α : Type) (l : List α) :
    (walkConds (l.length + 1) l).isPanic = false ∧ (walkConds (l.length + 1) l).isOutOfFuel = false :=
  ⟨walkConds_noPanic _ l, walkConds_fuel _ l (by omega)⟩

example : walkConds 4 [1, 2, 3] = .ok 3 := by decide

/-! ## the pipe path: what a pipe worker stores

`pkg/pipe/worker.go` builds the provenance fields with `field.Parse(srcTags.String())` (`NewFieldsFromKVString`, the empty list on an
error) and `siterator.Get` stores `le.Fields.Concat(extFlds)` for every source event. `stored_fields_WF` covers the RPC path; this
is the same statement for the copy. The *size* of the copied record is not checked anywhere on that path: finding F52 (open,
registered under C10 with `Logrange.Props.C10.cex_copy_exceeds_max_record_size`, witness `corpus/C10/f52-…`); the instance on this
file's record model is `cex_pipe_copy_outgrows_record_limit`. -/

open Logrange.WireFields in
/-- `field.Parse(text)`: the builder's list, the empty list on an error -/
def fieldParse (split : Bytes → Option (List Bytes)) (trim : Bytes → Bytes) (unq : Bytes → Option Bytes) (s : Bytes) : Bytes :=
  (fromKV split trim unq s).getD []

open Logrange.WireFields in
/-- **What a pipe stores is readable, field-wise**: the field list of a copied event (source fields ++ provenance fields) is
well-formed whenever the source's is — for every tag text and every split / trim / unquote behaviour (trim must not lengthen) —
and the readers (`Value` for any name, `AsKVString`, `Check`) are total on it. -/
theorem pipe_copy_fields_WF (split : Bytes → Option (List Bytes)) (trim : Bytes → Bytes) (unq : Bytes → Option Bytes)
    (htrim : ∀ v, (trim v).length ≤ v.length) (src tagsText name : Bytes) (hsrc : WF src) :
    WF (concat src (fieldParse split trim unq tagsText)) ∧
    (value (concat src (fieldParse split trim unq tagsText)) name).isPanic = false ∧
    check (concat src (fieldParse split trim unq tagsText)) = true := by
  have hp : WF (fieldParse split trim unq tagsText) := by
    unfold fieldParse
    cases h : fromKV split trim unq tagsText with
    | none => exact ⟨[], by simp, rfl, rfl⟩
    | some f => exact Logrange.Props.C13.fromKV_WF split trim unq htrim tagsText f h
  have hw := concat_WF src _ hsrc hp
  have hv := Logrange.Props.C13.value_total _ name hw
  exact ⟨hw, hv.1, hv.2.2.2⟩

example : WireFields.WF (WireFields.concat [1, 97, 1, 98] [1, 112, 1, 113]) :=
  ⟨[[97], [98], [112], [113]], by simp, rfl, rfl⟩

/-- … but not size-wise (F52, open, C10): a record that fits a limit (here 16 bytes: ts 1, message `m`, fields `a=b`) is stored by
the copy path, which checks no size, with 4 more bytes of provenance (`p=q`) — 20 bytes. With the real limit (MaxRecordSize) every
later read of the pipe's partition fails. -/
theorem cex_pipe_copy_outgrows_record_limit :
    (Wire.Event.marshal ⟨1, [109], [1, 97, 1, 98]⟩).length = 16 ∧
    (Wire.Event.marshal ⟨1, [109], WireFields.concat [1, 97, 1, 98] [1, 112, 1, 113]⟩).length = 20 := by
  decide

/-! ## the ingest limit and the life of the request buffer

"never stores an event whose fields a later read cannot decode" has a size clause: a record above the chunk reader's buffer makes the
partition unreadable from that record on. "never reads outside the request buffer" has a lifetime clause: a string decoded without
copying must not be read after the buffer was given back to the pool. Both are code shapes of api/rpc, read by
`tools/extract/c13_ingest.go`, and both are exercised end to end (e2e `recsize` batch: record sizes limit−2 … limit+6 with a small
configured MaxRecordSize and read-back; section `lifetime`: a held cursor's ReqId re-used with another query of equal length). -/

open Logrange.IngestLimit

/-- the facts: the limit is the configured MaxRecordSize as it is, and the validation refuses what is above it -/
theorem ingest_limit_in_place :
    Generated.C13.ingestLimitHasAddend = false ∧ Generated.C13.ingestSizeTestRejectsAbove = true := by decide

/-- **Every acknowledged record fits the reader's buffer**: with the regenerated shapes, an event the validation accepts under a
configured `MaxRecordSize = mrs > 0` needs at most `mrs` bytes — whatever the addend would be. -/
theorem acked_record_fits_reader (addend mrs sz : Nat) (hm : 0 < mrs)
    (h : accepts Generated.C13.ingestSizeTestRejectsAbove
          (ingestLimit Generated.C13.ingestLimitHasAddend addend mrs) sz = true) :
    readable mrs sz = true := by
  have hf := ingest_limit_in_place
  rw [hf.1, hf.2] at h
  simp only [ingestLimit, accepts, readable] at *
  simp at h
  simp
  rcases h with h | h
  · omega
  · exact h

example : accepts true (ingestLimit false 4 4096) 4096 = true ∧ accepts true (ingestLimit false 4 4096) 4097 = false := by decide

/-- why the shapes matter (kernel-evaluated): with an addend of 4 a record of limit+1 … limit+4 bytes is acknowledged and not
readable; without the test everything is -/
theorem cex_ingest_limit_addend :
    accepts true (ingestLimit true 4 4096) 4100 = true ∧ readable 4096 4100 = false ∧
    accepts false (ingestLimit false 0 4096) 9000 = true := by decide

/-- the size test is applied to every event of the packet (regenerated: it is a statement of the validation loop's body and no
continue / goto / break before it lets an event pass without it) -/
theorem ingest_size_test_on_every_event : Generated.C13.ingestSizeTestOnEveryEvent = true := by decide

/-- **Every event of an acknowledged packet fits the reader's buffer**, whatever fields texts its neighbours carry -/
theorem acked_packet_fits_reader (addend mrs : Nat) (hm : 0 < mrs) :
    ∀ (evs : List (Bytes × Nat)) (last : Option Bytes),
      packetAccepts Generated.C13.ingestSizeTestOnEveryEvent Generated.C13.ingestSizeTestRejectsAbove
        (ingestLimit Generated.C13.ingestLimitHasAddend addend mrs) last evs = true →
      ∀ e ∈ evs, readable mrs e.2 = true := by
  intro evs
  induction evs with
  | nil => intro _ _ e he; cases he
  | cons ev rest ih =>
    intro last h e he
    obtain ⟨txt, sz⟩ := ev
    rw [packetAccepts, ingest_size_test_on_every_event] at h
    simp only [Bool.not_true, Bool.false_and, Bool.false_eq_true, if_false, Bool.and_eq_true] at h
    rcases List.mem_cons.mp he with rfl | hr
    · exact acked_record_fits_reader addend mrs sz hm h.1
    · exact ih (some txt) (by rw [ingest_size_test_on_every_event]; exact h.2) e hr

example : packetAccepts true true 4096 none [([], 20), ([], 4096)] = true ∧ packetAccepts true true 4096 none [([], 20), ([], 4097)] = false := by decide

/-- the memoising loop (kernel-evaluated): an oversize event directly behind an event with the same fields text — the empty one
too — is acknowledged; first in the packet, or behind another text, it is refused -/
theorem cex_size_test_skipped_for_equal_fields_text :
    packetAccepts false true 4096 none [([], 20), ([], 9000)] = true ∧
    packetAccepts false true 4096 none [([107, 61, 118], 20), ([107, 61, 118], 9000)] = true ∧
    packetAccepts false true 4096 none [([], 9000), ([], 20)] = false ∧
    packetAccepts false true 4096 none [([107, 61, 118], 20), ([], 9000)] = false := by decide

/-- **No decoded string outlives the buffer it points into** (request side): no server handler of api/rpc both decodes its body
without copying and gives the body back to the pool; and the fact is about something — the query handler does decode without copying. -/
theorem request_strings_do_not_outlive_buffer :
    Generated.C13.rpcHandlers.all (fun h => !(h.2.1 && h.2.2)) = true ∧
    Generated.C13.rpcHandlers.any (fun h => h.2.1) = true := by decide

/-- hence what a holder of a decoded request string reads later is the text that was decoded, for every handler and every next request -/
theorem held_request_text_is_stable (decoded next : Bytes) :
    ∀ h ∈ Generated.C13.rpcHandlers, heldText h.2.1 h.2.2 decoded next = decoded := by
  intro h hh
  have hall := request_strings_do_not_outlive_buffer.1
  rw [List.all_eq_true] at hall
  have := hall h hh
  unfold heldText
  cases hw : h.2.1 <;> cases hc : h.2.2 <;> simp_all

/-- … and with both (the handler collects the body it decoded weakly) the holder reads the NEXT request's bytes -/
theorem cex_collected_weak_string (decoded next : Bytes) : heldText true true decoded next = next := rfl

end Logrange.Props.C13Sites
