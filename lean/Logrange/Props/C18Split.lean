import Logrange.Proofs.ForwarderSplit
import Logrange.Generated.C18
import Logrange.Props.C18
/-!
# C18 (statement level) — Forwarder: a crash or stop at any statement; the state file's two-step replacement

Property theorems only. Model: `Model/ForwarderSplit.lean` — the worker loop of `pkg/forwarder/worker.go` with every
statement another goroutine or a crash can observe as its own step (`Query`, `OnEvent`, request replacement,
`setPosition`), the persist goroutine's save as two steps (write `forwarder.json.tmp`, rename), stop request, loop
exit and a restart that may be taken in EVERY state. Lemmas (invariant, simulation of the atomic model
`Model/Forwarder.lean`): `Proofs/ForwarderSplit.lean`. The order of `OnEvent` / `setPosition` is regenerated from
`/repo` (`Generated.C18.setPositionAfterAccept`).
-/
namespace Logrange.Props.C18Split
open Logrange.ForwarderSplit

/-- the order of `OnEvent` and `setPosition` in the loop as the extractor reads it from `/repo` now -/
def codeOrder : Bool := Generated.C18.setPositionAfterAccept

theorem codeOrder_eq : codeOrder = true := by decide

/-- **`split_delivered_prefix`** For every interleaving of query failures, answered queries, sink accept/reject
decisions, request replacement, `setPosition`, the two steps of a save, stop requests, loop exits, growth of the
partition and restarts (crashes) at any statement: what the sink accepted in the current session is exactly the run of
consecutive events `sessionStart, …, pos + inflight - 1` in stored order (`inflight` = the batch the sink has accepted
and `qr.Pos` does not cover yet) — no gap, no duplicate — and it lies inside the partition. -/
theorem split_delivered_prefix (n start : Nat) (hs : start ≤ n) (tr : List L) :
    let s := run codeOrder (init n start) tr
    s.sess = List.range' s.sessionStart (s.pos + inflight s.pc - s.sessionStart) ∧ s.sessionStart ≤ s.pos ∧
    s.pos + inflight s.pc ≤ s.n := by
  intro s
  have h : SInv s := by
    show SInv (run codeOrder (init n start) tr)
    rw [codeOrder_eq]; exact sinv_run tr _ (sinv_init n start hs)
  exact ⟨h.sessEq, h.startLe, h.posLe⟩

/-- a rejected batch, a save begun while a batch is in flight, a second batch accepted and not yet covered by `qr.Pos` -/
example :
    let s := run codeOrder (init 6 0) [.qFail, .query 2, .sink false, .query 2, .sink true, .saveBegin, .replaceReq,
      .setPos, .saveRename, .query 3, .sink true]
    s.pc = .accepted 3 ∧ s.pos = 2 ∧ s.sessionStart = 0 ∧ s.sess = [0, 1, 2, 3, 4] ∧ s.disk = 0 := by decide

/-- **`split_position_never_ahead`** no position that is published (desc), being written (tmp) or on disk is ahead of
what the sink accepted: `disk ≤ desc ≤ pos`, the temporary file's position lies between `disk` and `desc`, and every
event before `desc` — from the very first start on — has been accepted by the sink at least once. -/
theorem split_position_never_ahead (n start : Nat) (hs : start ≤ n) (tr : List L) :
    let s := run codeOrder (init n start) tr
    s.disk ≤ s.desc ∧ s.desc ≤ s.pos ∧ (∀ p, s.tmp = some p → s.disk ≤ p ∧ p ≤ s.desc) ∧
    (∀ i, start ≤ i → i < s.desc → i ∈ s.all) := by
  intro s
  have h : SInv s := by
    show SInv (run codeOrder (init n start) tr)
    rw [codeOrder_eq]; exact sinv_run tr _ (sinv_init n start hs)
  have hst : s.start0 = start := run_start0 codeOrder tr (init n start)
  refine ⟨h.diskLe, h.descLe, h.tmpOk, ?_⟩
  intro i h1 h2
  apply h.cover i (by rw [hst]; exact h1)
  have := h.descLe; have := h.posHigh; omega

/-- a temporary file written between request replacement and `setPosition` holds the old position; in that window
`desc` is behind `pos` -/
example :
    let s := run codeOrder (init 6 0) [.query 2, .sink true, .replaceReq, .saveBegin]
    s.pc = .setting ∧ s.desc = 0 ∧ s.pos = 2 ∧ s.tmp = some 0 ∧ s.all = [0, 1] := by decide

example :
    let s := run codeOrder (init 6 0) [.query 2, .sink true, .replaceReq, .saveBegin, .setPos, .query 2, .sink true,
      .replaceReq, .setPos]
    s.disk = 0 ∧ s.tmp = some 0 ∧ s.desc = 4 ∧ s.pos = 4 ∧ s.all = [0, 1, 2, 3] := by decide

/-- **`split_restart_any_moment`** a crash / stop at ANY moment (any pc, temp file written or not): the restart begins
at disk, skips nothing (every event below the high-water mark has been accepted at least once, and `disk ≤ high`),
re-delivers exactly the accSince events accepted since the content of forwarder.json was read (`[disk, pos + inflight)`);
a temporary file that is renamed first moves that bound to `accTmp`. -/
theorem split_restart_any_moment (n start : Nat) (hs : start ≤ n) (tr : List L) :
    let s := run codeOrder (init n start) tr
    (step codeOrder s .restart).sessionStart = s.disk ∧ (step codeOrder s .restart).pos = s.disk ∧
    (step codeOrder s .restart).all = s.all ∧
    start ≤ s.disk ∧ s.disk ≤ s.high ∧ s.high ≤ s.n ∧
    (∀ i, start ≤ i → i < s.high → i ∈ s.all) ∧ (∀ i ∈ s.all, start ≤ i ∧ i < s.high) ∧
    s.pos + inflight s.pc = s.disk + s.accSince ∧
    (∀ p, s.tmp = some p → s.pos + inflight s.pc = p + s.accTmp) := by
  intro s
  have h : SInv s := by
    show SInv (run codeOrder (init n start) tr)
    rw [codeOrder_eq]; exact sinv_run tr _ (sinv_init n start hs)
  have hst : s.start0 = start := run_start0 codeOrder tr (init n start)
  refine ⟨rfl, rfl, rfl, by rw [← hst]; exact h.s0Disk, ?_, h.highLe, ?_, ?_, h.accEq, h.accTmpEq⟩
  · have := h.diskLe; have := h.descLe; have := h.posHigh; omega
  · intro i h1 h2; exact h.cover i (by rw [hst]; exact h1) h2
  · intro i hi; have := h.allLt i hi; rw [hst] at this; exact this

/-- a crash with a batch accepted and `qr.Pos` not yet advanced, after a completed save of position 0: the five events
accepted since are delivered again, then the sixth -/
example :
    let s := run codeOrder (init 6 0) [.qFail, .query 2, .sink false, .query 2, .sink true, .saveBegin, .replaceReq,
      .setPos, .saveRename, .query 3, .sink true]
    s.accSince = 5 ∧ (step codeOrder s .restart).sessionStart = 0 ∧
    (run codeOrder s [.restart, .query 6, .sink true]).all = [0, 1, 2, 3, 4, 0, 1, 2, 3, 4, 5] := by decide

/-- a crash between the write of the temporary file and the rename: the temporary file (position 2) is ignored -/
example :
    let s := run codeOrder (init 6 0) [.query 2, .sink true, .replaceReq, .setPos, .saveBegin]
    s.tmp = some 2 ∧ s.accTmp = 0 ∧ s.accSince = 2 ∧ s.disk = 0 ∧ (step codeOrder s .restart).sessionStart = 0 := by
  decide

/-- **`split_quiescent_stop_exact`** a stop at a quiescent point (the loop has seen the stop request at its head, no
temporary file pending) followed by a complete save re-delivers nothing: the next session starts at `pos`. -/
theorem split_quiescent_stop_exact (n start : Nat) (hs : start ≤ n) (tr : List L) :
    let s := run codeOrder (init n start) tr
    s.pc = .stopped → s.tmp = none →
    (run codeOrder s [.saveBegin, .saveRename, .restart]).sessionStart = s.pos := by
  intro s hpc ht
  have h : SInv s := by
    show SInv (run codeOrder (init n start) tr)
    rw [codeOrder_eq]; exact sinv_run tr _ (sinv_init n start hs)
  have hd : s.desc = s.pos := h.descEq (by rw [hpc]; intro e; cases e)
  simp only [run, step, ht]
  exact hd

example :
    let s := run codeOrder (init 6 0) [.query 2, .sink true, .replaceReq, .setPos, .stopReq, .exit]
    s.pc = .stopped ∧ s.tmp = none ∧ s.pos = 2 ∧
    (run codeOrder s [.saveBegin, .saveRename, .restart]).sessionStart = 2 ∧
    (run codeOrder s [.saveBegin, .saveRename, .restart]).all = [0, 1] := by decide

/-- **`split_refines_atomic`** the statement-level system refines the atomic one: an atomic trace, expanded (`expand`:
one loop iteration = its four statements, a persist = write + rename, a stop = request, exit, complete save, restart),
gives the same observable fields — so the theorems of `Props/C18.lean` are about runs of this system too. -/
theorem split_refines_atomic (n start : Nat) (hs : start ≤ n) (tr : List Forwarder.L) :
    let s := run codeOrder (init n start) (tr.flatMap expand)
    let a := Forwarder.run Logrange.Props.C18.genCfg (Forwarder.init n start) tr
    s.pc = .idle ∧ s.tmp = none ∧ a.n = s.n ∧ a.pos = s.pos ∧ a.desc = s.desc ∧ a.persisted = s.disk ∧
    a.sessionStart = s.sessionStart ∧ a.sess = s.sess ∧ a.all = s.all ∧ a.high = s.high ∧ a.accSince = s.accSince := by
  intro s a
  have h : Sim s a := by
    show Sim (run codeOrder (init n start) (tr.flatMap expand))
      (Forwarder.run Logrange.Props.C18.genCfg (Forwarder.init n start) tr)
    rw [codeOrder_eq, Logrange.Props.C18.genCfg_eq]
    exact sim_run tr _ _ (sim_init n start) (Forwarder.finv_init n start hs)
  obtain ⟨h1, h2, _, h4, h5, h6, h7, _, h9, h10, h11, h12, h13⟩ := h
  exact ⟨h1, h2, h4, h5, h6, h7, h9, h10, h11, h12, h13⟩

example :
    let tr : List Forwarder.L := [.qTransport, .page 2 false, .page 2 true, .persist, .page 2 true,
      .crashAfterAccept 1, .page 3 true, .graceful]
    (run codeOrder (init 6 0) (tr.flatMap expand)).all = [0, 1, 2, 3, 4, 2, 3, 4] ∧
    (Forwarder.run Logrange.Props.C18.genCfg (Forwarder.init 6 0) tr).all = [0, 1, 2, 3, 4, 2, 3, 4] ∧
    (run codeOrder (init 6 0) (tr.flatMap expand)).sessionStart = 5 := by decide

/-- **`split_drains_when_quiet`** bounded eventual completeness on the statement-level system: from any reachable
state at the loop head, `m` fault-free iterations (query answers up to `k` events, the sink accepts, the request is
replaced, the position set; nothing else interleaves) with `m · k ≥ n - pos` bring the worker's position and the
published position to the end of the partition, and every event from the first start on has been accepted. -/
theorem split_drains_when_quiet (n start : Nat) (hs : start ≤ n) (tr : List L) (k m : Nat) :
    let s := run codeOrder (init n start) tr
    s.pc = .idle → s.n - s.pos ≤ m * k →
    let s' := run codeOrder s (List.flatten (List.replicate m (iter k)))
    s'.pos = s.n ∧ s'.desc = s.n ∧ (∀ i, start ≤ i → i < s.n → i ∈ s'.all) := by
  intro s hpc hm s'
  have h : SInv s := by
    show SInv (run codeOrder (init n start) tr)
    rw [codeOrder_eq]; exact sinv_run tr _ (sinv_init n start hs)
  have hin : inflight s.pc = 0 := by rw [hpc]; rfl
  have hle : s.pos ≤ s.n := by have := h.posLe; omega
  have hp : s'.pc = .idle ∧ s'.pos = min (s.pos + m * k) s.n ∧ s'.n = s.n := by
    show (run codeOrder s _).pc = .idle ∧ (run codeOrder s _).pos = _ ∧ (run codeOrder s _).n = _
    rw [codeOrder_eq]; exact run_iters k m s hpc hle
  obtain ⟨hpc', hpos', hn'⟩ := hp
  have h' : SInv s' := by
    show SInv (run codeOrder s _)
    rw [codeOrder_eq]; exact sinv_run _ s h
  have hst : s'.start0 = start := by
    show (run codeOrder (run codeOrder (init n start) tr) _).start0 = start
    rw [run_start0, run_start0]; rfl
  have hpos : s'.pos = s.n := by rw [hpos']; omega
  have hd : s'.desc = s'.pos := h'.descEq (by rw [hpc']; intro e; cases e)
  refine ⟨hpos, by rw [hd, hpos], ?_⟩
  intro i h1 h2
  apply h'.cover i (by rw [hst]; exact h1)
  have := h'.posHigh; omega

/-- 25 events, pages of 10: after a failed query and a rejected batch, three quiet iterations reach the end -/
example :
    let s := run codeOrder (init 25 0) [.qFail, .query 10, .sink false]
    s.pc = .idle ∧ (run codeOrder s (List.flatten (List.replicate 3 (iter 10)))).pos = 25 ∧
    (run codeOrder s (List.flatten (List.replicate 3 (iter 10)))).desc = 25 := by decide

/-! ### what the theorems exclude, and what they allow -/

/-- what the theorems exclude: position published before the sink call, a save and a crash → the batch is skipped -/
theorem cex_split_set_before_accept :
    let s := run false (init 5 0) [.query 2, .saveBegin, .saveRename, .restart]
    s.sessionStart = 2 ∧ s.all = [] := by decide

/-- allowed by the property (at-least-once): the final persist does not wait for the worker; a stop that lands between
the sink's accept and setPosition re-delivers that one batch -/
theorem stop_in_window_redelivers_one_batch :
    let s := run true (init 5 0) [.query 2, .sink true, .stopReq, .saveBegin, .saveRename, .replaceReq, .setPos, .exit,
      .restart]
    s.sessionStart = 0 ∧ s.all = [0, 1] ∧ s.accSince = 0 := by decide

end Logrange.Props.C18Split
