import Logrange.Proofs.Registry
import Logrange.Proofs.RegistrySave
import Logrange.Generated.C19
/-!
# C19 — Pipe registry: unique names, alphabetical paginated listing, idempotent ensure

Property theorems only (lemmas live in `Logrange/Proofs/Registry.lean`, the model in
`Logrange/Model/Registry.lean`). Every theorem here is an obligation of the C19 check; the audit lists
their axioms.
-/
namespace Logrange.Props.C19
open Go Logrange.Registry

/-- The listing the code computes, in the shape the extractor found in `/repo` *now*: either the insertion
loop (with its counter behaviour `Generated.C19.getPipesIncrementsCnt`) or collect-then-library-sort
(`Generated.C19.getPipesLibrarySort`). -/
def listing (order : List Pipe) : List Pipe :=
  getPipesShape Generated.C19.getPipesLibrarySort Generated.C19.getPipesIncrementsCnt order

/-- the library-sort shape gives the sorted permutation -/
theorem libSort_sorted_perm (order : List Pipe) :
    (libSortPipes order).Pairwise (fun a b => bytesLe a.name b.name = true) ∧ (libSortPipes order).Perm order := by
  refine ⟨?_, List.mergeSort_perm _ _⟩
  unfold libSortPipes
  exact List.pairwise_mergeSort (le := fun a b => bytesLe a.name b.name)
    (fun a b c h1 h2 => bytesLe_trans a.name b.name c.name h1 h2)
    (fun a b => by
      rcases bytesLe_total a.name b.name with h | h <;> simp [h]) order

/-- **Listing is alphabetical and complete**, for every map iteration order and any number of pipes:
sorted by name (Go string order) and a permutation of the registry's pipes — every pipe exactly once. -/
theorem listing_sorted (order : List Pipe) :
    (listing order).Pairwise (fun a b => bytesLe a.name b.name = true) ∧ (listing order).Perm order := by
  -- the source has one of the two shapes for which the listing is the sorted permutation
  have hshape : Generated.C19.getPipesLibrarySort = true ∨
      (Generated.C19.getPipesLibrarySort = false ∧ Generated.C19.getPipesIncrementsCnt = true ∧
        Generated.C19.getPipesSearchesOverCnt = true ∧ Generated.C19.getPipesSearchComparesNames = true) := by decide
  unfold listing getPipesShape
  rcases hshape with h | ⟨h, hfact, _⟩
  · rw [h]; exact libSort_sorted_perm order
  · rw [h, hfact]; exact getPipes_sorted_perm order

/-- The listing does not depend on the map iteration order when names are distinct: two orders of the
same pipes give the same list. -/
theorem listing_order_independent (o1 o2 : List Pipe) (hp : o1.Perm o2)
    (_hn : (o1.map (·.name)).Nodup) : (listing o1).map (·.name) = (listing o2).map (·.name) := by
  obtain ⟨s1, p1⟩ := listing_sorted o1
  obtain ⟨s2, p2⟩ := listing_sorted o2
  have hperm : ((listing o1).map (·.name)).Perm ((listing o2).map (·.name)) :=
    ((p1.trans hp).trans p2.symm).map _
  have hs1 : ((listing o1).map (·.name)).Pairwise (fun a b => bytesLe a b = true) := by
    rw [List.pairwise_map]; exact s1
  have hs2 : ((listing o2).map (·.name)).Pairwise (fun a b => bytesLe a b = true) := by
    rw [List.pairwise_map]; exact s2
  exact List.Perm.eq_of_pairwise (le := fun a b => bytesLe a b = true)
    (fun a b _ _ h1 h2 => bytesLe_antisymm a b h1 h2) hs1 hs2 hperm

/-- **Paging visits every pipe exactly once**: `SHOW PIPES OFFSET i·k LIMIT k` for `i = 0, 1, …`
concatenate to the whole listing (any page size `k ≥ 1`, enough pages). -/
theorem paging_partition (names : List Bytes) (k pages : Nat) (hk : 0 < k) (hp : names.length ≤ pages * k)
    (hkm : (k : Int) ≤ maxInt64) (hpm : ((pages * k : Nat) : Int) ≤ maxInt64) :
    ((List.range pages).map (fun i => (showPipes names (some (k : Int)) (some ((i * k : Nat) : Int))).getD [])).flatten
      = names := by
  have : (List.range pages).map (fun i => (showPipes names (some (k : Int)) (some ((i * k : Nat) : Int))).getD []) =
      (List.range pages).map (fun i => (names.drop (0 + i * k)).take k) := by
    apply List.map_congr_left
    intro i hi
    have hi' : i < pages := List.mem_range.mp hi
    have hle : i * k ≤ pages * k := Nat.mul_le_mul_right k (Nat.le_of_lt hi')
    rw [showPipes_eq names k (i * k) hk hkm (by omega)]; simp
  rw [this, pages_concat names k pages 0 (by omega)]; simp

/-- a negative OFFSET is rejected, never clamped -/
theorem negative_offset_rejected (names : List Bytes) (lim : Option Int) (o : Int) (h : o < 0) :
    showPipes names lim (some o) = none := by
  simp [showPipes, h]

/-- **Creating an existing name fails and changes nothing.** -/
theorem create_existing_fails_unchanged (r : Reg) (p q : Pipe) (ok : Bool) (h : r.find p.name = some q) :
    step r (.create p ok) = (r, .exists_) := by
  simp [step, create, h]

/-- **Creating a fresh name with parsable conditions registers exactly that definition.** -/
theorem create_fresh (r : Reg) (p : Pipe) (h : r.find p.name = none) :
    (step r (.create p true)).2 = .ok p ∧ (step r (.create p true)).1.find p.name = some p := by
  simp [step, create, h, find_cons_self]

/-- **Ensure is idempotent**: ensuring a pipe with the definition it already has returns it, unchanged. -/
theorem ensure_idempotent (r : Reg) (p : Pipe) (ok ok' : Bool) (h : r.find p.name = none) (hok : ok = true) :
    let r1 := (step r (.ensure p ok)).1
    step r1 (.ensure p ok') = (r1, .ok p) := by
  subst hok
  have h' : List.find? (fun x => x.name == p.name) r = none := h
  simp [step, ensure, Reg.find, h']

/-- **Ensure with a different definition fails and changes nothing.** -/
theorem ensure_conflict_fails (r : Reg) (p q : Pipe) (ok : Bool) (h : r.find p.name = some q)
    (hd : q.fltCond ≠ p.fltCond ∨ q.tagsCond ≠ p.tagsCond) :
    step r (.ensure p ok) = (r, .conflict) := by
  simp only [step, ensure, h]
  rcases hd with hd | hd <;> simp [hd]

/-- **A deleted pipe can be created again** (with any definition). -/
theorem delete_then_create (r : Reg) (n : Bytes) (q p : Pipe) (hq : r.find n = some q) (hp : p.name = n) :
    let r1 := (step r (.delete n)).1
    (step r1 (.create p true)).2 = .ok p := by
  subst hp
  simp [step, hq, create, find_erase_self]

/-- DESCRIBE PIPE (`GetPipe`) reports the stored definition. -/
theorem describe_reports_stored (r : Reg) (p : Pipe) (h : r.find p.name = none) :
    (step (step r (.create p true)).1 (.get p.name)).2 = .ok p := by
  have h' : List.find? (fun x => x.name == p.name) r = none := h
  simp [step, create, Reg.find, h']

/-- **Names stay unique** along every history of registry operations. -/
theorem names_unique (r : Reg) (ops : List Op) (h : r.Nodup) : (run r ops).Nodup := by
  induction ops generalizing r with
  | nil => simpa [run] using h
  | cons o os ih => exact ih _ (step_nodup r o h)

/-! ### concurrent creates: the two critical sections of `CreatePipe`, any number of callers, any schedule -/

/-- Invariant of the concurrent-create transition system. -/
def CInv (s : CState) : Prop :=
  s.reg.Nodup ∧
  (∀ (a : Nat) (p : Pipe), s.pcs[a]? = some (p, Pc.done true) → ∃ q, s.reg.find p.name = some q) ∧
  (∀ (a b : Nat) (p q : Pipe), a ≠ b → s.pcs[a]? = some (p, Pc.done true) →
    s.pcs[b]? = some (q, Pc.done true) → p.name ≠ q.name)

/-- a step that only moves actor `a` to a program counter other than "created" keeps the invariant -/
theorem cinv_set_other (s : CState) (a : Nat) (p : Pipe) (pc : Pc) (hpc : pc ≠ Pc.done true)
    (halt : a < s.pcs.length) (h : CInv s) : CInv { s with pcs := s.pcs.set a (p, pc) } := by
  obtain ⟨hn, hacc, huniq⟩ := h
  have key : ∀ (b : Nat) (p' : Pipe), (s.pcs.set a (p, pc))[b]? = some (p', Pc.done true) →
      s.pcs[b]? = some (p', Pc.done true) := by
    intro b p' hb
    by_cases e : b = a
    · subst e
      rw [List.getElem?_set_self halt] at hb
      simp only [Option.some.injEq, Prod.mk.injEq] at hb
      exact absurd hb.2 hpc
    · rw [List.getElem?_set_ne (Ne.symm e)] at hb; exact hb
  refine ⟨hn, ?_, ?_⟩
  · intro b p' hb; exact hacc b p' (key b p' hb)
  · intro b c p' q' hbc hb hc; exact huniq b c p' q' hbc (key b p' hb) (key c q' hc)

theorem cstep_inv (s s' : CState) (a : Nat) (h : CInv s) (hs : cstep true s a = some s') : CInv s' := by
  unfold cstep at hs
  cases hpa : s.pcs[a]? with
  | none => simp [hpa] at hs
  | some pp =>
    obtain ⟨p, pc⟩ := pp
    have halt : a < s.pcs.length := by
      rcases Nat.lt_or_ge a s.pcs.length with h | h
      · exact h
      · rw [List.getElem?_eq_none h] at hpa; cases hpa
    cases pc with
    | start =>
      simp only [hpa] at hs
      cases hf : s.reg.find p.name with
      | some q =>
        simp only [hf, Option.some.injEq] at hs; subst hs
        exact cinv_set_other s a p _ (by simp) halt h
      | none =>
        simp only [hf, Option.some.injEq] at hs; subst hs
        exact cinv_set_other s a p _ (by simp) halt h
    | checked =>
      simp only [hpa, if_true] at hs
      cases hf : s.reg.find p.name with
      | some q =>
        simp only [hf, Option.some.injEq] at hs; subst hs
        exact cinv_set_other s a p _ (by simp) halt h
      | none =>
        simp only [hf, Option.some.injEq] at hs; subst hs
        obtain ⟨hn, hacc, huniq⟩ := h
        have key : ∀ (b : Nat) (p' : Pipe), b ≠ a → (s.pcs.set a (p, Pc.done true))[b]? = some (p', Pc.done true) →
            s.pcs[b]? = some (p', Pc.done true) := by
          intro b p' e hb
          rw [List.getElem?_set_ne (Ne.symm e)] at hb; exact hb
        have self : ∀ (p' : Pipe), (s.pcs.set a (p, Pc.done true))[a]? = some (p', Pc.done true) → p' = p := by
          intro p' hb
          rw [List.getElem?_set_self halt] at hb
          simp only [Option.some.injEq, Prod.mk.injEq] at hb
          exact hb.1.symm
        refine ⟨?_, ?_, ?_⟩
        · unfold Reg.Nodup; simp only [List.map_cons, List.nodup_cons]
          exact ⟨find_none_not_mem _ _ hf, hn⟩
        · intro b p' hb
          simp only [] at hb
          by_cases e : b = a
          · subst e
            have := self p' hb; subst this
            exact ⟨p', find_cons_self _ _⟩
          · obtain ⟨q, hq⟩ := hacc b p' (key b p' e hb)
            by_cases en : p.name = p'.name
            · exact ⟨p, by simp [Reg.find, en]⟩
            · refine ⟨q, ?_⟩
              simp only [Reg.find] at hq ⊢
              rw [List.find?_cons_of_neg (by simpa using en)]
              exact hq
        · intro b c p' q' hbc hb hc
          simp only [] at hb hc
          by_cases eb : b = a
          · subst eb
            have := self p' hb; subst this
            have hc' := key c q' (Ne.symm hbc) hc
            obtain ⟨x, hx⟩ := hacc c q' hc'
            intro en; rw [en, hx] at hf; cases hf
          · by_cases ec : c = a
            · subst ec
              have := self q' hc; subst this
              have hb' := key b p' eb hb
              obtain ⟨x, hx⟩ := hacc b p' hb'
              intro en; rw [← en, hx] at hf; cases hf
            · exact huniq b c p' q' hbc (key b p' eb hb) (key c q' ec hc)
    | done ok => simp [hpa] at hs

/-- **Concurrent creates keep the registry functional**: for every schedule of any number of callers,
the registry holds at most one pipe per name, every caller that was told "created" finds a pipe of its
name registered, and no two callers were told "created" for the same name. -/
theorem registry_functional (s : CState) (sched : List Nat) (h : CInv s) :
    CInv (crun Generated.C19.createPipeRechecks s sched) := by
  have hfact : Generated.C19.createPipeRechecks = true := by decide
  rw [hfact]
  induction sched generalizing s with
  | nil => simpa [crun] using h
  | cons a as ih =>
    simp only [crun]
    cases hs : cstep true s a with
    | none => exact ih s h
    | some s' => exact ih s' (cstep_inv s s' a h hs)

/-- Any number of callers, all starting now on a well-formed registry: whatever the interleaving of their
critical sections, two different callers never both succeed for one name. -/
theorem concurrent_same_name_one_winner (r : Reg) (hr : r.Nodup) (wants : List Pipe) (sched : List Nat)
    (a b : Nat) (p q : Pipe) (hab : a ≠ b) :
    let s := crun Generated.C19.createPipeRechecks ⟨r, wants.map (fun w => (w, Pc.start))⟩ sched
    s.pcs[a]? = some (p, Pc.done true) → s.pcs[b]? = some (q, Pc.done true) → p.name ≠ q.name := by
  intro s ha hb
  have h0 : CInv ⟨r, wants.map (fun w => (w, Pc.start))⟩ := by
    refine ⟨hr, ?_, ?_⟩
    · intro a p h; simp [List.getElem?_map] at h
    · intro a b p q _ h; simp [List.getElem?_map] at h
  exact (registry_functional _ sched h0).2.2 a b p q hab ha hb

/-! ### concurrent ensures of one definition -/

/-- **Ensure is idempotent under races.** Any number of callers ensure one name with one definition
(`SameDef d`), on a registry that has no pipe of that name or one with that definition; whatever the
interleaving of their critical sections (GetPipe, CreatePipe's two sections, up to three attempts each),
every caller that has returned got a pipe with that definition — none fails, none sees a conflict — and the
registry holds at most that definition under the name. -/
theorem ensure_same_definition_all_succeed (d : Pipe) (r : Reg) (hr : RegGood d r)
    (callers : List Pipe) (hc : ∀ p ∈ callers, SameDef d p) (sched : List Nat) :
    let s := erun ⟨r, callers.map (fun p => (p, Epc.get 0))⟩ sched
    (∀ (a : Nat) (p : Pipe) (res : Res), s.pcs[a]? = some (p, Epc.done res) → ∃ q, res = .ok q ∧ SameDef d q) ∧
    RegGood d s.reg := by
  intro s
  have h0 : EInv d ⟨r, callers.map (fun p => (p, Epc.get 0))⟩ := by
    refine ⟨hr, ?_⟩
    intro x hx
    obtain ⟨p, hp, rfl⟩ := List.mem_map.mp hx
    exact ⟨hc p hp, by simp⟩
  have hinv := erun_inv d _ sched h0
  refine ⟨?_, hinv.1⟩
  intro a p res ha
  have := hinv.2 (p, Epc.done res) (List.mem_of_getElem? ha)
  exact this.2

/-- no caller ever needs the third attempt (so the "Oops" exit of the three-attempt loop is unreachable
without concurrent deletes) -/
theorem ensure_never_exhausts_attempts (d : Pipe) (r : Reg) (hr : RegGood d r)
    (callers : List Pipe) (hc : ∀ p ∈ callers, SameDef d p) (sched : List Nat) (a : Nat) (p : Pipe) :
    (erun ⟨r, callers.map (fun p => (p, Epc.get 0))⟩ sched).pcs[a]? ≠ some (p, Epc.done .failed) := by
  intro h
  obtain ⟨q, hq, _⟩ := (ensure_same_definition_all_succeed d r hr callers hc sched).1 a p _ h
  cases hq

/-! ### the listing and its pages together -/

/-- **Walking SHOW PIPES with OFFSET/LIMIT pages visits every pipe exactly once, in alphabetical order**:
the pages of the listing the code computes (for any map iteration order) concatenate to a list that is
sorted and a permutation of the registry's names. -/
theorem paged_walk_visits_each_pipe_once (order : List Pipe) (k pages : Nat) (hk : 0 < k)
    (hp : order.length ≤ pages * k) (hkm : (k : Int) ≤ maxInt64) (hpm : ((pages * k : Nat) : Int) ≤ maxInt64) :
    let names := (listing order).map (·.name)
    let walk := ((List.range pages).map (fun i =>
      (showPipes names (some (k : Int)) (some ((i * k : Nat) : Int))).getD [])).flatten
    walk.Pairwise (fun a b => bytesLe a b = true) ∧ walk.Perm (order.map (·.name)) := by
  intro names walk
  obtain ⟨hs, hperm⟩ := listing_sorted order
  have hlen : names.length ≤ pages * k := by
    simp only [names, List.length_map]; rw [hperm.length_eq]; exact hp
  have hw : walk = names := paging_partition names k pages hk hlen hkm hpm
  rw [hw]
  exact ⟨by simp only [names]; rw [List.pairwise_map]; exact hs, hperm.map _⟩

/-! ### non-vacuity: the hypotheses above are met by concrete, non-trivial states -/

def pA : Pipe := ⟨[97], [], []⟩
def pB : Pipe := ⟨[98], [1], []⟩
def pA' : Pipe := ⟨[97], [2], []⟩

example : (getPipes true [pB, pA]).map (·.name) = [[97], [98]] := by decide
example : (libSortPipes [pB, pA]).map (·.name) = [[97], [98]] := by
  simp [libSortPipes, List.mergeSort, List.MergeSort.Internal.splitInTwo, List.splitAt, List.splitAt.go, pA, pB, bytesLe, bytesLt]
example : Reg.Nodup [pA, pB] ∧ Reg.find [pA, pB] pA'.name = some pA := by
  unfold Reg.Nodup; decide
/-- two racing creators of one name: one schedule where the second section of the first caller runs last -/
example : (crun true ⟨[], [(pA, .start), (pA', .start)]⟩ [0, 1, 1, 0]).pcs = [(pA, .done false), (pA', .done true)] := by
  decide

/-- why the re-check matters: without it the same schedule tells BOTH callers "created" (this is what
`registry_functional` would have to face if the second look-up were removed from the code) -/
theorem cex_without_recheck :
    (crun false ⟨[], [(pA, .start), (pA', .start)]⟩ [0, 1, 1, 0]).pcs = [(pA, .done true), (pA', .done true)] := by
  decide

-- three racing ensures of one fresh name: the interleaving below ends with all three holding the pipe
example : (erun ⟨[], [(pA, .get 0), (pA, .get 0), (pA, .get 0)]⟩ [0, 1, 2, 0, 1, 2, 2, 1, 0, 0, 1, 2]).pcs =
    [(pA, .done (.ok pA)), (pA, .done (.ok pA)), (pA, .done (.ok pA))] := by decide


/-! ### concurrent ensures with DIFFERENT definitions -/

/-- what an ensure may answer: "ok" only with a pipe that carries the caller's own two conditions -/
def EnsureSound (x : Pipe × Epc) : Prop :=
  match x.2 with
  | .done (.ok q) => q.fltCond = x.1.fltCond ∧ q.tagsCond = x.1.tagsCond
  | _ => True

theorem estep_sound (s s' : EState) (a : Nat) (h : ∀ x ∈ s.pcs, EnsureSound x) (hs : estep s a = some s') :
    ∀ x ∈ s'.pcs, EnsureSound x := by
  unfold estep at hs
  -- every branch replaces actor `a`'s entry only; it is enough to show the new entry is sound
  have key : ∀ (y : Pipe × Epc) (reg : Reg), EnsureSound y →
      ∀ x ∈ ({ reg := reg, pcs := s.pcs.set a y } : EState).pcs, EnsureSound x := by
    intro y reg hy x hx
    rcases List.mem_or_eq_of_mem_set hx with hx | rfl
    · exact h x hx
    · exact hy
  cases hpa : s.pcs[a]? with
  | none => simp [hpa] at hs
  | some pp =>
    obtain ⟨p, pc⟩ := pp
    cases pc with
    | get n =>
      simp only [hpa] at hs
      cases hf : s.reg.find p.name with
      | none => simp only [hf, Option.some.injEq] at hs; subst hs; exact key _ _ (by simp [EnsureSound])
      | some q =>
        simp only [hf] at hs
        by_cases hq : (q.fltCond != p.fltCond || q.tagsCond != p.tagsCond) = true
        · simp only [hq, if_true, Option.some.injEq] at hs; subst hs; exact key _ _ (by simp [EnsureSound])
        · simp only [hq, Bool.false_eq_true, if_false, Option.some.injEq] at hs; subst hs
          refine key _ _ ?_
          simp only [EnsureSound]
          simp only [Bool.or_eq_true, bne_iff_ne, ne_eq, not_or, Decidable.not_not] at hq
          exact hq
    | createStart n =>
      simp only [hpa] at hs
      cases hf : s.reg.find p.name with
      | none => simp only [hf, Option.some.injEq] at hs; subst hs; exact key _ _ (by simp [EnsureSound])
      | some q =>
        simp only [hf, Option.some.injEq] at hs; subst hs
        refine key _ _ ?_
        unfold nextAttempt; split <;> simp [EnsureSound]
    | createChecked n =>
      simp only [hpa] at hs
      cases hf : s.reg.find p.name with
      | none =>
        simp only [hf, Option.some.injEq] at hs; subst hs
        refine key _ _ ?_
        unfold nextAttempt; split <;> simp [EnsureSound]
      | some q =>
        simp only [hf, Option.some.injEq] at hs; subst hs
        refine key _ _ ?_
        unfold nextAttempt; split <;> simp [EnsureSound]
    | done r => simp [hpa] at hs

/-- **An ensure never hands out another definition.** Any number of concurrent `EnsurePipe` callers with ANY
definitions (same name or not, same conditions or not), any interleaving of their critical sections: a caller
that is answered "ok" gets a pipe with exactly its own two conditions — if somebody else's definition won the
name, the answer is the conflict error (or, after three lost attempts, the failure), never the other pipe. -/
theorem ensure_never_returns_another_definition (r : Reg) (callers : List Pipe) (sched : List Nat) :
    ∀ x ∈ (erun ⟨r, callers.map (fun p => (p, Epc.get 0))⟩ sched).pcs, EnsureSound x := by
  have hinit : ∀ x ∈ (⟨r, callers.map (fun p => (p, Epc.get 0))⟩ : EState).pcs, EnsureSound x := by
    intro x hx
    obtain ⟨p, _, rfl⟩ := List.mem_map.mp hx
    simp [EnsureSound]
  generalize (⟨r, callers.map (fun p => (p, Epc.get 0))⟩ : EState) = s at hinit
  induction sched generalizing s with
  | nil => simpa [erun] using hinit
  | cons a as ih =>
    simp only [erun]
    cases hs : estep s a with
    | none => exact ih s hinit
    | some s' => exact ih s' (estep_sound s s' a hinit hs)

/-- two ensurers of one name with different conditions: the overtaken one is told "conflict" -/
example : (erun ⟨[], [(pA, .get 0), (pA', .get 0)]⟩ [0, 0, 1, 1, 1, 1, 0, 0]).pcs =
    [(pA, .done .conflict), (pA', .done (.ok pA'))] := by decide

/-! ## persistence: the registry survives a clean restart (and an acknowledged definition survives a crash) -/

/-- which operations persist the registry, as the extractor reads it from the source now -/
def cfgNow : PCfg :=
  ⟨Generated.C19.createPipeSaves, Generated.C19.deletePipeSaves, Generated.C19.shutdownSaves⟩

/-- what is on disk is the registry, and every registered pipe is one `newPPipe` accepts -/
def PInv (acc : Pipe → Bool) (s : PState) : Prop :=
  (s.disk = some s.mem ∨ (s.disk = none ∧ s.mem = [])) ∧ ∀ p ∈ s.mem, acc p = true

theorem pload_of_inv (acc : Pipe → Bool) (s : PState) (h : PInv acc s) : pload acc s.disk = some s.mem := by
  obtain ⟨hd, ha⟩ := h
  have hall : s.mem.all acc = true := by simpa [List.all_eq_true] using ha
  rcases hd with hd | ⟨hd, hm⟩
  · simp [pload, hd, hall]
  · simp [pload, hd, hm]

/-- an operation that does not change the registry leaves it as it is -/
theorem step_unchanged (r : Reg) (o : Op) (h : changes r o = false) : (step r o).1 = r := by
  cases o with
  | get n => simp only [step]; cases Reg.find r n <;> rfl
  | delete n =>
    simp only [changes] at h; simp only [step]
    cases hf : Reg.find r n with
    | none => rfl
    | some q => simp [hf] at h
  | create p ok =>
    simp only [changes] at h; simp only [step, create]
    cases hf : Reg.find r p.name with
    | some q => rfl
    | none => simp [hf] at h; simp [h]
  | ensure p ok =>
    simp only [changes] at h; simp only [step, ensure]
    cases hf : Reg.find r p.name with
    | some q => by_cases hq : (q.fltCond != p.fltCond || q.tagsCond != p.tagsCond) = true <;> simp [hq]
    | none => simp [hf] at h; simp [h]

/-- whatever an operation (with acceptance decided by `acc`) leaves in the registry is accepted by `acc` -/
theorem step_acc (acc : Pipe → Bool) (r : Reg) (o : Op) (h : ∀ p ∈ r, acc p = true) :
    ∀ p ∈ (step r (withAcc acc o)).1, acc p = true := by
  cases o with
  | get n => simp only [withAcc, step]; cases Reg.find r n <;> exact h
  | delete n =>
    simp only [withAcc, step]
    cases Reg.find r n with
    | none => exact h
    | some q => intro p hp; exact h p (by unfold Reg.erase at hp; exact (List.mem_filter.mp hp).1)
  | create p ok =>
    simp only [withAcc, step, create]
    cases Reg.find r p.name with
    | some q => exact h
    | none =>
      by_cases ha : acc p = true
      · simp only [ha, if_true]; intro x hx
        rcases List.mem_cons.mp hx with rfl | hx
        · exact ha
        · exact h x hx
      · simp only [ha]; exact h
  | ensure p ok =>
    simp only [withAcc, step, ensure]
    cases Reg.find r p.name with
    | some q => by_cases hq : (q.fltCond != p.fltCond || q.tagsCond != p.tagsCond) = true <;> simp only [hq] <;> exact h
    | none =>
      by_cases ha : acc p = true
      · simp only [ha, if_true]; intro x hx
        rcases List.mem_cons.mp hx with rfl | hx
        · exact ha
        · exact h x hx
      · simp only [ha]; exact h

/-- one step of a server whose create and delete persist keeps the invariant, whatever `Shutdown` does -/
theorem pstep_inv (cfg : PCfg) (acc : Pipe → Bool) (hc : cfg.createSaves = true) (hd : cfg.deleteSaves = true)
    (s : PState) (o : POp) (h : PInv acc s) : PInv acc (pstep cfg acc s o).1 := by
  have hl := pload_of_inv acc s h
  obtain ⟨hdisk, hacc⟩ := h
  cases o with
  | restart =>
    unfold pstep
    by_cases hs : cfg.shutdownSaves = true
    · have : pload acc (some s.mem) = some s.mem := by
        have hall : s.mem.all acc = true := by simpa [List.all_eq_true] using hacc
        simp [pload, hall]
      simp only [hs, if_true, this]; exact ⟨Or.inl rfl, hacc⟩
    · have hs' : cfg.shutdownSaves = false := by simpa using hs
      simp only [hs', Bool.false_eq_true, if_false, hl]; exact ⟨hdisk, hacc⟩
  | crash => unfold pstep; simp only [hl]; exact ⟨hdisk, hacc⟩
  | op o =>
    have hsave : savesAfter cfg s.mem (withAcc acc o) = changes s.mem (withAcc acc o) := by
      unfold savesAfter; cases o <;> simp [withAcc, hc, hd, changes]
    refine ⟨?_, ?_⟩
    · show (if savesAfter cfg s.mem (withAcc acc o) = true then some (step s.mem (withAcc acc o)).1 else s.disk)
          = some (step s.mem (withAcc acc o)).1 ∨
        ((if savesAfter cfg s.mem (withAcc acc o) = true then some (step s.mem (withAcc acc o)).1 else s.disk) = none ∧
          (step s.mem (withAcc acc o)).1 = [])
      rw [hsave]
      by_cases hch : changes s.mem (withAcc acc o) = true
      · left; simp [hch]
      · have hch' : changes s.mem (withAcc acc o) = false := by simpa using hch
        have hun := step_unchanged s.mem (withAcc acc o) hch'
        show (if changes s.mem (withAcc acc o) = true then some (step s.mem (withAcc acc o)).1 else s.disk)
            = some (step s.mem (withAcc acc o)).1 ∨
          ((if changes s.mem (withAcc acc o) = true then some (step s.mem (withAcc acc o)).1 else s.disk) = none ∧
            (step s.mem (withAcc acc o)).1 = [])
        rw [hch', hun]; simpa using hdisk
    · exact step_acc acc s.mem o hacc

/-- **The registry survives a clean restart** — and a crash — at any point of any history: from an empty
directory, after every sequence of create / ensure / delete / get operations, clean restarts and crashes,
a further clean restart (or crash) starts (is not refused) and leaves exactly the registry that was there.
The three facts (CreatePipe, DeletePipe and Shutdown call `savePipes`) are read from the source on every run. -/
theorem registry_survives_restart (acc : Pipe → Bool) (ops : List POp) :
    let s := prun cfgNow acc ⟨[], none⟩ ops
    pstep cfgNow acc s .restart = (⟨s.mem, some s.mem⟩, none) ∧
    (pstep cfgNow acc s .crash).1.mem = s.mem ∧ (pstep cfgNow acc s .crash).2 = none := by
  have hc : cfgNow.createSaves = true := by decide
  have hd : cfgNow.deleteSaves = true := by decide
  have hs : cfgNow.shutdownSaves = true := by decide
  have hinv : ∀ (ops : List POp) (s : PState), PInv acc s → PInv acc (prun cfgNow acc s ops) := by
    intro ops
    induction ops with
    | nil => intro s h; exact h
    | cons o os ih => intro s h; exact ih _ (pstep_inv cfgNow acc hc hd s o h)
  have h := hinv ops ⟨[], none⟩ ⟨Or.inr ⟨rfl, rfl⟩, by simp⟩
  intro s
  have hl := pload_of_inv acc s h
  have hall : s.mem.all acc = true := by simpa [List.all_eq_true] using h.2
  refine ⟨?_, ?_, ?_⟩
  · simp [pstep, hs, pload, hall]
  · simp [pstep, hl]
  · simp [pstep, hl]

/-- why the save in `CreatePipe` matters (the repair of F07): without it a crash right after an acknowledged
create loses the definition — the model's other branch -/
theorem cex_create_without_save :
    (prun ⟨false, true, true⟩ (fun _ => true) ⟨[], none⟩ [.op (.create pA true), .crash]).mem = [] := by
  decide

example : (prun cfgNow (fun _ => true) ⟨[], none⟩ [.op (.create pA true), .op (.create pB true), .op (.delete [97]), .restart]).mem = [pB] := by
  decide


/-! ## concurrent creates and the registry file -/

/-- **An acknowledged create is in pipes.dat, under every interleaving**: any number of concurrent callers of
`CreatePipe` (same or different names), any schedule of their atomic steps (the two critical sections, the
snapshot `savePipes` takes under the service lock, the write of the file): every caller that has been told
"created" finds its definition on disk — so a crash at any later point keeps it. `savePipes` being serialized
by its own mutex is read from the source on every run. -/
theorem concurrent_acknowledged_creates_on_disk (r : Reg) (wants : List Pipe) (sched : List Nat) :
    let s := srun Generated.C19.savePipesSerialized ⟨r, r, none, wants.map (fun w => (w, SPc.start))⟩ sched
    ∀ (a : Nat) (p : Pipe), s.pcs[a]? = some (p, SPc.done true) → p ∈ s.disk := by
  have hfact : Generated.C19.savePipesSerialized = true := by decide
  rw [hfact]
  intro s a p ha
  have hinit : SInv ⟨r, r, none, wants.map (fun w => (w, SPc.start))⟩ := by
    refine ⟨fun q hq => hq, ?_, ?_⟩
    · intro b x hb
      simp only [List.getElem?_map] at hb
      cases hw : wants[b]? with
      | none => simp [hw] at hb
      | some w => simp only [hw, Option.map_some, Option.some.injEq] at hb; subst hb; simp [SOk]
    · intro b hb; cases hb
  have h := (srun_inv _ sched hinit).2.1 a (p, SPc.done true) ha
  simpa [SOk] using h

/-- why the serialization matters (found by an independent reviewer of the F07 repair): without it two calls
can take their snapshots in one order and write them in the other — the second caller is told "created" and
its definition is not on disk. The model's other branch. -/
theorem cex_unserialized_save_loses_acknowledged_create :
    let s := srun false ⟨[], [], none, [(pA, SPc.start), (pB, SPc.start)]⟩ [0, 0, 0, 1, 1, 1, 1, 0]
    s.pcs[1]? = some (pB, SPc.done true) ∧ pB ∉ s.disk := by
  decide

/-- the same schedule with the serialized `savePipes`: caller 1 waits for caller 0's write, both are on disk -/
example : (srun true ⟨[], [], none, [(pA, SPc.start), (pB, SPc.start)]⟩ [0, 0, 0, 1, 1, 1, 0, 1, 1]).disk = [pB, pA] := by
  decide

end Logrange.Props.C19
