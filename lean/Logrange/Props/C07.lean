import Logrange.Proofs.Persist
/-!
# C07 — Stored state survives restart, including crash-shaped on-disk states

Property theorems only (model: `Logrange/Model/{PersistFS,TIndexFile,CIndexFile,PipeFiles,RestartModel}.lean`, lemmas:
`Logrange/Proofs/Persist.lean`). All theorems are generic in the four codecs (`K : Codecs`) under the codec
contract `K.Laws` (true of `encoding/json` on Go maps/slices; checked by the harness) and in `parseOk` (do the
stored tag lines parse back — C08). Crash statements are about the sequential crash model of `PersistFS`.

Facts regenerated from the source on every run enter through `Logrange.Generated.C07` (call order of
`saveStateUnsafe`, who calls `savePipes` / `saveDataToFile`, file names, `loadState` never reads the backup …):
a repair of one of the open findings changes a generated fact and breaks the matching `cex_…` proof, which is then
replaced by the positive theorem.
-/
namespace Logrange.Props.C07
open Logrange.Persist Logrange.Generated.C07

/-- consistency of a running server's memory with its disk: `tindex.dat` is the encoding of the tag index (it is
saved on every change), the stored tag lines parse back (C08), every journal on disk has a record, and every pipe's
position file decodes to the pipe's positions (saved after every copied batch). -/
def WF (K : Codecs) (parseOk : TagLine → Bool) (s : Srv) : Prop :=
  s.disk.files .tindexDat = some (K.tidx.enc s.mem.tmap) ∧
  s.mem.tmap.all (fun e => parseOk e.1) = true ∧
  (journalsOnDisk s.disk.db).all (tmapHasSrc s.mem.tmap) = true ∧
  ∀ p ∈ s.mem.pipes, loadPipeInfo K.pinfo s.disk.files p.cfg.name = p.poss

/-- **Graceful restart, full statement**: after `shutdown` the server starts and its tag index, chunk hulls and
roots, pipe definitions and pipe positions are exactly what they were, and so are the journals. FALSE today
(`cex_pipe_name_collision_clean`): kept as a definition. -/
def restart_graceful_full : Prop :=
  ∀ (K : Codecs) (parseOk : TagLine → Bool) (s : Srv), K.Laws → WF K parseOk s →
    ∃ s', recover K parseOk (shutdown K s).disk = .started s' ∧ s'.mem = s.mem ∧ s'.disk.db = s.disk.db

theorem loadPipeInfo_congr (c : Codec PosMap) (f g : Files) (n : Bytes) (h : f (pipeInfoPath n) = g (pipeInfoPath n)) :
    loadPipeInfo c f n = loadPipeInfo c g n := by
  simp [loadPipeInfo, h]

/-- **Graceful restart** (proved for every state without a pipe whose position file is the registry file —
the class of finding F33): `recover (shutdown s).disk = s.persistent`. -/
theorem restart_graceful_partial (K : Codecs) (parseOk : TagLine → Bool) (s : Srv) (hK : K.Laws)
    (hwf : WF K parseOk s) (hnc : nameCollision s.mem.pipes = false) :
    ∃ s', recover K parseOk (shutdown K s).disk = .started s' ∧ s'.mem = s.mem ∧ s'.disk.db = s.disk.db := by
  obtain ⟨ht, hp, hj, hpi⟩ := hwf
  -- the disk after shutdown
  let e1 := K.pipes.enc (s.mem.pipes.map (·.cfg))
  let e2 := K.cidx.enc s.mem.cidx
  have hnc' : ∀ p ∈ s.mem.pipes, pipeInfoPath p.cfg.name ≠ pipesDat ∧ pipeInfoPath p.cfg.name ≠ pipesTmp := by
    intro p hp'
    have := List.any_eq_false.mp hnc p hp'
    simpa using this
  have hf2 : ∀ q, (shutdown K s).disk.files q =
      if q = .cindexDat then some e2 else if q = pipesDat then some e1 else if q = pipesTmp then none else s.disk.files q := by
    intro q
    simp only [shutdown, shutdownSteps, cindexSaveSteps, runSteps_append, runSteps_writeFile, e1, e2]
    by_cases hq : q = .cindexDat
    · subst hq; simp
    · rw [Files.set_other _ _ _ _ hq, savePipes_at]; simp [hq]
  have hdb : (shutdown K s).disk.db = s.disk.db := rfl
  generalize hF : (shutdown K s).disk.files = f2 at hf2
  have h2t : f2 .tindexDat = some (K.tidx.enc s.mem.tmap) := by
    rw [hf2]; simp [pipesDat, pipesTmp, ht]
  have hload : loadState K.tidx parseOk f2 = some s.mem.tmap := by
    simp [loadState, h2t, hK.tidx.rt, hp]
  -- after the re-save of the tag index
  let f3 := runSteps f2 (tindexSaveSteps K.tidx f2 s.mem.tmap)
  have hcc : checkConsistency K.tidx parseOk f2 (journalsOnDisk s.disk.db) = some (s.mem.tmap, f3) := by
    simp [checkConsistency, hload, hj, f3]
  have h3 : ∀ q, ¬ tindexPath q → f3 q = f2 q := fun q hq => tindexSave_frame _ _ _ _ q hq
  have h3c : f3 .cindexDat = some e2 := by
    rw [h3 _ (by simp [tindexPath]), hf2]; simp
  have h3p : f3 pipesDat = some e1 := by
    rw [h3 _ (by simp [tindexPath, pipesDat]), hf2]; simp [pipesDat]
  have hci : cindexLoad K.cidx f3 = s.mem.cidx := by
    simp [cindexLoad, h3c, e2, hK.cidx.rt]
  have hinfo : ∀ p ∈ s.mem.pipes, loadPipeInfo K.pinfo f3 p.cfg.name = p.poss := by
    intro p hp'
    rw [← hpi p hp']
    apply loadPipeInfo_congr
    rw [h3 _ (by simp [tindexPath, pipeInfoPath]), hf2]
    have hA := (hnc' p hp').1
    have hB := (hnc' p hp').2
    rw [if_neg (by simp [pipeInfoPath]), if_neg hA, if_neg hB]
  have hpipes : pipesInit K.pipes K.pinfo f3 = some s.mem.pipes := by
    simp only [pipesInit, loadPipes, h3p, e1, hK.pipes.rt, Option.map_some]
    rw [map_cfg_poss _ _ hinfo]
  refine ⟨⟨⟨s.mem.tmap, s.mem.cidx, s.mem.pipes⟩, ⟨f3, s.disk.db, cleanupTrees s.mem.cidx s.disk.trees⟩⟩, ?_, rfl, rfl⟩
  simp only [recover]
  rw [hF, hdb, hcc]
  simp only [hci, hpipes]
  rfl

/-- **every RANGE query answers as it did** after a graceful restart: the hulls a new cursor sees are the same -/
theorem hulls_survive_graceful (K : Codecs) (parseOk : TagLine → Bool) (s : Srv) (hK : K.Laws)
    (hwf : WF K parseOk s) (hnc : nameCollision s.mem.pipes = false) :
    ∃ s', recover K parseOk (shutdown K s).disk = .started s' ∧
      ∀ src lo hi, rangeVisible (hullView s'.mem.cidx src ((alookup s'.disk.db src).getD [])) ((alookup s'.disk.db src).getD []) lo hi
        = rangeVisible (hullView s.mem.cidx src ((alookup s.disk.db src).getD [])) ((alookup s.disk.db src).getD []) lo hi := by
  obtain ⟨s', h1, h2, h3⟩ := restart_graceful_partial K parseOk s hK hwf hnc
  exact ⟨s', h1, by intro src lo hi; rw [h2, h3]⟩

/-! ## the tag-index save is crash-atomic (finding F05, repaired) -/

theorem saveSteps_eq (K : Codecs) (f : Files) (old new : TMap) (h : f .tindexDat = some (K.tidx.enc old)) :
    tindexSaveSteps K.tidx f new =
      [.truncate .tindexTmp, .append .tindexTmp (K.tidx.enc new), .remove .tindexBak, .link .tindexDat .tindexBak,
       .rename .tindexTmp .tindexDat] := by
  simp [tindexSaveSteps, tindexSaveStepsOf, saveStateCalls, tindexCallSteps, writeFile, h]

/-- what start-up finds depends on `tindex.dat` only -/
theorem cc_map (c : Codec TMap) (parseOk : TagLine → Bool) (f : Files) (js : List Src) :
    (checkConsistency c parseOk f js).map (·.1) =
      (loadState c parseOk f).bind (fun m => if js.all (tmapHasSrc m) then some m else none) := by
  unfold checkConsistency
  cases loadState c parseOk f with
  | none => rfl
  | some m =>
    show Option.map (fun (r : TMap × Files) => r.1) (if js.all (tmapHasSrc m) = true then _ else none) = if js.all (tmapHasSrc m) = true then some m else none
    by_cases h : js.all (tmapHasSrc m) = true
    · rw [if_pos h, if_pos h]; rfl
    · rw [if_neg h, if_neg h]; rfl

theorem loadState_congr (c : Codec TMap) (parseOk : TagLine → Bool) (f g : Files) (h : f .tindexDat = g .tindexDat) :
    loadState c parseOk f = loadState c parseOk g := by
  simp [loadState, h]

/-- at every cut of the save (every number of completed steps, every prefix of the temp file's content)
`tindex.dat` holds the complete old or the complete new content -/
theorem dat_at_cut (K : Codecs) (f : Files) (old new : TMap) (c : Cut) (h : f .tindexDat = some (K.tidx.enc old)) :
    diskAt f (tindexSaveSteps K.tidx f new) c .tindexDat = some (K.tidx.enc old) ∨
    diskAt f (tindexSaveSteps K.tidx f new) c .tindexDat = some (K.tidx.enc new) := by
  rw [saveSteps_eq K f old new h]
  obtain ⟨k, len⟩ := c
  match k with
  | 0 => left; simp [diskAt, runSteps, h]
  | 1 => left; simp [diskAt, runSteps, applyStep, Files.set, h]
  | 2 => left; simp [diskAt, runSteps, applyStep, Files.set, h]
  | 3 => left; simp [diskAt, runSteps, applyStep, Files.set, h]
  | 4 =>
    left
    simp only [diskAt, List.take, List.getElem?_cons_succ, List.getElem?_cons_zero, runSteps, List.foldl]
    rw [applyStep_frame _ _ _ (by simp [Step.touches]), applyStep_frame _ _ _ (by simp [Step.touches]),
      applyStep_frame _ _ _ (by simp [Step.touches]), applyStep_frame _ _ _ (by simp [Step.touches]), h]
  | k + 5 =>
    right
    have e : ([Step.truncate .tindexTmp, .append .tindexTmp (K.tidx.enc new), .remove .tindexBak, .link .tindexDat .tindexBak,
        .rename .tindexTmp .tindexDat] : List Step).take (k + 5) = _ := List.take_of_length_le (by simp)
    have e2 : ([Step.truncate .tindexTmp, .append .tindexTmp (K.tidx.enc new), .remove .tindexBak, .link .tindexDat .tindexBak,
        .rename .tindexTmp .tindexDat] : List Step)[k + 5]? = none := by
      apply List.getElem?_eq_none; simp
    simp only [diskAt, e, e2]
    simp only [runSteps, List.foldl]
    have ht : ∀ g : Files, applyStep (applyStep g (.truncate .tindexTmp)) (.append .tindexTmp (K.tidx.enc new)) .tindexTmp
        = some (K.tidx.enc new) := by intro g; simp [applyStep, Files.set]
    -- the temp file survives the backup steps, then is renamed over tindex.dat
    generalize hg : applyStep (applyStep f (.truncate .tindexTmp)) (.append .tindexTmp (K.tidx.enc new)) = g
    have hgt : g .tindexTmp = some (K.tidx.enc new) := by rw [← hg]; exact ht f
    have h3 : applyStep (applyStep g (.remove .tindexBak)) (.link .tindexDat .tindexBak) .tindexTmp = some (K.tidx.enc new) := by
      rw [applyStep_frame _ _ _ (by simp [Step.touches]), applyStep_frame _ _ _ (by simp [Step.touches]), hgt]
    generalize applyStep (applyStep g (.remove .tindexBak)) (.link .tindexDat .tindexBak) = X at h3
    simp [applyStep, h3, Files.set]

/-- **The tag-index save is crash-atomic** (was finding F05): wherever the save of `new` over `old` is cut — after any
step, at any prefix of the temp file — start-up finds `old` or `new` (given that both cover the journals on disk). -/
theorem tindex_crash_atomic (K : Codecs) (hK : K.Laws) (parseOk : TagLine → Bool) (f : Files) (old new : TMap)
    (js : List Src) (c : Cut) (h : f .tindexDat = some (K.tidx.enc old))
    (ho : old.all (fun e => parseOk e.1) = true) (hn : new.all (fun e => parseOk e.1) = true)
    (hjo : js.all (tmapHasSrc old) = true) (hjn : js.all (tmapHasSrc new) = true) :
    (checkConsistency K.tidx parseOk (diskAt f (tindexSaveSteps K.tidx f new) c) js).map (·.1) = some old ∨
    (checkConsistency K.tidx parseOk (diskAt f (tindexSaveSteps K.tidx f new) c) js).map (·.1) = some new := by
  rw [cc_map]
  rcases dat_at_cut K f old new c h with hd | hd
  · left
    have hl : loadState K.tidx parseOk (diskAt f (tindexSaveSteps K.tidx f new) c) = some old := by
      simp [loadState, hd, hK.tidx.rt, ho]
    rw [hl]
    show (if js.all (tmapHasSrc old) = true then some old else none) = some old
    rw [if_pos hjo]
  · right
    have hl : loadState K.tidx parseOk (diskAt f (tindexSaveSteps K.tidx f new) c) = some new := by
      simp [loadState, hd, hK.tidx.rt, hn]
    rw [hl]
    show (if js.all (tmapHasSrc new) = true then some new else none) = some new
    rw [if_pos hjn]

/-- the same for the very first save (no `tindex.dat` yet): start-up finds the empty index or `new` -/
theorem tindex_crash_atomic_fresh (K : Codecs) (hK : K.Laws) (parseOk : TagLine → Bool) (f : Files) (new : TMap) (c : Cut)
    (h : f .tindexDat = none) (hn : new.all (fun e => parseOk e.1) = true) :
    loadState K.tidx parseOk (diskAt f (tindexSaveSteps K.tidx f new) c) = some [] ∨
    loadState K.tidx parseOk (diskAt f (tindexSaveSteps K.tidx f new) c) = some new := by
  have hs : tindexSaveSteps K.tidx f new =
      [.truncate .tindexTmp, .append .tindexTmp (K.tidx.enc new), .rename .tindexTmp .tindexDat] := by
    simp [tindexSaveSteps, tindexSaveStepsOf, saveStateCalls, tindexCallSteps, writeFile, h]
  rw [hs]
  obtain ⟨k, len⟩ := c
  match k with
  | 0 => left; simp [diskAt, runSteps, loadState, h]
  | 1 => left; simp [diskAt, runSteps, applyStep, Files.set, loadState, h]
  | 2 => left; simp [diskAt, runSteps, applyStep, Files.set, loadState, h]
  | k + 3 =>
    right
    have e : ([Step.truncate .tindexTmp, .append .tindexTmp (K.tidx.enc new), .rename .tindexTmp .tindexDat] : List Step).take (k + 3)
        = _ := List.take_of_length_le (by simp)
    have e2 : ([Step.truncate .tindexTmp, .append .tindexTmp (K.tidx.enc new), .rename .tindexTmp .tindexDat] : List Step)[k + 3]?
        = none := by apply List.getElem?_eq_none; simp
    simp only [diskAt, e, e2]
    simp [runSteps, applyStep, Files.set, loadState, hK.tidx.rt, hn]

/-! ## the registry file -/

/-- **The registry save is crash-atomic** (was finding F41): at every cut of `savePipes` the registry file reads as
before the save or as the complete new list — never torn, never empty. -/
theorem pipes_dat_crash_atomic (K : Codecs) (hK : K.Laws) (f : Files) (new : List Pipe) (c : Cut) :
    loadPipes K.pipes (diskAt f (savePipesSteps K.pipes new) c) = loadPipes K.pipes f ∨
    loadPipes K.pipes (diskAt f (savePipesSteps K.pipes new) c) = some new := by
  rw [savePipesSteps_eq]
  have hne := pipesDat_ne_tmp
  obtain ⟨k, len⟩ := c
  match k with
  | 0 => left; simp [diskAt, runSteps]
  | 1 => left; simp [diskAt, runSteps, applyStep, Files.set, loadPipes, hne]
  | 2 => left; simp [diskAt, runSteps, applyStep, Files.set, loadPipes, hne]
  | k + 3 =>
    right
    have e : ([Step.truncate pipesTmp, .append pipesTmp (K.pipes.enc new), .rename pipesTmp pipesDat] : List Step).take (k + 3)
        = _ := List.take_of_length_le (by simp)
    have e2 : ([Step.truncate pipesTmp, .append pipesTmp (K.pipes.enc new), .rename pipesTmp pipesDat] : List Step)[k + 3]?
        = none := by apply List.getElem?_eq_none; simp
    simp only [diskAt, e, e2]
    simp [runSteps, applyStep, Files.set, loadPipes, hK.pipes.rt, hne]

/-! ## pipes -/

def s0 : Srv := ⟨⟨[], [], []⟩, Disk.fresh⟩

theorem checkConsistency_files (c : Codec TMap) (parseOk : TagLine → Bool) (f f1 : Files) (js : List Src) (m : TMap)
    (h : checkConsistency c parseOk f js = some (m, f1)) : ∀ q, ¬ tindexPath q → f1 q = f q := by
  unfold checkConsistency at h
  cases hl : loadState c parseOk f with
  | none => simp [hl] at h
  | some m' =>
    simp only [hl] at h
    by_cases hj : js.all (tmapHasSrc m') = true
    · simp only [hj, if_true, Option.some.injEq, Prod.mk.injEq] at h
      intro q hq
      rw [← h.2]
      exact tindexSave_frame _ _ _ _ q hq
    · simp [hj] at h

/-- a server that starts on a disk whose registry file is the encoding of `ps` has exactly the definitions `ps` -/
theorem recover_pipes (K : Codecs) (hK : K.Laws) (parseOk : TagLine → Bool) (d : Disk) (ps : List Pipe)
    (h : d.files pipesDat = some (K.pipes.enc ps)) (s' : Srv) (hr : recover K parseOk d = .started s') :
    s'.mem.pipes.map (·.cfg) = ps := by
  unfold recover at hr
  cases hc : checkConsistency K.tidx parseOk d.files (journalsOnDisk d.db) with
  | none => simp [hc] at hr
  | some r =>
    obtain ⟨tm, f1⟩ := r
    have hf := checkConsistency_files _ _ _ _ _ _ hc pipesDat (by simp [tindexPath, pipesDat])
    simp only [hc, pipesInit, loadPipes, hf, h, hK.pipes.rt, Option.map_some] at hr
    injection hr with hr
    rw [← hr]
    simp [List.map_map, Function.comp_def]

/-- **An acknowledged CREATE PIPE survives every crash** (was finding F07): once `CreatePipe` has returned, the registry
file holds the new list of definitions (`savePipes` is called by `CreatePipe`: `pipeDefsSavedOnCreate`), so a server
started on the crash image has exactly these definitions — the new one among them. -/
theorem acked_pipe_definition_survives_crash (K : Codecs) (hK : K.Laws) (parseOk : TagLine → Bool) (s : Srv) (p : Pipe)
    (s' : Srv) (hr : recover K parseOk (step K s (.createPipe p)).disk = .started s') :
    s'.mem.pipes.map (·.cfg) = s.mem.pipes.map (·.cfg) ++ [p] := by
  have hf : pipeDefsSavedOnCreate = true := by decide
  apply recover_pipes K hK parseOk _ _ _ s' hr
  simp [step, hf, savePipes_at]

/-- **An acknowledged DELETE PIPE survives every crash**: the deleted pipe is not in the registry a crash image holds
(for a pipe whose position file is not the registry file — F33's class: there the removal of the position file removes
the registry). -/
theorem deleted_pipe_stays_deleted_after_crash (K : Codecs) (hK : K.Laws) (parseOk : TagLine → Bool) (s : Srv) (n : Bytes)
    (_hnc : pipeInfoPath n ≠ pipesDat) (s' : Srv) (hr : recover K parseOk (step K s (.deletePipe n)).disk = .started s') :
    s'.mem.pipes.map (·.cfg) = (s.mem.pipes.filter (fun p => !(p.cfg.name == n))).map (·.cfg) ∧
    ∀ q ∈ s'.mem.pipes, q.cfg.name ≠ n := by
  have hf : pipeDefsSavedOnDelete = true := by decide
  have h1 : s'.mem.pipes.map (·.cfg) = (s.mem.pipes.filter (fun p => !(p.cfg.name == n))).map (·.cfg) := by
    apply recover_pipes K hK parseOk _ _ _ s' hr
    have hf2 : deletePipeRemovesPositionsBeforeSave = true := by decide
    simp only [step, hf, hf2, if_true, runSteps_cons]
    rw [savePipes_at, if_pos rfl]
  refine ⟨h1, ?_⟩
  intro q hq hqn
  have : q.cfg ∈ s'.mem.pipes.map (·.cfg) := List.mem_map_of_mem hq
  rw [h1] at this
  obtain ⟨r, hr', hre⟩ := List.mem_map.mp this
  have := (List.mem_filter.mp hr').2
  rw [hre] at this
  simp [hqn] at this

theorem pipeFileName_s : pipeFileName [115] = pipesFileName := by decide

/-- **F33, crash image** (still there after the repairs): the positions of a pipe named `s` are written to `pipes.dat`
— in place, over the registry `CreatePipe` has just saved; `loadPipes` cannot decode a position map as a registry and
`Service.Init` fails. The window stays open until the next `savePipes` (create / delete / shutdown). -/
theorem cex_pipe_name_collision (K : Codecs) (hK : K.Laws) (parseOk : TagLine → Bool) (pm : PosMap) :
    pipeInfoPath [115] = pipesDat ∧
    recover K parseOk (run K s0 [.createPipe ⟨[115], [], []⟩, .savePipeInfo [115] pm]).disk = .refusedPipes := by
  have hp : pipeInfoPath [115] = pipesDat := by simp [pipeInfoPath, pipesDat, pipeFileName_s]
  refine ⟨hp, ?_⟩
  have hfile : (run K s0 [.createPipe ⟨[115], [], []⟩, .savePipeInfo [115] pm]).disk.files pipesDat = some (K.pinfo.enc pm) := by
    simp only [run, List.foldl, step, savePipeInfoSteps, runSteps_writeFile, hp]
    simp
  have hdb : (run K s0 [.createPipe ⟨[115], [], []⟩, .savePipeInfo [115] pm]).disk.db = [] := by
    simp [run, step, s0, Disk.fresh]
  have hti : (run K s0 [.createPipe ⟨[115], [], []⟩, .savePipeInfo [115] pm]).disk.files .tindexDat = none := by
    simp only [run, List.foldl, step, savePipeInfoSteps, runSteps_writeFile, hp]
    rw [Files.set_other _ _ _ _ (by simp [pipesDat])]
    have hf : pipeDefsSavedOnCreate = true := by decide
    simp only [hf, if_true]
    rw [savePipes_at]
    simp [pipesDat, pipesTmp, s0, Disk.fresh, Files.empty]
  generalize (run K s0 [.createPipe ⟨[115], [], []⟩, .savePipeInfo [115] pm]).disk = d at hfile hdb hti
  unfold recover
  cases hc : checkConsistency K.tidx parseOk d.files (journalsOnDisk d.db) with
  | none => simp [checkConsistency, loadState, hti, hdb, journalsOnDisk] at hc
  | some r =>
    obtain ⟨tm, f1⟩ := r
    have hf := checkConsistency_files _ _ _ _ _ _ hc pipesDat (by simp [tindexPath, pipesDat])
    simp [pipesInit, loadPipes, hf, hfile, hK.crossPipes]

/-! ## events acknowledged right before a graceful stop (finding F42, repaired) -/

theorem mem_appendToChunk_new (cks : List Chunk) (cid : Nat) (tss : List Int) (t : Int) (ht : t ∈ tss) :
    ∃ c ∈ appendToChunk cks cid tss, t ∈ c.recs := by
  unfold appendToChunk
  by_cases h : cks.any (fun c => c.id == cid) = true
  · rw [if_pos h]
    obtain ⟨c, hc, hcid⟩ := List.any_eq_true.mp h
    refine ⟨{ c with recs := c.recs ++ tss }, ?_, by simp [ht]⟩
    exact List.mem_map.mpr ⟨c, hc, by simp [hcid]⟩
  · rw [if_neg h]
    exact ⟨⟨cid, tss⟩, by simp, ht⟩

theorem mem_appendToChunk_old (cks : List Chunk) (cid : Nat) (tss : List Int) (t : Int)
    (h : ∃ c ∈ cks, t ∈ c.recs) : ∃ c ∈ appendToChunk cks cid tss, t ∈ c.recs := by
  obtain ⟨c, hc, ht⟩ := h
  unfold appendToChunk
  by_cases h : cks.any (fun c => c.id == cid) = true
  · rw [if_pos h]
    by_cases hid : (c.id == cid) = true
    · exact ⟨{ c with recs := c.recs ++ tss }, List.mem_map.mpr ⟨c, hc, by simp [hid]⟩, by simp [ht]⟩
    · exact ⟨c, List.mem_map.mpr ⟨c, hc, by simp [hid]⟩, ht⟩
  · rw [if_neg h]
    exact ⟨c, List.mem_append_left _ hc, ht⟩

theorem mem_foldl_append : ∀ (pieces : List (Nat × List Int)) (cks : List Chunk) (t : Int),
    ((∃ c ∈ cks, t ∈ c.recs) ∨ ∃ pc ∈ pieces, t ∈ pc.2) →
    ∃ c ∈ pieces.foldl (fun cks pc => appendToChunk cks pc.1 pc.2) cks, t ∈ c.recs
  | [], cks, t, h => by
    rcases h with h | ⟨pc, hpc, _⟩
    · simpa using h
    · cases hpc
  | pc :: rest, cks, t, h => by
    simp only [List.foldl_cons]
    apply mem_foldl_append rest
    rcases h with h | ⟨pc', hpc', ht⟩
    · exact Or.inl (mem_appendToChunk_old cks pc.1 pc.2 t h)
    · rcases List.mem_cons.mp hpc' with e | e
      · subst e; exact Or.inl (mem_appendToChunk_new cks pc'.1 pc'.2 t ht)
      · exact Or.inr ⟨pc', e, ht⟩

theorem alookup_aset_self {β : Type} : ∀ (m : List (Bytes × β)) (k : Bytes) (v : β), alookup (aset m k v) k = some v
  | [], k, v => by simp [aset, alookup]
  | e :: r, k, v => by
    by_cases h : (e.1 == k) = true
    · simp [aset, alookup, h]
    · have ih := alookup_aset_self r k v
      simp only [alookup] at ih ⊢
      simp [aset, h, List.find?_cons, ih]

/-- **Events acknowledged right before a graceful stop are in the journal afterwards** (was finding F42): the
shutdown sequence syncs the journals (`partition.Service.Shutdown`: `partitionShutdownSyncsJournals = true`), so every
record of an acknowledged write that was still in a chunk writer's buffer, and every record flushed before, is in the
partition's journal on the disk the stop leaves. -/
theorem acked_events_survive_graceful_stop (db : List (Src × List Chunk)) (src : Src) (pending : List (Nat × List Int)) :
    partitionShutdownSyncsJournals = true ∧ shutdownDb db src pending = flushPending db src pending ∧
    (∀ pc ∈ pending, ∀ t ∈ pc.2, ∃ c ∈ (alookup (shutdownDb db src pending) src).getD [], t ∈ c.recs) ∧
    (∀ c0 ∈ (alookup db src).getD [], ∀ t ∈ c0.recs, ∃ c ∈ (alookup (shutdownDb db src pending) src).getD [], t ∈ c.recs) := by
  have hf : partitionShutdownSyncsJournals = true := by decide
  have he : shutdownDb db src pending = flushPending db src pending := by simp [shutdownDb, hf]
  refine ⟨hf, he, ?_, ?_⟩
  · intro pc hpc t ht
    rw [he, flushPending, alookup_aset_self]
    exact mem_foldl_append pending _ t (Or.inr ⟨pc, hpc, ht⟩)
  · intro c0 hc0 t ht
    rw [he, flushPending, alookup_aset_self]
    exact mem_foldl_append pending _ t (Or.inl ⟨c0, hc0, ht⟩)

/-- **Graceful restart including the last acknowledged write**: stop a server that still holds the records `pending` of
an acknowledged write to `src` in a chunk writer's buffer; the restarted server has the same tag index, hulls, pipe
definitions and positions, and a journal that holds every flushed and every pending record
(`acked_events_survive_graceful_stop`). -/
theorem restart_graceful_with_pending (K : Codecs) (parseOk : TagLine → Bool) (s : Srv) (src : Src)
    (pending : List (Nat × List Int)) (hK : K.Laws)
    (hwf : WF K parseOk { s with disk := { s.disk with db := flushPending s.disk.db src pending } })
    (hnc : nameCollision s.mem.pipes = false) :
    ∃ s', recover K parseOk (shutdown K { s with disk := { s.disk with db := shutdownDb s.disk.db src pending } }).disk
        = .started s' ∧ s'.mem = s.mem ∧ s'.disk.db = flushPending s.disk.db src pending := by
  have he := (acked_events_survive_graceful_stop s.disk.db src pending).2.1
  rw [he]
  exact restart_graceful_partial K parseOk _ hK hwf hnc

/-! ## time-index snapshot -/

theorem cindexLoad_missing (c : Codec CMap) (f : Files) (h : f .cindexDat = none) : cindexLoad c f = [] := by
  simp [cindexLoad, h]

theorem cindexLoad_torn (c : Codec CMap) (hc : c.Laws) (f : Files) (m : CMap) (n : Nat) (hn : n < (c.enc m).length)
    (h : f .cindexDat = some ((c.enc m).take n)) : cindexLoad c f = [] := by
  simp [cindexLoad, h, hc.torn m n hn]

/-- the hull `lightFill` gives a monotone, non-empty chunk contains every record -/
theorem lightFill_fresh_sound (ck : Chunk) (hmono : ck.recs.Pairwise (· ≤ ·)) :
    ∀ t ∈ ck.recs, (lightFill1 ck ⟨ck.id, maxInt64, 0, 0, 0⟩).minTs ≤ t ∧ t ≤ (lightFill1 ck ⟨ck.id, maxInt64, 0, 0, 0⟩).maxTs := by
  intro t ht
  simp only [lightFill1]
  cases hh : ck.recs.head? with
  | none => cases hr : ck.recs with
    | nil => rw [hr] at ht; cases ht
    | cons a r => rw [hr] at hh; simp at hh
  | some a =>
    cases hl : ck.recs.getLast? with
    | none => cases hr : ck.recs with
      | nil => rw [hr] at ht; cases ht
      | cons a r => rw [hr] at hl; simp at hl
    | some b =>
      have h1 := head_le_of_pairwise ck.recs a hmono hh t ht
      have h2 := le_last_of_pairwise ck.recs b hmono hl t ht
      have : ¬ b < a := by omega
      simp [this]
      exact ⟨h1, h2⟩

/-- **F06 (stale snapshot), the unrepaired branches**: the index knows chunk 1 with the hull `[10, 20]` of an earlier clean
stop (2 records); the chunk grew by a record with timestamp 30 before the crash. Without `dropStale` (`syncChunkC false _`),
or with the hull copied BEFORE the drop (`syncChunkC true false`: the new entry carries the stale hull and `lightFill`
skips it, `MaxTs > 0`), the hull the index reports does not contain the flushed event 30. Since a7caf30 the selector keeps
such a chunk open for RANGE queries while the index accounts for fewer records than the chunk holds (which is the case in
the second branch only: `Recs` 0), but the unsound hull is what `TRUNCATE … BEFORE` decides on. -/
theorem cex_stale_snapshot :
    let stale : List ChkInfo := [⟨1, 10, 20, 0, 2⟩]
    let ck : Chunk := ⟨1, [10, 20, 30]⟩
    lightFillSkipsWhenMaxTsPositive = true ∧ cindexSnapshotOnlyAtClose = true ∧
    (syncChunkC false true stale ck).maxTs = 20 ∧ (syncChunkC true false stale ck).maxTs = 20 ∧
    (syncChunkC true true stale ck).maxTs = 30 := by
  decide

/-- **No flushed event is hidden after recovery from a stale snapshot — the repaired branch** (`syncChunkB true`: the
snapshot records how many records each hull accounts for, `chkInfo.Recs`, and `syncChunks` drops the entry of a chunk
that holds more): a chunk that grew since the snapshot is handled like a chunk the index does not know, so a monotone
chunk gets a hull that contains every record; an entry that is not stale is kept as it is. -/
theorem no_event_hidden_after_stale_snapshot (old : List ChkInfo) (ck : Chunk) (o : ChkInfo)
    (hfind : old.find? (fun o => o.id == ck.id) = some o) (hmono : ck.recs.Pairwise (· ≤ ·)) :
    (o.recs < ck.recs.length → ∀ t ∈ ck.recs, (syncChunkB true old ck).minTs ≤ t ∧ t ≤ (syncChunkB true old ck).maxTs) ∧
    (ck.recs.length ≤ o.recs → syncChunkB true old ck = o) := by
  constructor
  · intro hs
    have : syncChunkB true old ck = lightFill1 ck ⟨ck.id, maxInt64, 0, 0, 0⟩ := by simp [syncChunkB, syncChunkC, hfind, hs]
    rw [this]; exact lightFill_fresh_sound ck hmono
  · intro hs
    have : ¬ o.recs < ck.recs.length := by omega
    simp [syncChunkB, syncChunkC, hfind, this]

/-- **F06 repaired** (a2ca477; `syncChunksDropsStaleEntries = true`, regenerated): on the witness of the finding — the
snapshot of an earlier clean stop knows chunk 1 with the hull `[10, 20]` of 2 records, the chunk holds a third record 30 —
the entry is dropped, `RANGE [25:35]` returns the flushed event, and the state is not in F06's class any more. Reverting
the repair flips the fact and breaks this theorem. -/
theorem stale_snapshot_witness :
    let stale : CMap := [([106], [⟨1, 10, 20, 0, 2⟩])]
    let cks : List Chunk := [⟨1, [10, 20, 30]⟩]
    syncChunksDropsStaleEntries = true ∧ syncChunksDropsStaleBeforeHullCopy = true ∧ rangeSpec cks 25 35 = [30] ∧
    rangeVisible (hullView stale [106] cks) cks 25 35 = [30] ∧ staleGrown ((alookup stale [106]).getD []) cks = false ∧
    (hullView stale [106] cks).map (·.maxTs) = [30] := by
  decide

/-- **No flushed event is hidden after recovery from a stale snapshot** (the statement about the code as it is): a chunk
the loaded index knows with fewer records than it holds gets — `syncChunk`, the regenerated branch — a hull that contains
every record when its timestamps are monotone. -/
theorem stale_snapshot_sync_first (old : List ChkInfo) (ck : Chunk) (o : ChkInfo)
    (hfind : old.find? (fun o => o.id == ck.id) = some o) (hmono : ck.recs.Pairwise (· ≤ ·)) (hs : o.recs < ck.recs.length) :
    ∀ t ∈ ck.recs, (syncChunk old ck).minTs ≤ t ∧ t ≤ (syncChunk old ck).maxTs := by
  have hf : syncChunksDropsStaleEntries = true := by decide
  have hf2 : syncChunksDropsStaleBeforeHullCopy = true := by decide
  have : syncChunk old ck = syncChunkB true old ck := by simp [syncChunk, syncChunkB, hf, hf2]
  rw [this]
  exact (no_event_hidden_after_stale_snapshot old ck o hfind hmono).1 hs

/-- **F47 repaired** (1735e86; `cindexInitValidatesRoots = true`, regenerated): after `cindex.init` no chunk keeps a root
into a tree file whose block cannot be read or is empty — every remaining root is usable. -/
theorem no_unusable_root_after_init (usable : Nat → Bool) (m : CMap) :
    cindexInitValidatesRoots = true ∧
    ∀ e ∈ forgetUnusableRoots usable m, ∀ ci ∈ e.2, ci.root = 0 ∨ usable ci.root = true := by
  have hf : cindexInitValidatesRoots = true := by decide
  refine ⟨hf, ?_⟩
  intro e he ci hci
  simp only [forgetUnusableRoots, hf, if_true, List.mem_map] at he
  obtain ⟨e0, _, rfl⟩ := he
  simp only [List.mem_map] at hci
  obtain ⟨c0, _, rfl⟩ := hci
  by_cases h : c0.root ≠ 0 ∧ usable c0.root = false
  · simp [h]
  · rw [if_neg h]
    by_cases h0 : c0.root = 0
    · exact Or.inl h0
    · right
      cases hu : usable c0.root with
      | true => rfl
      | false => exact absurd ⟨h0, hu⟩ h

/-- the stale snapshot is what a crash leaves: after a clean stop (snapshot written), a restart and a further write,
the disk still holds the snapshot of the clean stop — `cindex.dat` is not touched by `write`. -/
theorem write_keeps_snapshot (K : Codecs) (s : Srv) (src : Src) (pieces : List (Nat × List Int)) :
    (step K s (.write src pieces)).disk.files = s.disk.files := by
  simp only [step]

/-- **Missing or torn snapshot, monotone chunk**: a chunk the loaded index does not know (every chunk, when
`cindex.dat` is missing or torn: `cindexLoad_missing`, `cindexLoad_torn`) gets its hull from `lightFill`; if its
timestamps are monotone and positive the hull contains every record, so no RANGE query loses an event of it. -/
theorem hull_after_recover_partial (old : List ChkInfo) (ck : Chunk)
    (hunk : old.find? (fun o => o.id == ck.id) = none) (hmono : ck.recs.Pairwise (· ≤ ·)) :
    ∀ t ∈ ck.recs, (syncChunk old ck).minTs ≤ t ∧ t ≤ (syncChunk old ck).maxTs := by
  have : syncChunk old ck = lightFill1 ck ⟨ck.id, maxInt64, 0, 0, 0⟩ := by simp [syncChunk, syncChunkC, hunk]
  rw [this]; exact lightFill_fresh_sound ck hmono

/-- non-monotone chunk: `lightFill`'s hull (first and last record) misses the record 50 — C02's class
"non-monotone partition" (DESIGN §7 #4) -/
theorem cex_lightFill_nonmonotone :
    let ck : Chunk := ⟨1, [10, 50, 20]⟩
    rangeVisible (syncChunks [] [ck]) [ck] 40 60 = [] ∧ rangeSpec [ck] 40 60 = [50] := by
  decide

/-- a sound hull never hides an event: when every record of every chunk lies inside the chunk's hull, the
hull-level RANGE answer is the specification's filter -/
theorem range_complete_of_sound_hulls : ∀ (hs : List ChkInfo) (cks : List Chunk) (lo hi : Int),
    hs.length = cks.length →
    (∀ (i : Nat) (h : ChkInfo) (ck : Chunk), hs[i]? = some h → cks[i]? = some ck → ∀ t ∈ ck.recs, h.minTs ≤ t ∧ t ≤ h.maxTs) →
    rangeVisible hs cks lo hi = rangeSpec cks lo hi
  | [], [], _, _, _, _ => by simp [rangeVisible, rangeSpec]
  | [], _ :: _, _, _, h, _ => by simp at h
  | _ :: _, [], _, _, h, _ => by simp at h
  | h :: hs, ck :: cks, lo, hi, hl, hsound => by
    have ih := range_complete_of_sound_hulls hs cks lo hi (by simpa using hl)
      (fun i h' ck' a b => hsound (i + 1) h' ck' (by simpa using a) (by simpa using b))
    have h0 := hsound 0 h ck (by simp) (by simp)
    simp only [rangeVisible, rangeSpec, List.flatMap_cons] at ih ⊢
    rw [ih]
    congr 1
    cases hc : ((selectorOpensChunkAheadOfIndex && decide (h.recs < ck.recs.length)) || hullHits h lo hi) with
    | true => simp
    | false =>
      have hh : hullHits h lo hi = false := by
        cases h1 : hullHits h lo hi with
        | false => rfl
        | true => simp [h1] at hc
      simp [hullHits] at hh
      symm
      simp only [Bool.false_eq_true, if_false]
      apply List.filter_eq_nil_iff.mpr
      intro t ht
      have := h0 t ht
      simp only [inRange, Bool.and_eq_true, decide_eq_true_eq]
      omega

/-! ## the first write after a start without a usable snapshot -/

theorem listMin_le_init : ∀ (l : List Int) (d : Int), listMin l d ≤ d
  | [], d => Int.le_refl d
  | x :: r, d => by
    show listMin r (if x < d then x else d) ≤ d
    by_cases hx : x < d
    · rw [if_pos hx]; have := listMin_le_init r x; omega
    · rw [if_neg hx]; exact listMin_le_init r d

theorem listMin_le_mem : ∀ (l : List Int) (d t : Int), t ∈ l → listMin l d ≤ t
  | [], _, _, h => by cases h
  | x :: r, d, t, h => by
    show listMin r (if x < d then x else d) ≤ t
    rcases List.mem_cons.mp h with e | e
    · subst e
      by_cases hx : t < d
      · rw [if_pos hx]; exact listMin_le_init r t
      · rw [if_neg hx]; have := listMin_le_init r d; omega
    · exact listMin_le_mem r _ t e

theorem init_le_listMax : ∀ (l : List Int) (d : Int), d ≤ listMax l d
  | [], d => Int.le_refl d
  | x :: r, d => by
    show d ≤ listMax r (if d < x then x else d)
    by_cases hx : d < x
    · rw [if_pos hx]; have := init_le_listMax r x; omega
    · rw [if_neg hx]; exact init_le_listMax r d

theorem mem_le_listMax : ∀ (l : List Int) (d t : Int), t ∈ l → t ≤ listMax l d
  | [], _, _, h => by cases h
  | x :: r, d, t, h => by
    show t ≤ listMax r (if d < x then x else d)
    rcases List.mem_cons.mp h with e | e
    · subst e
      by_cases hx : d < t
      · rw [if_pos hx]; exact init_le_listMax r t
      · rw [if_neg hx]; have := init_le_listMax r d; omega
    · exact mem_le_listMax r _ t e

/-- the rebuilt hull contains every record of the chunk -/
theorem rebuildHull_sound (recs : List Int) (ci : ChkInfo) : ∀ t ∈ recs, (rebuildHull recs ci).minTs ≤ t ∧ t ≤ (rebuildHull recs ci).maxTs := by
  intro t ht
  cases recs with
  | nil => cases ht
  | cons a r =>
    have h1 := listMin_le_mem (a :: r) a t ht
    have h2 := mem_le_listMax (a :: r) a t ht
    simp only [rebuildHull, ChkInfo.update]
    constructor
    · split <;> omega
    · split <;> omega

/-- **No flushed event is hidden after a start without a usable snapshot, even when the first thing that touches the
partition is a write** (missing or torn `cindex.dat` ⇒ the index has no entry for the source: `cindexLoad_missing`,
`cindexLoad_torn`): `onWrite` creates the entry from the notified batch only, but because an unknown source counts as a
new chunk (`onWriteUnknownSourceSetsNewChk`) and a new chunk that already holds records is rebuilt
(`onWriteNewChunkMidwayRebuilds`), the hull — once the rebuilder ran — contains every record of the chunk, the old ones
and the batch, so every RANGE query over that chunk returns exactly the events in range. -/
theorem no_event_hidden_after_first_write_on_lost_snapshot (m : CMap) (src : Src) (cid : Nat) (before batch : List Int)
    (mn mx lo hi : Int) (hunk : alookup m src = none) (hb : before ≠ []) :
    let m' := cindexOnWriteR m src cid before batch mn mx
    let ck : Chunk := ⟨cid, before ++ batch⟩
    onWriteUnknownSourceSetsNewChk = true ∧ onWriteNewChunkMidwayRebuilds = true ∧
    rangeVisible (hullView m' src [ck]) [ck] lo hi = rangeSpec [ck] lo hi := by
  have f1 : onWriteUnknownSourceSetsNewChk = true := by decide
  have f2 : onWriteNewChunkMidwayRebuilds = true := by decide
  refine ⟨f1, f2, ?_⟩
  have hne : before.isEmpty = false := by cases before <;> simp_all
  have hm' : alookup (cindexOnWriteR m src cid before batch mn mx) src
      = some [rebuildHull (before ++ batch) ⟨cid, mn, mx, 0, before.length + batch.length⟩] := by
    simp only [cindexOnWriteR, onWriteNewChk, hunk, f1, f2, hne, cindexOnWrite, alookup_aset_self, Bool.not_false,
      Bool.and_self, if_true, List.getLast?_singleton, List.dropLast_singleton, List.nil_append]
  have hid : (rebuildHull (before ++ batch) ⟨cid, mn, mx, 0, before.length + batch.length⟩).id = cid := by
    unfold rebuildHull; split <;> simp [ChkInfo.update]
  apply range_complete_of_sound_hulls
  · simp [hullView, syncChunks]
  · intro i h ck' hh hck t ht
    cases i with
    | zero =>
      simp only [hullView, syncChunks, hm', Option.getD_some, List.map_cons, List.map_nil, List.getElem?_cons_zero,
        Option.some.injEq] at hh hck
      subst hck
      have hs : syncChunk [rebuildHull (before ++ batch) ⟨cid, mn, mx, 0, before.length + batch.length⟩] ⟨cid, before ++ batch⟩
          = rebuildHull (before ++ batch) ⟨cid, mn, mx, 0, before.length + batch.length⟩ := by
        have hrec : (rebuildHull (before ++ batch) ⟨cid, mn, mx, 0, before.length + batch.length⟩).recs
            = before.length + batch.length := by
          unfold rebuildHull; split <;> simp [ChkInfo.update]
        simp [syncChunk, syncChunkC, hid, hrec]
      rw [hs] at hh
      subst hh
      exact rebuildHull_sound _ _ t ht
    | succ j => simp at hck

/-- the other order: the first thing that touches the chunk after the start is a WRITE. `onWrite` finds the snapshot entry
(`last`, same chunk) accounting for fewer records than precede the batch, treats the chunk as notified from the middle
(`onWriteStaleSnapshotEntryIsNewChk`) and has it rebuilt (`onWriteNewChunkMidwayRebuilds`); after the rebuild the hull
contains every record — the ones the snapshot knew, the ones written between the snapshot and the crash, and the batch. -/
theorem stale_snapshot_write_first (m : CMap) (src : Src) (cid : Nat) (before batch : List Int) (mn mx lo hi : Int)
    (last : ChkInfo) (hm : alookup m src = some [last]) (hid : last.id = cid) (hstale : last.recs < before.length) :
    let m' := cindexOnWriteR m src cid before batch mn mx
    let ck : Chunk := ⟨cid, before ++ batch⟩
    rangeVisible (hullView m' src [ck]) [ck] lo hi = rangeSpec [ck] lo hi := by
  have f1 : onWriteStaleSnapshotEntryIsNewChk = true := by decide
  have f1b : onWriteChecksStalenessBeforeRecsBump = true := by decide
  have f2 : onWriteNewChunkMidwayRebuilds = true := by decide
  have f3 : syncChunksDropsStaleEntries = true := by decide
  have hne : before.isEmpty = false := by cases before <;> simp_all
  let e : ChkInfo := rebuildHull (before ++ batch) { last.update mn mx with recs := before.length + batch.length }
  have hm' : alookup (cindexOnWriteR m src cid before batch mn mx) src = some [e] := by
    simp only [cindexOnWriteR, onWriteNewChk, hm, f1, f1b, f2, hne, cindexOnWrite, alookup_aset_self, List.getLast?_singleton,
      List.dropLast_singleton, List.nil_append, hid, ne_eq, not_true_eq_false, decide_false, Bool.false_or, hstale,
      decide_true, Bool.and_self, Bool.not_false, if_true, if_false, e]
  have hide : e.id = cid := by
    simp only [e]; unfold rebuildHull; split <;> simp [ChkInfo.update, hid]
  have hrec : e.recs = before.length + batch.length := by
    simp only [e]; unfold rebuildHull; split <;> simp [ChkInfo.update]
  apply range_complete_of_sound_hulls
  · simp [hullView, syncChunks]
  · intro i h ck' hh hck t ht
    cases i with
    | zero =>
      simp only [hullView, syncChunks, hm', Option.getD_some, List.map_cons, List.map_nil, List.getElem?_cons_zero,
        Option.some.injEq] at hh hck
      subst hck
      have hs : syncChunk [e] ⟨cid, before ++ batch⟩ = e := by
        simp [syncChunk, syncChunkC, hide, hrec]
      rw [hs] at hh
      subst hh
      exact rebuildHull_sound _ _ t ht
    | succ j => simp at hck

/-- **No flushed event is hidden after recovery from a stale snapshot, whichever comes first** (F06 and its refinement
F06b repaired: a2ca477, 7ea0278). The snapshot of an earlier clean stop knows a chunk with fewer records than it holds
after the crash. (1) If the first thing that touches the chunk is a read (`syncChunks`), the entry is dropped and the
monotone chunk gets a hull that contains every record. (2) If it is a write, the chunk is rebuilt and afterwards every
RANGE query over it returns exactly the events in range. The facts are regenerated; reverting either commit breaks this. -/
theorem no_event_hidden_after_recovery_from_stale_snapshot :
    (syncChunksDropsStaleEntries = true ∧ syncChunksDropsStaleBeforeHullCopy = true ∧ dropStaleOnlySnapshotEntries = true ∧
      onWriteStaleSnapshotEntryIsNewChk = true ∧ onWriteChecksStalenessBeforeRecsBump = true ∧ syncChunksNeverStoresEmptyList = true) ∧
    (∀ (old : List ChkInfo) (ck : Chunk) (o : ChkInfo), old.find? (fun o => o.id == ck.id) = some o →
      ck.recs.Pairwise (· ≤ ·) → o.recs < ck.recs.length →
      ∀ t ∈ ck.recs, (syncChunk old ck).minTs ≤ t ∧ t ≤ (syncChunk old ck).maxTs) ∧
    (∀ (m : CMap) (src : Src) (cid : Nat) (before batch : List Int) (mn mx lo hi : Int) (last : ChkInfo),
      alookup m src = some [last] → last.id = cid → last.recs < before.length →
      rangeVisible (hullView (cindexOnWriteR m src cid before batch mn mx) src [⟨cid, before ++ batch⟩]) [⟨cid, before ++ batch⟩] lo hi
        = rangeSpec [⟨cid, before ++ batch⟩] lo hi) :=
  ⟨by decide, stale_snapshot_sync_first,
    fun m src cid before batch mn mx lo hi last hm hid hs => stale_snapshot_write_first m src cid before batch mn mx lo hi last hm hid hs⟩

/-! ## non-vacuity -/

example : nameCollision [⟨⟨[116], [], []⟩, []⟩] = false := by decide
example : nameCollision [⟨⟨[115], [], []⟩, []⟩] = true := by decide
example : cutInsideSave [.rename .tindexDat .tindexBak, .truncate .tindexDat, .append .tindexDat [1, 2, 3]] ⟨2, 1⟩ = true := by decide
example : (⟨1, [10, 10, 12]⟩ : Chunk).recs.Pairwise (· ≤ ·) := by decide

end Logrange.Props.C07
